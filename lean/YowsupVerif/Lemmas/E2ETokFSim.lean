/-
  Exactly-once with server faults, part 4: the flattened state moves like a fault-free run - the steps that do not involve
  a fault.
-/
import YowsupVerif.Lemmas.E2ETokFFlat
namespace Yow.E2E

section
variable {ex : Bool} {accts : List Acct} {groups : List (Nat × List Acct)}

/-- the flattened new state satisfies what the step of the flattened state satisfies -/
theorem sim_flat {L : List (Acct × Node)} {s s' : Sys} {o2 : List (Acct × List Stanza)} {f2 : List (Nat × Acct)}
    (hT2 : TV ex accts groups L (view (s'.wo o2 f2))) (hin : ∀ z st, st ∈ queueOf o2 z → z ∈ accts) (hg : Grow s s')
    (hq : ∀ z, queueOf o2 z = liveQ (getClient s z) (queueOf s'.outbound z)) : TV ex accts groups L (view (flat s')) := by
  rw [view_flat_eq (o2 := o2) (f2 := f2)]
  · exact hT2
  · intro z
    rw [hq z]
    refine (liveQ_eq (hg z) ?_).symm
    intro st hst
    rw [← hq z] at hst
    exact live_of_unop hT2 (hin z st hst) (show st ∈ (view (s'.wo o2 f2)).outb z from hst)

theorem flat_queue_acc {s : Sys} (hA : AInv accts groups (abs s)) {z : Acct} {st : Stanza}
    (h : st ∈ liveQ (getClient s z) (queueOf s.outbound z)) : z ∈ accts :=
  (hA.outb_ok z st (mem_liveQ h).1).1

/-- a client-side function leaves the queues for the clients alone -/
theorem outbound_eq_of_frame {f : Sys → Sys} (hf : ∀ s o fl, f (s.wo o fl) = (f s).wo o fl) (s : Sys) :
    (f s).outbound = s.outbound ∧ (f s).faulted = s.faulted := by
  have := hf s s.outbound s.faulted
  rw [wo_self] at this
  constructor
  · have h2 := congrArg Sys.outbound this; exact h2
  · have h2 := congrArg Sys.faulted this; exact h2

theorem sim_appSend (hw : WFConfig accts groups) {s : Sys} {a : Acct} {n : Node}
    (hA : AInv accts groups (abs s)) (hT : TV ex accts groups s.submitted (view (flat s)))
    (hall : Allowed s (.appSend a n) = true) (hlen : s.submitted.length < 100) :
    TV ex accts groups (step s (.appSend a n)).submitted (view (flat (step s (.appSend a n)))) := by
  have hI : TInv ex accts groups (flat s) := ⟨AInv_flat hA, hT⟩
  have hall' : Allowed (flat s) (.appSend a n) = true := hall
  have h2 := (appSend_TInv hw hI hall' hlen).2
  have hfr : step (flat s) (.appSend a n) = (step s (.appSend a n)).wo (flat s).outbound s.faulted := by
    show sendLayerSend (({ s with submitted := s.submitted ++ [(a, n)] } : Sys).wo (flat s).outbound s.faulted) a n = _
    rw [sendLayerSend_wo]; rfl
  have hout := outbound_eq_of_frame (f := fun s => sendLayerSend s a n) (fun s o fl => sendLayerSend_wo s o fl a n)
    { s with submitted := s.submitted ++ [(a, n)] }
  rw [hfr] at h2
  refine sim_flat (s := s) h2 ?_ ?_ ?_
  · intro z st hst
    rw [queueOf_flat] at hst
    exact flat_queue_acc hA hst
  · exact Grow.sendLayerSend { s with submitted := s.submitted ++ [(a, n)] } a n
  · intro z
    rw [queueOf_flat]
    show _ = liveQ _ (queueOf (sendLayerSend { s with submitted := s.submitted ++ [(a, n)] } a n).outbound z)
    rw [hout.1]

theorem quiescent_flat {s : Sys} (h : quiescent s = true) : quiescent (flat s) = true := by
  unfold quiescent at *
  rw [Bool.and_eq_true] at h ⊢
  obtain ⟨h1, h2⟩ := h
  refine ⟨h1, ?_⟩
  rw [List.all_eq_true] at h2 ⊢
  intro q hq
  obtain ⟨q0, hq0, rfl⟩ := List.mem_map.mp hq
  have := h2 q0 hq0
  simp only [List.isEmpty_iff] at this ⊢
  simp [liveQ, this]

theorem sim_restart (hw : WFConfig accts groups) {s : Sys} {a : Acct}
    (hA : AInv accts groups (abs s)) (hT : TV ex accts groups s.submitted (view (flat s)))
    (hall : Allowed s (.restart a) = true) :
    TV ex accts groups (step s (.restart a)).submitted (view (flat (step s (.restart a)))) := by
  have hI : TInv ex accts groups (flat s) := ⟨AInv_flat hA, hT⟩
  have hall' : Allowed (flat s) (.restart a) = true := by
    simp only [Allowed, Bool.and_eq_true] at hall ⊢
    exact ⟨⟨hall.1.1, quiescent_flat hall.1.2⟩, hall.2⟩
  have h2 := (restart_TInv hw hI hall').2
  have hfr : step (flat s) (.restart a) = (step s (.restart a)).wo (flat s).outbound s.faulted := rfl
  rw [hfr] at h2
  refine sim_flat (s := s) h2 ?_ ?_ ?_
  · intro z st hst
    rw [queueOf_flat] at hst
    exact flat_queue_acc hA hst
  · exact Grow.setClient (CGrow.of_eq rfl rfl rfl)
  · intro z
    rw [queueOf_flat]
    rfl

end

end Yow.E2E

namespace Yow.E2E

theorem push_wo (X : Sys) (o : List (Acct × List Stanza)) (fl : List (Nat × Acct)) (y : Acct) (st : Stanza) :
    push (X.wo o fl) y st = X.wo (insert o y (queueOf o y ++ [st])) fl := rfl

/-- pushes as a change of the queue table -/
def OutAdds (X : Sys) (f : Sys → Sys) (add : Acct → List Stanza) : Prop :=
  ∀ o fl, ∃ o', f (X.wo o fl) = X.wo o' fl ∧ ∀ z, queueOf o' z = queueOf o z ++ add z

theorem OutAdds.id (X : Sys) : OutAdds X (fun s => s) (fun _ => []) :=
  fun o fl => ⟨o, rfl, fun z => by simp⟩

theorem OutAdds.push (X : Sys) (y : Acct) (st : Stanza) : OutAdds X (fun s => Yow.E2E.push s y st) (fun z => if z = y then [st] else []) := by
  intro o fl
  refine ⟨insert o y (queueOf o y ++ [st]), rfl, ?_⟩
  intro z
  rw [queueOf_insert]
  split
  · next e => subst e; simp
  · next h => simp [h]

theorem OutAdds.of_eq {X : Sys} {f g : Sys → Sys} {add : Acct → List Stanza} (h : OutAdds X f add)
    (e : ∀ o fl, g (X.wo o fl) = f (X.wo o fl)) : OutAdds X g add := by
  intro o fl
  obtain ⟨o', e', q⟩ := h o fl
  exact ⟨o', (e o fl).trans e', q⟩

theorem OutAdds.comp {X : Sys} {f g : Sys → Sys} {a1 a2 : Acct → List Stanza} (h1 : OutAdds X f a1) (h2 : OutAdds X g a2) :
    OutAdds X (fun s => g (f s)) (fun z => a1 z ++ a2 z) := by
  intro o fl
  obtain ⟨o1, e1, q1⟩ := h1 o fl
  obtain ⟨o2, e2, q2⟩ := h2 o1 fl
  refine ⟨o2, ?_, ?_⟩
  · show g (f (X.wo o fl)) = _
    rw [e1, e2]
  · intro z
    rw [q2, q1, List.append_assoc]

theorem OutAdds.foldl_push (X : Sys) (h : Acct → Stanza) (l : List Acct) :
    OutAdds X (fun s => l.foldl (fun acc m => Yow.E2E.push acc m (h m)) s) (fun z => (l.filter (· == z)).map h) := by
  induction l with
  | nil => exact OutAdds.id X
  | cons m l ih =>
    have := (OutAdds.push X m (h m)).comp ih
    intro o fl
    obtain ⟨o', e, q⟩ := this o fl
    refine ⟨o', e, ?_⟩
    intro z
    rw [q z]
    by_cases hz : z = m
    · subst hz; simp
    · have : ¬ m = z := fun e => hz e.symm
      simp [hz, this]

theorem serverProcess_adds (X : Sys) (a : Acct) (st : Stanza) : ∃ add, OutAdds X (fun s => serverProcess s a st) add := by
  cases st with
  | msg id dest part im encs pl =>
    cases dest with
    | user b =>
      by_cases hb : registered X b = true
      · exact ⟨_, ((OutAdds.push X a (.ack id 0)).comp
          (OutAdds.push X b (.msg id (.user a) none im (encs.filter (fun e => e.1.isNone)) pl))).of_eq (fun o fl => by
            simp only [serverProcess]
            rw [if_pos (show registered (Yow.E2E.push (X.wo o fl) a (.ack id 0)) b = true from hb)])⟩
      · exact ⟨_, (OutAdds.push X a (.ack id 0)).of_eq (fun o fl => by
            simp only [serverProcess]
            rw [if_neg (show ¬ registered (Yow.E2E.push (X.wo o fl) a (.ack id 0)) b = true from hb)])⟩
    | group g =>
      cases part with
      | some p =>
        by_cases hb : registered X p = true
        · exact ⟨_, ((OutAdds.push X a (.ack id 0)).comp
            (OutAdds.push X p (.msg id (.group g) (some a) im (encs.filter (fun e => e.1.isNone)) pl))).of_eq (fun o fl => by
              simp only [serverProcess]
              rw [if_pos (show registered (Yow.E2E.push (X.wo o fl) a (.ack id 0)) p = true from hb)])⟩
        · exact ⟨_, (OutAdds.push X a (.ack id 0)).of_eq (fun o fl => by
              simp only [serverProcess]
              rw [if_neg (show ¬ registered (Yow.E2E.push (X.wo o fl) a (.ack id 0)) p = true from hb)])⟩
      | none =>
        exact ⟨_, ((OutAdds.push X a (.ack id 0)).comp (OutAdds.foldl_push X
          (fun m => Stanza.msg id (.group g) (some a) im
            ((encs.filter (fun e => e.1 == some m)).map (fun e => (none, e.2)) ++ encs.filter (fun e => e.1.isNone)) pl)
          ((members X g).filter (· != a)))).of_eq (fun o fl => by simp only [serverProcess]; rfl)⟩
  | receipt id peer part t =>
    cases peer with
    | user b =>
      by_cases hb : registered X b = true
      · exact ⟨_, ((OutAdds.push X a (.ack id 1)).comp (OutAdds.push X b (.receipt id (.user a) none t))).of_eq (fun o fl => by
            simp only [serverProcess]
            rw [if_pos (show registered (Yow.E2E.push (X.wo o fl) a (.ack id 1)) b = true from hb)])⟩
      · exact ⟨_, (OutAdds.push X a (.ack id 1)).of_eq (fun o fl => by
            simp only [serverProcess]
            rw [if_neg (show ¬ registered (Yow.E2E.push (X.wo o fl) a (.ack id 1)) b = true from hb)])⟩
    | group g =>
      cases part with
      | some p =>
        by_cases hb : registered X p = true
        · exact ⟨_, ((OutAdds.push X a (.ack id 1)).comp (OutAdds.push X p (.receipt id (.group g) (some a) t))).of_eq (fun o fl => by
              simp only [serverProcess]
              rw [if_pos (show registered (Yow.E2E.push (X.wo o fl) a (.ack id 1)) p = true from hb)])⟩
        · exact ⟨_, (OutAdds.push X a (.ack id 1)).of_eq (fun o fl => by
              simp only [serverProcess]
              rw [if_neg (show ¬ registered (Yow.E2E.push (X.wo o fl) a (.ack id 1)) p = true from hb)])⟩
      | none => exact ⟨_, (OutAdds.push X a (.ack id 1)).of_eq (fun o fl => rfl)⟩
  | ack id cls => exact ⟨_, OutAdds.id X⟩
  | keys iq got => exact ⟨_, OutAdds.id X⟩
  | groupInfo iq g ms => exact ⟨_, OutAdds.id X⟩
  | getKeys iq jids => exact ⟨_, (OutAdds.push X a (.keys iq (jids.filter (registered X)))).of_eq (fun o fl => rfl)⟩
  | getGroup iq g => exact ⟨_, (OutAdds.push X a (.groupInfo iq g (members X g))).of_eq (fun o fl => rfl)⟩

section
variable {ex : Bool} {accts : List Acct} {groups : List (Nat × List Acct)}

theorem sim_process (hw : WFConfig accts groups) (hnd : ∀ g ∈ groups, g.2.Nodup) {s : Sys} {a : Acct}
    (hA : AInv accts groups (abs s)) (hT : TV ex accts groups s.submitted (view (flat s)))
    (hall : Allowed s (.process a) = true) :
    TV ex accts groups (step s (.process a)).submitted (view (flat (step s (.process a)))) ∧
    (∀ z, getClient (step s (.process a)) z = getClient s z) ∧
    ∀ z, ∃ add, queueOf (step s (.process a)).outbound z = queueOf s.outbound z ++ add ∧
      ∀ st' ∈ add, dead (getClient s z) st' = false := by
  have hI : TInv ex accts groups (flat s) := ⟨AInv_flat hA, hT⟩
  have hall' : Allowed (flat s) (.process a) = true := hall
  have h2 := (process_TInv hw hnd hI hall').2
  have hA' := step_inv hA hall
  cases hq : queueOf s.inbound a with
  | nil =>
    have e1 : step s (.process a) = s := by simp only [step, hq]
    rw [e1]; exact ⟨hT, fun _ => rfl, fun z => ⟨[], by simp, fun st' hst' => by cases hst'⟩⟩
  | cons st rest =>
    have e1 : step s (.process a) = serverProcess { s with inbound := insert s.inbound a rest } a st := by simp only [step, hq]
    have e2 : step (flat s) (.process a) = serverProcess { flat s with inbound := insert s.inbound a rest } a st := by
      have : queueOf (flat s).inbound a = st :: rest := hq
      simp only [step, this]
      rfl
    obtain ⟨add, hadd⟩ := serverProcess_adds { s with inbound := insert s.inbound a rest } a st
    obtain ⟨o1, f1, q1⟩ := hadd s.outbound s.faulted
    obtain ⟨o2, f2, q2⟩ := hadd (flat s).outbound s.faulted
    have f1' : step s (.process a) = ({ s with inbound := insert s.inbound a rest } : Sys).wo o1 s.faulted := e1.trans f1
    have f2' : step (flat s) (.process a) = ({ s with inbound := insert s.inbound a rest } : Sys).wo o2 s.faulted := e2.trans f2
    have hsub : (step (flat s) (.process a)).submitted = (step s (.process a)).submitted := by rw [f1', f2']; rfl
    rw [hsub] at h2
    have hwo : step (flat s) (.process a) = (step s (.process a)).wo o2 s.faulted := by rw [f1', f2']; rfl
    rw [hwo] at h2
    have hcl : ∀ z, getClient (step s (.process a)) z = getClient s z := by intro z; rw [f1']; rfl
    have hin : ∀ z st', st' ∈ queueOf o2 z → z ∈ accts := by
      intro z st' hst'
      have hA2 := (process_TInv hw hnd hI hall').1
      rw [hwo] at hA2
      exact (hA2.outb_ok z st' hst').1
    have hz1 : ∀ z, queueOf (step s (.process a)).outbound z = queueOf s.outbound z ++ add z := by
      intro z; rw [f1']; exact q1 z
    have hlive : ∀ z, ∀ st' ∈ add z, dead (getClient s z) st' = false := by
      intro z st' hst'
      have hmem : st' ∈ queueOf o2 z := by rw [q2 z]; exact List.mem_append_right _ hst'
      have := live_of_unop h2 (hin z st' hmem) (show st' ∈ (view ((step s (.process a)).wo o2 s.faulted)).outb z from hmem)
      have hc : (view ((step s (.process a)).wo o2 s.faulted)).cl z = getClient s z := hcl z
      rw [hc] at this
      exact this
    refine ⟨?_, hcl, fun z => ⟨add z, hz1 z, hlive z⟩⟩
    refine sim_flat (s := s) h2 hin (fun z => by rw [hcl]; exact CGrow.rfl' _) ?_
    intro z
    rw [hz1, q2 z, queueOf_flat]
    unfold liveQ
    rw [List.filter_append]
    congr 1
    symm
    rw [List.filter_eq_self]
    intro st' hst'
    simp [hlive z st' hst']

end

end Yow.E2E
