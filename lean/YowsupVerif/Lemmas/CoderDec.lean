/-
  The library's decoder (Model/Coder.lean: readString / readAttrs / nextTree / readNodes / decodeFrame)
  accepts every valid encoding (Model/WireSpec.lean: EncStr / EncAttrs / Enc / EncNodes / EncFrame)
  and returns exactly the encoded tree and the unread rest of the input.
-/
import YowsupVerif.Model.WireSpec
namespace Yow.Coder


theorem readListSize_of_EncList {k h : Nat} {bh : Bytes} (e : EncList k h bh) (rest : Bytes) :
    readListSize h (bh ++ rest) = .ok (k, rest) := by
  cases e with
  | zero => simp [readListSize]
  | short k hk => simp [readListSize, readInt8]
  | long k hk =>
    simp only [readListSize, readInt16, List.cons_append, List.nil_append]
    simp; omega

theorem EncStr_first {d : Dict} {s : Str} {t : Nat} {bt : Bytes} (h : EncStr d s t bt) :
    t ≠ 0 ∧ t ≠ 1 ∧ t ≠ 2 ∧ t ≠ 248 ∧ t ≠ 249 := by
  cases h <;> omega


theorem packHex_spec {b x : Nat} (h : packHex b = some x) :
    unpackHex x = some b ∧ x < 16 ∧ (if x < 10 then x + 48 else x + 55) = b := by
  unfold packHex at h
  unfold unpackHex
  split at h
  · injection h with h
    have : x < 10 := by omega
    simp only [this, if_true]
    refine ⟨?_, ?_, ?_⟩
    · congr 1; omega
    · omega
    · omega
  · split at h
    · injection h with h
      have : ¬ x < 10 := by omega
      have h2 : x < 16 := by omega
      simp only [this, h2, if_true, if_false]
      refine ⟨?_, ?_, ?_⟩
      · congr 1; omega
      · trivial
      · omega
    · cases h

theorem packNibble_spec {b x : Nat} (h : packNibble b = some x) :
    unpackNibble x = some b ∧ x ≤ 11 := by
  unfold packNibble at h
  unfold unpackNibble
  split at h
  · injection h with h
    have : ¬ x < 10 := by omega
    have h2 : x = 10 ∨ x = 11 := by omega
    simp only [this, h2, if_true, if_false]
    refine ⟨?_, ?_⟩
    · congr 1; omega
    · omega
  · split at h
    · injection h with h
      have : x < 10 := by omega
      simp only [this, if_true]
      refine ⟨?_, ?_⟩
      · congr 1; omega
      · omega
    · cases h

theorem packByte_spec {v b x : Nat} (h : packByte v b = some x) :
    (v = 251 ∨ v = 255) ∧ unpackByte v x = some b ∧ x < 16 ∧ (v = 255 → x ≤ 11) ∧
    (v = 251 → (if x < 10 then x + 48 else x + 55) = b) := by
  unfold packByte at h
  split at h
  · subst v
    have := packHex_spec h
    refine ⟨Or.inl rfl, ?_, this.2.1, by omega, fun _ => this.2.2⟩
    simp only [unpackByte, if_true, this.1]
  · split at h
    · subst v
      have := packNibble_spec h
      refine ⟨Or.inr rfl, ?_, by omega, fun _ => this.2, by omega⟩
      simp [unpackByte, this.1]
    · cases h

theorem packAll_cons {v b : Nat} {bs : Bytes} {ns : List Nat} (h : packAll v (b :: bs) = some ns) :
    ∃ x xs, ns = x :: xs ∧ packByte v b = some x ∧ packAll v bs = some xs := by
  simp only [packAll] at h
  split at h
  · rename_i x xs hx hxs
    cases h
    exact ⟨x, xs, rfl, hx, hxs⟩
  · cases h

theorem packAll_length {v : Nat} {s : Bytes} {ns : List Nat} (h : packAll v s = some ns) :
    ns.length = s.length := by
  induction s generalizing ns with
  | nil => simp [packAll] at h; subst h; rfl
  | cons b bs ih =>
    obtain ⟨x, xs, rfl, hx, hxs⟩ := packAll_cons h
    simp [ih hxs]

theorem packAll_lt {v : Nat} {s : Bytes} {ns : List Nat} (h : packAll v s = some ns) :
    ∀ x ∈ ns, x < 16 := by
  induction s generalizing ns with
  | nil => simp [packAll] at h; subst h; simp
  | cons b bs ih =>
    obtain ⟨x, xs, rfl, hx, hxs⟩ := packAll_cons h
    intro y hy
    simp at hy
    rcases hy with rfl | hy
    · exact (packByte_spec hx).2.2.1
    · exact ih hxs y hy

theorem unpackLoop_packAll {v : Nat} {s : Bytes} {ns : List Nat} (h : packAll v s = some ns) :
    unpackLoop v ns = some s := by
  induction s generalizing ns with
  | nil => simp [packAll] at h; subst h; rfl
  | cons b bs ih =>
    obtain ⟨x, xs, rfl, hx, hxs⟩ := packAll_cons h
    have hs := packByte_spec hx
    cases bs with
    | nil =>
      simp [packAll] at hxs; subst hxs
      simp only [unpackLoop]
      rw [if_neg]
      · simp [hs.2.1]
      · rintro ⟨h1, h2⟩
        rcases hs.1 with h | h
        · exact h2 h
        · have := hs.2.2.2.1 h; omega
    | cons b' bs' =>
      obtain ⟨x', xs', rfl, hx', hxs'⟩ := packAll_cons hxs
      have := ih hxs
      simp only [unpackLoop, hs.2.1, this]

theorem unpackLoop_packAll_odd {s : Bytes} {ns : List Nat} (h : packAll 255 s = some ns) :
    unpackLoop 255 (ns ++ [15]) = some s := by
  induction s generalizing ns with
  | nil => simp [packAll] at h; subst h; simp [unpackLoop]
  | cons b bs ih =>
    obtain ⟨x, xs, rfl, hx, hxs⟩ := packAll_cons h
    have hs := packByte_spec hx
    have := ih hxs
    cases hl : xs ++ [15] with
    | nil => simp at hl
    | cons w r =>
      rw [hl] at this
      simp only [List.cons_append, hl, unpackLoop, hs.2.1, this]

theorem map_packAll_hex {s : Bytes} {ns : List Nat} (h : packAll 251 s = some ns) :
    ns.map (fun v => if v < 10 then v + 48 else v + 55) = s := by
  induction s generalizing ns with
  | nil => simp [packAll] at h; subst h; rfl
  | cons b bs ih =>
    obtain ⟨x, xs, rfl, hx, hxs⟩ := packAll_cons h
    have hs := packByte_spec hx
    simp only [List.map_cons, ih hxs, hs.2.2.2.2 rfl]

theorem packPairs_length (ns : List Nat) : (packPairs ns).length = (ns.length + 1) / 2 := by
  induction ns using packPairs.induct with
  | case1 => rfl
  | case2 a => simp [packPairs]
  | case3 a b r ih => simp only [packPairs, List.length_cons, ih]; omega

theorem nibbles_packPairs (ns : List Nat) (h : ∀ x ∈ ns, x < 16) :
    nibbles (packPairs ns) = if ns.length % 2 = 0 then ns else ns ++ [15] := by
  induction ns using packPairs.induct with
  | case1 => rfl
  | case2 a =>
    have : a < 16 := h a (by simp)
    simp [packPairs, nibbles]; omega
  | case3 a b r ih =>
    have ha : a < 16 := h a (by simp)
    have hb : b < 16 := h b (by simp)
    have := ih (fun x hx => h x (by simp [hx]))
    simp only [packPairs, nibbles, this, List.length_cons]
    have e1 : (a * 16 + b) / 16 % 16 = a := by omega
    have e2 : (a * 16 + b) % 16 = b := by omega
    rw [e1, e2]
    have e3 : (r.length + 1 + 1) % 2 = r.length % 2 := by omega
    simp only [e3]
    split <;> simp


theorem readPacked8_nib {s : Bytes} {ns : List Nat} (h : packAll 255 s = some ns)
    (hl : (s.length + 1) / 2 < 128) (rest : Bytes) :
    readPacked8 255 (((s.length % 2 * 128 + (s.length + 1) / 2) :: packPairs ns) ++ rest) = .ok (s, rest) := by
  have hlen := packAll_length h
  have hpl : (packPairs ns).length = (s.length + 1) / 2 := by rw [packPairs_length, hlen]
  have hsz : (s.length % 2 * 128 + (s.length + 1) / 2) % 128 = (packPairs ns).length := by
    rw [hpl]; omega
  have hnib := nibbles_packPairs ns (packAll_lt h)
  simp only [readPacked8, List.cons_append, readInt8, hsz, List.take_left', List.drop_left']
  rw [if_neg (by omega), hnib]
  by_cases hp : ns.length % 2 = 0
  · rw [if_pos hp, unpackLoop_packAll h]
  · rw [if_neg hp, unpackLoop_packAll_odd h]

theorem readPacked8_hex {s : Bytes} {ns : List Nat} (h : packAll 251 s = some ns)
    (hl : (s.length + 1) / 2 < 128) (rest : Bytes) :
    readPacked8 251 (((s.length % 2 * 128 + (s.length + 1) / 2) :: packPairs ns) ++ rest) = .ok (s, rest) := by
  have hlen := packAll_length h
  have hpl : (packPairs ns).length = (s.length + 1) / 2 := by rw [packPairs_length, hlen]
  have hsz : (s.length % 2 * 128 + (s.length + 1) / 2) % 128 = (packPairs ns).length := by
    rw [hpl]; omega
  have hnib := nibbles_packPairs ns (packAll_lt h)
  simp only [readPacked8, List.cons_append, readInt8, hsz, List.take_left', List.drop_left']
  rw [hnib, hlen]
  by_cases hp : s.length % 2 = 0
  · have h1 : ¬ (128 ≤ (s.length % 2 * 128 + (s.length + 1) / 2) % 256) := by omega
    rw [if_neg (fun hh => h1 hh.1), if_pos hp, unpackLoop_packAll h]
  · have h1 : 128 ≤ (s.length % 2 * 128 + (s.length + 1) / 2) % 256 := by omega
    rw [if_pos ⟨h1, trivial⟩, if_neg hp, List.dropLast_concat, map_packAll_hex h]

theorem readString_zero (d : Dict) (f : Nat) (data : Bytes) :
    readString d (f + 1) 0 data = .ok (none, data) := by
  simp [readString]

theorem readString_jid_step (d : Dict) (f t1 t2 : Nat) (r1 r3 r4 : Bytes) (user : Option Str) (sv : Str)
    (hu : readString d f t1 r1 = .ok (user, t2 :: r3)) (hs : readString d f t2 r3 = .ok (some sv, r4)) :
    readString d (f + 1) 250 (t1 :: r1)
      = .ok (some (match user with | some u => u ++ 64 :: sv | none => sv), r4) := by
  rw [readString]
  simp only [readInt8, hu, hs]
  cases user <;> simp

theorem readString_of_EncStr (d : Dict) {s : Str} {t : Nat} {bt : Bytes} (h : EncStr d s t bt)
    (fuel : Nat) (hf : bt.length < fuel) (rest : Bytes) :
    readString d fuel t (bt ++ rest) = .ok (some s, rest) := by
  induction h generalizing fuel rest with
  | tok i s h1 h2 h3 h4 =>
    obtain ⟨f, rfl⟩ : ∃ f, fuel = f + 1 := ⟨fuel - 1, by omega⟩
    cases s with
    | nil => exact absurd rfl h4
    | cons c cs =>
      simp only [readString, if_pos (And.intro h1 h2), getToken, h3, List.nil_append]
  | tok2 j s h1 h2 h3 =>
    obtain ⟨f, rfl⟩ : ∃ f, fuel = f + 1 := ⟨fuel - 1, by omega⟩
    cases s with
    | nil => exact absurd rfl h3
    | cons c cs =>
      have a1 : ¬ (2 < 236 + j / 256 ∧ 236 + j / 256 < 236) := by omega
      have a2 : ¬ (236 + j / 256 = 0) := by omega
      have a3 : 236 ≤ 236 + j / 256 ∧ 236 + j / 256 ≤ 239 := by omega
      have a4 : j % 256 + (236 + j / 256 - 236) * 256 = j := by omega
      simp only [readString, if_neg a1, if_neg a2, if_pos a3, List.cons_append, List.nil_append,
        readInt8, getTokenDouble, a4, h2]
  | raw8 s h1 =>
    obtain ⟨f, rfl⟩ : ∃ f, fuel = f + 1 := ⟨fuel - 1, by omega⟩
    simp [readString, readInt8]
  | raw20 s h1 =>
    obtain ⟨f, rfl⟩ : ∃ f, fuel = f + 1 := ⟨fuel - 1, by omega⟩
    have a : s.length / 65536 % 16 * 65536 + s.length / 256 % 256 * 256 + s.length % 256 = s.length := by omega
    simp [readString, readInt20, a]
  | raw31 s h1 =>
    obtain ⟨f, rfl⟩ : ∃ f, fuel = f + 1 := ⟨fuel - 1, by omega⟩
    have a : s.length / 16777216 % 128 * 16777216 + s.length / 65536 % 256 * 65536
        + s.length / 256 % 256 * 256 + s.length % 256 = s.length := by omega
    simp [readString, readInt31, a]
  | nib s ns h1 h2 h3 =>
    obtain ⟨f, rfl⟩ : ∃ f, fuel = f + 1 := ⟨fuel - 1, by omega⟩
    have := readPacked8_nib h2 h3 rest
    rw [List.cons_append] at this
    simp [readString, this]
  | hex s ns h1 h2 h3 =>
    obtain ⟨f, rfl⟩ : ∃ f, fuel = f + 1 := ⟨fuel - 1, by omega⟩
    have := readPacked8_hex h2 h3 rest
    rw [List.cons_append] at this
    simp [readString, this]
  | jid u sv t1 b1 t2 b2 e1 e2 ih1 ih2 =>
    obtain ⟨f, rfl⟩ : ∃ f, fuel = f + 1 := ⟨fuel - 1, by omega⟩
    simp only [List.length_cons, List.length_append] at hf
    have i1 := ih1 f (by omega) (t2 :: (b2 ++ rest))
    have i2 := ih2 f (by omega) rest
    have e : (t1 :: (b1 ++ t2 :: b2)) ++ rest = t1 :: (b1 ++ (t2 :: (b2 ++ rest))) := by simp
    rw [e, readString_jid_step d f t1 t2 _ _ _ _ _ i1 i2]
  | jid0 sv t2 b2 e2 ih2 =>
    obtain ⟨f, rfl⟩ : ∃ f, fuel = f + 1 := ⟨fuel - 1, by omega⟩
    simp only [List.length_cons] at hf
    obtain ⟨g, rfl⟩ : ∃ g, f = g + 1 := ⟨f - 1, by omega⟩
    have i2 := ih2 (g + 1) (by omega) rest
    have z := readString_zero d g (t2 :: (b2 ++ rest))
    have e : (0 :: t2 :: b2) ++ rest = 0 :: (t2 :: (b2 ++ rest)) := by simp
    rw [e, readString_jid_step d (g + 1) 0 t2 _ _ _ _ _ z i2]

theorem dictSet_fresh (acc : List (Str × Str)) (k v : Str) (h : k ∉ acc.map Prod.fst) :
    dictSet acc k v = acc ++ [(k, v)] := by
  unfold dictSet
  rw [if_neg]
  intro hc
  apply h
  simp only [List.any_eq_true, decide_eq_true_eq] at hc
  obtain ⟨p, hp, rfl⟩ := hc
  exact List.mem_map_of_mem hp

theorem readAttrs_of_EncAttrs (d : Dict) {attrs : List (Str × Str)} {ba : Bytes} (h : EncAttrs d attrs ba)
    (fuel : Nat) (hf : ba.length < fuel) (acc : List (Str × Str)) (rest : Bytes)
    (hn : ((acc ++ attrs).map Prod.fst).Nodup) :
    readAttrs d fuel attrs.length acc (ba ++ rest) = .ok (acc ++ attrs, rest) := by
  induction h generalizing acc rest with
  | nil => simp [readAttrs]
  | cons k v r t1 b1 t2 b2 br e1 e2 er ih =>
    simp only [List.length_cons, List.length_append] at hf
    have i1 := readString_of_EncStr d e1 fuel (by omega) (t2 :: (b2 ++ (br ++ rest)))
    have i2 := readString_of_EncStr d e2 fuel (by omega) (br ++ rest)
    have e : (t1 :: (b1 ++ t2 :: (b2 ++ br))) ++ rest = t1 :: (b1 ++ (t2 :: (b2 ++ (br ++ rest)))) := by simp
    have hk : k ∉ acc.map Prod.fst := by
      intro hk
      simp only [List.map_append, List.map_cons, List.nodup_append] at hn
      exact hn.2.2 k hk k (by simp) rfl
    have hn' : ((acc ++ [(k, v)] ++ r).map Prod.fst).Nodup := by
      simpa using hn
    have := ih (by omega) (acc ++ [(k, v)]) rest hn'
    rw [e, List.length_cons, readAttrs]
    simp only [readInt8, i1, i2, dictSet_fresh acc k v hk, this]
    simp

theorem nextTree_leaf (d : Dict) (tag : Str) (attrs : List (Str × Str)) (h : Nat) (bh : Bytes) (t : Nat)
    (bt ba : Bytes) (e1 : EncList (1 + attrs.length * 2) h bh) (e3 : EncStr d tag t bt)
    (e4 : EncAttrs d attrs ba) (e5 : keysNodup attrs) (f : Nat) (rest : Bytes) :
    nextTree d (f + 1) ((h :: (bh ++ t :: (bt ++ ba))) ++ rest) = .ok (.mk tag attrs none [], rest) := by
  have e : (h :: (bh ++ t :: (bt ++ ba))) ++ rest = h :: (bh ++ (t :: (bt ++ (ba ++ rest)))) := by simp
  have hfirst := EncStr_first e3
  have hsz : (1 + attrs.length * 2 - 2 + (1 + attrs.length * 2) % 2) / 2 = attrs.length := by omega
  have hnd : (([] ++ attrs).map Prod.fst).Nodup := by simpa [keysNodup] using e5
  rw [e, nextTree]
  simp only [readInt8]
  rw [readListSize_of_EncList e1]
  simp only [if_neg hfirst.2.1, if_neg hfirst.2.2.1]
  rw [readString_of_EncStr d e3 _ (by simp only [List.length_cons, List.length_append]; omega)]
  simp only []
  rw [if_neg (by omega), hsz,
    readAttrs_of_EncAttrs d e4 _ (by simp only [List.length_cons, List.length_append]; omega) [] _ hnd]
  simp only []
  rw [if_pos (by omega)]
  rfl

theorem nextTree_content (d : Dict) (tag : Str) (attrs : List (Str × Str)) (data : Bytes) (h : Nat) (bh : Bytes)
    (t : Nat) (bt ba : Bytes) (c : Nat) (bc : Bytes)
    (e1 : EncList (2 + attrs.length * 2) h bh) (e3 : EncStr d tag t bt)
    (e4 : EncAttrs d attrs ba) (e5 : keysNodup attrs) (e6 : EncStr d data c bc) (f : Nat) (rest : Bytes) :
    nextTree d (f + 1) ((h :: (bh ++ t :: (bt ++ (ba ++ c :: bc)))) ++ rest)
      = .ok (.mk tag attrs (some data) [], rest) := by
  have e : (h :: (bh ++ t :: (bt ++ (ba ++ c :: bc)))) ++ rest
      = h :: (bh ++ (t :: (bt ++ (ba ++ (c :: (bc ++ rest)))))) := by simp
  have hfirst := EncStr_first e3
  have hc := EncStr_first e6
  have hsz : (2 + attrs.length * 2 - 2 + (2 + attrs.length * 2) % 2) / 2 = attrs.length := by omega
  have hnd : (([] ++ attrs).map Prod.fst).Nodup := by simpa [keysNodup] using e5
  rw [e, nextTree]
  simp only [readInt8]
  rw [readListSize_of_EncList e1]
  simp only [if_neg hfirst.2.1, if_neg hfirst.2.2.1]
  rw [readString_of_EncStr d e3 _ (by simp only [List.length_cons, List.length_append]; omega)]
  simp only []
  rw [if_neg (by omega), hsz,
    readAttrs_of_EncAttrs d e4 _ (by simp only [List.length_cons, List.length_append]; omega) [] _ hnd]
  simp only []
  rw [if_neg (by omega), if_neg (by omega)]
  have hrs := readString_of_EncStr d e6 ((h :: (bh ++ t :: (bt ++ (ba ++ c :: (bc ++ rest))))).length + 1)
    (by simp only [List.length_cons, List.length_append]; omega) rest
  generalize (h :: (bh ++ t :: (bt ++ (ba ++ c :: (bc ++ rest))))).length + 1 = F at hrs ⊢
  rw [List.nil_append]
  cases e6 with
  | raw8 h1 => simp
  | raw20 h1 =>
    have a : data.length / 65536 % 16 * 65536 + data.length / 256 % 256 * 256 + data.length % 256 = data.length := by omega
    simp [readInt20, a]
  | raw31 h1 =>
    have a : data.length / 16777216 % 128 * 16777216 + data.length / 65536 % 256 * 65536
        + data.length / 256 % 256 * 256 + data.length % 256 = data.length := by omega
    simp [readInt31, a]
  | _ =>
    rw [if_neg (by omega), if_neg (by omega), if_neg (by omega), hrs]

theorem EncList_pos {k h : Nat} {bh : Bytes} (e : EncList k h bh) (hk : k ≠ 0) :
    (h = 248 ∨ h = 249) ∧ 1 ≤ bh.length := by
  cases e with
  | zero => exact absurd rfl hk
  | short k _ => simp
  | long k _ => simp

theorem nextTree_kids (d : Dict) (tag : Str) (attrs : List (Str × Str)) (ks : List Node) (h : Nat) (bh : Bytes)
    (t : Nat) (bt ba : Bytes) (hk : Nat) (bhk bk : Bytes)
    (e1 : EncList (2 + attrs.length * 2) h bh) (e3 : EncStr d tag t bt)
    (e4 : EncAttrs d attrs ba) (e5 : keysNodup attrs) (e6 : ks ≠ []) (e7 : EncList ks.length hk bhk)
    (f : Nat) (rest : Bytes)
    (ih : readNodes d f ks.length (bk ++ rest) = .ok (ks, rest)) :
    nextTree d (f + 1) ((h :: (bh ++ t :: (bt ++ (ba ++ hk :: (bhk ++ bk))))) ++ rest)
      = .ok (.mk tag attrs none ks, rest) := by
  have e : (h :: (bh ++ t :: (bt ++ (ba ++ hk :: (bhk ++ bk))))) ++ rest
      = h :: (bh ++ (t :: (bt ++ (ba ++ (hk :: (bhk ++ (bk ++ rest))))))) := by simp
  have hfirst := EncStr_first e3
  have hkp := (EncList_pos e7 (by simpa using e6)).1
  have hsz : (2 + attrs.length * 2 - 2 + (2 + attrs.length * 2) % 2) / 2 = attrs.length := by omega
  have hnd : (([] ++ attrs).map Prod.fst).Nodup := by simpa [keysNodup] using e5
  rw [e, nextTree]
  simp only [readInt8]
  rw [readListSize_of_EncList e1]
  simp only [if_neg hfirst.2.1, if_neg hfirst.2.2.1]
  rw [readString_of_EncStr d e3 _ (by simp only [List.length_cons, List.length_append]; omega)]
  simp only []
  rw [if_neg (by omega), hsz,
    readAttrs_of_EncAttrs d e4 _ (by simp only [List.length_cons, List.length_append]; omega) [] _ hnd]
  simp only []
  rw [if_neg (by omega), if_pos (by omega), readListSize_of_EncList e7]
  simp only []
  rw [ih]
  rfl

theorem Enc_length_pos {d : Dict} {n : Node} {bs : Bytes} (h : Enc d n bs) : 1 ≤ bs.length := by
  cases h <;> simp

mutual
theorem nextTree_of_Enc (d : Dict) {n : Node} {bs : Bytes} (h : Enc d n bs)
    (fuel : Nat) (hf : bs.length ≤ fuel) (rest : Bytes) :
    nextTree d fuel (bs ++ rest) = .ok (n, rest) := by
  match h with
  | .leaf tag attrs h bh t bt ba e1 e2 e3 e4 e5 =>
    obtain ⟨f, rfl⟩ : ∃ f, fuel = f + 1 := ⟨fuel - 1, by simp only [List.length_cons] at hf; omega⟩
    exact nextTree_leaf d tag attrs h bh t bt ba e1 e3 e4 e5 f rest
  | .content tag attrs data h bh t bt ba c bc e1 e2 e3 e4 e5 e6 =>
    obtain ⟨f, rfl⟩ : ∃ f, fuel = f + 1 := ⟨fuel - 1, by simp only [List.length_cons] at hf; omega⟩
    exact nextTree_content d tag attrs data h bh t bt ba c bc e1 e3 e4 e5 e6 f rest
  | .kids tag attrs ks h bh t bt ba hk bhk bk e1 e2 e3 e4 e5 e6 e7 e8 =>
    obtain ⟨f, rfl⟩ : ∃ f, fuel = f + 1 := ⟨fuel - 1, by simp only [List.length_cons] at hf; omega⟩
    have hb1 := (EncList_pos e1 (by omega)).2
    have hb2 := (EncList_pos e7 (by simpa using e6)).2
    simp only [List.length_cons, List.length_append] at hf
    exact nextTree_kids d tag attrs ks h bh t bt ba hk bhk bk e1 e3 e4 e5 e6 e7 f rest
      (readNodes_of_EncNodes d e8 f (by omega) rest)

theorem readNodes_of_EncNodes (d : Dict) {ns : List Node} {bs : Bytes} (h : EncNodes d ns bs)
    (fuel : Nat) (hf : bs.length + 2 ≤ fuel) (rest : Bytes) :
    readNodes d fuel ns.length (bs ++ rest) = .ok (ns, rest) := by
  match h with
  | .nil => cases fuel <;> simp [readNodes]
  | .cons n ns b bs e1 e2 =>
    obtain ⟨f, rfl⟩ : ∃ f, fuel = f + 1 := ⟨fuel - 1, by omega⟩
    have hp := Enc_length_pos e1
    simp only [List.length_append] at hf
    have i1 := nextTree_of_Enc d e1 f (by omega) (bs ++ rest)
    have i2 := readNodes_of_EncNodes d e2 f (by omega) rest
    rw [List.append_assoc, List.length_cons, readNodes, i1]
    simp only []
    rw [i2]
end

theorem decodeFrame_of_EncFrame (d : Dict) (deflate : Bytes → Bytes) (inflate : Bytes → Option Bytes)
    (hz : ∀ x, inflate (deflate x) = some x) {n : Node} {fr : Bytes} (h : EncFrame d deflate n fr) :
    decodeFrame d inflate fr = .ok n := by
  cases h with
  | plain bs flags e hfl =>
    have a1 : ¬ (flags / 2 % 2 = 1) := by omega
    have a2 : ¬ (flags / 2 % 2 = 0 ∧ flags % 2 = 1) := by omega
    have := nextTree_of_Enc d e (bs.length + 1) (by omega) []
    rw [List.append_nil] at this
    simp only [decodeFrame, if_neg a1, if_neg a2, this]
  | deflated bs flags e hfl =>
    have a2 : ¬ (flags / 2 % 2 = 0 ∧ flags % 2 = 1) := by omega
    have := nextTree_of_Enc d e (bs.length + 1) (by omega) []
    rw [List.append_nil] at this
    simp only [decodeFrame, if_pos hfl, if_neg a2, hz, this]

end Yow.Coder
