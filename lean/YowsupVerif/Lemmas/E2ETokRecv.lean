/-
  Token conservation in the E2E system model, part 16: `handleEnc` - one message stanza at the recipient is shown (and
  acknowledged), or asked for again, or parked until the sender's keys arrive.
-/
import YowsupVerif.Lemmas.E2ETokRecvSpec
namespace Yow.E2E

/-- the fields of the recipient's record that handling a message stanza leaves alone (unless it is parked) -/
structure RecvSame (c c' : Client) : Prop where
  sentQ : c'.sentQueue = c.sentQueue
  receipts : c'.receipts = c.receipts
  ownSK : c'.ownSK = c.ownSK
  iqReg : c'.iqReg = c.iqReg
  pend : c'.pendingIn = c.pendingIn
  nextIq : c'.nextIq = c.nextIq

theorem RecvSame.rfl' (c : Client) : RecvSame c c := ⟨rfl, rfl, rfl, rfl, rfl, rfl⟩
theorem RecvSame.trans {c c1 c2 : Client} (h1 : RecvSame c c1) (h2 : RecvSame c1 c2) : RecvSame c c2 :=
  ⟨h2.sentQ.trans h1.sentQ, h2.receipts.trans h1.receipts, h2.ownSK.trans h1.ownSK, h2.iqReg.trans h1.iqReg,
   h2.pend.trans h1.pend, h2.nextIq.trans h1.nextIq⟩

/-- shown and acknowledged, or asked for again -/
def OutAB (c : Client) (id : Nat) (peer : Dest) (part : Option Acct) (c' : Client) (out : List Stanza) : Prop :=
  (∃ p, c'.shown = c.shown ++ [{ id := id, peer := peer, participant := part, payload := p }] ∧ out = [.receipt id peer part .delivery]) ∨
  (∃ cnt, 1 ≤ cnt ∧ c'.shown = c.shown ∧ out = [.receipt id peer part (.retry cnt)])

/-- the sender-key stage -/
theorem stage2_sk {s : Sys} {r : Acct} (hr : r ∈ (view s).accounts) (st : Stanza) (id : Nat) (g : Nat) (part : Option Acct)
    (sender : Acct) (encs : List (Option Acct × Ct)) {k : Ct} (hfk : firstKind encs .skmsg = some k)
    (hk : k.plain.content.isSome = true) (hnd : k.ctr ∉ (getClient s r).seenSK.map Prod.snd) :
    ∃ c' out, RStep s (handleEnc.stage2 s r st id (.group g) part sender encs) r c' out ∧
      RecvSame (getClient s r) c' ∧ c'.seen = (getClient s r).seen ∧
      (∀ e ∈ c'.seenSK, e ∈ (getClient s r).seenSK ∨ e.2 = k.ctr) ∧
      OutAB (getClient s r) id (.group g) part c' out ∧ c'.sessions = (getClient s r).sessions := by
  unfold handleEnc.stage2
  simp only [hfk]
  obtain ⟨p, hp⟩ := Option.isSome_iff_exists.mp hk
  have h1 := rstep_setClient (s := s) (groupDecrypt (getClient s r) g sender k).1 hr
  have hacc1 : r ∈ (view (setClient s r (groupDecrypt (getClient s r) g sender k).1)).accounts := by rw [h1.acc]; exact hr
  rcases groupDecrypt_cases (getClient s r) g sender k with ⟨hd2, hd1⟩ | ⟨hd1, hd2⟩
  · -- opened: shown
    rw [hd2]
    simp only [surface, hp]
    have h2 := rstep_showAndReceipt hacc1 id (.group g) part p
    have hacc2 : r ∈ (view (showAndReceipt (setClient s r (groupDecrypt (getClient s r) g sender k).1) r id (.group g) part p)).accounts := by
      rw [h2.acc]; exact hacc1
    have h3 := rstep_resetRetries hacc2 id
    have h := (h1.trans h2).trans h3
    refine ⟨_, _, h, ?_, ?_, ?_, Or.inl ⟨p, ?_, rfl⟩, ?_⟩
    · rw [h2.cl, h1.cl, hd1]; exact ⟨rfl, rfl, rfl, rfl, rfl, rfl⟩
    · rw [h2.cl, h1.cl, hd1]
    · rw [h2.cl, h1.cl, hd1]
      intro e he
      have he : e ∈ (getClient s r).seenSK ++ [(k.sess, k.ctr)] := he
      rcases List.mem_append.mp he with h4 | h4
      · exact Or.inl h4
      · rw [List.mem_singleton] at h4; subst h4; exact Or.inr rfl
    · rw [h2.cl, h1.cl, hd1]
    · rw [h2.cl, h1.cl, hd1]
  · rcases hd2 with hd2 | ⟨hd2, hdup⟩ | hd2
    · -- invalid: retry
      rw [hd2]
      simp only [onDecryptFailure]
      have h2 := rstep_sendRetry hacc1 id (.group g) part
      have h := h1.trans h2
      refine ⟨_, _, h, ?_, ?_, ?_, Or.inr ⟨_, Nat.le_add_left 1 _, ?_, rfl⟩, ?_⟩
      · rw [h1.cl, hd1]; exact ⟨rfl, rfl, rfl, rfl, rfl, rfl⟩
      · rw [h1.cl, hd1]
      · rw [h1.cl, hd1]; exact fun e he => Or.inl he
      · rw [h1.cl, hd1]
      · rw [h1.cl, hd1]
    · exact absurd (List.mem_map.mpr ⟨_, hdup, rfl⟩) hnd
    · -- no sender key: retry
      rw [hd2]
      simp only
      have h2 := rstep_sendRetry hacc1 id (.group g) part
      have hacc2 : r ∈ (view (sendRetry (setClient s r (groupDecrypt (getClient s r) g sender k).1) r id (.group g) part)).accounts := by
        rw [h2.acc]; exact hacc1
      have h3 := rstep_resetRetries hacc2 id
      have h := (h1.trans h2).trans h3
      refine ⟨_, _, h, ?_, ?_, ?_, Or.inr ⟨_, Nat.le_add_left 1 _, ?_, rfl⟩, ?_⟩
      · rw [h2.cl, h1.cl, hd1]; exact ⟨rfl, rfl, rfl, rfl, rfl, rfl⟩
      · rw [h2.cl, h1.cl, hd1]
      · rw [h2.cl, h1.cl, hd1]; exact fun e he => Or.inl he
      · rw [h2.cl, h1.cl, hd1]
      · rw [h2.cl, h1.cl, hd1]

/-- no sender-key ciphertext: only the retry counter is reset -/
theorem stage2_none {s : Sys} {r : Acct} (hr : r ∈ (view s).accounts) (st : Stanza) (id : Nat) (peer : Dest) (part : Option Acct)
    (sender : Acct) (encs : List (Option Acct × Ct)) (hfk : firstKind encs .skmsg = none) :
    RStep s (handleEnc.stage2 s r st id peer part sender encs) r { getClient s r with retries := erase (getClient s r).retries id } [] := by
  unfold handleEnc.stage2
  simp only [hfk]
  exact rstep_resetRetries hr id

end Yow.E2E

namespace Yow.E2E

/-- parked until the sender's keys arrive -/
def OutC (c : Client) (st : Stanza) (peer : Dest) (part : Option Acct) (sender : Acct) (c' : Client) (out : List Stanza) : Prop :=
  c'.iqReg = c.iqReg ++ [(c.nextIq, .keysForPending peer part)] ∧ c'.nextIq = c.nextIq + 1 ∧
  c'.pendingIn = insert c.pendingIn (peer, part) ((lookup c.pendingIn (peer, part)).getD [] ++ [st]) ∧
  out = [.getKeys c.nextIq [sender]] ∧ c'.sentQueue = c.sentQueue ∧ c'.receipts = c.receipts ∧ c'.ownSK = c.ownSK ∧
  c'.shown = c.shown ∧ c'.seen = c.seen ∧ c'.seenSK = c.seenSK ∧ lookup c.sessions sender = none

/-- stage 1 failed (not a duplicate): retry or park -/
theorem stage1_fail {s : Sys} {r : Acct} (hr : r ∈ (view s).accounts) (st : Stanza) (id : Nat) (peer : Dest) (part : Option Acct)
    (sender : Acct) (ct : Ct) (hd1 : (decrypt (getClient s r) sender ct).1 = getClient s r)
    (hd2 : (decrypt (getClient s r) sender ct).2 = .invalid ∨
      ((decrypt (getClient s r) sender ct).2 = .noSession ∧ lookup (getClient s r).sessions sender = none)) :
    ∃ c' out, RStep s (onDecryptFailure (setClient s r (decrypt (getClient s r) sender ct).1) r st id peer part sender
        (decrypt (getClient s r) sender ct).2) r c' out ∧
      c'.seen = (getClient s r).seen ∧ c'.seenSK = (getClient s r).seenSK ∧
      ((RecvSame (getClient s r) c' ∧ OutAB (getClient s r) id peer part c' out ∧ c'.sessions = (getClient s r).sessions) ∨
        OutC (getClient s r) st peer part sender c' out) := by
  have h1 := rstep_setClient (s := s) (decrypt (getClient s r) sender ct).1 hr
  have hacc1 : r ∈ (view (setClient s r (decrypt (getClient s r) sender ct).1)).accounts := by rw [h1.acc]; exact hr
  rcases hd2 with hd2 | ⟨hd2, hns⟩
  · rw [hd2]
    simp only [onDecryptFailure]
    have h2 := rstep_sendRetry hacc1 id peer part
    have h := h1.trans h2
    refine ⟨_, _, h, ?_, ?_, Or.inl ⟨?_, Or.inr ⟨_, Nat.le_add_left 1 _, ?_, rfl⟩, ?_⟩⟩
    · rw [h1.cl, hd1]
    · rw [h1.cl, hd1]
    · rw [h1.cl, hd1]; exact ⟨rfl, rfl, rfl, rfl, rfl, rfl⟩
    · rw [h1.cl, hd1]
    · rw [h1.cl, hd1]
  · rw [hd2]
    simp only [onDecryptFailure]
    refine ⟨_, _, h1.trans (view_sendIq _ r _ _ _ hacc1), ?_, ?_, Or.inr ?_⟩
    · rw [h1.cl, hd1]
    · rw [h1.cl, hd1]
    · rw [h1.cl, hd1]
      exact ⟨rfl, rfl, rfl, rfl, rfl, rfl, rfl, rfl, rfl, rfl, hns⟩

theorem firstKind_single (ct : Ct) (k : EncKind) : firstKind [((none : Option Acct), ct)] k = if ct.kind = k then some ct else none := by
  unfold firstKind
  by_cases h : ct.kind = k <;> simp [h]

theorem heFirst_single {ct : Ct} (h : ct.kind ≠ .skmsg) : heFirst [((none : Option Acct), ct)] = some ct := by
  unfold heFirst
  rw [firstKind_single, firstKind_single]
  cases hk : ct.kind
  · simp
  · simp
  · exact absurd hk h

theorem firstKind_append_sk {l : List (Option Acct × Ct)} {k : Ct} (hl : ∀ e ∈ l, e.2.kind ≠ .skmsg) (hk : k.kind = .skmsg) :
    firstKind (l ++ [((none : Option Acct), k)]) .skmsg = some k := by
  unfold firstKind
  rw [List.find?_append]
  have : l.find? (fun e => e.2.kind == EncKind.skmsg) = none := by
    rw [List.find?_eq_none]
    intro e he
    simpa using hl e he
  simp [this, hk]

theorem firstKind_append_other {l : List (Option Acct × Ct)} {k : Ct} {kd : EncKind} (hk : k.kind = .skmsg) (hkd : kd ≠ .skmsg) :
    firstKind (l ++ [((none : Option Acct), k)]) kd = firstKind l kd := by
  unfold firstKind
  rw [List.find?_append]
  have : ¬ EncKind.skmsg = kd := fun e => hkd e.symm
  cases hf : l.find? (fun e => e.2.kind == kd) <;> simp [hk, this]

theorem heFirst_append_sk {l : List (Option Acct × Ct)} {k : Ct} (hk : k.kind = .skmsg) :
    heFirst (l ++ [((none : Option Acct), k)]) = heFirst l := by
  unfold heFirst
  rw [firstKind_append_other hk (by simp), firstKind_append_other hk (by simp)]

theorem heFirst_mem' {encs : List (Option Acct × Ct)} {ct : Ct} (h : heFirst encs = some ct) : ∃ e, e ∈ encs ∧ e.2 = ct :=
  heFirst_mem h

/-- one message stanza at the recipient -/
theorem handleEnc_spec {s : Sys} {r : Acct} (hr : r ∈ (view s).accounts) (id : Nat) (peer : Dest) (part : Option Acct) (im : Bool)
    (encs : List (Option Acct × Ct)) (pl : Option Payload) (hshape : DownShape (.msg id peer part im encs pl))
    (hnd1 : ∀ ct, heFirst encs = some ct → ct.ctr ∉ (getClient s r).seen.map Prod.snd)
    (hnd2 : ∀ k, firstKind encs .skmsg = some k → k.ctr ∉ (getClient s r).seenSK.map Prod.snd) :
    ∃ c' out, RStep s (handleEnc s r (.msg id peer part im encs pl)) r c' out ∧
      (∀ e ∈ c'.seen, e ∈ (getClient s r).seen ∨ ∃ ct, heFirst encs = some ct ∧ e.2 = ct.ctr) ∧
      (∀ e ∈ c'.seenSK, e ∈ (getClient s r).seenSK ∨ ∃ k, firstKind encs .skmsg = some k ∧ e.2 = k.ctr) ∧
      ((RecvSame (getClient s r) c' ∧ OutAB (getClient s r) id peer part c' out ∧
          ∀ j, (lookup (getClient s r).sessions j).isSome = true → (lookup c'.sessions j).isSome = true) ∨
        OutC (getClient s r) (.msg id peer part im encs pl) peer part (whoOf peer part) c' out) := by
  rw [handleEnc_eq]
  have conv : ∀ {c' : Client} {out : List Stanza} {st : Stanza} {pr : Dest} {sd : Acct},
      ((RecvSame (getClient s r) c' ∧ OutAB (getClient s r) id pr part c' out ∧ c'.sessions = (getClient s r).sessions) ∨
        OutC (getClient s r) st pr part sd c' out) →
      ((RecvSame (getClient s r) c' ∧ OutAB (getClient s r) id pr part c' out ∧
          ∀ j, (lookup (getClient s r).sessions j).isSome = true → (lookup c'.sessions j).isSome = true) ∨
        OutC (getClient s r) st pr part sd c' out) := by
    intro c' out st pr sd h
    rcases h with ⟨a1, a2, a3⟩ | h
    · exact Or.inl ⟨a1, a2, fun j hj => by rw [a3]; exact hj⟩
    · exact Or.inr h
  rcases hshape with ⟨ct, rfl, hk, hc⟩ | ⟨hgrp, l, k, rfl, hk1, hk2, hl⟩
  · -- one pairwise ciphertext with the content
    have hf1 : heFirst [((none : Option Acct), ct)] = some ct := heFirst_single hk
    have hf2 : firstKind [((none : Option Acct), ct)] .skmsg = none := by
      rw [firstKind_single]; simp [hk]
    rw [hf1]
    simp only [heMain]
    obtain ⟨p, hp⟩ := Option.isSome_iff_exists.mp hc
    rcases decrypt_cases (getClient s r) (whoOf peer part) ct with ⟨sess, hd2, hd1, hmono⟩ | ⟨hd1, hd2⟩
    · rw [hd2]
      simp only
      have h1 := rstep_setClient (s := s) (decrypt (getClient s r) (whoOf peer part) ct).1 hr
      have hacc1 : r ∈ (view (setClient s r (decrypt (getClient s r) (whoOf peer part) ct).1)).accounts := by rw [h1.acc]; exact hr
      obtain ⟨psk, h2⟩ := rstep_storeSkdm hacc1 (whoOf peer part) ct.plain
      have hacc2 := h2.acc.trans h1.acc
      simp only [surface, hp]
      have h3 := rstep_showAndReceipt (s := storeSkdm (setClient s r (decrypt (getClient s r) (whoOf peer part) ct).1) r (whoOf peer part) ct.plain)
        (by rw [hacc2]; exact hr) id peer part p
      have hacc3 := h3.acc.trans hacc2
      have h4 := stage2_none (s := showAndReceipt (storeSkdm (setClient s r (decrypt (getClient s r) (whoOf peer part) ct).1) r (whoOf peer part) ct.plain) r id peer part p)
        (by rw [hacc3]; exact hr) (.msg id peer part im [(none, ct)] pl) id peer part (whoOf peer part) [(none, ct)] hf2
      have h := ((h1.trans h2).trans h3).trans h4
      refine ⟨_, _, h, ?_, ?_, Or.inl ⟨?_, Or.inl ⟨p, ?_, rfl⟩, ?_⟩⟩
      · rw [h3.cl, h2.cl, h1.cl, hd1]
        intro e he
        have he : e ∈ (getClient s r).seen ++ [(ct.sess, ct.ctr)] := he
        rcases List.mem_append.mp he with h5 | h5
        · exact Or.inl h5
        · rw [List.mem_singleton] at h5; subst h5; exact Or.inr ⟨ct, rfl, rfl⟩
      · rw [h3.cl, h2.cl, h1.cl, hd1]
        exact fun e he => Or.inl he
      · rw [h3.cl, h2.cl, h1.cl, hd1]; exact ⟨rfl, rfl, rfl, rfl, rfl, rfl⟩
      · rw [h3.cl, h2.cl, h1.cl, hd1]
      · rw [h3.cl, h2.cl, h1.cl, hd1]; exact hmono
    · have hd2' : (decrypt (getClient s r) (whoOf peer part) ct).2 = .invalid ∨
          ((decrypt (getClient s r) (whoOf peer part) ct).2 = .noSession ∧ lookup (getClient s r).sessions (whoOf peer part) = none) := by
        rcases hd2 with h | ⟨_, hdup⟩ | h
        · exact Or.inl h
        · exact absurd (List.mem_map.mpr ⟨_, hdup, rfl⟩) (hnd1 ct hf1)
        · exact Or.inr h
      obtain ⟨c', out, h, hs1, hs2, hres⟩ := stage1_fail hr (.msg id peer part im [(none, ct)] pl) id peer part (whoOf peer part) ct hd1 hd2'
      have hne : ∀ pl', (decrypt (getClient s r) (whoOf peer part) ct).2 ≠ .ok pl' := by
        intro pl' e
        rcases hd2' with h' | ⟨h', _⟩ <;> rw [h'] at e <;> cases e
      refine ⟨c', out, ?_, by rw [hs1]; exact fun e he => Or.inl he, by rw [hs2]; exact fun e he => Or.inl he, conv hres⟩
      generalize hdd : (decrypt (getClient s r) (whoOf peer part) ct).2 = dd at h hne ⊢
      cases dd with
      | ok pl' => exact absurd rfl (hne pl')
      | _ => exact h
  · -- a group message: sender-key distributions, then the sender-key ciphertext with the content
    cases peer with
    | user b => cases hgrp
    | group g =>
    have hlk : ∀ e ∈ l, e.2.kind ≠ .skmsg := fun e he => (hl e he).2.1
    have hf2 : firstKind (l ++ [((none : Option Acct), k)]) .skmsg = some k := firstKind_append_sk hlk hk1
    have hf1 : heFirst (l ++ [((none : Option Acct), k)]) = heFirst l := heFirst_append_sk hk1
    have hndk := hnd2 k hf2
    rw [hf1] at hnd1 ⊢
    cases hfl : heFirst l with
    | none =>
      simp only [heMain]
      obtain ⟨c', out, h, h1, h2, h3, h4, h5⟩ := stage2_sk hr (.msg id (.group g) part im (l ++ [(none, k)]) pl) id g part
        (whoOf (.group g) part) (l ++ [(none, k)]) hf2 hk2 hndk
      refine ⟨c', out, h, by rw [h2]; exact fun e he => Or.inl he, ?_, Or.inl ⟨h1, h4, fun j hj => by rw [h5]; exact hj⟩⟩
      intro e he
      rcases h3 e he with h6 | h6
      · exact Or.inl h6
      · exact Or.inr ⟨k, hf2, h6⟩
    | some ct =>
      obtain ⟨e0, he0, hect⟩ := heFirst_mem' hfl
      have hcn : ct.plain.content = none := by rw [← hect]; exact (hl e0 he0).2.2
      simp only [heMain]
      rcases decrypt_cases (getClient s r) (whoOf (.group g) part) ct with ⟨sess, hd2, hd1, hmono⟩ | ⟨hd1, hd2⟩
      · rw [hd2]
        simp only
        have h1 := rstep_setClient (s := s) (decrypt (getClient s r) (whoOf (.group g) part) ct).1 hr
        have hacc1 : r ∈ (view (setClient s r (decrypt (getClient s r) (whoOf (.group g) part) ct).1)).accounts := by rw [h1.acc]; exact hr
        obtain ⟨psk, h2⟩ := rstep_storeSkdm hacc1 (whoOf (.group g) part) ct.plain
        have hacc2 := h2.acc.trans h1.acc
        simp only [surface, hcn]
        have h12 := h1.trans h2
        have hc2 : getClient (storeSkdm (setClient s r (decrypt (getClient s r) (whoOf (.group g) part) ct).1) r (whoOf (.group g) part) ct.plain) r
            = { ({ getClient s r with sessions := sess, seen := (getClient s r).seen ++ [(ct.sess, ct.ctr)] } : Client) with peerSK := psk } := by
          rw [h2.cl, h1.cl, hd1]
        obtain ⟨c', out, h, q1, q2, q3, q4, q5⟩ := stage2_sk
          (s := storeSkdm (setClient s r (decrypt (getClient s r) (whoOf (.group g) part) ct).1) r (whoOf (.group g) part) ct.plain)
          (by rw [hacc2]; exact hr) (.msg id (.group g) part im (l ++ [(none, k)]) pl) id g part
          (whoOf (.group g) part) (l ++ [(none, k)]) hf2 hk2 (by rw [hc2]; exact hndk)
        rw [hc2] at q1 q2 q3 q4 q5
        refine ⟨c', out, h12.trans h, ?_, ?_, Or.inl ⟨?_, q4, ?_⟩⟩
        · rw [q2]
          intro e he
          have he : e ∈ (getClient s r).seen ++ [(ct.sess, ct.ctr)] := he
          rcases List.mem_append.mp he with h5 | h5
          · exact Or.inl h5
          · rw [List.mem_singleton] at h5; subst h5; exact Or.inr ⟨ct, rfl, rfl⟩
        · intro e he
          rcases q3 e he with h5 | h5
          · exact Or.inl h5
          · exact Or.inr ⟨k, hf2, h5⟩
        · exact ⟨q1.sentQ, q1.receipts, q1.ownSK, q1.iqReg, q1.pend, q1.nextIq⟩
        · intro j hj
          rw [q5]
          exact hmono j hj
      · have hd2' : (decrypt (getClient s r) (whoOf (.group g) part) ct).2 = .invalid ∨
            ((decrypt (getClient s r) (whoOf (.group g) part) ct).2 = .noSession ∧ lookup (getClient s r).sessions (whoOf (.group g) part) = none) := by
          rcases hd2 with h | ⟨_, hdup⟩ | h
          · exact Or.inl h
          · exact absurd (List.mem_map.mpr ⟨_, hdup, rfl⟩) (hnd1 ct hfl)
          · exact Or.inr h
        obtain ⟨c', out, h, hs1, hs2, hres⟩ := stage1_fail hr (.msg id (.group g) part im (l ++ [(none, k)]) pl) id (.group g) part
          (whoOf (.group g) part) ct hd1 hd2'
        have hne : ∀ pl', (decrypt (getClient s r) (whoOf (.group g) part) ct).2 ≠ .ok pl' := by
          intro pl' e
          rcases hd2' with h' | ⟨h', _⟩ <;> rw [h'] at e <;> cases e
        refine ⟨c', out, ?_, by rw [hs1]; exact fun e he => Or.inl he, by rw [hs2]; exact fun e he => Or.inl he, conv hres⟩
        generalize hdd : (decrypt (getClient s r) (whoOf (.group g) part) ct).2 = dd at h hne ⊢
        cases dd with
        | ok pl' => exact absurd rfl (hne pl')
        | _ => exact h

end Yow.E2E
