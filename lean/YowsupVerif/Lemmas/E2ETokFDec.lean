/-
  Exactly-once with server faults, part 7: decryptability.  Every pairwise ciphertext on its way names a session its
  recipient can open, every sender-key ciphertext and distribution names the sender's own key for the group; the
  invariant `DV` over the functional view and its preservation by a client step and a server step.
-/
import YowsupVerif.Lemmas.E2ETokFHe
import YowsupVerif.Lemmas.E2ETokInv
namespace Yow.E2E

/-- `c` can open ciphertexts of session `σ` with `y` -/
def known (c : Client) (y : Acct) (σ : Nat) : Prop :=
  ∃ se, lookup c.sessions y = some se ∧ (se.cur = σ ∨ σ ∈ se.archived)

def destGroup : Dest → Option Nat
  | .group g => some g
  | .user _ => none

/-- whom a ciphertext in a stanza on its way to the server is for -/
def IsFor (dest : Dest) (part : Option Acct) (tag : Option Acct) (y : Acct) : Prop :=
  match dest, part with
  | .user b, _ => y = b
  | .group _, some p => y = p
  | .group _, none => tag = some y

/-- a ciphertext made by the client with record `cx`, in a stanza for group `grp` -/
structure CtOK (cx : Client) (grp : Option Nat) (e : Ct) : Prop where
  uncorrupt : e.corrupt = false
  sk : e.kind = .skmsg → ∃ g, grp = some g ∧ lookup cx.ownSK g = some e.sess
  skdm : ∀ g gen, e.plain.skdm = some (g, gen) → grp = some g ∧ lookup cx.ownSK g = some gen
  dist : e.kind ≠ .skmsg → e.plain.content = none → e.plain.skdm.isSome = true

/-- the pairwise ciphertext `e` from `x` to `y` can be opened -/
def PairOK (V : View) (x y : Acct) (e : Ct) : Prop :=
  e.kind ≠ .skmsg → known (V.cl x) y e.sess ∧ (e.kind = .msg → known (V.cl y) x e.sess)

def UpDec (V : View) (x : Acct) : Stanza → Prop
  | .msg _ dest part _ encs _ =>
    ∀ e ∈ encs, CtOK (V.cl x) (destGroup dest) e.2 ∧ ∀ y, IsFor dest part e.1 y → PairOK V x y e.2
  | _ => True

def DownDec (V : View) (y : Acct) : Stanza → Prop
  | .msg id peer part im encs pl =>
    DownShape (.msg id peer part im encs pl) ∧
    ∀ e ∈ encs, CtOK (V.cl (whoOf peer part)) (destGroup peer) e.2 ∧ PairOK V (whoOf peer part) y e.2
  | _ => True

structure DV (groups : List (Nat × List Acct)) (V : View) : Prop where
  p0 : ∀ r, (V.cl r).pendingIn = [] ∧ ∀ e ∈ (V.cl r).iqReg, ∀ p q, e.2 ≠ Cont.keysForPending p q
  d2 : ∀ x y se, lookup (V.cl x).sessions y = some se → se.pendingPre = false → known (V.cl y) x se.cur
  up : ∀ x st, st ∈ V.inb x → UpDec V x st
  down : ∀ y st, st ∈ V.outb y → DownDec V y st
  g2 : ∀ y g x gen, lookup (V.cl y).peerSK (g, x) = some gen → lookup (V.cl x).ownSK g = some gen
  c1 : ∀ a e, e ∈ (V.cl a).iqReg → ∀ n, e.2 = Cont.groupInfo n → ∃ g, n.dest = .group g ∧
    (∀ st ∈ V.inb a, stanzaIq st = some e.1 → st = .getGroup e.1 g) ∧
    (∀ st ∈ V.outb a, stanzaIq st = some e.1 → st = .groupInfo e.1 g ((lookup groups g).getD []))
  c2 : ∀ a e, e ∈ (V.cl a).iqReg → ∀ n all asked, e.2 = Cont.keysForGroup n all asked → ∃ g, n.dest = .group g ∧
    all = ((lookup groups g).getD []).filter (· != a) ∧
    ∀ j ∈ all, (lookup (V.cl a).sessions j).isSome = true ∨ j ∈ asked

/-- sessions and own sender keys only grow -/
def CMonoC (c c' : Client) : Prop :=
  (∀ j σ, known c j σ → known c' j σ) ∧ (∀ g gen, lookup c.ownSK g = some gen → lookup c'.ownSK g = some gen)

theorem CMonoC.rfl' (c : Client) : CMonoC c c := ⟨fun _ _ h => h, fun _ _ h => h⟩

def CMono (V V' : View) : Prop := ∀ z, CMonoC (V.cl z) (V'.cl z)

theorem CtOK.mono {c c' : Client} (h : CMonoC c c') {grp : Option Nat} {e : Ct} (he : CtOK c grp e) : CtOK c' grp e where
  uncorrupt := he.uncorrupt
  sk hk := by obtain ⟨g, h1, h2⟩ := he.sk hk; exact ⟨g, h1, h.2 g _ h2⟩
  skdm g gen hs := ⟨(he.skdm g gen hs).1, h.2 g gen (he.skdm g gen hs).2⟩
  dist := he.dist

theorem PairOK.mono {V V' : View} (h : CMono V V') {x y : Acct} {e : Ct} (he : PairOK V x y e) : PairOK V' x y e := by
  intro hk
  obtain ⟨h1, h2⟩ := he hk
  exact ⟨(h x).1 y _ h1, fun hm => (h y).1 x _ (h2 hm)⟩

theorem UpDec.mono {V V' : View} (h : CMono V V') {x : Acct} {st : Stanza} (hs : UpDec V x st) : UpDec V' x st := by
  cases st with
  | msg id dest part im encs pl =>
    intro e he
    exact ⟨(hs e he).1.mono (h x), fun y hy => ((hs e he).2 y hy).mono h⟩
  | _ => trivial

theorem DownDec.mono {V V' : View} (h : CMono V V') {y : Acct} {st : Stanza} (hs : DownDec V y st) : DownDec V' y st := by
  cases st with
  | msg id peer part im encs pl =>
    refine ⟨hs.1, ?_⟩
    intro e he
    exact ⟨(hs.2 e he).1.mono (h _), (hs.2 e he).2.mono h⟩
  | _ => trivial

/-- the local conditions of a client step for decryptability -/
structure DStepOK (groups : List (Nat × List Acct)) (V : View) (x : Acct) (cons rest : List Stanza) (c' : Client)
    (out : List Stanza) (k : Nat) : Prop where
  hq : V.outb x = cons ++ rest
  mono : CMonoC (V.cl x) c'
  d2 : ∀ j se, lookup c'.sessions j = some se → se.pendingPre = false →
    lookup (V.cl x).sessions j = some se ∨ (j ≠ x ∧ known (V.cl j) x se.cur)
  g2 : ∀ g z gen, lookup c'.peerSK (g, z) = some gen →
    lookup (V.cl x).peerSK (g, z) = some gen ∨ (z ≠ x ∧ lookup (V.cl z).ownSK g = some gen)
  p0 : c'.pendingIn = [] ∧ ∀ e ∈ c'.iqReg, ∀ p q, e.2 ≠ Cont.keysForPending p q
  outOK : ∀ st ∈ out, UpDec ((V.popOut x rest).cstep x c' out k) x st
  c1 : ∀ e ∈ c'.iqReg, ∀ n, e.2 = Cont.groupInfo n → ∃ g, n.dest = .group g ∧
    (∀ st ∈ V.inb x ++ out, stanzaIq st = some e.1 → st = .getGroup e.1 g) ∧
    (∀ st ∈ rest, stanzaIq st = some e.1 → st = .groupInfo e.1 g ((lookup groups g).getD []))
  c2 : ∀ e ∈ c'.iqReg, ∀ n all asked, e.2 = Cont.keysForGroup n all asked → ∃ g, n.dest = .group g ∧
    all = ((lookup groups g).getD []).filter (· != x) ∧ ∀ j ∈ all, (lookup c'.sessions j).isSome = true ∨ j ∈ asked

theorem DV.client_step {groups : List (Nat × List Acct)} {V : View} {x : Acct} {cons rest : List Stanza} {c' : Client}
    {out : List Stanza} {k : Nat} (h : DV groups V) (hs : DStepOK groups V x cons rest c' out k) :
    DV groups ((V.popOut x rest).cstep x c' out k) := by
  have hclx : ((V.popOut x rest).cstep x c' out k).cl x = c' := by simp [View.cstep]
  have hcl : ∀ r, r ≠ x → ((V.popOut x rest).cstep x c' out k).cl r = V.cl r := by
    intro r hr; simp [View.cstep, View.popOut, upd_ne _ _ hr]
  have hmono : CMono V ((V.popOut x rest).cstep x c' out k) := by
    intro z
    by_cases hz : z = x
    · subst hz; rw [hclx]; exact hs.mono
    · rw [hcl z hz]; exact CMonoC.rfl' _
  exact {
    p0 := by
      intro r
      by_cases hr : r = x
      · subst hr; rw [hclx]; exact hs.p0
      · rw [hcl r hr]; exact h.p0 r
    d2 := by
      intro a y se hl hp
      by_cases ha : a = x
      · subst ha
        rw [hclx] at hl
        rcases hs.d2 y se hl hp with h1 | ⟨h1, h2⟩
        · exact (hmono y).1 a _ (h.d2 a y se h1 hp)
        · exact (hmono y).1 a _ h2
      · rw [hcl a ha] at hl
        exact (hmono y).1 a _ (h.d2 a y se hl hp)
    up := by
      intro a st hst
      by_cases ha : a = x
      · subst ha
        have hst : st ∈ V.inb a ++ out := by simpa [View.cstep, View.popOut] using hst
        rcases List.mem_append.mp hst with h1 | h1
        · exact (h.up a st h1).mono hmono
        · exact hs.outOK st h1
      · have hst : st ∈ V.inb a := by simpa [View.cstep, View.popOut, upd_ne _ _ ha] using hst
        exact (h.up a st hst).mono hmono
    down := by
      intro y st hst
      refine (h.down y st ?_).mono hmono
      by_cases hy : y = x
      · subst hy
        have hst : st ∈ rest := by simpa [View.cstep, View.popOut] using hst
        rw [hs.hq]; exact List.mem_append_right _ hst
      · simpa [View.cstep, View.popOut, upd_ne _ _ hy] using hst
    g2 := by
      intro y g z gen hl
      by_cases hy : y = x
      · subst hy
        rw [hclx] at hl
        rcases hs.g2 g z gen hl with h1 | ⟨h1, h2⟩
        · exact (hmono z).2 g gen (h.g2 y g z gen h1)
        · exact (hmono z).2 g gen h2
      · rw [hcl y hy] at hl
        exact (hmono z).2 g gen (h.g2 y g z gen hl)
    c1 := by
      intro a e he n hn
      by_cases ha : a = x
      · subst ha
        rw [hclx] at he
        obtain ⟨g, h1, h2, h3⟩ := hs.c1 e he n hn
        refine ⟨g, h1, ?_, ?_⟩
        · intro st hst; exact h2 st (by simpa [View.cstep, View.popOut] using hst)
        · intro st hst; exact h3 st (by simpa [View.cstep, View.popOut] using hst)
      · rw [hcl a ha] at he
        obtain ⟨g, h1, h2, h3⟩ := h.c1 a e he n hn
        refine ⟨g, h1, ?_, ?_⟩
        · intro st hst; exact h2 st (by simpa [View.cstep, View.popOut, upd_ne _ _ ha] using hst)
        · intro st hst; exact h3 st (by simpa [View.cstep, View.popOut, upd_ne _ _ ha] using hst)
    c2 := by
      intro a e he n all asked hn
      by_cases ha : a = x
      · subst ha
        rw [hclx] at he ⊢
        exact hs.c2 e he n all asked hn
      · rw [hcl a ha] at he ⊢
        exact h.c2 a e he n all asked hn }

/-- the local conditions of a server step -/
structure DSrvOK (groups : List (Nat × List Acct)) (V : View) (x : Acct) (hd : Stanza) (rest : List Stanza)
    (add : Acct → List Stanza) : Prop where
  hq : V.inb x = hd :: rest
  down : ∀ b st, st ∈ add b → DownDec V b st
  c1 : ∀ b st, st ∈ add b → ∀ e ∈ (V.cl b).iqReg, ∀ n, e.2 = Cont.groupInfo n → stanzaIq st = some e.1 →
    ∃ g, n.dest = .group g ∧ st = .groupInfo e.1 g ((lookup groups g).getD [])

theorem DV.server_step {groups : List (Nat × List Acct)} {V : View} {x : Acct} {hd : Stanza} {rest : List Stanza}
    {add : Acct → List Stanza} (h : DV groups V) (hs : DSrvOK groups V x hd rest add) :
    DV groups ((V.popIn x rest).pushes add) := by
  have hmono : CMono V ((V.popIn x rest).pushes add) := fun z => CMonoC.rfl' _
  exact {
    p0 := h.p0
    d2 := h.d2
    up := by
      intro a st hst
      refine (h.up a st ?_).mono hmono
      by_cases ha : a = x
      · subst ha
        have hst : st ∈ rest := by simpa [View.pushes, View.popIn] using hst
        rw [hs.hq]; exact List.mem_cons_of_mem _ hst
      · simpa [View.pushes, View.popIn, upd_ne _ _ ha] using hst
    down := by
      intro y st hst
      have hst : st ∈ V.outb y ++ add y := hst
      rcases List.mem_append.mp hst with h1 | h1
      · exact (h.down y st h1).mono hmono
      · exact (hs.down y st h1).mono hmono
    g2 := h.g2
    c1 := by
      intro a e he n hn
      obtain ⟨g, h1, h2, h3⟩ := h.c1 a e he n hn
      refine ⟨g, h1, ?_, ?_⟩
      · intro st hst hiq
        refine h2 st ?_ hiq
        by_cases ha : a = x
        · subst ha
          have hst : st ∈ rest := by simpa [View.pushes, View.popIn] using hst
          rw [hs.hq]; exact List.mem_cons_of_mem _ hst
        · simpa [View.pushes, View.popIn, upd_ne _ _ ha] using hst
      · intro st hst hiq
        have hst : st ∈ V.outb a ++ add a := hst
        rcases List.mem_append.mp hst with h4 | h4
        · exact h3 st h4 hiq
        · obtain ⟨g', h5, h6⟩ := hs.c1 a st h4 e he n hn hiq
          rw [h1] at h5
          cases h5
          exact h6
    c2 := h.c2 }

end Yow.E2E
