/-
  Token conservation in the E2E system model, part 23: the Prop-valued invariant implies the executable one.
-/
import YowsupVerif.Lemmas.E2ETokRun
namespace Yow.E2E

theorem count_map_flatMap {α β : Type} (g : β → Nat) (f : α → List β) (l : List α) (x : Nat) :
    ((l.flatMap f).map g).count x = sumMap (fun a => ((f a).map g).count x) l := by
  induction l with
  | nil => rfl
  | cons a l ih => simp [List.flatMap_cons, List.count_append, ih]

theorem count_ctsTo (s : Sys) (r : Acct) (x : Nat) :
    ((ctsTo s r).map (·.ctr)).count x = wayV (accounts s) (view s) r x := by
  unfold ctsTo wayV
  rw [List.map_append, List.count_append, count_map_flatMap, count_map_flatMap, sumMap_append]
  have h1 : ∀ st : Stanza, (((ctsOf st).map Prod.snd).map (·.ctr)).count x = nOf x st := by
    intro st; unfold nOf ctrsOf; rw [List.map_map]; rfl
  simp only [h1]
  have h2 : sumMap (nOf x) (parkedAt s r) = pendN x ((view s).cl r).pendingIn := by
    unfold parkedAt pendN
    rw [sumMap_flatMap]
    rfl
  rw [h2]
  congr 1
  apply sumMap_congr
  intro a _
  split
  · rfl
  · rw [count_map_flatMap]
    apply sumMap_congr
    intro st _
    show ((if upGuard (view s).groups r st then ctsFor r st else []).map (·.ctr)).count x = upN (view s).groups r x st
    unfold upN
    split <;> simp

section
variable {ex : Bool} {accts : List Acct} {groups : List (Nat × List Acct)}

theorem TInv.accounts {s : Sys} (h : TInv ex accts groups s) : accounts s = accts := h.2.acc

theorem TInv.client_mem (hn : accts.Nodup) {s : Sys} (h : TInv ex accts groups s) {p : Acct × Client} (hp : p ∈ s.clients) :
    p.1 ∈ accts ∧ getClient s p.1 = p.2 := by
  have hacc : s.clients.map Prod.fst = accts := h.2.acc
  have hnd : keysNodup s.clients := by unfold keysNodup; rw [hacc]; exact hn
  refine ⟨by rw [← hacc]; exact List.mem_map_of_mem hp, ?_⟩
  unfold getClient
  rw [lookup_of_mem hnd hp]
  rfl

theorem mem_allStanzas {s : Sys} {st : Stanza} (h : st ∈ allStanzas s) :
    ∃ a, a ∈ accounts s ∧ (st ∈ queueOf s.inbound a ∨ st ∈ queueOf s.outbound a ∨ st ∈ parkedAt s a) := by
  unfold allStanzas at h
  obtain ⟨a, ha, hst⟩ := List.mem_flatMap.mp h
  refine ⟨a, ha, ?_⟩
  simp only [List.mem_append] at hst
  rcases hst with (h1 | h1) | h1
  · exact Or.inl h1
  · exact Or.inr (Or.inl h1)
  · exact Or.inr (Or.inr h1)

theorem mem_parkedAt {s : Sys} {r : Acct} {st : Stanza} (h : st ∈ parkedAt s r) :
    ∃ e, e ∈ (getClient s r).pendingIn ∧ st ∈ e.2 := by
  unfold parkedAt at h
  exact List.mem_flatMap.mp h

/-- every stanza in the system has undamaged ciphertexts with handed-out nonces, and positive retry counters -/
theorem TInv.stanza_ok {s : Sys} (h : TInv ex accts groups s) {st : Stanza} (hst : st ∈ allStanzas s) :
    CtsOK s.nextCtr st ∧ ∀ id peer part cnt, st = .receipt id peer part (.retry cnt) → 1 ≤ cnt := by
  obtain ⟨a, _, h1 | h1 | h1⟩ := mem_allStanzas hst
  · have := h.2.ups a st h1
    exact ⟨this.cts, this.retry⟩
  · have := h.2.downs a st h1
    exact ⟨this.cts, fun id peer part cnt e => (this.rcpt id peer part _ e).2.2 cnt rfl⟩
  · obtain ⟨e, he, hse⟩ := mem_parkedAt h1
    obtain ⟨⟨id, im, encs, pl, rfl⟩, h2, _⟩ := (h.2.clients a).parked e he st hse
    exact ⟨h2, fun _ _ _ _ e' => by cases e'⟩

theorem tinv_noCorrupt {s : Sys} (h : TInv ex accts groups s) : noCorrupt s = true := by
  unfold noCorrupt allCts
  rw [List.all_eq_true]
  intro ct hct
  obtain ⟨st, hst, hc⟩ := List.mem_flatMap.mp hct
  obtain ⟨e, he, rfl⟩ := List.mem_map.mp hc
  have := ((h.stanza_ok hst).1 e he).1
  simp [this]

theorem tinv_noncesBelow (hn : accts.Nodup) {s : Sys} (h : TInv ex accts groups s) : noncesBelow s = true := by
  unfold noncesBelow allCts
  rw [Bool.and_eq_true, List.all_eq_true, List.all_eq_true]
  constructor
  · intro ct hct
    obtain ⟨st, hst, hc⟩ := List.mem_flatMap.mp hct
    obtain ⟨e, he, rfl⟩ := List.mem_map.mp hc
    have := ((h.stanza_ok hst).1 e he).2
    simpa using this
  · intro p hp
    obtain ⟨_, hcl⟩ := h.client_mem hn hp
    have hcg : ClientGood s.nextCtr (getClient s p.1) := h.2.clients p.1
    rw [hcl] at hcg
    rw [Bool.and_eq_true, List.all_eq_true, List.all_eq_true]
    exact ⟨fun e he => by simpa using hcg.seen e he, fun e he => by simpa using hcg.seenSK e he⟩

theorem tinv_unopened {s : Sys} (h : TInv ex accts groups s) : unopened s = true := by
  unfold unopened
  rw [List.all_eq_true]
  intro r hr
  have hacc := h.accounts
  have hr' : r ∈ accts := by rw [← hacc]; exact hr
  have hu := h.2.unop r hr'
  simp only [Bool.and_eq_true, decide_eq_true_eq, List.all_eq_true]
  constructor
  · rw [List.nodup_iff_count]
    intro x
    rw [count_ctsTo, hacc]
    exact (hu x).1
  · intro x hx
    have hpos : 1 ≤ ((ctsTo s r).map (·.ctr)).count x := List.count_pos_iff.mpr hx
    rw [count_ctsTo, hacc] at hpos
    have := (hu x).2 hpos
    simp only [Bool.and_eq_true, Bool.not_eq_true', List.contains_eq_mem, decide_eq_false_iff_not]
    exact this

end

end Yow.E2E

namespace Yow.E2E

theorem find_append_sk {l : List Ct} {k : Ct} (hl : ∀ c ∈ l, c.kind ≠ .skmsg) (hk : k.kind = .skmsg) :
    firstSk (l ++ [k]) = some k := by
  unfold firstSk
  rw [List.find?_append]
  have : l.find? (fun c => c.kind == EncKind.skmsg) = none := by
    rw [List.find?_eq_none]
    intro c hc
    simpa using hl c hc
  simp [this, hk]

theorem firstPk_append_sk {l : List Ct} {k : Ct} (hk : k.kind = .skmsg) : firstPk (l ++ [k]) = firstPk l := by
  unfold firstPk
  have h1 : (l ++ [k]).find? (fun c => c.kind == EncKind.pkmsg) = l.find? (fun c => c.kind == EncKind.pkmsg) := by
    rw [List.find?_append]
    cases l.find? (fun c => c.kind == EncKind.pkmsg) <;> simp [hk]
  have h2 : (l ++ [k]).find? (fun c => c.kind == EncKind.msg) = l.find? (fun c => c.kind == EncKind.msg) := by
    rw [List.find?_append]
    cases l.find? (fun c => c.kind == EncKind.msg) <;> simp [hk]
  rw [h1, h2]

theorem firstPk_mem {l : List Ct} {c : Ct} (h : firstPk l = some c) : c ∈ l := by
  unfold firstPk at h
  split at h
  · next c' hc' => cases h; exact List.mem_of_find?_eq_some hc'
  · exact List.mem_of_find?_eq_some h

theorem shapeDown_B {l : List Ct} {k : Ct} (hl : ∀ c ∈ l, c.kind ≠ .skmsg ∧ c.plain.content = none)
    (hk1 : k.kind = .skmsg) (hk2 : k.plain.content.isSome = true) : shapeDown true (l ++ [k]) = true := by
  unfold shapeDown
  rw [find_append_sk (fun c hc => (hl c hc).1) hk1, firstPk_append_sk hk1]
  cases hf : firstPk l with
  | none => simp [hk2]
  | some c =>
    have := (hl c (firstPk_mem hf)).2
    simp [hk2, this]

theorem shapeDown_A {encs : List (Option Acct × Ct)} (h : ShapeA encs) (b : Bool) :
    shapeDown b (encs.map Prod.snd) = true ∧ encs.all (fun e => e.1.isNone) = true := by
  obtain ⟨ct, rfl, hk, hc⟩ := h
  refine ⟨?_, by simp⟩
  unfold shapeDown firstSk firstPk
  cases hkind : ct.kind
  · simp [hkind, hc]
  · simp [hkind, hc]
  · exact absurd hkind hk

section
variable {ex : Bool} {accts : List Acct} {groups : List (Nat × List Acct)}

theorem downShape_bool {id : Nat} {peer : Dest} {part : Option Acct} {im : Bool} {encs : List (Option Acct × Ct)}
    {pl : Option Payload} (h : DownShape (.msg id peer part im encs pl)) :
    (shapeDown (isGroupDest peer) (encs.map Prod.snd) && encs.all (fun e => e.1.isNone)) = true := by
  rcases h with h | ⟨hg, l, k, rfl, hk1, hk2, hl⟩
  · obtain ⟨h1, h2⟩ := shapeDown_A h (isGroupDest peer)
    rw [h1, h2]; rfl
  · rw [hg, Bool.and_eq_true]
    constructor
    · rw [List.map_append]
      exact shapeDown_B (l := l.map Prod.snd) (k := k) (by
        intro c hc
        obtain ⟨e, he, rfl⟩ := List.mem_map.mp hc
        exact ⟨(hl e he).2.1, (hl e he).2.2⟩) hk1 hk2
    · rw [List.all_eq_true]
      intro e he
      rcases List.mem_append.mp he with h1 | h1
      · rw [(hl e h1).1]; rfl
      · rw [List.mem_singleton] at h1; subst h1; rfl

theorem tinv_shapes {s : Sys} (h : TInv ex accts groups s) : shapes s = true := by
  unfold shapes
  rw [List.all_eq_true]
  intro r _
  rw [Bool.and_eq_true, List.all_eq_true, List.all_eq_true]
  constructor
  · intro st hst
    have hds : DownShape st := by
      rcases List.mem_append.mp hst with h1 | h1
      · exact (h.2.downs r st h1).shape
      · obtain ⟨e, he, hse⟩ := mem_parkedAt h1
        exact ((h.2.clients r).parked e he st hse).2.2
    cases st with
    | msg id peer part im encs pl => exact downShape_bool hds
    | _ => rfl
  · intro st hst
    have hus := (h.2.ups r st hst).shape
    cases st with
    | msg id dest part im encs pl =>
      cases dest with
      | user b =>
        obtain ⟨hp, hA⟩ := hus
        obtain ⟨h1, h2⟩ := shapeDown_A hA false
        simp only [hp, h1, h2]
        rfl
      | group g =>
        cases part with
        | some p =>
          obtain ⟨h1, h2⟩ := shapeDown_A hus true
          simp only [h1, h2]
          rfl
        | none =>
          obtain ⟨l, k, rfl, hk1, hk2, hl⟩ := hus
          simp only
          rw [List.all_eq_true]
          intro m _
          rw [List.filter_append]
          have : [((none : Option Acct), k)].filter (fun e => e.1 == some m || e.1.isNone) = [(none, k)] := by simp
          rw [this, List.map_append]
          exact shapeDown_B (l := (l.filter (fun e => e.1 == some m || e.1.isNone)).map Prod.snd) (k := k) (by
            intro c hc
            obtain ⟨e, he, rfl⟩ := List.mem_map.mp hc
            have := hl e (List.mem_filter.mp he).1
            exact ⟨this.2.1, this.2.2⟩) hk1 hk2
    | _ => rfl

theorem tinv_conserved {s : Sys} (h : TInv ex accts groups s) : conserved s = true := by
  unfold conserved
  rw [List.all_eq_true]
  intro p hp
  rw [List.all_eq_true]
  intro r hr
  have hg : s.groups = groups := h.1.grp
  rw [intended_eq, hg] at hr
  have := h.2.cons p.1 p.2 hp r hr
  simpa [tokens_eq] using this

theorem tinv_receiptsConserved {s : Sys} (h : TInv true accts groups s) : receiptsConserved s = true := by
  unfold receiptsConserved
  rw [List.all_eq_true]
  intro p hp
  rw [List.all_eq_true]
  intro r hr
  have hg : s.groups = groups := h.1.grp
  rw [intended_eq, hg] at hr
  have := h.2.rcons p.1 p.2 hp r hr
  rw [receiptTokens_eq, shownCount_eq]
  simpa [rcRel] using this

theorem tinv_answerable (hn : accts.Nodup) {s : Sys} (h : TInv ex accts groups s) : answerable s = true := by
  unfold answerable
  rw [List.all_eq_true]
  intro p hp
  obtain ⟨_, hcl⟩ := h.client_mem hn hp
  have ha := h.2.ans p.1
  have e : (view s).cl p.1 = p.2 := hcl
  rw [e] at ha
  rw [Bool.and_eq_true, List.all_eq_true, List.all_eq_true]
  constructor
  · intro e he
    obtain ⟨st, hst, hiq⟩ := ha.1 e he
    rw [List.any_eq_true]
    exact ⟨st, hst, by simpa using hiq⟩
  · intro e he
    obtain ⟨k, hk, hkk⟩ := ha.2 e he
    rw [List.any_eq_true]
    exact ⟨k, hk, by simpa using hkk⟩

theorem tinv_keptForRetry {s : Sys} (h : TInv ex accts groups s) (hlen : s.submitted.length ≤ 100) : keptForRetry s = true := by
  unfold keptForRetry
  rw [List.all_eq_true]
  intro p hp
  rw [List.all_eq_true]
  intro r hr
  have hg : s.groups = groups := h.1.grp
  rw [intended_eq, hg] at hr
  rcases h.2.kept p.1 p.2 hp r hr with h1 | h1 | h1
  case inr.inr =>
    have : 100 < s.submitted.length := h1
    omega
  · rw [inTransit_eq, h1]; rfl
  · have : (getClient s p.1).sentQueue.contains p.2 = true := by simpa using h1
    rw [this]; simp

theorem tinv_receiptsHonest {s : Sys} (h : TInv ex accts groups s) : receiptsHonest s = true := by
  unfold receiptsHonest
  rw [Bool.and_eq_true, List.all_eq_true, List.all_eq_true]
  constructor
  · intro r _
    rw [List.all_eq_true]
    intro st hst
    have := (h.2.ups r st hst).honest
    cases st with
    | receipt id peer part t =>
      cases t with
      | delivery => simpa [shownCount_eq] using this id peer part rfl
      | retry c => rfl
    | _ => rfl
  · intro a _
    rw [List.all_eq_true]
    intro st hst
    have := (h.2.downs a st hst).rcpt
    cases st with
    | receipt id peer part t =>
      cases t with
      | retry c => cases peer <;> cases part <;> rfl
      | delivery =>
        have h1 := (this id peer part _ rfl).2.1 rfl
        cases peer with
        | user r =>
          cases part with
          | none => simpa [shownCount_eq, whoOf] using h1
          | some p => rfl
        | group g =>
          cases part with
          | none => rfl
          | some p => simpa [shownCount_eq, whoOf] using h1
    | _ => rfl

theorem tinv_retriesSane (hn : accts.Nodup) {s : Sys} (h : TInv ex accts groups s) : retriesSane s = true := by
  unfold retriesSane
  rw [Bool.and_eq_true, Bool.and_eq_true, List.all_eq_true, List.all_eq_true, List.all_eq_true]
  refine ⟨⟨?_, ?_⟩, ?_⟩
  · intro st hst
    have := (h.stanza_ok hst).2
    cases st with
    | receipt id peer part t =>
      cases t with
      | delivery => rfl
      | retry c => simpa using this id peer part c rfl
    | _ => rfl
  · intro p hp
    obtain ⟨_, hcl⟩ := h.client_mem hn hp
    have hcg : ClientGood s.nextCtr (getClient s p.1) := h.2.clients p.1
    rw [hcl] at hcg
    rw [List.all_eq_true]
    intro e he
    have := hcg.conts e he
    cases hk : e.2 with
    | keysForRetry n w c => rw [hk] at this; simpa [ContShape] using this
    | _ => rfl
  · intro p hp
    cases hd : p.2.dest with
    | user b => rfl
    | group g =>
      simp only
      rcases h.2.ret3 p.1 p.2 hp g hd with h1 | ⟨e, he, hf⟩
      · have : (lookup (getClient s p.1).ownSK g).isSome = true := h1
        rw [this]; rfl
      · rw [Bool.or_eq_true]
        right
        rw [List.any_eq_true]
        refine ⟨e, he, ?_⟩
        cases hk : e.2 <;> rw [hk] at hf <;> simp only [firstGroupCont] at hf
        · simpa using hf
        · simpa using hf

theorem tinv_queueSane (hn : accts.Nodup) {s : Sys} (h : TInv ex accts groups s) : queueSane s = true := by
  unfold queueSane
  rw [List.all_eq_true]
  intro p hp
  obtain ⟨_, hcl⟩ := h.client_mem hn hp
  have hsl := h.2.slots p.1
  have e : (view s).cl p.1 = p.2 := hcl
  rw [e] at hsl
  have hnd : (p.2.sentQueue.map (·.id)).Nodup := by
    rw [List.nodup_iff_count]
    intro i
    have := hsl i
    unfold sendSlots at this
    rw [sentS_eq_count] at this
    omega
  have hsubm : ∀ m ∈ p.2.sentQueue, (p.1, m) ∈ s.submitted := by
    intro m hm
    have := (h.1.client p.1).sentQ m
    have e2 : ((abs s).cl p.1).sentQueue = p.2.sentQueue := by
      show (getClient s p.1).sentQueue = _
      rw [hcl]
    rw [e2] at this
    exact this hm
  have hle : p.2.sentQueue.length ≤ s.submitted.length := by
    have hsub : p.2.sentQueue.map (·.id) ⊆ s.submitted.map (fun q => q.2.id) := by
      intro i hi
      obtain ⟨m, hm, rfl⟩ := List.mem_map.mp hi
      exact List.mem_map.mpr ⟨(p.1, m), hsubm m hm, rfl⟩
    have := List.Nodup.length_le_of_subset hnd hsub
    simpa using this
  simp [hnd, hle]

theorem tinv_tokInv (hn : accts.Nodup) {s : Sys} (h : TInv true accts groups s) (hlen : s.submitted.length ≤ 100) : tokInv s = true := by
  unfold tokInv
  rw [tinv_conserved h, tinv_receiptsConserved h, tinv_answerable hn h, tinv_noCorrupt h, tinv_noncesBelow hn h, tinv_unopened h,
    tinv_shapes h, tinv_keptForRetry h hlen, tinv_receiptsHonest h, tinv_retriesSane hn h, tinv_queueSane hn h]
  rfl

end

end Yow.E2E
