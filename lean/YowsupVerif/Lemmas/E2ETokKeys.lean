/-
  Token conservation in the E2E system model, part 12: `processKeys` in the functional view; popping a stanza that carries
  nothing.
-/
import YowsupVerif.Lemmas.E2ETokFresh
namespace Yow.E2E

theorem createSession_same (c : Client) (j : Acct) (sid : Nat) : SameBut c (createSession c j sid) ∧
    (createSession c j sid).iqReg = c.iqReg ∧ (lookup (createSession c j sid).sessions j).isSome = true ∧
    (∀ j', (lookup c.sessions j').isSome = true → (lookup (createSession c j sid).sessions j').isSome = true) := by
  refine ⟨⟨rfl, rfl, rfl, rfl, rfl, rfl, rfl, rfl⟩, rfl, ?_, ?_⟩
  · simp [createSession, lookup_insert]
  · intro j' hj'
    simp only [createSession, lookup_insert]
    split
    · rfl
    · exact hj'

theorem processKeys_spec (r : Acct) (got : List Acct) (asked : List Acct) : ∀ (s : Sys), r ∈ (view s).accounts →
    (∀ j, j ∈ asked → j ∈ got) →
    ∃ c1, view (processKeys s r asked got).1 = (view s).cstep r c1 [] (view s).nextCtr ∧
      SameBut (getClient s r) c1 ∧ c1.iqReg = (getClient s r).iqReg ∧
      (∀ j, j ∈ asked → (lookup c1.sessions j).isSome = true) ∧
      (∀ j, (lookup (getClient s r).sessions j).isSome = true → (lookup c1.sessions j).isSome = true) ∧
      (processKeys s r asked got).2 = asked := by
  intro s hr hg
  unfold processKeys
  suffices H : ∀ (l : List Acct) (acc : Sys × List Acct), r ∈ (view acc.1).accounts → (∀ j, j ∈ l → j ∈ got) →
      ∃ c1, view (l.foldl (fun (acc : Sys × List Acct) j =>
          if got.contains j then
            (setClient { acc.1 with nextSess := acc.1.nextSess + 1 } r (createSession (getClient acc.1 r) j acc.1.nextSess), acc.2 ++ [j])
          else (setClient acc.1 r { getClient acc.1 r with skipEnc := (getClient acc.1 r).skipEnc ++ [.user j] }, acc.2)) acc).1
          = (view acc.1).cstep r c1 [] (view acc.1).nextCtr ∧
        SameBut (getClient acc.1 r) c1 ∧ c1.iqReg = (getClient acc.1 r).iqReg ∧
        (∀ j, j ∈ l → (lookup c1.sessions j).isSome = true) ∧
        (∀ j, (lookup (getClient acc.1 r).sessions j).isSome = true → (lookup c1.sessions j).isSome = true) ∧
        (l.foldl (fun (acc : Sys × List Acct) j =>
          if got.contains j then
            (setClient { acc.1 with nextSess := acc.1.nextSess + 1 } r (createSession (getClient acc.1 r) j acc.1.nextSess), acc.2 ++ [j])
          else (setClient acc.1 r { getClient acc.1 r with skipEnc := (getClient acc.1 r).skipEnc ++ [.user j] }, acc.2)) acc).2
          = acc.2 ++ l by
    obtain ⟨c1, h1, h2, h3, h4, h5, h6⟩ := H asked (s, []) hr hg
    exact ⟨c1, h1, h2, h3, h4, h5, by simpa using h6⟩
  intro l
  induction l with
  | nil =>
    intro acc _ _
    refine ⟨getClient acc.1 r, ?_, SameBut.rfl' _, rfl, (fun j hj => by cases hj), (fun _ h => h), by simp⟩
    simp only [List.foldl_nil]
    exact (View.cstep_id (view acc.1) r).symm
  | cons j l ih =>
    intro acc hacc hl
    rw [List.foldl_cons]
    have hj : got.contains j = true := by simpa using hl j (by simp)
    simp only [hj, if_true]
    have hv : view (setClient { acc.1 with nextSess := acc.1.nextSess + 1 } r (createSession (getClient acc.1 r) j acc.1.nextSess))
        = (view acc.1).cstep r (createSession (getClient acc.1 r) j acc.1.nextSess) [] (view acc.1).nextCtr :=
      view_setClient { acc.1 with nextSess := acc.1.nextSess + 1 } r _ hacc
    obtain ⟨c1, h1, h2, h3, h4, h5, h6⟩ := ih
      (setClient { acc.1 with nextSess := acc.1.nextSess + 1 } r (createSession (getClient acc.1 r) j acc.1.nextSess), acc.2 ++ [j])
      (by rw [hv]; exact hacc) (fun j' hj' => hl j' (List.mem_cons_of_mem _ hj'))
    have hgc : getClient (setClient { acc.1 with nextSess := acc.1.nextSess + 1 } r (createSession (getClient acc.1 r) j acc.1.nextSess)) r
        = createSession (getClient acc.1 r) j acc.1.nextSess := by
      rw [getClient_setClient]; simp
    rw [hgc] at h2 h3 h5
    obtain ⟨q1, q2, q3, q4⟩ := createSession_same (getClient acc.1 r) j acc.1.nextSess
    refine ⟨c1, ?_, q1.trans h2, h3.trans q2, ?_, fun j' hj' => h5 j' (q4 j' hj'), ?_⟩
    · rw [h1, hv]
      simp
    · intro j' hj'
      rcases List.mem_cons.mp hj' with e | e
      · subst e; exact h5 j' q3
      · exact h4 j' e
    · rw [h6]; simp

section
variable {ex : Bool} {accts : List Acct} {groups : List (Nat × List Acct)}

/-- the client drops a stanza that carries nothing and that no continuation waits for -/
theorem pop_only {s : Sys} {a : Acct} {hd : Stanza} {rest : List Stanza} (hn : accts.Nodup)
    (hT : TV ex accts groups s.submitted (view s)) (ha : a ∈ accts)
    (hq : queueOf s.outbound a = hd :: rest)
    (hz : ∀ id r, downTok id hd = 0 ∧ retryDownTok id r hd = 0 ∧ rcptOut id r hd = 0 ∧ nOf id hd = 0)
    (hiq : ∀ e ∈ (getClient s a).iqReg, stanzaIq hd ≠ some e.1) :
    TV ex accts groups s.submitted ((view s).popOut a rest) := by
  have hrs : RecipStep accts groups s.submitted (view s) a [hd] rest (getClient s a) [] (view s).nextCtr := {
    hx := ha
    hq := hq
    hk := Nat.le_refl _
    sentQ := rfl
    receipts := rfl
    ownSK := rfl
    contS_eq := fun _ _ => rfl
    slot_eq := fun _ => rfl
    first_keep := fun e he _ _ => he
    iq_new := fun e he => Or.inl he
    cons_plain := by
      intro st hst id r
      rw [List.mem_singleton] at hst; subst hst
      exact ⟨(hz id r).2.1, (hz id r).2.2.1⟩
    out_plain := fun st hst => by cases hst
    shown_mono := fun _ => Nat.le_refl _
    good_c := hT.clients a
    good_out := fun st hst => by cases hst
    cons_R := by
      intro a' n' _ _
      simp only [sumMap_cons, sumMap_nil', (hz n'.id 0).1, view_cl]
      omega
    rcons_R := by
      intro a' n' _ _
      simp only [sumMap_nil']
      show 0 + shownC (getClient s a) n'.id = _
      omega
    ans_iq := by
      intro e he
      refine Or.inl ⟨he, ?_⟩
      intro st hst
      rw [List.mem_singleton] at hst; subst hst
      exact hiq e he
    ans_pend := (hT.ans a).2
    kept_R := by
      intro a' n' _ _
      simp only [sumMap_cons, sumMap_nil', (hz n'.id 0).1]
      show pendS n'.id (getClient s a).pendingIn + 0 ≤ 0 + 0 + pendS n'.id (getClient s a).pendingIn
      omega
    unop_pend := by
      intro m
      show pendN m (getClient s a).pendingIn ≤ _ + pendN m (getClient s a).pendingIn
      omega
    unop_seen := fun m hm => Or.inl hm }
  have := TV.client_step hn hT (hrs.toCStepOK hT)
  have e : ((view s).popOut a rest).cstep a (getClient s a) [] (view s).nextCtr = (view s).popOut a rest :=
    View.cstep_id ((view s).popOut a rest) a
  rw [e] at this
  exact this

end

end Yow.E2E
