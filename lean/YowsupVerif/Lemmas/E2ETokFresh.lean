/-
  Token conservation in the E2E system model, part 10: an unused message id has no tokens anywhere; extending the list of
  submissions the invariant speaks about; the sent queue has room; the shapes of freshly made message stanzas.
-/
import YowsupVerif.Lemmas.E2ETokSrc
namespace Yow.E2E

section
variable {ex : Bool} {accts : List Acct} {groups : List (Nat × List Acct)}

theorem upOK_fresh {sub : List (Acct × Node)} {a : Acct} {st : Stanza} {i : Nat} (h : UpOK groups sub a st)
    (hf : ∀ p ∈ sub, p.2.id ≠ i) (r : Acct) : upTok i r st = 0 ∧ retryUpTok i st = 0 ∧ rcptIn i st = 0 := by
  cases st with
  | msg id dest part im encs pl =>
    obtain ⟨_, n, hn, hid, _⟩ := h
    have : id ≠ i := fun e => hf _ hn (hid.trans e)
    simp [upTok, this]
  | receipt id peer part t =>
    obtain ⟨a', n, hn, hid, _⟩ := h
    have : id ≠ i := fun e => hf _ hn (hid.trans e)
    cases t <;> simp [retryUpTok, rcptIn, deliveryReceiptFrom, this]
  | _ => exact ⟨rfl, rfl, rfl⟩

theorem downOK_fresh {sub : List (Acct × Node)} {a : Acct} {st : Stanza} {i : Nat} (h : DownOK accts groups sub a st)
    (hf : ∀ p ∈ sub, p.2.id ≠ i) (r : Acct) : downTok i st = 0 ∧ retryDownTok i r st = 0 ∧ rcptOut i r st = 0 := by
  cases st with
  | msg id dest part im encs pl =>
    obtain ⟨a', n, hn, hid, _⟩ := h
    have : id ≠ i := fun e => hf _ hn (hid.trans e)
    simp [downTok, this]
  | receipt id peer part t =>
    obtain ⟨n, hn, hid, _⟩ := h
    have : id ≠ i := fun e => hf _ hn (hid.trans e)
    cases t with
    | retry c => simp [retryDownTok, rcptOut, this]
    | delivery =>
      refine ⟨rfl, rfl, ?_⟩
      cases peer <;> cases part <;> simp [rcptOut, this]
  | _ => exact ⟨rfl, rfl, rfl⟩

theorem contOK_fresh {sub : List (Acct × Node)} {a : Acct} {k : Cont} {i : Nat} (h : ContOK accts groups sub a k)
    (hf : ∀ p ∈ sub, p.2.id ≠ i) (r : Acct) : contTok i r k = 0 ∧ slotTok i k = 0 := by
  cases k with
  | keysForSend n => have := hf _ h; simp [contTok, slotTok, this]
  | groupInfo n => have := hf _ h; simp [contTok, slotTok, this]
  | keysForGroup n a b => have := hf _ h.1; simp [contTok, slotTok, this]
  | keysForRetry n w c => have := hf _ h.1; simp [contTok, slotTok, this]
  | keysForPending p q => exact ⟨rfl, rfl⟩

/-- an id that no submission carries has no token, no receipt, no showing and no slot anywhere -/
theorem fresh_zero {s : Sys} (hA : AInv accts groups (abs s)) (hr : ∀ r e, e ∈ (getClient s r).receipts → ∃ p ∈ s.submitted, p.2.id = e.1)
    {i : Nat} (hf : ∀ p ∈ s.submitted, p.2.id ≠ i) (a r : Acct) :
    tokensV (view s) a i r = 0 ∧ receiptTokensV (view s) a i r = 0 ∧ shownC (getClient s r) i = 0 ∧ sendSlots (getClient s a) i = 0 := by
  have hsub : (abs s).submitted = s.submitted := rfl
  have h1 : contS i r (getClient s a).iqReg = 0 :=
    sumMap_eq_zero (fun e he => (contOK_fresh ((hA.client a).conts e.1 e.2 he) (hsub ▸ hf) r).1)
  have h1' : slotS i (getClient s a).iqReg = 0 :=
    sumMap_eq_zero (fun e he => (contOK_fresh ((hA.client a).conts e.1 e.2 he) (hsub ▸ hf) r).2)
  have hin : ∀ b st, st ∈ queueOf s.inbound b → upTok i r st = 0 ∧ retryUpTok i st = 0 ∧ rcptIn i st = 0 :=
    fun b st hst => upOK_fresh (hA.inb_ok b st hst).2.1 (hsub ▸ hf) r
  have hout : ∀ b st, st ∈ queueOf s.outbound b → downTok i st = 0 ∧ retryDownTok i r st = 0 ∧ rcptOut i r st = 0 :=
    fun b st hst => downOK_fresh (hA.outb_ok b st hst).2.1 (hsub ▸ hf) r
  have h2 : sumMap (upTok i r) (queueOf s.inbound a) = 0 := sumMap_eq_zero (fun st hst => (hin a st hst).1)
  have h3 : sumMap (downTok i) (queueOf s.outbound r) = 0 := sumMap_eq_zero (fun st hst => (hout r st hst).1)
  have h4 : pendS i (getClient s r).pendingIn = 0 :=
    sumMap_eq_zero (fun e he => sumMap_eq_zero (fun st hst => (downOK_fresh ((hA.client r).pend e.1 e.2 he st hst) (hsub ▸ hf) r).1))
  have h5 : sumMap (retryUpTok i) (queueOf s.inbound r) = 0 := sumMap_eq_zero (fun st hst => (hin r st hst).2.1)
  have h6 : sumMap (retryDownTok i r) (queueOf s.outbound a) = 0 := sumMap_eq_zero (fun st hst => (hout a st hst).2.1)
  have h7 : shownC (getClient s r) i = 0 := by
    unfold shownC
    rw [List.length_eq_zero_iff, List.filter_eq_nil_iff]
    intro x hx
    obtain ⟨a', n, hn, hid, _⟩ := (hA.client r).shown x hx
    have := hf _ hn
    simp only [beq_iff_eq]
    intro e
    exact this (hid.trans e)
  have h8 : sumMap (rcptIn i) (queueOf s.inbound r) = 0 := sumMap_eq_zero (fun st hst => (hin r st hst).2.2)
  have h9 : sumMap (rcptOut i r) (queueOf s.outbound a) = 0 := sumMap_eq_zero (fun st hst => (hout a st hst).2.2)
  have h10 : rcptGot (getClient s a) i r = 0 := by
    unfold rcptGot
    rw [List.length_eq_zero_iff, List.filter_eq_nil_iff]
    intro e he
    obtain ⟨p, hp, hid⟩ := hr a e he
    have := hf p hp
    have hne : ¬ e.1 = i := fun e' => this (hid.trans e')
    simp [hne]
  have h11 : sentS i (getClient s a).sentQueue = 0 :=
    sumMap_eq_zero (fun m hm => by
      have := hf _ ((hA.client a).sentQ m hm)
      simp only at this
      simp [this])
  refine ⟨?_, ?_, h7, ?_⟩
  · show contS i r (getClient s a).iqReg + sumMap (upTok i r) (queueOf s.inbound a) + sumMap (downTok i) (queueOf s.outbound r)
      + pendS i (getClient s r).pendingIn + sumMap (retryUpTok i) (queueOf s.inbound r)
      + sumMap (retryDownTok i r) (queueOf s.outbound a) + shownC (getClient s r) i = 0
    omega
  · show sumMap (rcptIn i) (queueOf s.inbound r) + sumMap (rcptOut i r) (queueOf s.outbound a) + rcptGot (getClient s a) i r = 0
    omega
  · unfold sendSlots; omega

-- ------------------------------------------------------------------------------------------------ the list of submissions
theorem TV.addSub {L : List (Acct × Node)} {V : View} (h : TV ex accts groups L V) (p : Acct × Node) :
    TV ex accts groups L (V.addSub p) := by
  have hle : V.le (V.addSub p) := ⟨Nat.le_refl _, fun _ _ => Nat.le_refl _, fun q hq => List.mem_append_left _ hq⟩
  exact { h with
    downs := fun r st hst => (h.downs r st hst).mono hle
    kept := fun a n hn r hr => by
      rcases h.kept a n hn r hr with h1 | h1 | h1
      · exact Or.inl h1
      · exact Or.inr (Or.inl h1)
      · refine Or.inr (Or.inr ?_)
        show 100 < (V.submitted ++ [p]).length
        rw [List.length_append]; omega
    retq := fun a e he n w c hc hg => by
      rcases h.retq a e he n w c hc hg with h1 | h1
      · exact Or.inl h1
      · refine Or.inr ?_
        show 100 < (V.submitted ++ [p]).length
        rw [List.length_append]; omega
    rids := fun r e he => by
      obtain ⟨q, hq, hid⟩ := h.rids r e he
      exact ⟨q, List.mem_append_left _ hq, hid⟩ }

theorem TV.extend {L : List (Acct × Node)} {V : View} (h : TV ex accts groups L V) {a : Acct} {n : Node}
    (hneq : ∀ r, r ∈ intendedG groups a n → r ≠ a)
    (hcons : ∀ r, r ∈ intendedG groups a n → tokensV V a n.id r = 1)
    (hrcons : ∀ r, r ∈ intendedG groups a n → receiptTokensV V a n.id r = shownC (V.cl r) n.id)
    (hkept : ∀ r, r ∈ intendedG groups a n → inTransitV V a n.id r = 0 ∨ n ∈ (V.cl a).sentQueue ∨ 100 < V.submitted.length)
    (hret3 : ∀ g, n.dest = .group g → (lookup (V.cl a).ownSK g).isSome = true ∨ ∃ e ∈ (V.cl a).iqReg, firstGroupCont e.2 n.id) :
    TV ex accts groups (L ++ [(a, n)]) V := by
  have key : ∀ {P : Acct → Node → Prop}, (∀ a' n', (a', n') ∈ L → P a' n') → P a n → ∀ a' n', (a', n') ∈ L ++ [(a, n)] → P a' n' := by
    intro P h1 h2 a' n' hm
    rcases List.mem_append.mp hm with h3 | h3
    · exact h1 a' n' h3
    · rw [List.mem_singleton] at h3; cases h3; exact h2
  exact { h with
    neq := key h.neq hneq
    cons := key h.cons hcons
    rcons := key h.rcons (fun r hr => by unfold rcRel; rw [hrcons r hr]; split <;> simp)
    kept := key h.kept hkept
    ret3 := key h.ret3 hret3 }

theorem View.popOut_self (V : View) (x : Acct) : V.popOut x (V.outb x) = V := by
  simp [View.popOut]

-- ------------------------------------------------------------------------------------------------ room in the sent queue
theorem sentS_eq_count (i : Nat) (l : List Node) : sentS i l = (l.map (·.id)).count i := by
  unfold sentS
  induction l with
  | nil => rfl
  | cons m l ih =>
    rw [sumMap_cons, List.map_cons, List.count_cons, ih]
    by_cases h : m.id = i <;> simp [h] <;> omega

/-- the node in hand is not in the sent queue, so there is room for it -/
theorem sentQueue_short {sub : List (Acct × Node)} {c1 : Client} {n : Node} {a : Acct}
    (hslot : ∀ i, sentS i c1.sentQueue + (if n.id = i then 1 else 0) ≤ 1)
    (hq : ∀ m ∈ c1.sentQueue, (a, m) ∈ sub) (hn : (a, n) ∈ sub) (hlen : sub.length ≤ 100) :
    c1.sentQueue.length < 100 := by
  have hnd : ((c1.sentQueue ++ [n]).map (·.id)).Nodup := by
    rw [List.nodup_iff_count]
    intro i
    have := hslot i
    rw [sentS_eq_count] at this
    rw [List.map_append, List.count_append]
    simp only [List.map_cons, List.map_nil, List.count_cons, List.count_nil, beq_iff_eq]
    omega
  have hsub : (c1.sentQueue ++ [n]).map (·.id) ⊆ sub.map (fun p => p.2.id) := by
    intro i hi
    obtain ⟨m, hm, rfl⟩ := List.mem_map.mp hi
    rcases List.mem_append.mp hm with h1 | h1
    · exact List.mem_map.mpr ⟨(a, m), hq m h1, rfl⟩
    · rw [List.mem_singleton] at h1; subst h1
      exact List.mem_map.mpr ⟨(a, m), hn, rfl⟩
  have := List.Nodup.length_le_of_subset hnd hsub
  simp only [List.length_map, List.length_append, List.length_cons, List.length_nil] at this
  omega

-- ------------------------------------------------------------------------------------------------ fresh message stanzas
theorem freshMsg_single {lo : Nat} {id : Nat} {dest : Dest} {part : Option Acct} {im : Bool} {ct : Ct}
    (hk : ct.kind ≠ .skmsg) (hc : ct.plain.content.isSome = true) (hcor : ct.corrupt = false) (hctr : ct.ctr = lo)
    (hd : match dest with | .user _ => part = none | .group _ => part.isSome = true) :
    FreshMsg lo (lo + 1) (.msg id dest part im [(none, ct)] none) where
  cts := by
    intro e he
    have : e = (none, ct) := by simpa [ctsOf] using he
    subst this
    exact ⟨hcor, by simp only; omega⟩
  fresh := by
    intro m hm
    have : m = ct.ctr := by simpa [ctrsOf, ctsOf] using hm
    omega
  nodup := by simp [ctrsOf, ctsOf]
  shape := by
    cases dest with
    | user b =>
      simp only at hd
      exact ⟨hd, ct, rfl, hk, hc⟩
    | group g =>
      simp only at hd
      cases part with
      | none => simp at hd
      | some w => exact ⟨ct, rfl, hk, hc⟩

theorem freshMsg_group {lo len : Nat} {id g : Nat} {im : Bool} {l : List (Option Acct × Ct)} {kct : Ct}
    (hk1 : kct.kind = .skmsg) (hk2 : kct.plain.content.isSome = true) (hk3 : kct.corrupt = false) (hk4 : kct.ctr = lo + len)
    (hl : ∀ e ∈ l, e.1.isSome = true ∧ e.2.kind ≠ .skmsg ∧ e.2.plain.content = none ∧ e.2.corrupt = false ∧
      lo ≤ e.2.ctr ∧ e.2.ctr < lo + len)
    (hnd : (l.map (fun e => e.2.ctr)).Nodup) :
    FreshMsg lo (lo + len + 1) (.msg id (.group g) none im (l ++ [(none, kct)]) none) where
  cts := by
    intro e he
    have he : e ∈ l ++ [(none, kct)] := he
    rcases List.mem_append.mp he with h1 | h1
    · obtain ⟨_, _, _, p4, p5, p6⟩ := hl e h1
      exact ⟨p4, by omega⟩
    · rw [List.mem_singleton] at h1; subst h1
      exact ⟨hk3, by simp only; omega⟩
  fresh := by
    intro m hm
    have hm : m ∈ (l ++ [(none, kct)]).map (fun (e : Option Acct × Ct) => e.2.ctr) := hm
    obtain ⟨e, he, rfl⟩ := List.mem_map.mp hm
    rcases List.mem_append.mp he with h1 | h1
    · exact (hl e h1).2.2.2.2.1
    · rw [List.mem_singleton] at h1; subst h1
      simp only; omega
  nodup := by
    show ((l ++ [(none, kct)]).map (fun (e : Option Acct × Ct) => e.2.ctr)).Nodup
    rw [List.map_append, List.nodup_append]
    refine ⟨hnd, by simp, ?_⟩
    intro a ha b hb e
    simp only [List.map_cons, List.map_nil, List.mem_singleton] at hb
    obtain ⟨e', he', rfl⟩ := List.mem_map.mp ha
    have := (hl e' he').2.2.2.2.2
    omega
  shape := ⟨l, kct, rfl, hk1, hk2, fun e he => ⟨(hl e he).1, (hl e he).2.1, (hl e he).2.2.1⟩⟩

end

end Yow.E2E
