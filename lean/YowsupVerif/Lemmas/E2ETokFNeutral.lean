/-
  Exactly-once with server faults, part 12: client steps that touch neither keys nor sessions (receipts, acks, answers
  nobody waits for, restart).
-/
import YowsupVerif.Lemmas.E2ETokFInv
namespace Yow.E2E

/-- a change of a client record (with emitted stanzas) that does not matter for decryptability -/
structure Neutral (c c' : Client) (out : List Stanza) : Prop where
  sessions : c'.sessions = c.sessions
  peerSK : c'.peerSK = c.peerSK
  ownSK : c'.ownSK = c.ownSK
  pend : c'.pendingIn = c.pendingIn
  seen : c'.seen = c.seen
  seenSK : c'.seenSK = c.seenSK
  shown : c'.shown = c.shown
  iq : ∀ e ∈ c'.iqReg, e ∈ c.iqReg ∨
    ((∀ n, e.2 ≠ Cont.groupInfo n) ∧ (∀ n al aq, e.2 ≠ Cont.keysForGroup n al aq) ∧ ∀ p q, e.2 ≠ Cont.keysForPending p q)
  out : ∀ st ∈ out, (∀ id peer part im encs pl, st ≠ .msg id peer part im encs pl) ∧
    (stanzaIq st = none ∨ stanzaIq st = some c.nextIq)

theorem Neutral.rfl' (c : Client) : Neutral c c [] :=
  ⟨rfl, rfl, rfl, rfl, rfl, rfl, rfl, fun e he => Or.inl he, fun st hst => by cases hst⟩

section
variable {accts : List Acct} {groups : List (Nat × List Acct)}

/-- a neutral client step keeps the fault invariant's decryptability parts -/
theorem neutral_step {s s' : Sys} {x : Acct} {cons rest : List Stanza} {c' : Client} {out : List Stanza}
    (h : FInv accts groups s) (hq : queueOf s.outbound x = cons ++ rest)
    (hcons : ∀ st ∈ cons, ∀ id peer part im encs pl, st ≠ .msg id peer part im encs pl)
    (hv : view s' = ((view s).popOut x rest).cstep x c' out (view s).nextCtr)
    (hn : Neutral (getClient s x) c' out) (hfl : ∀ p, p ∈ s.faulted → p ∈ s'.faulted) :
    DV groups (view s') ∧ GV groups (view s') ∧ DeadOK s' := by
  have hlt : ∀ e ∈ (getClient s x).iqReg, e.1 < (getClient s x).nextIq := fun e he => (h.ainv.client x).iq_lt e.1 e.2 he
  have hcl : ∀ z, getClient s' z = if z = x then c' else getClient s z := by
    intro z
    have : (view s').cl z = upd (getClient s) x c' z := by rw [hv]; rfl
    exact this
  have hout : ∀ z, queueOf s'.outbound z = if z = x then rest else queueOf s.outbound z := by
    intro z
    have : (view s').outb z = upd (fun a => queueOf s.outbound a) x rest z := by rw [hv]; rfl
    exact this
  refine ⟨?_, ?_, ?_⟩
  · rw [hv]
    refine h.dv.neutral hq hn.sessions hn.peerSK hn.ownSK hn.pend hn.iq ?_
    intro st hst
    refine ⟨(hn.out st hst).1, ?_⟩
    intro e he
    rcases (hn.out st hst).2 with h1 | h1
    · rw [h1]; simp
    · rw [h1]
      intro e'
      have := hlt e he
      have : (getClient s x).nextIq = e.1 := Option.some.inj e'
      omega
  · rw [hv]
    exact h.gv.neutral hq hn.peerSK hn.ownSK hcons (fun st hst => (hn.out st hst).1)
  · refine h.dead.mono ?_ hfl ?_ ?_
    · intro z
      rw [hcl z]
      split
      · next e => subst e; exact CGrow.of_eq hn.seen hn.seenSK hn.shown
      · exact CGrow.rfl' _
    · intro y key hk
      rw [hcl y]
      split
      · next e => subst e; rw [hn.peerSK]; exact hk
      · exact hk
    · intro y st hst hd
      rw [hout y] at hst
      rw [hcl y] at hd
      by_cases hy : y = x
      · subst hy
        simp only [if_true] at hst hd
        rw [dead_congr hn.seen hn.seenSK] at hd
        exact ⟨by rw [hq]; exact List.mem_append_right _ hst, hd⟩
      · simp only [hy, if_false] at hst hd
        exact ⟨hst, hd⟩

/-- `onReceipt` is neutral -/
theorem onReceipt_neutral {s : Sys} {a : Acct} (ha : a ∈ (view s).accounts) (id : Nat) (peer : Dest) (part : Option Acct) (t : RType) :
    ∃ c' out, RStep s (onReceipt s a id peer part t) a c' out ∧ Neutral (getClient s a) c' out := by
  unfold onReceipt
  dsimp only
  have hb : ∀ (s1 : Sys) (c1 : Client), a ∈ (view s1).accounts → getClient s1 a = c1 →
      RStep s1 (emit (setClient s1 a { getClient s1 a with receipts := (getClient s1 a).receipts ++ [(id, peer, part, t)] }) a (.ack id 1)) a
        { c1 with receipts := c1.receipts ++ [(id, peer, part, t)] } [.ack id 1] := by
    intro s1 c1 h1 hc
    subst hc
    have r1 := rstep_setClient (s := s1) { getClient s1 a with receipts := (getClient s1 a).receipts ++ [(id, peer, part, t)] } h1
    have r2 := rstep_emit (setClient s1 a { getClient s1 a with receipts := (getClient s1 a).receipts ++ [(id, peer, part, t)] }) a (.ack id 1)
    rw [r1.cl] at r2
    exact r1.trans r2
  split
  · refine ⟨_, _, hb s _ ha rfl, ⟨rfl, rfl, rfl, rfl, rfl, rfl, rfl, fun e he => Or.inl he, ?_⟩⟩
    intro st hst
    rw [List.mem_singleton] at hst; subst hst
    exact ⟨(fun _ _ _ _ _ _ e => by cases e), Or.inl rfl⟩
  · next n hn =>
    generalize hc1 : (if part.isSome = true then getClient s a
      else { getClient s a with sentQueue := (getClient s a).sentQueue.filter (fun m => m.id != id) }) = c1
    have hsame : c1.sessions = (getClient s a).sessions ∧ c1.peerSK = (getClient s a).peerSK ∧ c1.ownSK = (getClient s a).ownSK ∧
        c1.pendingIn = (getClient s a).pendingIn ∧ c1.seen = (getClient s a).seen ∧ c1.seenSK = (getClient s a).seenSK ∧
        c1.shown = (getClient s a).shown ∧ c1.iqReg = (getClient s a).iqReg ∧ c1.nextIq = (getClient s a).nextIq := by
      rw [← hc1]; split <;> exact ⟨rfl, rfl, rfl, rfl, rfl, rfl, rfl, rfl, rfl⟩
    obtain ⟨e1, e2, e3, e4, e5, e6, e7, e8, e9⟩ := hsame
    have r0 := rstep_setClient (s := s) c1 ha
    have hacc1 : a ∈ (view (setClient s a c1)).accounts := by rw [r0.acc]; exact ha
    cases t with
    | delivery =>
      dsimp only
      have r1 := hb (setClient s a c1) c1 hacc1 r0.cl
      refine ⟨_, _, r0.trans r1, ⟨e1, e2, e3, e4, e5, e6, e7, fun e he => Or.inl (by rw [← e8]; exact he), ?_⟩⟩
      intro st hst
      simp only [List.nil_append, List.mem_singleton] at hst; subst hst
      exact ⟨(fun _ _ _ _ _ _ e => by cases e), Or.inl rfl⟩
    | retry count =>
      dsimp only
      have r1 := rstep_emit (setClient s a c1) a (.ack id 1)
      rw [r0.cl] at r1
      have hacc2 : a ∈ (view (emit (setClient s a c1) a (.ack id 1))).accounts := by rw [r1.acc]; exact hacc1
      have hcl2 : getClient (emit (setClient s a c1) a (.ack id 1)) a = c1 := r0.cl
      refine ⟨_, _, (r0.trans r1).trans (view_sendIq _ a _ _ _ hacc2), ?_⟩
      rw [hcl2]
      refine ⟨e1, e2, e3, e4, e5, e6, e7, ?_, ?_⟩
      · intro e he
        have he : e ∈ c1.iqReg ++ [(c1.nextIq, _)] := he
        rcases List.mem_append.mp he with h1 | h1
        · exact Or.inl (by rw [← e8]; exact h1)
        · rw [List.mem_singleton] at h1; subst h1
          exact Or.inr ⟨(fun _ e => by cases e), (fun _ _ _ e => by cases e), (fun _ _ e => by cases e)⟩
      · intro st hst
        simp only [List.nil_append, List.cons_append, List.mem_cons, List.not_mem_nil, or_false] at hst
        rcases hst with rfl | rfl
        · exact ⟨(fun _ _ _ _ _ _ e => by cases e), Or.inl rfl⟩
        · exact ⟨(fun _ _ _ _ _ _ e => by cases e), Or.inr (by rw [← e9]; rfl)⟩

end

end Yow.E2E
