/-
  Token conservation in the E2E system model, part 7: what the send layer's functions do, in the functional view.
-/
import YowsupVerif.Lemmas.E2ETokFrames
namespace Yow.E2E

theorem view_sendEnc (s : Sys) (a : Acct) (c : Client) (n : Node) (encs : List (Option Acct × Ct)) (part : Option Acct)
    (ha : a ∈ (view s).accounts) :
    view (sendEnc s a c n encs part) =
      (view s).cstep a (if part.isNone then enqueueSent c n else c) [.msg n.id n.dest part n.payload.isMedia encs none] (view s).nextCtr := by
  simp only [sendEnc]
  rw [view_emit, view_setClient _ _ _ ha]
  simp

theorem view_sendIq (s : Sys) (a : Acct) (c : Client) (mk : Nat → Stanza) (k : Cont) (ha : a ∈ (view s).accounts) :
    view (sendIq s a c mk k) =
      (view s).cstep a { c with nextIq := c.nextIq + 1, iqReg := c.iqReg ++ [(c.nextIq, k)] } [mk c.nextIq] (view s).nextCtr := by
  simp only [sendIq]
  rw [view_emit, view_setClient _ _ _ ha]
  simp

theorem enqueueSent_eq {c : Client} (n : Node) (h : c.sentQueue.length < 100) :
    enqueueSent c n = { c with sentQueue := c.sentQueue ++ [n] } := by
  unfold enqueueSent
  have : ¬ c.sentQueue.length ≥ 100 := by omega
  simp [this]

theorem sentS_drop_le (i : Nat) (l : List Node) : sentS i (l.drop 1) ≤ sentS i l := by
  cases l with
  | nil => exact Nat.le_refl _
  | cons m l =>
    show sentS i l ≤ sentS i (m :: l)
    unfold sentS
    rw [sumMap_cons]
    omega

/-- the sent queue after a node was put in: the node is there, and nothing was dropped unless the queue was full -/
theorem enqueueSent_q (c : Client) (n : Node) :
    ∃ q, enqueueSent c n = { c with sentQueue := q } ∧ n ∈ q ∧ (∀ m ∈ c.sentQueue, m ∈ q ∨ 100 ≤ c.sentQueue.length) ∧
      ∀ i, sentS i q ≤ sentS i c.sentQueue + (if n.id = i then 1 else 0) := by
  by_cases h : c.sentQueue.length ≥ 100
  · refine ⟨c.sentQueue.drop 1 ++ [n], ?_, by simp, fun m _ => Or.inr h, ?_⟩
    · unfold enqueueSent; simp [h]
    · intro i
      have := sentS_drop_le i c.sentQueue
      unfold sentS at this ⊢
      rw [sumMap_append]
      simp only [sumMap_cons, sumMap_nil']
      omega
  · refine ⟨c.sentQueue ++ [n], ?_, by simp, fun m hm => Or.inl (List.mem_append_left _ hm), ?_⟩
    · unfold enqueueSent; simp [h]
    · intro i
      unfold sentS
      rw [sumMap_append]
      simp only [sumMap_cons, sumMap_nil']
      omega

theorem view_sendToContact (s : Sys) (a : Acct) (c : Client) (n : Node) (peer : Acct) (se : Sess)
    (ha : a ∈ (view s).accounts) (hse : lookup c.sessions peer = some se) :
    view (sendToContact s a c n peer) =
      (view s).cstep a (enqueueSent c n)
        [.msg n.id n.dest none n.payload.isMedia
          [(none, { kind := if se.pendingPre then .pkmsg else .msg, sess := se.cur, ctr := s.nextCtr,
                    plain := { skdm := none, content := some n.payload }, corrupt := false })] none]
        (s.nextCtr + 1) := by
  simp only [sendToContact, encryptFor, hse]
  rw [view_sendEnc _ _ _ _ _ _ (by exact ha)]
  simp

-- ------------------------------------------------------------------------------------------------ own sender key
theorem ownSenderKey_spec (s : Sys) (c : Client) (g : Nat) :
    ∃ sk, (ownSenderKey s c g).2.1 = { c with ownSK := sk } ∧ lookup sk g = some (ownSenderKey s c g).2.2 ∧
      (∀ g', (lookup c.ownSK g').isSome = true → (lookup sk g').isSome = true) ∧
      view (ownSenderKey s c g).1 = view s ∧ (ownSenderKey s c g).1.nextCtr = s.nextCtr := by
  unfold ownSenderKey
  split
  · next gen hgen => exact ⟨c.ownSK, rfl, hgen, fun _ h => h, rfl, rfl⟩
  · next hnone =>
    refine ⟨insert c.ownSK g s.nextGen, rfl, by simp [lookup_insert], ?_, rfl, rfl⟩
    intro g' hg'
    rw [lookup_insert]
    split
    · rfl
    · exact hg'

-- ------------------------------------------------------------------------------------------------ encryptEach
theorem encryptFor_spec {c : Client} {peer : Acct} {plain : Plain} {nonce : Nat} {ct : Ct}
    (h : encryptFor c peer plain nonce = some ct) :
    ct.plain = plain ∧ ct.kind ≠ .skmsg ∧ ct.corrupt = false ∧ ct.ctr = nonce := by
  unfold encryptFor at h
  split at h
  · cases h
  · next se _ =>
    cases h
    refine ⟨rfl, ?_, rfl, rfl⟩
    dsimp only
    split <;> simp

theorem encryptEach_spec (c : Client) (plain : Plain) (l : List Acct) : ∀ nonce,
    (∀ jc ∈ encryptEach c plain nonce l, jc.2.plain = plain ∧ jc.2.kind ≠ .skmsg ∧ jc.2.corrupt = false ∧
      nonce ≤ jc.2.ctr ∧ jc.2.ctr < nonce + l.length) ∧
    ((encryptEach c plain nonce l).map (fun jc => jc.2.ctr)).Nodup := by
  induction l with
  | nil => intro nonce; simp [encryptEach]
  | cons j js ih =>
    intro nonce
    obtain ⟨h1, h2⟩ := ih (nonce + 1)
    unfold encryptEach
    split
    · refine ⟨?_, h2⟩
      intro jc hjc
      obtain ⟨p1, p2, p3, p4, p5⟩ := h1 jc hjc
      refine ⟨p1, p2, p3, by omega, ?_⟩
      simp only [List.length_cons]; omega
    · next ct hct =>
      obtain ⟨q1, q2, q3, q4⟩ := encryptFor_spec hct
      constructor
      · intro jc hjc
        rcases List.mem_cons.mp hjc with e | e
        · subst e
          refine ⟨q1, q2, q3, by simp only; omega, ?_⟩
          simp only [List.length_cons]; omega
        · obtain ⟨p1, p2, p3, p4, p5⟩ := h1 jc e
          refine ⟨p1, p2, p3, by omega, ?_⟩
          simp only [List.length_cons]; omega
      · rw [List.map_cons, List.nodup_cons]
        refine ⟨?_, h2⟩
        intro hm
        obtain ⟨jc, hjc, e⟩ := List.mem_map.mp hm
        have := (h1 jc hjc).2.2.2.1
        simp only at e
        omega

-- ------------------------------------------------------------------------------------------------ group sends
/-- the first send of a group message: sender-key distributions for those in `need` that have a session, then the
    sender-key ciphertext -/
theorem view_sgws_first (s : Sys) (a : Acct) (c : Client) (n : Node) (g : Nat) (need : List Acct) (ha : a ∈ (view s).accounts) :
    ∃ sk l kct,
      view (sendToGroupWithSessions s a c n g need 0) =
        (view s).cstep a (enqueueSent { c with ownSK := sk } n)
          [.msg n.id n.dest none n.payload.isMedia (l ++ [(none, kct)]) none] (s.nextCtr + need.length + 1) ∧
      (lookup sk g).isSome = true ∧ (∀ g', (lookup c.ownSK g').isSome = true → (lookup sk g').isSome = true) ∧
      kct.kind = .skmsg ∧ kct.plain.content = some n.payload ∧ kct.corrupt = false ∧ kct.ctr = s.nextCtr + need.length ∧
      (∀ e ∈ l, e.1.isSome = true ∧ e.2.kind ≠ .skmsg ∧ e.2.plain.content = none ∧ e.2.corrupt = false ∧
        s.nextCtr ≤ e.2.ctr ∧ e.2.ctr < s.nextCtr + need.length) ∧
      (l.map (fun e => e.2.ctr)).Nodup := by
  have heq : sendToGroupWithSessions s a c n g need 0 = sgTail a n g 0 none (sgFirst s c n g need 0 none) := by
    rw [sendToGroupWithSessions_eq]
    cases need with
    | nil => rfl
    | cons j t => cases t <;> rfl
  rw [heq]
  unfold sgFirst
  split
  · next hemp =>
    have hlen : need.length = 0 := by simpa using hemp
    obtain ⟨sk, h1, h2, h3, h4, h5⟩ := ownSenderKey_spec s c g
    refine ⟨sk, [], { kind := .skmsg, sess := (ownSenderKey s c g).2.2, ctr := s.nextCtr, plain := { skdm := none, content := some n.payload }, corrupt := false },
      ?_, by rw [h2]; rfl, h3, rfl, rfl, rfl, by simp [hlen], by simp, by simp⟩
    simp only [sgTail, if_true]
    rw [view_sendEnc _ _ _ _ _ _ (by rw [view_nextCtr]; show a ∈ (view (ownSenderKey s c g).1).accounts; rw [h4]; exact ha)]
    rw [view_nextCtr, h4, h1, h5, hlen]
    simp
  · next hne =>
    obtain ⟨sk, h1, h2, h3, h4, h5⟩ := ownSenderKey_spec s c g
    generalize hos : ownSenderKey s c g = os at h1 h2 h4 h5
    obtain ⟨s', c', gen⟩ := os
    simp only at h1 h2 h4 h5
    subst h1
    obtain ⟨e1, e2⟩ := encryptEach_spec { c with ownSK := sk } { skdm := some (g, gen), content := if 0 > 0 then some n.payload else none } need s'.nextCtr
    -- second call of ownSenderKey finds the key
    have hos2 : ownSenderKey { s' with nextCtr := s'.nextCtr + need.length } { c with ownSK := sk } g
        = ({ s' with nextCtr := s'.nextCtr + need.length }, { c with ownSK := sk }, gen) := by
      unfold ownSenderKey
      simp only [h2]
    refine ⟨sk, (encryptEach { c with ownSK := sk } { skdm := some (g, gen), content := if 0 > 0 then some n.payload else none } s'.nextCtr need).map
        (fun jc => (some jc.1, jc.2)),
      { kind := .skmsg, sess := gen, ctr := s.nextCtr + need.length, plain := { skdm := none, content := some n.payload }, corrupt := false },
      ?_, by rw [h2]; rfl, h3, rfl, rfl, rfl, rfl, ?_, ?_⟩
    · simp only [sgTail, if_true, Option.isSome_none, Bool.false_eq_true, if_false, hos2]
      rw [view_sendEnc _ _ _ _ _ _ (by simp only [view_nextCtr]; show a ∈ (view s').accounts; rw [h4]; exact ha)]
      simp only [view_nextCtr, h4, h5]
      simp [Nat.add_assoc]
    · intro e he
      obtain ⟨jc, hjc, rfl⟩ := List.mem_map.mp he
      obtain ⟨p1, p2, p3, p4, p5⟩ := e1 jc hjc
      rw [h5] at p4 p5
      exact ⟨rfl, p2, by rw [p1]; simp, p3, p4, p5⟩
    · rw [List.map_map]
      exact e2

/-- the resend of a group message to one participant -/
theorem view_sgws_retry (s : Sys) (a : Acct) (c : Client) (n : Node) (g : Nat) (who : Acct) (cnt : Nat) (se : Sess)
    (ha : a ∈ (view s).accounts) (hc : 1 ≤ cnt) (hse : lookup c.sessions who = some se) :
    ∃ sk ct,
      view (sendToGroupWithSessions s a c n g [who] cnt) =
        (view s).cstep a { c with ownSK := sk }
          [.msg n.id n.dest (some who) n.payload.isMedia [(none, ct)] none] (s.nextCtr + 1) ∧
      (lookup sk g).isSome = true ∧ (∀ g', (lookup c.ownSK g').isSome = true → (lookup sk g').isSome = true) ∧
      ct.kind ≠ .skmsg ∧ ct.plain.content = some n.payload ∧ ct.corrupt = false ∧ ct.ctr = s.nextCtr := by
  rw [sendToGroupWithSessions_eq]
  have hpos : cnt > 0 := hc
  have hne : ¬ cnt = 0 := by omega
  simp only [hpos, if_true]
  unfold sgFirst
  simp only [List.isEmpty_cons, Bool.false_eq_true, if_false, Option.isSome_some, if_true, hpos]
  obtain ⟨sk, h1, h2, h3, h4, h5⟩ := ownSenderKey_spec s c g
  generalize hos : ownSenderKey s c g = os at h1 h2 h4 h5
  obtain ⟨s', c', gen⟩ := os
  simp only at h1 h2 h4 h5
  subst h1
  have henc : encryptFor { c with ownSK := sk } who { skdm := some (g, gen), content := some n.payload } s'.nextCtr
      = some { kind := if se.pendingPre then .pkmsg else .msg, sess := se.cur, ctr := s'.nextCtr,
               plain := { skdm := some (g, gen), content := some n.payload }, corrupt := false } := by
    simp [encryptFor, hse]
  let ct0 : Ct := { kind := (if se.pendingPre then EncKind.pkmsg else EncKind.msg), sess := se.cur, ctr := s.nextCtr, plain := { skdm := some (g, gen), content := some n.payload }, corrupt := false }
  refine ⟨sk, ct0, ?_, by rw [h2]; rfl, h3, ?_, rfl, rfl, rfl⟩
  · simp only [sgTail, hne, if_false, encryptEach, henc, List.map_cons, List.map_nil]
    rw [view_sendEnc _ _ _ _ _ _ (by simp only [view_nextCtr]; show a ∈ (view s').accounts; rw [h4]; exact ha)]
    simp only [view_nextCtr, h4, h5]
    simp [ct0]
  · show (if se.pendingPre then EncKind.pkmsg else EncKind.msg) ≠ EncKind.skmsg
    split <;> simp

end Yow.E2E
