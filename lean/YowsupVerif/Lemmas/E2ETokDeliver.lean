/-
  Token conservation in the E2E system model, part 19: a message stanza is delivered; the answer to a key query for
  parked stanzas arrives.
-/
import YowsupVerif.Lemmas.E2ETokRecvStep
namespace Yow.E2E

section
variable {ex : Bool} {accts : List Acct} {groups : List (Nat × List Acct)}

theorem nOf_le_way {V : View} {r : Acct} {st : Stanza} (h : st ∈ V.outb r) (x : Nat) : nOf x st ≤ wayV accts V r x := by
  unfold wayV
  have := sumMap_le_of_mem (f := nOf x) h
  omega

theorem pendN_le_way {V : View} {r : Acct} (x : Nat) : pendN x (V.cl r).pendingIn ≤ wayV accts V r x := by
  unfold wayV; omega

theorem nOf_pos_of_mem {st : Stanza} {e : Option Acct × Ct} (he : e ∈ ctsOf st) : 1 ≤ nOf e.2.ctr st := by
  unfold nOf ctrsOf
  exact List.count_pos_iff.mpr (List.mem_map.mpr ⟨e, he, rfl⟩)

theorem DownShape.nonempty {id : Nat} {peer : Dest} {part : Option Acct} {im : Bool} {encs : List (Option Acct × Ct)}
    {pl : Option Payload} (h : DownShape (.msg id peer part im encs pl)) : encs.isEmpty = false := by
  rcases h with ⟨ct, rfl, _⟩ | ⟨_, l, k, rfl, _⟩
  · rfl
  · cases l <;> rfl

theorem finish_recip {L : List (Acct × Node)} {s s0 s' : Sys} {a : Acct} {cons rest : List Stanza} {c' : Client}
    {out : List Stanza} (hn : accts.Nodup) (hT : TV ex accts groups L (view s))
    (hrs : RecipStep accts groups L (view s) a cons rest c' out (view s).nextCtr)
    (hv0 : view s0 = (view s).popOut a rest) (hv : RStep s0 s' a c' out) : TV ex accts groups L (view s') := by
  have := TV.client_step hn hT (hrs.toCStepOK hT)
  unfold RStep at hv
  rw [hv, hv0]
  exact this

/-- a message stanza is delivered, possibly as a copy `encs'` with the same nonces (damaged in transit) -/
theorem deliver_msg_TV' (hw : WFConfig accts groups) {s : Sys} {a : Acct} {rest : List Stanza} {id : Nat} {peer : Dest}
    {part : Option Acct} {im : Bool} {encs encs' : List (Option Acct × Ct)} {pl : Option Payload}
    (hA : AInv accts groups (abs s)) (hT : TV ex accts groups s.submitted (view s))
    (hq : queueOf s.outbound a = .msg id peer part im encs pl :: rest)
    (hshape' : DownShape (.msg id peer part im encs' pl))
    (hctr : encs'.map (fun e => e.2.ctr) = encs.map (fun e => e.2.ctr))
    (hpark : encs' ≠ encs → ∀ c' out,
      RStep { s with outbound := insert s.outbound a rest }
        (handleEnc { s with outbound := insert s.outbound a rest } a (.msg id peer part im encs' pl)) a c' out →
      ¬ OutC (getClient s a) (.msg id peer part im encs' pl) peer part (whoOf peer part) c' out) :
    TV ex accts groups s.submitted
      (view (clientReceive { s with outbound := insert s.outbound a rest } a (.msg id peer part im encs' pl))) := by
  have hmem : Stanza.msg id peer part im encs pl ∈ (view s).outb a := by
    show _ ∈ queueOf s.outbound a; rw [hq]; simp
  obtain ⟨ha, _, _⟩ := hA.outb_ok a _ hmem
  have hdg := hT.downs a _ hmem
  have hacc : a ∈ (view { s with outbound := insert s.outbound a rest }).accounts := by
    show a ∈ (view s).accounts; rw [hT.acc]; exact ha
  have hgc : getClient { s with outbound := insert s.outbound a rest } a = getClient s a := rfl
  simp only [clientReceive, hshape'.nonempty, Bool.false_eq_true, if_false]
  have hnof : ∀ x, nOf x (.msg id peer part im encs' pl) = nOf x (.msg id peer part im encs pl) := by
    intro x; unfold nOf ctrsOf ctsOf; rw [hctr]
  have hns : ∀ e ∈ encs', e.2.ctr ∉ (getClient s a).seen.map Prod.snd ∧ e.2.ctr ∉ (getClient s a).seenSK.map Prod.snd := by
    intro e he
    have h1 : 1 ≤ nOf e.2.ctr (.msg id peer part im encs' pl) := nOf_pos_of_mem (st := .msg id peer part im encs' pl) he
    rw [hnof] at h1
    have h2 := nOf_le_way (accts := accts) hmem e.2.ctr
    exact ((hT.unop a ha e.2.ctr).2 (by omega))
  obtain ⟨c', out, hstep, hs1, hs2, hres⟩ := handleEnc_spec (s := { s with outbound := insert s.outbound a rest }) hacc
    id peer part im encs' pl hshape'
    (by
      intro ct hct
      obtain ⟨e, he, rfl⟩ := heFirst_mem hct
      rw [hgc]; exact (hns e he).1)
    (by
      intro k hk
      obtain ⟨e, he, rfl⟩ := firstKind_mem hk
      rw [hgc]; exact (hns e he).2)
  rw [hgc] at hs1 hs2 hres
  have hv0 : view { s with outbound := insert s.outbound a rest } = (view s).popOut a rest := view_setOutbound s a rest
  have hlt : ∀ e ∈ encs', e.2.ctr < (view s).nextCtr := by
    intro e he
    have : e.2.ctr ∈ encs'.map (fun e => e.2.ctr) := List.mem_map.mpr ⟨e, he, rfl⟩
    rw [hctr] at this
    obtain ⟨e0, he0, h0⟩ := List.mem_map.mp this
    rw [← h0]
    exact (hdg.cts e0 he0).2
  rcases hres with ⟨hsame, hab, _⟩ | hc
  · have hh := Handled.single (im := im) (pl := pl) hsame hab hs1 hs2
    have hrs := RecipStep.ofHandled (V := view s) (x := a) (cons := [.msg id peer part im encs pl]) (rest := rest) hT ha hq hh
      rfl rfl rfl rfl rfl rfl
      (fun e he => ⟨he, fun st hst => by rw [List.mem_singleton] at hst; subst hst; simp [stanzaIq]⟩)
      (fun e he _ _ => he) (hT.clients a).iqKeys (fun _ _ => rfl) (fun _ => rfl) (fun e he => he) (hT.clients a).pendKeys
      (hT.ans a).2 (fun _ => rfl) (fun x => by simp only [sumMap_cons, sumMap_nil']; rw [hnof]; rfl)
      (fun st hst id' r => by rw [List.mem_singleton] at hst; subst hst; exact ⟨rfl, rfl⟩)
      (fun st hst => by rw [List.mem_singleton] at hst; subst hst; exact hlt)
    exact finish_recip hw.1 hT hrs hv0 hstep
  · -- parking needs the stanza as it was queued
    by_cases hee : encs' = encs
    · subst hee
      have hrs := RecipStep.ofPark (V := view s) (x := a) (rest := rest) hT ha rfl hq
        (fun e he => (hA.client a).iq_lt e.1 e.2 he) hc
      exact finish_recip hw.1 hT hrs hv0 hstep
    · exact absurd hc (hpark hee c' out hstep)

theorem deliver_msg_TV (hw : WFConfig accts groups) {s : Sys} {a : Acct} {rest : List Stanza} {id : Nat} {peer : Dest}
    {part : Option Acct} {im : Bool} {encs : List (Option Acct × Ct)} {pl : Option Payload}
    (hA : AInv accts groups (abs s)) (hT : TV ex accts groups s.submitted (view s))
    (hq : queueOf s.outbound a = .msg id peer part im encs pl :: rest) :
    TV ex accts groups s.submitted
      (view (clientReceive { s with outbound := insert s.outbound a rest } a (.msg id peer part im encs pl))) := by
  have hmem : Stanza.msg id peer part im encs pl ∈ (view s).outb a := by
    show _ ∈ queueOf s.outbound a; rw [hq]; simp
  exact deliver_msg_TV' hw hA hT hq (hT.downs a _ hmem).shape rfl (fun h => absurd rfl h)

end

end Yow.E2E

namespace Yow.E2E

theorem Handled.setPend {c c' : Client} {ms out : List Stanza} (h : Handled c ms c' out) (p : List ((Dest × Option Acct) × List Stanza)) :
    Handled { c with pendingIn := p } ms { c' with pendingIn := p } out where
  same := ⟨h.same.sentQ, h.same.receipts, h.same.ownSK, h.same.iqReg, rfl, h.same.nextIq⟩
  bal := h.bal
  rc := h.rc
  outGood := h.outGood
  outPlain := h.outPlain
  seen := h.seen

/-- the parked stanzas are handled one after the other -/
theorem foldl_handleEnc_spec (a : Acct) (peer : Dest) (part : Option Acct) (ms : List Stanza) : ∀ (s : Sys),
    a ∈ (view s).accounts →
    (∀ st ∈ ms, (∃ id im encs pl, st = .msg id peer part im encs pl) ∧ DownShape st) →
    (lookup (getClient s a).sessions (whoOf peer part)).isSome = true →
    (∀ n, sumMap (nOf n) ms ≤ 1) →
    (∀ n, 1 ≤ sumMap (nOf n) ms → n ∉ (getClient s a).seen.map Prod.snd ∧ n ∉ (getClient s a).seenSK.map Prod.snd) →
    ∃ c' out, RStep s (ms.foldl (fun acc st => handleEnc acc a st) s) a c' out ∧ Handled (getClient s a) ms c' out := by
  induction ms with
  | nil =>
    intro s _ _ _ _ _
    exact ⟨getClient s a, [], RStep.refl' s a, Handled.nil _⟩
  | cons st ms ih =>
    intro s hacc hsh hsess hle hns
    obtain ⟨⟨id, im, encs, pl, rfl⟩, hds⟩ := hsh st (by simp)
    have hn1 : ∀ e ∈ encs, e.2.ctr ∉ (getClient s a).seen.map Prod.snd ∧ e.2.ctr ∉ (getClient s a).seenSK.map Prod.snd := by
      intro e he
      have h1 : 1 ≤ nOf e.2.ctr (.msg id peer part im encs pl) := nOf_pos_of_mem (st := .msg id peer part im encs pl) he
      apply hns
      rw [sumMap_cons]; omega
    obtain ⟨c1, o1, hstep, hs1, hs2, hres⟩ := handleEnc_spec hacc id peer part im encs pl hds
      (by intro ct hct; obtain ⟨e, he, rfl⟩ := heFirst_mem hct; exact (hn1 e he).1)
      (by intro k hk; obtain ⟨e, he, rfl⟩ := firstKind_mem hk; exact (hn1 e he).2)
    rcases hres with ⟨hsame, hab, hmono⟩ | hc
    · have hh1 := Handled.single (im := im) (pl := pl) hsame hab hs1 hs2
      have hcl1 := hstep.cl
      obtain ⟨c2, o2, hstep2, hh2⟩ := ih (handleEnc s a (.msg id peer part im encs pl)) (by rw [hstep.acc]; exact hacc)
        (fun st' hst' => hsh st' (List.mem_cons_of_mem _ hst'))
        (by rw [hcl1]; exact hmono _ hsess)
        (by intro n; have := hle n; rw [sumMap_cons] at this; omega)
        (by
          intro n hn
          rw [hcl1]
          have hle' := hle n
          rw [sumMap_cons] at hle'
          have hz : nOf n (.msg id peer part im encs pl) = 0 := by omega
          have hold := hns n (by rw [sumMap_cons]; omega)
          constructor
          · intro hm
            rcases hh1.seen n (Or.inl hm) with h | h
            · rcases h with h | h
              · exact hold.1 h
              · exact hold.2 h
            · simp only [sumMap_cons, sumMap_nil'] at h; omega
          · intro hm
            rcases hh1.seen n (Or.inr hm) with h | h
            · rcases h with h | h
              · exact hold.1 h
              · exact hold.2 h
            · simp only [sumMap_cons, sumMap_nil'] at h; omega)
      rw [hcl1] at hh2
      refine ⟨c2, o1 ++ o2, ?_, ?_⟩
      · rw [List.foldl_cons]
        exact hstep.trans hstep2
      · exact hh1.trans hh2
    · obtain ⟨_, _, _, _, _, _, _, _, _, _, hno⟩ := hc
      rw [hno] at hsess
      cases hsess

section
variable {ex : Bool} {accts : List Acct} {groups : List (Nat × List Acct)}

theorem sumMap_erase_getD {α : Type} [DecidableEq α] {l : List (α × List Stanza)} (hn : keysNodup l) (f : List Stanza → Nat)
    (hf : f [] = 0) (k : α) :
    sumMap (fun e => f e.2) (erase l k) + f ((lookup l k).getD []) = sumMap (fun e => f e.2) l := by
  have := sumMap_erase hn (fun e => f e.2) k
  cases hl : lookup l k with
  | none => rw [hl] at this; simp only [Option.getD_none, hf]; omega
  | some v => rw [hl] at this; simp only [Option.getD_some]; exact this

/-- the keys of the sender of parked stanzas arrive: the stanzas are handled -/
theorem onIqResult_pending (hw : WFConfig accts groups) {s : Sys} {a : Acct} {hd : Stanza} {rest : List Stanza} {iq : Nat}
    {got ms : List Acct} {peer : Dest} {part : Option Acct}
    (hA : AInv accts groups (abs s)) (hT : TV ex accts groups s.submitted (view s)) (ha : a ∈ accts)
    (hq : queueOf s.outbound a = hd :: rest) (hiq : stanzaIq hd = some iq)
    (hplain : ∀ id r, downTok id hd = 0 ∧ nOf id hd = 0 ∧ rcptOut id r hd = 0 ∧ retryDownTok id r hd = 0)
    (hk0 : lookup (getClient s a).iqReg iq = some (.keysForPending peer part))
    (hgot : ∀ j, j ∈ asked (.keysForPending peer part) → j ∈ got) :
    TV ex accts groups s.submitted (view (onIqResult { s with outbound := insert s.outbound a rest } a iq got ms)) := by
  have hacc : a ∈ (view { s with outbound := insert s.outbound a rest }).accounts := by
    show a ∈ (view s).accounts; rw [hT.acc]; exact ha
  have hcg : ClientGood (view s).nextCtr (getClient s a) := hT.clients a
  have hmem0 : (iq, Cont.keysForPending peer part) ∈ (getClient s a).iqReg := lookup_mem hk0
  have hv0 : view { s with outbound := insert s.outbound a rest } = (view s).popOut a rest := view_setOutbound s a rest
  have hgc : getClient { s with outbound := insert s.outbound a rest } a = getClient s a := rfl
  unfold onIqResult
  simp only [hgc, hk0]
  -- erase the continuation
  have h1 := rstep_setClient (s := { s with outbound := insert s.outbound a rest })
    { getClient s a with iqReg := erase (getClient s a).iqReg iq } hacc
  generalize hs0 : setClient { s with outbound := insert s.outbound a rest } a
      { getClient s a with iqReg := erase (getClient s a).iqReg iq } = s0 at h1
  have hacc0 : a ∈ (view s0).accounts := by rw [h1.acc]; exact hacc
  -- create the session
  obtain ⟨cK, hvK, hsameK, hregK, hsessK, _, hokK⟩ := processKeys_spec a got [whoOf peer part] s0 hacc0 (by
    intro j hj; apply hgot; simpa [asked] using hj)
  rw [h1.cl] at hsameK hregK
  show TV ex accts groups s.submitted (view (if (processKeys s0 a [whoOf peer part] got).2.isEmpty = true
        then (processKeys s0 a [whoOf peer part] got).1
        else processPending (processKeys s0 a [whoOf peer part] got).1 a peer part))
  generalize hpk : processKeys s0 a [whoOf peer part] got = pk at hvK hokK
  obtain ⟨s1, ok⟩ := pk
  simp only at hvK hokK ⊢
  subst hokK
  simp only [List.isEmpty_cons, Bool.false_eq_true, if_false]
  have h2 : RStep s0 s1 a cK [] := hvK
  have hacc1 : a ∈ (view s1).accounts := by rw [h2.acc]; exact hacc0
  have hcl1 : getClient s1 a = cK := h2.cl
  -- handle what was parked
  unfold processPending
  simp only [hcl1]
  have hpendK : cK.pendingIn = (getClient s a).pendingIn := hsameK.pend
  rw [hpendK]
  have hparked : ∀ st ∈ (lookup (getClient s a).pendingIn (peer, part)).getD [], ParkGood (view s).nextCtr (peer, part) st := by
    intro st hst
    obtain ⟨v, hv, hxv⟩ := lookup_getD_mem hst
    exact hcg.parked _ hv st hxv
  have hle : ∀ n, sumMap (nOf n) ((lookup (getClient s a).pendingIn (peer, part)).getD []) ≤ pendN n (getClient s a).pendingIn := by
    intro n
    have := sumMap_erase_getD hcg.pendKeys (fun l => sumMap (nOf n) l) rfl (peer, part)
    unfold pendN
    omega
  obtain ⟨c2, out, h3, hh⟩ := foldl_handleEnc_spec a peer part ((lookup (getClient s a).pendingIn (peer, part)).getD []) s1 hacc1
    (fun st hst => ⟨(hparked st hst).1, (hparked st hst).2.2⟩)
    (by rw [hcl1]; exact hsessK _ (by simp))
    (by
      intro n
      have h4 := hle n
      have h5 := pendN_le_way (accts := accts) (V := view s) (r := a) n
      have h6 := (hT.unop a ha n).1
      have : (view s).cl a = getClient s a := rfl
      rw [this] at h5
      omega)
    (by
      intro n hn
      rw [hcl1, hsameK.seen, hsameK.seenSK]
      have h4 := hle n
      have h5 := pendN_le_way (accts := accts) (V := view s) (r := a) n
      have : (view s).cl a = getClient s a := rfl
      rw [this] at h5
      exact (hT.unop a ha n).2 (by omega))
  rw [hcl1] at hh
  generalize hs2 : List.foldl (fun acc st => handleEnc acc a st) s1 ((lookup (getClient s a).pendingIn (peer, part)).getD []) = s2 at h3
  have hacc2 : a ∈ (view s2).accounts := by rw [h3.acc]; exact hacc1
  have hcl2 : getClient s2 a = c2 := h3.cl
  rw [hcl2]
  have h4 := rstep_setClient (s := s2) { c2 with pendingIn := erase c2.pendingIn (peer, part) } hacc2
  have hfull := ((h1.trans h2).trans h3).trans h4
  have hp2 : c2.pendingIn = (getClient s a).pendingIn := hh.same.pend.trans hpendK
  have hh' := hh.setPend (erase (getClient s a).pendingIn (peer, part))
  rw [hp2] at hfull ⊢
  simp only [List.nil_append, List.append_nil] at hfull
  -- the recipient's step
  have hrs := RecipStep.ofHandled (V := view s) (x := a) (cons := [hd]) (rest := rest) hT ha hq hh'
    hsameK.sentQ hsameK.receipts hsameK.ownSK hsameK.shown hsameK.seen hsameK.seenSK
    (by
      intro e he
      have he : e ∈ cK.iqReg := he
      rw [hregK] at he
      obtain ⟨e1, e2⟩ := mem_erase_iff.mp he
      refine ⟨e1, ?_⟩
      intro st hst
      rw [List.mem_singleton] at hst; subst hst
      rw [hiq]
      exact fun e' => e2 (Option.some.inj e').symm)
    (by
      intro e he i hf
      show e ∈ cK.iqReg
      rw [hregK]
      refine mem_erase_iff.mpr ⟨he, ?_⟩
      intro ei
      have := lookup_of_mem hcg.iqKeys he
      rw [ei, hk0] at this
      have : Cont.keysForPending peer part = e.2 := Option.some.inj this
      rw [← this] at hf
      exact hf)
    (by show keysNodup cK.iqReg; rw [hregK]; exact keysNodup_erase iq hcg.iqKeys)
    (by
      intro id r
      show contS id r cK.iqReg = _
      rw [hregK]
      have := contS_erase hcg.iqKeys hk0 id r
      simp only [contTok, Nat.add_zero] at this
      exact this)
    (by
      intro i
      show slotS i cK.iqReg = _
      rw [hregK]
      have := slotS_erase hcg.iqKeys hk0 i
      simp only [slotTok, Nat.add_zero] at this
      exact this)
    (fun e he => mem_erase he)
    (keysNodup_erase _ hcg.pendKeys)
    (by
      intro e he
      show ∃ k ∈ cK.iqReg, _
      rw [hregK]
      obtain ⟨e1, e2⟩ := mem_erase_iff.mp he
      obtain ⟨k, hk, hkk⟩ := (hT.ans a).2 e e1
      refine ⟨k, mem_erase_iff.mpr ⟨hk, ?_⟩, hkk⟩
      intro ki
      have := lookup_of_mem hcg.iqKeys hk
      rw [ki, hk0] at this
      have : Cont.keysForPending peer part = k.2 := Option.some.inj this
      rw [hkk] at this
      cases this
      exact e2 rfl)
    (by
      intro id
      have := sumMap_erase_getD hcg.pendKeys (fun l => sumMap (downTok id) l) rfl (peer, part)
      simp only [sumMap_cons, sumMap_nil', (hplain id 0).1]
      unfold pendS
      show 0 + 0 + sumMap (fun e => sumMap (downTok id) e.2) (getClient s a).pendingIn = _
      omega)
    (by
      intro n
      have := sumMap_erase_getD hcg.pendKeys (fun l => sumMap (nOf n) l) rfl (peer, part)
      simp only [sumMap_cons, sumMap_nil', (hplain n 0).2.1]
      unfold pendN
      show 0 + 0 + sumMap (fun e => sumMap (nOf n) e.2) (getClient s a).pendingIn = _
      omega)
    (by
      intro st hst id r
      rw [List.mem_singleton] at hst; subst hst
      exact ⟨(hplain id r).2.2.2, (hplain id r).2.2.1⟩)
    (fun st hst e he => ((hparked st hst).2.1 e he).2)
  exact finish_recip hw.1 hT hrs hv0 hfull

end

end Yow.E2E
