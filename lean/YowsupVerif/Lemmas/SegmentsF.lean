/-
  Lemmas about the segment layer's receive loop with upward failures (Model/Segments.lean: peelF, recvF, runF).
-/
import YowsupVerif.Lemmas.Segments
import YowsupVerif.Props.C05
namespace Yow.Segments

/-! ### `peelF` on short buffers, whole frames, proper prefixes of a frame -/

theorem peelF_short (bad : Bytes → Bool) (buf : Bytes) (h : buf.length ≤ 3) :
    peelF bad buf = ([], buf, false) := by
  apply peelF.eq_2
  intro a b c d rest e
  subst e
  simp at h

theorem peelF_cons4_ok (bad : Bytes → Bool) (a b c d : Nat) (rest : Bytes)
    (h : rd24 a b c ≤ (d :: rest).length) :
    peelF bad (a :: b :: c :: d :: rest)
      = if bad ((d :: rest).take (rd24 a b c)) then
          ([(d :: rest).take (rd24 a b c)], (d :: rest).drop (rd24 a b c), true)
        else
          ((d :: rest).take (rd24 a b c) :: (peelF bad ((d :: rest).drop (rd24 a b c))).1,
           (peelF bad ((d :: rest).drop (rd24 a b c))).2.1,
           (peelF bad ((d :: rest).drop (rd24 a b c))).2.2) := by
  rw [peelF.eq_1]; simp only [h, ↓reduceDIte]

theorem peelF_cons4_wait (bad : Bytes → Bool) (a b c d : Nat) (rest : Bytes)
    (h : ¬ rd24 a b c ≤ (d :: rest).length) :
    peelF bad (a :: b :: c :: d :: rest) = ([], a :: b :: c :: d :: rest, false) := by
  rw [peelF.eq_1]; simp only [h, ↓reduceDIte]

/-- One whole frame at the head of the buffer: handed up; a failing one ends the call. -/
theorem peelF_frame (bad : Bytes → Bool) (p rest : Bytes) (h0 : 0 < p.length) (h : p.length < 16777216) :
    peelF bad (frame p ++ rest)
      = if bad p then ([p], rest, true)
        else (p :: (peelF bad rest).1, (peelF bad rest).2.1, (peelF bad rest).2.2) := by
  match p, h0 with
  | d :: t, _ =>
    have hlen : rd24 ((d :: t).length / 65536 % 256) ((d :: t).length / 256 % 256)
        ((d :: t).length % 256) = (d :: t).length := rd24_be24 _ h
    show peelF bad (_ :: _ :: _ :: d :: (t ++ rest)) = _
    have hle : rd24 ((d :: t).length / 65536 % 256) ((d :: t).length / 256 % 256)
        ((d :: t).length % 256) ≤ (d :: (t ++ rest)).length := by
      rw [hlen]; simp
    rw [peelF_cons4_ok bad _ _ _ _ _ hle, hlen]
    have e1 : (d :: (t ++ rest)).take (d :: t).length = d :: t := by
      show ((d :: t) ++ rest).take (d :: t).length = _
      simp
    have e2 : (d :: (t ++ rest)).drop (d :: t).length = rest := by
      show ((d :: t) ++ rest).drop (d :: t).length = _
      simp
    rw [e1, e2]

/-- A proper prefix of one frame holds no complete frame: nothing is handed up, nothing raises. -/
theorem peelF_proper_prefix (bad : Bytes → Bool) (g tail x : Bytes) (hg : 0 < g.length ∧ g.length < 16777216)
    (hx : x ≠ []) (h : tail ++ x = frame g) : peelF bad tail = ([], tail, false) := by
  match tail with
  | [] => exact peelF_short _ _ (by simp)
  | [_] => exact peelF_short _ _ (by simp)
  | [_, _] => exact peelF_short _ _ (by simp)
  | [_, _, _] => exact peelF_short _ _ (by simp)
  | a :: b :: c :: d :: rest =>
    apply peelF_cons4_wait
    have hl := congrArg List.length h
    simp only [frame, be24, List.cons_append, List.nil_append, List.cons.injEq] at h
    obtain ⟨ha, hb, hc, _⟩ := h
    subst ha hb hc
    rw [rd24_be24 _ hg.2]
    have : 0 < x.length := List.length_pos_iff.mpr hx
    simp [frame, be24] at hl
    simp only [List.length_cons]
    omega

theorem stream_nil : stream [] = [] := rfl

theorem stream_cons (f : Bytes) (fs : List Bytes) : stream (f :: fs) = frame f ++ stream fs := by
  simp [stream]

theorem stream_append (a b : List Bytes) : stream (a ++ b) = stream a ++ stream b := by
  simp [stream]

theorem frame_ne_nil (p : Bytes) : frame p ≠ [] := by
  simp [frame, be24]

theorem FramesOK.left {a b : List Bytes} (h : FramesOK (a ++ b)) : FramesOK a :=
  fun g hg => h g (by simp [hg])

theorem FramesOK.right {a b : List Bytes} (h : FramesOK (a ++ b)) : FramesOK b :=
  fun g hg => h g (by simp [hg])

/-- One call on a buffer `x` that is a prefix of the stream of `todo`: it hands up a prefix `d` of `todo` with the rest of the
    stream left; `d` holds exactly one failing frame when the call raised and none otherwise; when it did not raise and the
    whole stream was there, everything has been handed up. -/
theorem peelF_spec (bad : Bytes → Bool) (todo : List Bytes) (hfs : FramesOK todo) (x y : Bytes)
    (h : x ++ y = stream todo) :
    ∃ d t, todo = d ++ t ∧ (peelF bad x).1 = d ∧ (peelF bad x).2.1 ++ y = stream t ∧
      (d.filter bad).length = (if (peelF bad x).2.2 then 1 else 0) ∧
      ((peelF bad x).2.2 = false → y = [] → t = []) := by
  induction todo generalizing x with
  | nil =>
    have hxy : x = [] ∧ y = [] := by simpa [stream] using h
    obtain ⟨rfl, rfl⟩ := hxy
    refine ⟨[], [], rfl, ?_, ?_, ?_, ?_⟩ <;> simp [peelF_short, stream]
  | cons f fs ih =>
    have hf := hfs f (by simp)
    have hrest : FramesOK fs := fun g hg => hfs g (by simp [hg])
    rw [stream_cons] at h
    have key : ∀ c', x = frame f ++ c' → c' ++ y = stream fs →
        ∃ d t, f :: fs = d ++ t ∧ (peelF bad x).1 = d ∧ (peelF bad x).2.1 ++ y = stream t ∧
          (d.filter bad).length = (if (peelF bad x).2.2 then 1 else 0) ∧
          ((peelF bad x).2.2 = false → y = [] → t = []) := by
      intro c' hx hc
      subst hx
      rw [peelF_frame bad f c' hf.1 hf.2]
      cases hb : bad f with
      | false =>
        obtain ⟨d, t, e, p1, p2, p3, p4⟩ := ih hrest c' hc
        refine ⟨f :: d, t, by simp [e], by simp [p1], by simpa using p2, ?_, by simpa using p4⟩
        simp [hb, p3]
      | true =>
        refine ⟨[f], fs, rfl, by simp, by simpa using hc, by simp [hb], by simp⟩
    rcases List.append_eq_append_iff.mp h with ⟨a', h1, h2⟩ | ⟨c', h1, h2⟩
    · by_cases ha : a' = []
      · subst ha
        exact key [] (by simpa using h1.symm) (by rw [h2]; simp)
      · have hp : peelF bad x = ([], x, false) := peelF_proper_prefix bad f x a' hf ha h1.symm
        refine ⟨[], f :: fs, rfl, by simp [hp], ?_, by simp [hp], ?_⟩
        · rw [hp, stream_cons]; simpa using h
        · intro _ hy
          subst hy
          have : a' = [] := by
            have := congrArg List.length h2
            simp at this
            exact List.eq_nil_of_length_eq_zero (by omega)
          exact absurd this ha
    · exact key c' h1 h2.symm

/-! ### the run over chunks -/

theorem runF_append (bad : Bytes → Bool) (s : RunF) (as bs : List Bytes) :
    runF bad s (as ++ bs) = runF bad (runF bad s as) bs := by
  induction as generalizing s with
  | nil => rfl
  | cons a as ih => simp only [List.cons_append, runF]; exact ih _

theorem runF_cons (bad : Bytes → Bool) (buf : Bytes) (done : List Bytes) (r : Nat) (c : Bytes) (cs : List Bytes) :
    runF bad { buf := buf, handed := done, raises := r } (c :: cs)
      = runF bad { buf := (peelF bad (buf ++ c)).2.1, handed := done ++ (peelF bad (buf ++ c)).1,
                   raises := r + (if (peelF bad (buf ++ c)).2.2 then 1 else 0) } cs := rfl

/-- The invariant of the run: a split `todo = d ++ t`, `d` handed up, the buffer plus the bytes not yet arrived is the stream
    of `t`, one raise per failing frame handed up. -/
theorem runF_inv (bad : Bytes → Bool) (cs : List Bytes) (buf : Bytes) (done : List Bytes) (r : Nat)
    (todo : List Bytes) (hfs : FramesOK todo) (tail : Bytes)
    (h : buf ++ (cs.flatten ++ tail) = stream todo) :
    ∃ d t, todo = d ++ t ∧
      (runF bad { buf := buf, handed := done, raises := r } cs).handed = done ++ d ∧
      (runF bad { buf := buf, handed := done, raises := r } cs).buf ++ tail = stream t ∧
      (runF bad { buf := buf, handed := done, raises := r } cs).raises = r + (d.filter bad).length := by
  induction cs generalizing buf done r todo with
  | nil =>
    exact ⟨[], todo, rfl, by simp [runF], by simpa [runF] using h, by simp [runF]⟩
  | cons c cs ih =>
    have h' : (buf ++ c) ++ (cs.flatten ++ tail) = stream todo := by
      simpa [List.append_assoc] using h
    obtain ⟨d1, t1, e1, p1, p2, p3, _⟩ := peelF_spec bad todo hfs (buf ++ c) (cs.flatten ++ tail) h'
    subst e1
    rw [runF_cons]
    obtain ⟨d2, t2, e2, q1, q2, q3⟩ := ih (peelF bad (buf ++ c)).2.1 (done ++ (peelF bad (buf ++ c)).1)
      (r + (if (peelF bad (buf ++ c)).2.2 then 1 else 0)) t1 hfs.right p2
    subst e2
    refine ⟨d1 ++ d2, t2, by simp, ?_, q2, ?_⟩
    · rw [q1, p1]; simp
    · rw [q3, ← p3]; simp; omega

theorem handed_is_prefix (bad : Bytes → Bool) (fs : List Bytes) (hfs : FramesOK fs) (cs : List Bytes) (tail : Bytes)
    (hcs : cs.flatten ++ tail = stream fs) :
    ∃ rest, (runF bad {} cs).handed ++ rest = fs := by
  obtain ⟨d, t, e, p1, _, _⟩ := runF_inv bad cs [] [] 0 fs hfs tail (by simpa using hcs)
  exact ⟨t, by rw [p1, e]; simp⟩

/-- The whole stream of `todo` is there after the chunk `c`; `n` more calls without data, at least one per failing frame. -/
theorem runF_retries (bad : Bytes → Bool) (n : Nat) (buf c : Bytes) (done : List Bytes) (r : Nat)
    (todo : List Bytes) (hfs : FramesOK todo) (h : buf ++ c = stream todo) (hn : (todo.filter bad).length ≤ n) :
    runF bad { buf := buf, handed := done, raises := r } (c :: List.replicate n [])
      = { buf := [], handed := done ++ todo, raises := r + (todo.filter bad).length } := by
  induction n generalizing buf c done r todo with
  | zero =>
    obtain ⟨d, t, e, p1, p2, p3, p4⟩ := peelF_spec bad todo hfs (buf ++ c) [] (by simpa using h)
    subst e
    simp only [List.filter_append, List.length_append] at hn
    have hr : (peelF bad (buf ++ c)).2.2 = false := by
      cases hb : (peelF bad (buf ++ c)).2.2 with
      | false => rfl
      | true => rw [hb] at p3; simp only [↓reduceIte] at p3; omega
    have ht : t = [] := p4 hr rfl
    subst ht
    have p2' : (peelF bad (buf ++ c)).2.1 = [] := by simpa [stream] using p2
    rw [hr] at p3
    simp only [Bool.false_eq_true, ↓reduceIte] at p3
    rw [List.replicate_zero, runF_cons, p2', p1, hr]
    simp [runF, p3]
  | succ n ih =>
    obtain ⟨d, t, e, p1, p2, p3, p4⟩ := peelF_spec bad todo hfs (buf ++ c) [] (by simpa using h)
    subst e
    rw [List.replicate_succ, runF_cons]
    have hcount : (t.filter bad).length ≤ n := by
      cases hb : (peelF bad (buf ++ c)).2.2 with
      | false => rw [p4 hb rfl]; simp
      | true =>
        rw [hb] at p3
        simp only [List.filter_append, List.length_append] at hn
        simp only [↓reduceIte] at p3
        omega
    rw [ih (peelF bad (buf ++ c)).2.1 [] _ _ t hfs.right (by simpa using p2) hcount, p1, ← p3]
    simp [List.filter_append]
    omega

theorem stream_eq_nil {fs : List Bytes} (h : stream fs = []) : fs = [] := by
  cases fs with
  | nil => rfl
  | cons f fs =>
    rw [stream_cons] at h
    exact absurd (List.append_eq_nil_iff.mp h).1 (frame_ne_nil f)

theorem all_handed_after_retries (bad : Bytes → Bool) (fs : List Bytes) (hfs : FramesOK fs) (cs : List Bytes)
    (hcs : cs.flatten = stream fs) (n : Nat) (hn : (fs.filter bad).length ≤ n) :
    runF bad {} (cs ++ List.replicate n []) = { buf := [], handed := fs, raises := (fs.filter bad).length } := by
  rcases List.eq_nil_or_concat cs with rfl | ⟨cs', c, hcc⟩
  · have hfs0 : fs = [] := stream_eq_nil (by simpa using hcs.symm)
    subst hfs0
    cases n with
    | zero => rfl
    | succ n =>
      have := runF_retries bad n [] [] [] 0 [] hfs rfl (by simp)
      simpa [List.replicate_succ] using this
  · rw [List.concat_eq_append] at hcc
    subst hcc
    have hcs' : [] ++ (cs'.flatten ++ c) = stream fs := by simpa using hcs
    obtain ⟨d, t, e, p1, p2, p3⟩ := runF_inv bad cs' [] [] 0 fs hfs c hcs'
    subst e
    rw [List.append_assoc, runF_append]
    have hs : runF bad {} cs' = { buf := (runF bad {} cs').buf, handed := d, raises := (d.filter bad).length } := by
      cases hrun : runF bad {} cs' with
      | mk b hd rs =>
        have e1 : (runF bad { buf := [], handed := [], raises := 0 } cs') = ⟨b, hd, rs⟩ := hrun
        rw [e1] at p1 p3
        simp at p1 p3
        simp [p1, p3]
    rw [hs]
    simp only [List.filter_append, List.length_append] at hn ⊢
    have := runF_retries bad n (runF bad {} cs').buf c d (d.filter bad).length t hfs.right p2 (by omega)
    simpa using this

/-- The whole stream of `todo` is in the buffer; later frames, all good, arrive one per call. -/
theorem runF_later_frames (bad : Bytes → Bool) (gs : List Bytes) (hgs : FramesOK gs) (hgood : ∀ g ∈ gs, bad g = false)
    (done : List Bytes) (r : Nat) (todo : List Bytes) (hfs : FramesOK todo)
    (hn : todo ≠ [] → (todo.filter bad).length < gs.length) :
    runF bad { buf := stream todo, handed := done, raises := r } (gs.map frame)
      = { buf := [], handed := done ++ todo ++ gs, raises := r + (todo.filter bad).length } := by
  induction gs generalizing done r todo with
  | nil =>
    have ht : todo = [] := by
      by_cases h : todo = []
      · exact h
      · exact absurd (hn h) (by simp)
    subst ht
    simp [runF, stream]
  | cons g gs ih =>
    have hg := hgs g (by simp)
    have hgs' : FramesOK gs := fun x hx => hgs x (by simp [hx])
    have hgood' : ∀ x ∈ gs, bad x = false := fun x hx => hgood x (by simp [hx])
    have hbg : bad g = false := hgood g (by simp)
    have hfs' : FramesOK (todo ++ [g]) := by
      intro x hx
      rcases List.mem_append.mp hx with hx | hx
      · exact hfs x hx
      · simp at hx; subst hx; exact hg
    have hstr : stream todo ++ frame g = stream (todo ++ [g]) := by
      rw [stream_append, stream_cons, stream_nil]; simp
    obtain ⟨d, t, e, p1, p2, p3, p4⟩ := peelF_spec bad (todo ++ [g]) hfs' (stream todo ++ frame g) []
      (by simpa using hstr)
    have hcnt : (d.filter bad).length + (t.filter bad).length = (todo.filter bad).length := by
      have := congrArg (fun l => (l.filter bad).length) e
      simp [List.filter_append, hbg] at this
      omega
    have hft : FramesOK t := by rw [e] at hfs'; exact hfs'.right
    have hbuf : (peelF bad (stream todo ++ frame g)).2.1 = stream t := by simpa using p2
    rw [List.map_cons, runF_cons, hbuf]
    have hn' : t ≠ [] → (t.filter bad).length < gs.length := by
      intro htne
      cases hb : (peelF bad (stream todo ++ frame g)).2.2 with
      | false => exact absurd (p4 hb rfl) htne
      | true =>
        rw [hb] at p3
        simp only [↓reduceIte] at p3
        by_cases h0 : todo = []
        · subst h0
          simp only [List.filter_nil, List.length_nil] at hcnt
          omega
        · have := hn h0
          simp only [List.length_cons] at this
          omega
    rw [ih hgs' hgood' _ _ t hft hn', p1, ← p3]
    have e' : d ++ t ++ gs = todo ++ g :: gs := by rw [← e]; simp
    simp only [List.append_assoc] at e' ⊢
    rw [e']
    congr 1
    omega

theorem all_handed_after_later_frames (bad : Bytes → Bool) (fs gs : List Bytes) (hfs : FramesOK fs) (hgs : FramesOK gs)
    (hgood : ∀ g ∈ gs, bad g = false) (cs : List Bytes) (hcs : cs.flatten = stream fs) (hn : (fs.filter bad).length < gs.length) :
    runF bad {} (cs ++ gs.map frame) = { buf := [], handed := fs ++ gs, raises := (fs.filter bad).length } := by
  have hcs' : [] ++ (cs.flatten ++ []) = stream fs := by simpa using hcs
  obtain ⟨d, t, e, p1, p2, p3⟩ := runF_inv bad cs [] [] 0 fs hfs [] hcs'
  subst e
  rw [runF_append]
  have hs : runF bad {} cs = { buf := stream t, handed := d, raises := (d.filter bad).length } := by
    cases hrun : runF bad {} cs with
    | mk b hd rs =>
      have e1 : (runF bad { buf := [], handed := [], raises := 0 } cs) = ⟨b, hd, rs⟩ := hrun
      rw [e1] at p1 p2 p3
      simp at p1 p2 p3
      simp [p1, p2, p3]
  rw [hs]
  simp only [List.filter_append, List.length_append] at hn ⊢
  rw [runF_later_frames bad gs hgs hgood d _ t hfs.right (fun _ => by omega)]

/-! ### no failures: the receive path of C05 -/

theorem peelF_never (buf : Bytes) :
    peelF (fun _ => false) buf = ((peel buf).1, (peel buf).2, false) := by
  induction buf using peel.induct with
  | case1 a b c d rest n hn ih =>
    rw [peel_cons4_ok a b c d rest hn, peelF_cons4_ok _ a b c d rest hn]
    simp only [Bool.false_eq_true, ↓reduceIte]
    rw [ih]
  | case2 a b c d rest n hn =>
    rw [peel_cons4_wait a b c d rest hn, peelF_cons4_wait _ a b c d rest hn]
  | case3 buf hshort =>
    rw [peel.eq_2 buf hshort, peelF.eq_2 _ buf hshort]

theorem runF_never (cs : List Bytes) (buf : Bytes) (acc : List Bytes) :
    runF (fun _ => false) { buf := buf, handed := acc, raises := 0 } cs
      = { buf := (cs.foldl (fun (a : St × List Bytes) c => ((recv a.1 c).1, a.2 ++ (recv a.1 c).2))
                    ({ enabled := true, buf := buf }, acc)).1.buf,
          handed := (cs.foldl (fun (a : St × List Bytes) c => ((recv a.1 c).1, a.2 ++ (recv a.1 c).2))
                    ({ enabled := true, buf := buf }, acc)).2,
          raises := 0 } := by
  induction cs generalizing buf acc with
  | nil => rfl
  | cons c cs ih =>
    have hr : recv { enabled := true, buf := buf } c
        = ({ enabled := true, buf := (peel (buf ++ c)).2 }, (peel (buf ++ c)).1) := by
      simp [recv]
    rw [runF_cons, peelF_never]
    simp only [List.foldl_cons, hr, Bool.false_eq_true, ↓reduceIte, Nat.add_zero]
    exact ih _ _

theorem no_failure_is_run (cs : List Bytes) :
    (runF (fun _ => false) {} cs).handed = (run init cs).2 ∧ (runF (fun _ => false) {} cs).buf = (run init cs).1.buf ∧
    (runF (fun _ => false) {} cs).raises = 0 := by
  have h := runF_never cs [] []
  have e : runF (fun _ => false) {} cs = runF (fun _ => false) { buf := [], handed := [], raises := 0 } cs := rfl
  rw [e, h]
  exact ⟨rfl, rfl, rfl⟩

end Yow.Segments
