import YowsupVerif.Model.Login
namespace Yow.Login

theorem login_fresh (edge : Bool) (s : St) :
    login { resetFirst := true } edge s = ({ segEnabled := true }, fresh edge) := by
  cases edge <;> cases s <;> simp [login, fresh, write]

/-- every login of any history on one stack is a fresh login -/
theorem logins_fresh (s : St) (es : List Bool) :
    logins { resetFirst := true } s es = es.map fresh := by
  induction es generalizing s with
  | nil => rfl
  | cons e es ih => simp [logins, login_fresh, ih]

/-- without the reset the second login writes its prologue as a segment -/
theorem no_reset_second_login_framed :
    logins { resetFirst := false } {} [false, false] = [fresh false, [{ framed := true, piece := .prologue }, { framed := true, piece := .clientHello }]] := by
  decide

end Yow.Login
