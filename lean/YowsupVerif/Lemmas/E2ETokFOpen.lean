/-
  Exactly-once with server faults, part 17: what the two decryptions return for ciphertexts that name a session / key the
  recipient has, undamaged or damaged.
-/
import YowsupVerif.Lemmas.E2ETokFDec
namespace Yow.E2E

theorem known_insert_self {c : Client} {x : Acct} {se : Sess} {σ : Nat} (h : se.cur = σ ∨ σ ∈ se.archived) :
    known { c with sessions := insert c.sessions x se } x σ := by
  refine ⟨se, ?_, h⟩
  simp [lookup_insert]

theorem known_insert_other {c : Client} {x j : Acct} {se : Sess} {σ : Nat} (hj : j ≠ x) (h : known c j σ) :
    known { c with sessions := insert c.sessions x se } j σ := by
  obtain ⟨se0, h1, h2⟩ := h
  refine ⟨se0, ?_, h2⟩
  simp only [lookup_insert, hj, if_false]
  exact h1

/-- an undamaged, unopened pairwise ciphertext whose session the recipient has is opened -/
theorem decrypt_ok_full {c : Client} {x : Acct} {ct : Ct} (hk : ct.kind ≠ .skmsg) (hc : ct.corrupt = false)
    (hs : (ct.sess, ct.ctr) ∉ c.seen) (hm : ct.kind = .msg → known c x ct.sess) :
    ∃ se', decrypt c x ct = ({ c with sessions := insert c.sessions x se', seen := c.seen ++ [(ct.sess, ct.ctr)] }, .ok ct.plain) ∧
      se'.cur = ct.sess ∧ se'.pendingPre = false ∧ ∀ σ, known c x σ → se'.cur = σ ∨ σ ∈ se'.archived := by
  have hs' : c.seen.contains (ct.sess, ct.ctr) = false := by simpa using hs
  cases hkind : ct.kind with
  | skmsg => exact absurd hkind hk
  | pkmsg =>
    unfold decrypt
    simp only [hkind, hc, hs', Bool.false_eq_true, if_false]
    refine ⟨_, rfl, ?_, ?_, ?_⟩
    · split
      · rfl
      · split
        · next e => exact e
        · rfl
    · split
      · rfl
      · split <;> rfl
    · intro σ ⟨se0, h1, h2⟩
      simp only [h1]
      split
      · next e => rcases h2 with h2 | h2
                  · exact Or.inl h2
                  · exact Or.inr h2
      · next e =>
        by_cases hσ : σ = ct.sess
        · exact Or.inl hσ.symm
        · right
          rcases h2 with h2 | h2
          · simp [h2]
          · simp only [List.mem_cons, List.mem_filter, bne_iff_ne, ne_eq]
            exact Or.inr ⟨h2, hσ⟩
  | msg =>
    obtain ⟨se0, h1, h2⟩ := hm hkind
    unfold decrypt
    have hkn : (se0.cur == ct.sess || se0.archived.contains ct.sess) = true := by
      rcases h2 with h2 | h2 <;> simp [h2]
    simp only [hkind, h1, hc, hkn, hs', Bool.false_eq_true, if_false, Bool.not_true]
    refine ⟨_, rfl, ?_, ?_, ?_⟩
    · split
      · next e => exact e
      · rfl
    · split <;> rfl
    · intro σ ⟨se1, h3, h4⟩
      rw [h1] at h3
      cases h3
      split
      · next e => rcases h4 with h4 | h4
                  · exact Or.inl h4
                  · exact Or.inr h4
      · next e =>
        by_cases hσ : σ = ct.sess
        · exact Or.inl hσ.symm
        · right
          rcases h4 with h4 | h4
          · simp [h4]
          · simp only [List.mem_cons, List.mem_filter, bne_iff_ne, ne_eq]
            exact Or.inr ⟨h4, hσ⟩

/-- a damaged pairwise ciphertext (of a session the recipient has) is refused -/
theorem decrypt_corrupt {c : Client} {x : Acct} {ct : Ct} (hk : ct.kind ≠ .skmsg) (hc : ct.corrupt = true)
    (hm : ct.kind = .msg → known c x ct.sess) : decrypt c x ct = (c, .invalid) := by
  cases hkind : ct.kind with
  | skmsg => exact absurd hkind hk
  | pkmsg => unfold decrypt; simp [hkind, hc]
  | msg =>
    obtain ⟨se0, h1, _⟩ := hm hkind
    unfold decrypt
    simp [hkind, h1, hc]

/-- an opened pairwise ciphertext (of a session the recipient has) is recognised -/
theorem decrypt_dup {c : Client} {x : Acct} {ct : Ct} (hk : ct.kind ≠ .skmsg) (hc : ct.corrupt = false)
    (hs : (ct.sess, ct.ctr) ∈ c.seen) (hm : ct.kind = .msg → known c x ct.sess) : decrypt c x ct = (c, .duplicate) := by
  have hs' : c.seen.contains (ct.sess, ct.ctr) = true := by simpa using hs
  cases hkind : ct.kind with
  | skmsg => exact absurd hkind hk
  | pkmsg => unfold decrypt; simp [hkind, hc, hs]
  | msg =>
    obtain ⟨se0, h1, h2⟩ := hm hkind
    unfold decrypt
    rcases h2 with h2 | h2 <;> simp [hkind, h1, hc, h2, hs]

theorem groupDecrypt_ok_full {c : Client} {g : Nat} {x : Acct} {k : Ct} (hp : lookup c.peerSK (g, x) = some k.sess)
    (hc : k.corrupt = false) (hs : (k.sess, k.ctr) ∉ c.seenSK) :
    groupDecrypt c g x k = ({ c with seenSK := c.seenSK ++ [(k.sess, k.ctr)] }, .ok k.plain) := by
  unfold groupDecrypt
  simp [hp, hc, hs]

theorem groupDecrypt_dup {c : Client} {g : Nat} {x : Acct} {k : Ct} (hp : lookup c.peerSK (g, x) = some k.sess)
    (hc : k.corrupt = false) (hs : (k.sess, k.ctr) ∈ c.seenSK) : groupDecrypt c g x k = (c, .duplicate) := by
  unfold groupDecrypt
  simp [hp, hc, hs]

theorem groupDecrypt_corrupt {c : Client} {g : Nat} {x : Acct} {k : Ct} (hc : k.corrupt = true) :
    groupDecrypt c g x k = (c, .invalid) ∨ groupDecrypt c g x k = (c, .noSession) := by
  unfold groupDecrypt
  cases lookup c.peerSK (g, x) with
  | none => exact Or.inr rfl
  | some gen => left; simp [hc]

/-- the kind of the ciphertext opened first is pairwise -/
theorem heFirst_kind {encs : List (Option Acct × Ct)} {ct : Ct} (h : heFirst encs = some ct) : ct.kind ≠ .skmsg := by
  unfold heFirst at h
  split at h
  · next c' hc' =>
    cases h
    unfold firstKind at hc'
    cases hf : encs.find? (fun e => e.2.kind == .pkmsg) with
    | none => rw [hf] at hc'; cases hc'
    | some e =>
      rw [hf] at hc'; cases hc'
      have := List.find?_some hf
      simp only [beq_iff_eq] at this
      rw [this]; simp
  · unfold firstKind at h
    cases hf : encs.find? (fun e => e.2.kind == .msg) with
    | none => rw [hf] at h; cases h
    | some e =>
      rw [hf] at h; cases h
      have := List.find?_some hf
      simp only [beq_iff_eq] at this
      rw [this]; simp

end Yow.E2E
