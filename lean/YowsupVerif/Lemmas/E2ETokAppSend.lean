/-
  Token conservation in the E2E system model, part 11: the application submits a message (`appSend a n`).
-/
import YowsupVerif.Lemmas.E2ETokFresh
namespace Yow.E2E

section
variable {ex : Bool} {accts : List Acct} {groups : List (Nat × List Acct)}

theorem Src.ofNew {s : Sys} {a : Acct} {n : Node}
    (hA : AInv accts groups (abs s)) (hT : TV ex accts groups s.submitted (view s)) (ha : a ∈ accts)
    (hf : ∀ p ∈ s.submitted, p.2.id ≠ n.id) :
    Src accts groups s.submitted ((view s).addSub (a, n)) a [] ((view s).outb a) (getClient s a) n none := by
  have hcg : ClientGood (view s).nextCtr (getClient s a) := hT.clients a
  exact {
    hx := ha
    hq := rfl
    uniq := fun n' hn' e => absurd e (hf _ hn')
    pend := rfl
    shown := rfl
    seen := rfl
    seenSK := rfl
    receipts := rfl
    ownSK := rfl
    cons_plain := fun st hst => by cases hst
    conts := hcg.conts
    iqKeys := hcg.iqKeys
    iq_lt := fun e he => (hA.client a).iq_lt e.1 e.2 he
    tok := by
      intro n' hn' r _
      have : ¬ n.id = n'.id := fun e => hf _ hn' e.symm
      simp only [handTok, this, false_and, if_false, sumMap_nil']
      rfl
    slot := by
      intro i
      unfold handSlot
      by_cases hi : n.id = i
      · subst hi
        have := (fresh_zero hA (hT.rids) hf a a).2.2.2
        simp only [true_or, and_self, if_true]
        omega
      · have := hT.slots a i
        simp only [hi, false_and, if_false]
        exact this
    iq_sub := fun e he => ⟨he, fun st hst => by cases hst⟩
    pend_ok := (hT.ans a).2
    kept := by
      intro n' hn' r hr
      simp only [sumMap_nil']
      exact (hT.addSub (a, n)).kept a n' hn' r hr
    kept_hand := fun hn' => absurd rfl (hf _ hn')
    ret3 := by
      intro n' hn' g hg
      rcases hT.ret3 a n' hn' g hg with h1 | h1
      · exact Or.inl h1
      · exact Or.inr (Or.inl h1)
    retq := (hT.addSub (a, n)).retq a }

/-- the four counted quantities of a new submission after the sending client's step -/
theorem new_pair {s : Sys} {a : Acct} {n : Node} (hA : AInv accts groups (abs s)) (hT : TV ex accts groups s.submitted (view s))
    (hf : ∀ p ∈ s.submitted, p.2.id ≠ n.id) (c' : Client) (out : List Stanza) (k : Nat) {r : Acct} (hr : r ≠ a) :
    tokensV (((view s).addSub (a, n)).cstep a c' out k) a n.id r = contS n.id r c'.iqReg + sumMap (upTok n.id r) out ∧
    inTransitV (((view s).addSub (a, n)).cstep a c' out k) a n.id r = sumMap (upTok n.id r) out ∧
    receiptTokensV (((view s).addSub (a, n)).cstep a c' out k) a n.id r = rcptGot c' n.id r ∧
    shownC ((((view s).addSub (a, n)).cstep a c' out k).cl r) n.id = 0 := by
  obtain ⟨z1, z2, z3, z4⟩ := fresh_zero hA hT.rids hf a r
  have d1 := tokensV_cstep ((view s).addSub (a, n)) a c' out k a n.id r
  have d2 := inTransitV_cstep ((view s).addSub (a, n)) a c' out k a n.id r
  have d3 := receiptTokensV_cstep ((view s).addSub (a, n)) a c' out k a n.id r
  have e1 : tokensV ((view s).addSub (a, n)) a n.id r = 0 := z1
  have e2 : receiptTokensV ((view s).addSub (a, n)) a n.id r = 0 := z2
  have e3 : inTransitV ((view s).addSub (a, n)) a n.id r = 0 := by
    have := tokens_split ((view s).addSub (a, n)) a n.id r
    omega
  have e4 : contS n.id r (((view s).addSub (a, n)).cl a).iqReg = 0 := by
    have := tokens_split ((view s).addSub (a, n)) a n.id r
    omega
  have e5 : rcptGot (((view s).addSub (a, n)).cl a) n.id r = 0 := by
    unfold receiptTokensV at e2
    omega
  simp only [hr, if_false, if_true] at d1 d2 d3
  refine ⟨by omega, by omega, by omega, ?_⟩
  have : (((view s).addSub (a, n)).cstep a c' out k).cl r = getClient s r := by
    simp [View.cstep, View.addSub, upd_ne _ _ hr]
  rw [this]
  exact z3

theorem appSend_TInv' (hw : WFConfig accts groups) {s : Sys} {a : Acct} {n : Node}
    (h : TInv ex accts groups s) (hall : Allowed s (.appSend a n) = true) :
    TInv ex accts groups (step s (.appSend a n)) := by
  obtain ⟨hA, hT⟩ := h
  have hA' := step_inv hA hall
  refine ⟨hA', ?_⟩
  simp only [Allowed, Bool.and_eq_true, Bool.not_eq_true'] at hall
  obtain ⟨⟨hra, hid⟩, hdest⟩ := hall
  have ha : a ∈ accts := (hA.reg a).mp hra
  have hg : s.groups = groups := hA.grp
  have hf : ∀ p ∈ s.submitted, p.2.id ≠ n.id := by
    intro p hp e
    have : n.id ∈ usedIds s := List.mem_map.mpr ⟨p, hp, e⟩
    have hc : (usedIds s).contains n.id = true := by simpa using this
    rw [hc] at hid
    cases hid
  have hneq : ∀ r, r ∈ intendedG groups a n → r ≠ a := by
    intro r hr
    unfold intendedG at hr
    split at hdest
    · next b hb =>
      rw [hb] at hr
      simp only [List.mem_singleton] at hr
      subst hr
      simp only [Bool.and_eq_true, bne_iff_ne] at hdest
      exact hdest.2
    · next g hgd =>
      rw [hgd] at hr
      have := (List.mem_filter.mp hr).2
      simpa using this
  have hacc : a ∈ (view s).accounts := by rw [hT.acc]; exact ha
  have hsrc := Src.ofNew hA hT ha hf
  have hTa := hT.addSub (a, n)
  -- the state after the submission
  have hsub' : (step s (.appSend a n)).submitted = s.submitted ++ [(a, n)] := by
    have hadd : AInv accts groups (abs { s with submitted := s.submitted ++ [(a, n)] }) := by
      rw [abs_addSub]
      refine hA.addSub ha ?_ (fun p hp => hf p hp)
      intro r hr
      unfold intendedG at hr
      split at hdest
      · next b hb =>
        rw [hb] at hr
        simp only [List.mem_singleton] at hr
        subst hr
        simp only [Bool.and_eq_true] at hdest
        exact (hA.reg r).mp hdest.1
      · next g hgd =>
        rw [hgd] at hr
        simp only [Bool.and_eq_true, List.all_eq_true] at hdest
        have hr' := (List.mem_filter.mp hr).1
        rw [← hg] at hr'
        exact (hA.reg r).mp (hdest.2 r hr')
    exact (sendLayerSend_good (s := { s with submitted := s.submitted ++ [(a, n)] }) hadd ha (by simp)).2
  rw [hsub']
  -- what the send layer does
  have hskip : (getClient s a).skipEnc = [] := (hA.client a).skip
  have hstep : step s (.appSend a n) = processPlaintext { s with submitted := s.submitted ++ [(a, n)] } a (getClient s a) n none := by
    simp only [step, sendLayerSend]
    have : getClient { s with submitted := s.submitted ++ [(a, n)] } a = getClient s a := rfl
    rw [this, hskip]
    simp
  rw [hstep]
  have hacc1 : a ∈ (view { s with submitted := s.submitted ++ [(a, n)] }).accounts := hacc
  have hn1 : (a, n) ∈ s.submitted ++ [(a, n)] := by simp
  -- finishing: from the sender's step to the invariant over all submissions
  have finish : ∀ (c' : Client) (out : List Stanza) (k : Nat),
      SenderStep accts groups s.submitted ((view s).addSub (a, n)) a [] ((view s).outb a) c' out k →
      (∀ r, r ∈ intendedG groups a n → contS n.id r c'.iqReg + sumMap (upTok n.id r) out = 1) →
      (∀ r, rcptGot c' n.id r = 0) →
      (sumMap (upTok n.id 0) out = 0 ∧ (∀ r, sumMap (upTok n.id r) out = 0) ∨ n ∈ c'.sentQueue) →
      (∀ g, n.dest = .group g → (lookup c'.ownSK g).isSome = true ∨ ∃ e ∈ c'.iqReg, firstGroupCont e.2 n.id) →
      TV ex accts groups (s.submitted ++ [(a, n)]) (((view s).addSub (a, n)).cstep a c' out k) := by
    intro c' out k hss htok hrc hk3 hr3
    have h1 := TV.client_step hw.1 hTa (hss.toCStepOK hTa)
    rw [show ((view s).addSub (a, n)).popOut a ((view s).outb a) = (view s).addSub (a, n) from View.popOut_self _ _] at h1
    have hclx : (((view s).addSub (a, n)).cstep a c' out k).cl a = c' := by simp
    refine h1.extend hneq ?_ ?_ ?_ ?_
    · intro r hr
      rw [(new_pair hA hT hf c' out k (hneq r hr)).1]
      exact htok r hr
    · intro r hr
      obtain ⟨_, _, p3, p4⟩ := new_pair hA hT hf c' out k (hneq r hr)
      rw [p3, p4]
      exact hrc r
    · intro r hr
      rw [(new_pair hA hT hf c' out k (hneq r hr)).2.1, hclx]
      rcases hk3 with ⟨_, h2⟩ | h2
      · exact Or.inl (h2 r)
      · exact Or.inr (Or.inl h2)
    · intro g hgd
      rw [hclx]
      exact hr3 g hgd
  have hrc0 : ∀ r, rcptGot (getClient s a) n.id r = 0 := by
    intro r
    have := (fresh_zero hA hT.rids hf a r).2.1
    unfold receiptTokensV at this
    have e : (view s).cl a = getClient s a := rfl
    rw [e] at this
    omega
  have hcont0 : ∀ r, contS n.id r (getClient s a).iqReg = 0 := by
    intro r
    have := (fresh_zero hA hT.rids hf a r).1
    rw [tokens_split] at this
    have e : (view s).cl a = getClient s a := rfl
    rw [e] at this
    omega
  have hroom : (getClient s a).sentQueue.length < 100 ∨ 100 < (((view s).addSub (a, n)).submitted).length := by
    by_cases h100 : (s.submitted ++ [(a, n)]).length ≤ 100
    case neg =>
      right
      show 100 < (s.submitted ++ [(a, n)]).length
      omega
    left
    refine sentQueue_short (sub := s.submitted ++ [(a, n)]) (a := a) (n := n) ?_ ?_ hn1 h100
    · intro i
      have h1 := hsrc.slot i
      unfold sendSlots handSlot at h1
      by_cases hi : n.id = i
      · simp only [hi, true_or, and_self, if_true] at h1 ⊢; omega
      · simp only [hi, false_and, if_false] at h1 ⊢; omega
    · intro m hm
      exact List.mem_append_left _ ((hA.client a).sentQ m hm)
  unfold processPlaintext
  split
  · next g hgd =>
    -- group message
    unfold sendToGroup
    split
    · next hnone =>
      rw [view_sendIq _ _ _ _ _ hacc1]
      have hss := hsrc.toCont hTa (.groupInfo n) [] (.getGroup (getClient s a).nextIq g) (fun p hp => by cases hp)
        (PlainUp.getGroup _ _) rfl (fun id r => by simp [contTok, handTok]) (fun i => by simp [slotTok, handSlot])
        (by simp [ContShape, hgd, isGroupDest]) (fun _ g' _ => rfl) (fun n' w c e => by cases e)
      refine finish _ _ _ hss ?_ ?_ ?_ ?_
      · intro r _
        have h0 : sumMap (fun e => contTok n.id r e.2) (getClient s a).iqReg = 0 := hcont0 r
        show sumMap (fun e => contTok n.id r e.2) ((getClient s a).iqReg ++ [((getClient s a).nextIq, Cont.groupInfo n)]) + _ = 1
        rw [sumMap_append, h0]
        simp [contTok]
      · intro r; exact hrc0 r
      · left; simp
      · intro g' _
        exact Or.inr ⟨((getClient s a).nextIq, .groupInfo n), by simp, rfl⟩
    · next gen hsome =>
      obtain ⟨sk, l, kct, hview, hs1, hs2, hk1, hk2, hk3, hk4, hl, hlnd⟩ :=
        view_sgws_first { s with submitted := s.submitted ++ [(a, n)] } a (getClient s a) n g [] hacc1
      show TV ex accts groups (s.submitted ++ [(a, n)]) (view (sendToGroupWithSessions _ a (getClient s a) n g [] 0))
      obtain ⟨q, heq, hnq, hq1, hq2⟩ := enqueueSent_q { getClient s a with ownSK := sk } n
      rw [hview, heq]
      have hq1' : ∀ m ∈ (getClient s a).sentQueue, m ∈ q ∨ 100 < (((view s).addSub (a, n)).submitted).length := by
        intro m hm
        rcases hq1 m hm with h1 | h1
        · exact Or.inl h1
        · rcases hroom with h2 | h2
          · exact absurd h1 (by show ¬ 100 ≤ (getClient s a).sentQueue.length; omega)
          · exact Or.inr h2
      have hfm := freshMsg_group (id := n.id) (g := g) (im := n.payload.isMedia) (lo := s.nextCtr) (len := 0)
        hk1 (by rw [hk2]; rfl) hk3 (by simpa using hk4) (by simpa using hl) hlnd
      have hss := hsrc.toFirst hTa (fun _ _ => Or.inl rfl) (Or.inl rfl) sk (l ++ [(none, kct)]) (s.nextCtr + 0 + 1)
        (by show s.nextCtr ≤ _; omega) hs2 (fun g' hg' => by rw [hgd] at hg'; cases hg'; exact hs1) (by rw [hgd]; exact hfm)
        q hnq hq1' hq2
      refine finish _ _ _ hss ?_ ?_ ?_ ?_
      · intro r _
        have := hcont0 r
        simp only [sumMap_cons, sumMap_nil', upTok, true_or, and_self, if_true]
        show contS n.id r (getClient s a).iqReg + _ = 1
        omega
      · intro r; exact hrc0 r
      · right
        exact hnq
      · intro g' hg'
        rw [hgd] at hg'; cases hg'
        exact Or.inl hs1
  · next b hb =>
    split
    · next hsess =>
      obtain ⟨se, hse⟩ := Option.isSome_iff_exists.mp hsess
      obtain ⟨q, heq, hnq, hq1, hq2⟩ := enqueueSent_q (getClient s a) n
      rw [view_sendToContact _ _ _ _ _ se hacc1 hse, heq]
      have hq1' : ∀ m ∈ (getClient s a).sentQueue, m ∈ q ∨ 100 < (((view s).addSub (a, n)).submitted).length := by
        intro m hm
        rcases hq1 m hm with h1 | h1
        · exact Or.inl h1
        · rcases hroom with h2 | h2
          · exact absurd h1 (by omega)
          · exact Or.inr h2
      have hfm : FreshMsg s.nextCtr (s.nextCtr + 1) (.msg n.id n.dest none n.payload.isMedia
          [(none, { kind := if se.pendingPre then .pkmsg else .msg, sess := se.cur, ctr := s.nextCtr,
                    plain := { skdm := none, content := some n.payload }, corrupt := false })] none) := by
        refine freshMsg_single ?_ rfl rfl rfl (by rw [hb])
        dsimp only
        split <;> simp
      have hss := hsrc.toFirst hTa (fun _ _ => Or.inl rfl) (Or.inl rfl) (getClient s a).ownSK _ (s.nextCtr + 1)
        (by show s.nextCtr ≤ _; omega) (fun _ h' => h') (fun g' hg' => by rw [hb] at hg'; cases hg') hfm
        q hnq hq1' hq2
      refine finish _ _ _ hss ?_ ?_ ?_ ?_
      · intro r _
        have := hcont0 r
        simp only [sumMap_cons, sumMap_nil', upTok, true_or, and_self, if_true]
        show contS n.id r (getClient s a).iqReg + _ = 1
        omega
      · intro r; exact hrc0 r
      · right
        exact hnq
      · intro g' hg'
        rw [hb] at hg'; cases hg'
    · next hnosess =>
      rw [view_sendIq _ _ _ _ _ hacc1]
      have hss := hsrc.toCont hTa (.keysForSend n) [] (.getKeys (getClient s a).nextIq [b]) (fun p hp => by cases hp)
        (PlainUp.getKeys _ _) rfl (fun id r => by simp [contTok, handTok]) (fun i => by simp [slotTok, handSlot])
        (by simp [ContShape, hb, isGroupDest]) (fun _ g' hg' => by rw [hb] at hg'; cases hg') (fun n' w c e => by cases e)
      refine finish _ _ _ hss ?_ ?_ ?_ ?_
      · intro r _
        have h0 : sumMap (fun e => contTok n.id r e.2) (getClient s a).iqReg = 0 := hcont0 r
        show sumMap (fun e => contTok n.id r e.2) ((getClient s a).iqReg ++ [((getClient s a).nextIq, Cont.keysForSend n)]) + _ = 1
        rw [sumMap_append, h0]
        simp [contTok]
      · intro r; exact hrc0 r
      · left; simp
      · intro g' hg'
        rw [hb] at hg'; cases hg'

theorem appSend_TInv (hw : WFConfig accts groups) {s : Sys} {a : Acct} {n : Node}
    (h : TInv ex accts groups s) (hall : Allowed s (.appSend a n) = true) (_hlen : s.submitted.length < 100) :
    TInv ex accts groups (step s (.appSend a n)) := appSend_TInv' hw h hall

end

end Yow.E2E
