/-
  Exactly-once with server faults: in a quiescent state of a run in which the server may duplicate or damage deliveries
  (each message/recipient pair at most once, as `Allowed` demands), every submitted message was shown exactly once to
  each intended recipient, and its sender has at least one delivery receipt from each of them.
-/
import YowsupVerif.Lemmas.E2ETokFStep
import YowsupVerif.Lemmas.E2ETokens
namespace Yow.E2E

section
variable {accts : List Acct} {groups : List (Nat × List Acct)}

theorem init_FInv (hw : WFConfig accts groups) : FInv accts groups (initSys accts groups) := by
  have hcl : ∀ r, (view (initSys accts groups)).cl r = {} := fun r => getClient_init accts groups r
  have hin : ∀ r, (view (initSys accts groups)).inb r = [] := fun r => rfl
  have hout : ∀ r, (view (initSys accts groups)).outb r = [] := fun r => rfl
  refine ⟨init_inv accts groups hw, (init_TInv (ex := false) hw).2, ?_, ?_, ?_⟩
  · exact {
      p0 := by intro r; rw [hcl]; exact ⟨rfl, fun e he => by cases he⟩
      d2 := by intro x y se hl; rw [hcl] at hl; cases hl
      up := by intro x st hst; rw [hin] at hst; cases hst
      down := by intro y st hst; rw [hout] at hst; cases hst
      g2 := by intro y g x gen hl; rw [hcl] at hl; cases hl
      c1 := by intro a e he; rw [hcl] at he; cases he
      c2 := by intro a e he; rw [hcl] at he; cases he }
  · intro a g hown
    rw [hcl] at hown
    cases hown
  · intro y st hst
    have : queueOf (initSys accts groups).outbound y = [] := rfl
    rw [this] at hst
    cases hst

theorem FInv_run (hw : WFConfig accts groups) (hnd : ∀ g ∈ groups, g.2.Nodup) (acts : List Act) : ∀ s : Sys,
    FInv accts groups s → AllowedRun s acts = true → s.submitted.length + sendCountAux acts ≤ 100 →
    FInv accts groups (run s acts) := by
  induction acts with
  | nil => intro s h _ _; exact h
  | cons act acts ih =>
    intro s h ha hn
    simp only [AllowedRun, Bool.and_eq_true] at ha
    have hlen := step_submitted_len h.ainv ha.1
    have hn' : (step s act).submitted.length + sendCountAux acts ≤ 100 := by
      cases act <;> simp only [sendCountAux] at hn <;> simp only [Nat.add_zero] at hlen <;> omega
    exact ih _ (finv_step hw hnd h ha.1 (by omega)) ha.2 hn'

end

/-- exactly-once delivery in runs with the two server faults -/
theorem exactly_once_with_faults (accts : List Acct) (groups : List (Nat × List Acct)) (hw : WFConfig accts groups)
    (hnd : ∀ g ∈ groups, g.2.Nodup) (acts : List Act) (ha : AllowedRun (initSys accts groups) acts = true)
    (hn : sendCount acts ≤ 100) :
    let s := run (initSys accts groups) acts
    quiescent s = true →
      ∀ a n, (a, n) ∈ s.submitted → ∀ r, r ∈ intended s a n →
        shownCount s r n.id = 1 ∧
        1 ≤ ((getClient s a).receipts.filter (fun e =>
          e.1 == n.id && e.2.2.2 == RType.delivery && (e.2.2.1 == some r || (e.2.2.1.isNone && e.2.1 == Dest.user r)))).length := by
  intro s hq a n hsub r hr
  have hF : FInv accts groups s := FInv_run hw hnd acts _ (init_FInv hw) ha (by
    show ([] : List (Acct × Node)).length + sendCountAux acts ≤ 100
    rw [← sendCount_eq]; simpa using hn)
  have hqf := quiescent_flat hq
  unfold quiescent at hqf
  rw [Bool.and_eq_true] at hqf
  have hin : ∀ z, (view (flat s)).inb z = [] := fun z => queueOf_nil_of_all hqf.1 z
  have hout : ∀ z, (view (flat s)).outb z = [] := fun z => queueOf_nil_of_all hqf.2 z
  have hclv : ∀ z, (view (flat s)).cl z = getClient s z := fun z => rfl
  have hgr : s.groups = groups := hF.ainv.grp
  have hr' : r ∈ intendedG groups a n := by rw [← hgr]; exact hr
  have hiq : ∀ z, (getClient s z).iqReg = [] := by
    intro z
    cases hl : (getClient s z).iqReg with
    | nil => rfl
    | cons e l =>
      obtain ⟨st, hst, _⟩ := (hF.tv.ans z).1 e (by rw [hclv, hl]; simp)
      rw [hin, hout] at hst
      cases hst
  have hpend : ∀ z, (getClient s z).pendingIn = [] := fun z => (hF.dv.p0 z).1
  have hcons := hF.tv.cons a n hsub r hr'
  have hrc := hF.tv.rcons a n hsub r hr'
  unfold tokensV at hcons
  unfold receiptTokensV at hrc
  simp only [hin, hout, hclv, hiq, hpend, contS, pendS, sumMap_nil'] at hcons hrc
  have hsh : shownCount s r n.id = 1 := by
    rw [shownCount_eq]
    show shownC (getClient s r) n.id = 1
    omega
  refine ⟨hsh, ?_⟩
  have : shownC (getClient s r) n.id ≤ rcptGot (getClient s a) n.id r := by
    simpa [rcRel] using hrc
  have h1 : shownC (getClient s r) n.id = 1 := hsh
  show 1 ≤ rcptGot (getClient s a) n.id r
  omega

end Yow.E2E
