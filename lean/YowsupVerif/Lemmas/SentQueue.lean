/-
  Lemmas about Model/SentQueue.lean.
-/
import YowsupVerif.Model.SentQueue
namespace Yow.SentQueue

theorem step_length_le (cap : Nat) (hc : 0 < cap) (q : List Nat) (hq : q.length ≤ cap) (o : Op) :
    (step true cap q o).length ≤ cap := by
  cases o with
  | enq x =>
    simp only [step, enqueue]
    split
    · simp [List.length_tail]; omega
    · simp; omega
  | take x keep =>
    simp only [step]
    split
    · exact hq
    · exact Nat.le_trans (List.length_erase_le ..) hq

/-- the memory never holds more than `cap` messages (cap > 0) -/
theorem run_length_le (cap : Nat) (hc : 0 < cap) (q : List Nat) (hq : q.length ≤ cap) (ops : List Op) :
    (run true cap q ops).length ≤ cap := by
  induction ops generalizing q with
  | nil => simpa [run] using hq
  | cons o ops ih =>
    have := ih (step true cap q o) (step_length_le cap hc q hq o)
    simpa [run] using this

theorem stays_aux (cap : Nat) (hc : 0 < cap) (x : Nat) (post : List Op) :
    ∀ (q : List Nat) (n : Nat) (l r : List Nat), q.length ≤ cap → q = l ++ x :: r → r.length ≤ n →
      n + (post.filter isEnq).length < cap → (∀ o ∈ post, removes x o = false) →
      found (run true cap q post) x = true := by
  induction post with
  | nil =>
    intro q n l r _ hq _ _ _
    simp [run, found, hq]
  | cons o post ih =>
    intro q n l r hlen hq hr hn hk
    have hk' : ∀ o ∈ post, removes x o = false := fun o' ho' => hk o' (List.mem_cons_of_mem _ ho')
    have hko := hk o List.mem_cons_self
    have hrun : run true cap q (o :: post) = run true cap (step true cap q o) post := rfl
    rw [hrun]
    have hlen' := step_length_le cap hc q hlen o
    cases o with
    | enq y =>
      have hn' : (n + 1) + (post.filter isEnq).length < cap := by
        have e : (Op.enq y :: post).filter isEnq = Op.enq y :: post.filter isEnq := rfl
        rw [e] at hn; simp at hn; omega
      by_cases hfull : q.length ≥ cap
      · have hs : step true cap q (Op.enq y) = q.tail ++ [y] := by simp [step, enqueue, hfull]
        cases l with
        | nil =>
          exfalso
          subst hq
          simp at hfull
          omega
        | cons a l' =>
          refine ih _ (n+1) l' (r ++ [y]) hlen' ?_ (by simp; omega) hn' hk'
          rw [hs, hq]; simp
      · have hs : step true cap q (Op.enq y) = q ++ [y] := by simp [step, enqueue, hfull]
        refine ih _ (n+1) l (r ++ [y]) hlen' ?_ (by simp; omega) hn' hk'
        rw [hs, hq]; simp
    | take y keep =>
      have hn' : n + (post.filter isEnq).length < cap := by
        have e : (Op.take y keep :: post).filter isEnq = post.filter isEnq := rfl
        rw [e] at hn; exact hn
      cases keep with
      | true =>
        exact ih _ n l r hlen' (by simpa [step] using hq) hr hn' hk'
      | false =>
        have hyx : y ≠ x := by simpa [removes] using hko
        have hs : step true cap q (Op.take y false) = q.erase y := by simp [step]
        by_cases hyl : y ∈ l
        · refine ih _ n (l.erase y) r hlen' ?_ hr hn' hk'
          rw [hs, hq, List.erase_append_left _ hyl]
        · refine ih _ n l (r.erase y) hlen' ?_ (Nat.le_trans (List.length_erase_le ..) hr) hn' hk'
          rw [hs, hq, List.erase_append_right _ hyl, List.erase_cons_tail (by simpa using Ne.symm hyx)]

theorem enqueue_split (cap : Nat) (q : List Nat) (x : Nat) : ∃ l, enqueue true cap q x = l ++ [x] := by
  unfold enqueue
  split
  · exact ⟨q.tail, by simp⟩
  · exact ⟨q, rfl⟩

/-- A message that was sent stays available for a retry request as long as fewer than `cap` messages were sent after it and no receipt
    took it out: whatever else happened before and in between (any operations, any ids, repeated ids included). -/
theorem sent_message_stays (cap : Nat) (hc : 0 < cap) (q : List Nat) (hq : q.length ≤ cap) (pre post : List Op) (x : Nat)
    (hfew : (post.filter isEnq).length < cap) (hkeep : ∀ o ∈ post, removes x o = false) :
    found (run true cap q (pre ++ Op.enq x :: post)) x = true := by
  have hrun : run true cap q (pre ++ Op.enq x :: post)
      = run true cap (enqueue true cap (run true cap q pre) x) post := by
    simp [run, List.foldl_append, step]
  rw [hrun]
  have h1 := run_length_le cap hc q hq pre
  have h2 := step_length_le cap hc _ h1 (Op.enq x)
  obtain ⟨l, hl⟩ := enqueue_split cap (run true cap q pre) x
  exact stays_aux cap hc x post _ 0 l [] (by simpa [step] using h2) (by simpa using hl) (by simp)
    (by simpa using hfew) hkeep

theorem rev_ind {P : List Nat → Prop} (h0 : P []) (h1 : ∀ xs a, P xs → P (xs ++ [a])) : ∀ xs, P xs := by
  intro xs
  suffices h : ∀ ys : List Nat, P ys.reverse by simpa using h xs.reverse
  intro ys
  induction ys with
  | nil => simpa using h0
  | cons a ys ih => simpa [List.reverse_cons] using h1 _ a ih

/-- with only sends, the memory holds exactly the last `cap` of them, oldest first -/
theorem run_enq_only (cap : Nat) (hc : 0 < cap) (xs : List Nat) :
    run true cap [] (xs.map Op.enq) = xs.drop (xs.length - cap) := by
  induction xs using rev_ind with
  | h0 => simp [run]
  | h1 xs a ih =>
    have hrun : run true cap [] ((xs ++ [a]).map Op.enq)
        = enqueue true cap (run true cap [] (xs.map Op.enq)) a := by
      simp [run, List.foldl_append, step]
    rw [hrun, ih]
    unfold enqueue
    by_cases h : xs.length ≥ cap
    · have h1 : (xs.drop (xs.length - cap)).length ≥ cap := by simp; omega
      rw [if_pos h1]
      simp only [if_true, List.tail_drop, List.length_append, List.length_singleton]
      rw [List.drop_append_of_le_length (by omega)]
      congr 2
      omega
    · have h1 : ¬ (xs.drop (xs.length - cap)).length ≥ cap := by simp; omega
      rw [if_neg h1]
      have e1 : xs.length - cap = 0 := by omega
      have e2 : (xs ++ [a]).length - cap = 0 := by simp; omega
      rw [e1, e2]; simp

end Yow.SentQueue
