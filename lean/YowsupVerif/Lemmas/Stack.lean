/-
  Refinement lemmas: the index-wired mechanism of Model/Stack.lean equals the list-recursive spec.
-/
import YowsupVerif.Model.Stack
namespace Yow.Stack

/-- `wire` keeps one instance per slot. -/
theorem wire_length (s : List Slot) (k : Nat) (rest : List Slot) :
    (wire s k rest).length = rest.length := by
  induction rest generalizing k with
  | nil => rfl
  | cons a r ih => simp [wire, ih]

/-- Characterisation of `wire`: instance `i` of `wire s k rest` holds `rest[i]` and is wired to the
    absolute indices `k+i+1` (if inside `s`) and `k+i-1` (if any). -/
theorem wire_get (s : List Slot) (k : Nat) (rest : List Slot) (i : Nat) :
    (wire s k rest)[i]? = (rest[i]?).map (fun sl =>
      { slot := sl,
        upper := if k + i + 1 < s.length then some (k + i + 1) else none,
        lower := if 0 < k + i then some (k + i - 1) else none }) := by
  induction rest generalizing k i with
  | nil => simp [wire]
  | cons a r ih =>
    cases i with
    | zero => simp [wire]
    | succ j =>
      have e : k + 1 + j = k + (j + 1) := by omega
      simp only [wire, List.getElem?_cons_succ, ih, e]

theorem construct_length (arr : List Slot) : (construct arr false).length = arr.length := by
  simp [construct, wire_length]

/-- The wiring `_construct` produces: instance `i` holds slot `arr[i]`, its upper is `i+1` (if any),
    its lower is `i-1` (if any). -/
theorem construct_get (arr : List Slot) (i : Nat) (hi : i < arr.length) :
    (construct arr false)[i]? = some
      { slot := arr[i],
        upper := if i + 1 < arr.length then some (i + 1) else none,
        lower := if 0 < i then some (i - 1) else none } := by
  simp [construct, wire_get, List.getElem?_eq_getElem hi]

theorem construct_reversed (arr : List Slot) : construct arr true = construct arr.reverse false := by
  simp [construct]

theorem take_succ_reverse (arr : List Slot) (i : Nat) (hi : i < arr.length) :
    (arr.take (i + 1)).reverse = arr[i] :: (arr.take i).reverse := by
  rw [List.take_succ_eq_append_getElem hi]; simp

/-- Sending at instance `i` visits slots `i, i-1, …, 0` in that order. -/
theorem sendAt_spec (B : Nat → LayerB) (arr : List Slot) (fuel i m : Nat) (hi : i < arr.length) (hf : i < fuel) :
    sendAt B (construct arr false) fuel i m = specDown B ((arr.take (i + 1)).reverse) m := by
  induction i generalizing fuel m with
  | zero =>
    obtain ⟨f, rfl⟩ : ∃ f, fuel = f + 1 := ⟨fuel - 1, by omega⟩
    rw [take_succ_reverse arr 0 hi]
    simp [sendAt, construct_get arr 0 hi, specDown]
  | succ k ih =>
    obtain ⟨f, rfl⟩ : ∃ f, fuel = f + 1 := ⟨fuel - 1, by omega⟩
    rw [take_succ_reverse arr (k+1) hi]
    simp only [sendAt, construct_get arr (k+1) hi, specDown]
    simp only [Nat.zero_lt_succ, if_true, Nat.add_sub_cancel]
    congr 1
    funext l
    congr 2
    funext m'
    exact ih f m' (by omega) (by omega)

/-- Receiving at instance `i` visits slots `i, i+1, …, top` in that order. -/
theorem recvAt_spec (B : Nat → LayerB) (arr : List Slot) (fuel i m : Nat) (hi : i < arr.length)
    (hf : arr.length - i ≤ fuel) :
    recvAt B (construct arr false) fuel i m = specUp B (arr.drop i) m := by
  induction fuel generalizing i m with
  | zero => omega
  | succ f ih =>
    rw [List.drop_eq_getElem_cons hi]
    simp only [recvAt, construct_get arr i hi, specUp]
    congr 1
    funext l
    congr 2
    by_cases h : i + 1 < arr.length
    · simp only [h, if_true]
      funext m'
      exact ih (i + 1) m' h (by omega)
    · have : arr.drop (i + 1) = [] := List.drop_eq_nil_of_le (by omega)
      simp only [h, if_false, this]
      funext m'
      simp [specUp]

/-- A normal event emitted by instance `i` is offered to the slots above it, in order, until consumed. -/
theorem emitAt_spec (B : Nat → LayerB) (arr : List Slot) (fuel i ev : Nat) (hi : i < arr.length)
    (hf : arr.length - i ≤ fuel) :
    emitAt B (construct arr false) fuel i ev false = ⟨specEvent B ev (arr.drop (i + 1)), none⟩ := by
  induction fuel generalizing i with
  | zero => omega
  | succ f ih =>
    by_cases h : i + 1 < arr.length
    · rw [List.drop_eq_getElem_cons h]
      simp only [emitAt, construct_get arr i hi, h, if_true, construct_get arr (i + 1) h, specEvent]
      rw [ih (i + 1) h (by omega)]
      split <;> simp
    · have : arr.drop (i + 1) = [] := List.drop_eq_nil_of_le (by omega)
      simp [emitAt, construct_get arr i hi, h, this, specEvent]

/-- A normal event broadcast by instance `i` is offered to the slots below it, top-down, until consumed. -/
theorem broadcastAt_spec (B : Nat → LayerB) (arr : List Slot) (fuel i ev : Nat) (hi : i < arr.length)
    (hf : i < fuel) :
    broadcastAt B (construct arr false) fuel i ev false = ⟨specEvent B ev ((arr.take i).reverse), none⟩ := by
  induction i generalizing fuel with
  | zero =>
    obtain ⟨f, rfl⟩ : ∃ f, fuel = f + 1 := ⟨fuel - 1, by omega⟩
    simp [broadcastAt, construct_get arr 0 hi, specEvent]
  | succ k ih =>
    obtain ⟨f, rfl⟩ : ∃ f, fuel = f + 1 := ⟨fuel - 1, by omega⟩
    have hk : k < arr.length := by omega
    rw [take_succ_reverse arr k hk]
    simp only [broadcastAt, construct_get arr (k + 1) hi, Nat.zero_lt_succ, if_true,
      Nat.add_sub_cancel, construct_get arr k hk, specEvent]
    rw [ih f hk (by omega)]
    split <;> simp


theorem emitAt_detached_sync (B : Nat → LayerB) (arr : List Slot) (fuel i ev : Nat) (hi : i + 1 < arr.length)
    (hf : 0 < fuel) :
    emitAt B (construct arr false) fuel i ev true =
      ⟨(onEventInst B ev arr[i + 1]).1, if (onEventInst B ev arr[i + 1]).2 then none else some (i + 1)⟩ := by
  obtain ⟨f, rfl⟩ : ∃ f, fuel = f + 1 := ⟨fuel - 1, by omega⟩
  have hi' : i < arr.length := by omega
  simp only [emitAt, construct_get arr i hi', hi, if_true, construct_get arr (i + 1) hi]
  split <;> simp

/-- A detached event emitted by instance `i`: the slot directly above sees it synchronously; unless it
    consumed it (or there is no slot above) the rest is queued, and running the queued callback
    delivers it to the remaining slots exactly as a normal event would. -/
theorem emitAt_detached (B : Nat → LayerB) (arr : List Slot) (fuel i ev : Nat) (hi : i < arr.length)
    (hf : 0 < fuel) :
    (emitAt B (construct arr false) fuel i ev true).seen ++
      (match (emitAt B (construct arr false) fuel i ev true).deferred with
       | some j => loopRunsEmit B (construct arr false) j ev
       | none => [])
      = specEvent B ev (arr.drop (i + 1)) := by
  by_cases h : i + 1 < arr.length
  · rw [emitAt_detached_sync B arr fuel i ev h hf, List.drop_eq_getElem_cons h]
    simp only [specEvent]
    by_cases hc : (onEventInst B ev arr[i + 1]).2 = true
    · simp [hc]
    · have e := emitAt_spec B arr (construct arr false).length (i + 1) ev h
        (by rw [construct_length]; omega)
      simp [hc, loopRunsEmit, e]
  · obtain ⟨f, rfl⟩ : ∃ f, fuel = f + 1 := ⟨fuel - 1, by omega⟩
    have : arr.drop (i + 1) = [] := List.drop_eq_nil_of_le (by omega)
    simp [emitAt, construct_get arr i hi, h, this, specEvent]

theorem broadcastAt_detached (B : Nat → LayerB) (arr : List Slot) (fuel i ev : Nat) (hi : i < arr.length)
    (hf : 0 < fuel) :
    (broadcastAt B (construct arr false) fuel i ev true).seen ++
      (match (broadcastAt B (construct arr false) fuel i ev true).deferred with
       | some j => loopRunsBroadcast B (construct arr false) j ev
       | none => [])
      = specEvent B ev ((arr.take i).reverse) := by
  obtain ⟨f, rfl⟩ : ∃ f, fuel = f + 1 := ⟨fuel - 1, by omega⟩
  cases i with
  | zero => simp [broadcastAt, construct_get arr 0 hi, specEvent]
  | succ k =>
    have hk : k < arr.length := by omega
    rw [take_succ_reverse arr k hk]
    simp only [broadcastAt, construct_get arr (k + 1) hi, Nat.zero_lt_succ, if_true,
      Nat.add_sub_cancel, construct_get arr k hk, specEvent]
    by_cases hc : (onEventInst B ev arr[k]).2 = true
    · simp [hc]
    · have e := broadcastAt_spec B arr (construct arr false).length k ev hk
        (by rw [construct_length]; omega)
      simp [hc, loopRunsBroadcast, e]

/-- `YowStack.emitEvent` / `broadcastEvent` (normal events): the whole stack, bottom-up / top-down. -/
theorem stackEmits_spec (B : Nat → LayerB) (arr : List Slot) (ev : Nat) :
    stackEmits B (construct arr false) ev false = ⟨specEvent B ev arr, none⟩ := by
  cases arr with
  | nil => simp [stackEmits, construct, wire, specEvent]
  | cons a r =>
    have hi : 0 < (a :: r).length := by simp
    simp only [stackEmits, construct_get (a :: r) 0 hi]
    rw [emitAt_spec B (a :: r) _ 0 ev hi (by rw [construct_length]; omega)]
    simp only [specEvent, List.getElem_cons_zero, List.drop_succ_cons, List.drop_zero]
    split <;> simp

theorem stackBroadcasts_spec (B : Nat → LayerB) (arr : List Slot) (ev : Nat) :
    stackBroadcasts B (construct arr false) ev false = ⟨specEvent B ev arr.reverse, none⟩ := by
  by_cases hn : arr = []
  · subst hn; simp [stackBroadcasts, construct, wire, specEvent]
  · have hpos : 0 < arr.length := List.length_pos_iff.mpr hn
    have hi : arr.length - 1 < arr.length := by omega
    have hrev : arr.reverse = arr[arr.length - 1] :: (arr.take (arr.length - 1)).reverse := by
      rw [← take_succ_reverse arr _ hi]
      rw [List.take_of_length_le (by omega)]
    rw [hrev]
    simp only [stackBroadcasts, construct_length, construct_get arr _ hi]
    rw [broadcastAt_spec B arr _ _ ev hi (by omega)]
    simp only [specEvent]
    split <;> simp


/-- A group none of whose members consumes shows the event to every member. -/
theorem parOnEvent_all (B : Nat → LayerB) (ev : Nat) (ls : List Nat)
    (h : ∀ l ∈ ls, (B l).consumes ev = false) :
    parOnEvent B ev ls = (ls.map (fun l => Ev.saw l ev), false) := by
  induction ls with
  | nil => rfl
  | cons a r ih =>
    have ha : (B a).consumes ev = false := h a (by simp)
    have hr := ih (fun l hl => h l (by simp [hl]))
    simp [parOnEvent, ha, hr]

/-- A group stops at its first consuming member. -/
theorem parOnEvent_split (B : Nat → LayerB) (ev : Nat) (pre : List Nat) (c : Nat) (post : List Nat)
    (hpre : ∀ l ∈ pre, (B l).consumes ev = false) (hc : (B c).consumes ev = true) :
    parOnEvent B ev (pre ++ c :: post) = ((pre ++ [c]).map (fun l => Ev.saw l ev), true) := by
  induction pre with
  | nil => simp [parOnEvent, hc]
  | cons a r ih =>
    have ha : (B a).consumes ev = false := hpre a (by simp)
    have hr := ih (fun l hl => hpre l (by simp [hl]))
    simp [parOnEvent, ha, hr]

theorem onEventInst_all (B : Nat → LayerB) (ev : Nat) (s : Slot)
    (h : ∀ l ∈ members s, (B l).consumes ev = false) :
    onEventInst B ev s = ((members s).map (fun l => Ev.saw l ev), false) := by
  cases s with
  | single l =>
    have : (B l).consumes ev = false := h l (by simp [members])
    simp [onEventInst, members, this]
  | par ls => exact parOnEvent_all B ev ls h

theorem onEventInst_split (B : Nat → LayerB) (ev : Nat) (s : Slot) (pre : List Nat) (c : Nat)
    (post : List Nat) (hs : members s = pre ++ c :: post)
    (hpre : ∀ l ∈ pre, (B l).consumes ev = false) (hc : (B c).consumes ev = true) :
    onEventInst B ev s = ((pre ++ [c]).map (fun l => Ev.saw l ev), true) := by
  cases s with
  | single l =>
    simp only [members] at hs
    cases pre with
    | nil =>
      simp at hs
      obtain ⟨rfl, -⟩ := hs
      simp [onEventInst, hc]
    | cons a r => simp at hs
  | par ls =>
    simp only [members] at hs
    subst hs
    exact parOnEvent_split B ev pre c post hpre hc

theorem specEvent_all (B : Nat → LayerB) (ev : Nat) (slots : List Slot)
    (h : ∀ l ∈ slots.flatMap members, (B l).consumes ev = false) :
    specEvent B ev slots = (slots.flatMap members).map (fun l => Ev.saw l ev) := by
  induction slots with
  | nil => rfl
  | cons s rest ih =>
    have h1 : ∀ l ∈ members s, (B l).consumes ev = false := fun l hl => h l (by simp [hl])
    have h2 := ih (fun l hl => h l (by
      simp only [List.flatMap_cons, List.mem_append]; exact Or.inr hl))
    simp [specEvent, onEventInst_all B ev s h1, h2]

/-- The consumer is the last layer that sees the event. -/
theorem specEvent_stops_at_consumer (B : Nat → LayerB) (ev : Nat) (slots : List Slot) (pre : List Nat) (c : Nat)
    (post : List Nat) (hsplit : slots.flatMap members = pre ++ c :: post)
    (hpre : ∀ l ∈ pre, (B l).consumes ev = false) (hc : (B c).consumes ev = true) :
    specEvent B ev slots = (pre ++ [c]).map (fun l => Ev.saw l ev) := by
  induction slots generalizing pre with
  | nil => simp at hsplit
  | cons s rest ih =>
    simp only [List.flatMap_cons] at hsplit
    have key : (∃ a', pre = members s ++ a' ∧ rest.flatMap members = a' ++ c :: post) ∨
        (∃ c'', members s = pre ++ c :: c'') := by
      rcases List.append_eq_append_iff.mp hsplit with ⟨a', h1, h2⟩ | ⟨c', h1, h2⟩
      · exact Or.inl ⟨a', h1, h2⟩
      · cases c' with
        | nil =>
          refine Or.inl ⟨[], by simpa using h1.symm, by simpa using h2.symm⟩
        | cons x c'' =>
          simp only [List.cons_append, List.cons.injEq] at h2
          obtain ⟨rfl, -⟩ := h2
          exact Or.inr ⟨c'', h1⟩
    rcases key with ⟨a', rfl, h2⟩ | ⟨c'', h1⟩
    · have h1 : ∀ l ∈ members s, (B l).consumes ev = false := fun l hl => hpre l (by simp [hl])
      have h3 := ih a' h2 (fun l hl => hpre l (by simp [hl]))
      simp [specEvent, onEventInst_all B ev s h1, h3]
    · simp [specEvent, onEventInst_split B ev s pre c c'' h1 hpre hc]

/-- Either nobody in `L` consumes `ev`, or `L` splits at its first consumer. -/
theorem consumer_dichotomy (B : Nat → LayerB) (ev : Nat) (L : List Nat) :
    (∀ l ∈ L, (B l).consumes ev = false) ∨
    (∃ pre c post, L = pre ++ c :: post ∧ (∀ l ∈ pre, (B l).consumes ev = false) ∧
      (B c).consumes ev = true) := by
  induction L with
  | nil => left; simp
  | cons a r ih =>
    by_cases ha : (B a).consumes ev = true
    · exact Or.inr ⟨[], a, r, rfl, by simp, ha⟩
    · have ha' : (B a).consumes ev = false := by simpa using ha
      rcases ih with h | ⟨pre, c, post, rfl, h1, h2⟩
      · left
        intro l hl
        rcases List.mem_cons.mp hl with rfl | hl
        · exact ha'
        · exact h l hl
      · refine Or.inr ⟨a :: pre, c, post, rfl, ?_, h2⟩
        intro l hl
        rcases List.mem_cons.mp hl with rfl | hl
        · exact ha'
        · exact h1 l hl

theorem take_length_succ_append (pre : List Nat) (c : Nat) (post : List Nat) :
    (pre ++ c :: post).take (pre.length + 1) = pre ++ [c] := by
  induction pre with
  | nil => simp
  | cons a r ih => simpa using ih

/-- An event is seen at most once per layer and in stack order: the trace is a prefix of the
    flattened member list; if nobody consumes it, it is the whole list. -/
theorem specEvent_prefix (B : Nat → LayerB) (ev : Nat) (slots : List Slot) :
    ∃ k, specEvent B ev slots = ((slots.flatMap members).take k).map (fun l => Ev.saw l ev) := by
  rcases consumer_dichotomy B ev (slots.flatMap members) with h | ⟨pre, c, post, h0, h1, h2⟩
  · exact ⟨(slots.flatMap members).length, by rw [specEvent_all B ev slots h, List.take_length]⟩
  · refine ⟨pre.length + 1, ?_⟩
    rw [specEvent_stops_at_consumer B ev slots pre c post h0 h1 h2, h0,
      take_length_succ_append pre c post]

theorem parInterface_spec (B : Nat → LayerB) (c : Nat) (ls : List Nat) :
    parInterface B c ls = (ls.find? (fun l => (B l).cls = c)).bind (fun l => (B l).iface) := by
  induction ls with
  | nil => rfl
  | cons a r ih =>
    by_cases ha : (B a).cls = c
    · simp [parInterface, ha]
    · simp [parInterface, ha, ih]

/-- Interface lookup only depends on the slots, not on the wiring indices. -/
theorem getInterface_wire (B : Nat → LayerB) (c : Nat) (s : List Slot) (k : Nat) (rest : List Slot)
    (h : ∀ l ∈ rest.flatMap members, (B l).cls = c → (B l).iface ≠ none) :
    getInterface B c (wire s k rest) =
      ((rest.flatMap members).find? (fun l => (B l).cls = c)).bind (fun l => (B l).iface) := by
  induction rest generalizing k with
  | nil => rfl
  | cons a r ih =>
    have h2 := ih (k + 1) (fun l hl => h l (by
      simp only [List.flatMap_cons, List.mem_append]; exact Or.inr hl))
    cases a with
    | single l =>
      by_cases hl : (B l).cls = c
      · simp [wire, getInterface, members, hl]
      · simp [wire, getInterface, members, hl, h2]
    | par ls =>
      simp only [wire, getInterface, List.flatMap_cons, members, List.find?_append, h2,
        parInterface_spec]
      cases hf : ls.find? (fun l => (B l).cls = c) with
      | none => simp
      | some l =>
        have hm : l ∈ ls := List.mem_of_find?_eq_some hf
        have hp : (B l).cls = c := by simpa using List.find?_some hf
        have hne := h l (by simp [members, hm]) hp
        cases hi : (B l).iface with
        | none => exact absurd hi hne
        | some v => simp [hi]

/-- Interface lookup by class finds the first layer of that class in stack order (bottom-up, members
    in group order), also inside parallel groups, provided layers of that class expose an interface. -/
theorem getInterface_spec (B : Nat → LayerB) (c : Nat) (arr : List Slot)
    (h : ∀ l ∈ arr.flatMap members, (B l).cls = c → (B l).iface ≠ none) :
    getInterface B c (construct arr false) =
      ((arr.flatMap members).find? (fun l => (B l).cls = c)).bind (fun l => (B l).iface) := by
  simpa [construct] using getInterface_wire B c arr 0 arr h

theorem builderRun_foldl (acc : List Slot) (ops : List BuilderOp) :
    ops.foldl builderStep acc = specBuilder acc ops := by
  induction ops generalizing acc with
  | nil => rfl
  | cons o r ih =>
    cases o with
    | push s => simp [List.foldl_cons, builderStep, specBuilder, ih]
    | pop => simp [List.foldl_cons, builderStep, specBuilder, ih]
    | extend ds => simp [List.foldl_cons, builderStep, specBuilder, ih]

theorem builderRun_spec (ops : List BuilderOp) : builderRun ops = specBuilder [] ops :=
  builderRun_foldl [] ops

end Yow.Stack
