/-
  Helper material for Lemmas/E2E.lean: association-list facts, the abstraction of a system state the safety
  invariant depends on, the invariant itself and its preservation by the primitive state updates.
-/
import YowsupVerif.Model.E2EInv
namespace Yow.E2E

-- ------------------------------------------------------------------------------------------------ association lists
section Assoc
variable {α β : Type} [DecidableEq α]

theorem lookup_nil (k : α) : lookup ([] : List (α × β)) k = none := rfl

theorem lookup_cons (p : α × β) (l : List (α × β)) (k : α) :
    lookup (p :: l) k = if p.1 = k then some p.2 else lookup l k := by
  unfold lookup
  by_cases h : p.1 = k <;> simp [h]

theorem lookup_append (l m : List (α × β)) (k : α) :
    lookup (l ++ m) k = (lookup l k).or (lookup m k) := by
  induction l with
  | nil => simp [lookup_nil]
  | cons p l ih => simp only [List.cons_append, lookup_cons]; split <;> simp [ih]

theorem lookup_mem {l : List (α × β)} {k : α} {v : β} (h : lookup l k = some v) : (k, v) ∈ l := by
  induction l with
  | nil => simp [lookup_nil] at h
  | cons p l ih =>
    rw [lookup_cons] at h
    split at h
    · next hk => cases h; subst hk; simp
    · exact List.mem_cons_of_mem _ (ih h)

theorem lookup_eq_none {l : List (α × β)} {k : α} (h : ∀ p ∈ l, p.1 ≠ k) : lookup l k = none := by
  induction l with
  | nil => rfl
  | cons p l ih =>
    rw [lookup_cons, if_neg (h p (by simp))]
    exact ih (fun q hq => h q (List.mem_cons_of_mem _ hq))

theorem lookup_getD_mem {l : List (α × List β)} {k : α} {x : β} (h : x ∈ (lookup l k).getD []) :
    ∃ v, (k, v) ∈ l ∧ x ∈ v := by
  cases hl : lookup l k with
  | none => simp [hl] at h
  | some v => exact ⟨v, lookup_mem hl, by simpa [hl] using h⟩

private theorem lookup_map_ne (l : List (α × β)) (k k' : α) (v : β) (h : k' ≠ k) :
    lookup (l.map (fun p => if p.1 == k then (k, v) else p)) k' = lookup l k' := by
  induction l with
  | nil => rfl
  | cons p l ih =>
    simp only [List.map_cons, lookup_cons, ih]
    by_cases hp : p.1 = k
    · have : ¬ k = k' := fun e => h e.symm
      have h2 : ¬ p.1 = k' := fun e => h (e ▸ hp.symm ▸ rfl)
      simp [hp, this]
    · simp [hp]

private theorem lookup_map_eq (l : List (α × β)) (k : α) (v : β) (h : l.any (fun p => p.1 == k) = true) :
    lookup (l.map (fun p => if p.1 == k then (k, v) else p)) k = some v := by
  induction l with
  | nil => simp at h
  | cons p l ih =>
    simp only [List.map_cons, lookup_cons]
    by_cases hp : p.1 = k
    · simp [hp]
    · have hb : (p.1 == k) = false := by simp [hp]
      simp only [List.any_cons, hb, Bool.false_or] at h
      simp only [hb, Bool.false_eq_true, if_false, hp]
      exact ih h

theorem lookup_insert (l : List (α × β)) (k k' : α) (v : β) :
    lookup (insert l k v) k' = if k' = k then some v else lookup l k' := by
  unfold insert
  split
  · next h =>
    by_cases hk : k' = k
    · subst hk; rw [if_pos rfl]; exact lookup_map_eq l k' v h
    · rw [if_neg hk]; exact lookup_map_ne l k k' v hk
  · next h =>
    rw [lookup_append]
    by_cases hk : k' = k
    · subst hk
      have : lookup l k' = none := by
        apply lookup_eq_none
        intro p hp e
        apply h
        simp only [List.any_eq_true, beq_iff_eq]
        exact ⟨p, hp, e⟩
      simp [this, lookup_cons]
    · have : ¬ k = k' := fun e => hk e.symm
      simp [hk, lookup_cons, lookup_nil, this]

theorem any_insert (l : List (α × β)) (k k' : α) (v : β) :
    (insert l k v).any (fun p => p.1 == k') = (l.any (fun p => p.1 == k') || k == k') := by
  unfold insert
  split
  · next h =>
    have hf : ∀ p : α × β, ((if p.1 == k then (k, v) else p).1 == k') = (p.1 == k') := by
      intro p
      by_cases hp : p.1 = k <;> simp [hp]
    rw [List.any_map]
    simp only [Function.comp_def, hf]
    by_cases hk : k = k'
    · subst hk; simp [h]
    · simp [hk]
  · simp [List.any_append]

theorem mem_insert {l : List (α × β)} {k : α} {v : β} {p : α × β} (h : p ∈ insert l k v) : p ∈ l ∨ p = (k, v) := by
  unfold insert at h
  split at h
  · rw [List.mem_map] at h
    obtain ⟨q, hq, e⟩ := h
    split at e
    · exact Or.inr e.symm
    · exact Or.inl (e ▸ hq)
  · simpa using h

theorem mem_erase {l : List (α × β)} {k : α} {p : α × β} (h : p ∈ erase l k) : p ∈ l := by
  unfold erase at h
  exact (List.mem_filter.mp h).1

theorem lookup_erase (l : List (α × β)) (k k' : α) :
    lookup (erase l k) k' = if k' = k then none else lookup l k' := by
  induction l with
  | nil => simp [erase, lookup_nil]
  | cons p l ih =>
    unfold erase at ih ⊢
    by_cases hp : p.1 = k
    · simp only [List.filter_cons, hp, bne_self_eq_false, Bool.false_eq_true, ↓reduceIte, ih, lookup_cons]
      by_cases hk : k' = k
      · simp [hk]
      · have : ¬ k = k' := fun e => hk e.symm
        simp [hk, this]
    · have : (p.1 != k) = true := by simp [hp]
      simp only [List.filter_cons, this, ↓reduceIte, lookup_cons, ih]
      by_cases hk : k' = k
      · subst hk; simp [hp]
      · simp [hk]

end Assoc

-- ------------------------------------------------------------------------------------------------ abstraction
/-- the part of a client's state the safety invariant talks about -/
structure Core where
  sentQueue : List Node
  pendingIn : List ((Dest × Option Acct) × List Stanza)
  iqReg : List (Nat × Cont)
  skipEnc : List Dest
  nextIq : Nat
  shown : List Shown

def core (c : Client) : Core := ⟨c.sentQueue, c.pendingIn, c.iqReg, c.skipEnc, c.nextIq, c.shown⟩

/-- the part of a system state the safety invariant talks about, association lists read as functions -/
@[ext] structure ASys where
  reg : Acct → Bool
  cl : Acct → Core
  inb : Acct → List Stanza
  outb : Acct → List Stanza
  groups : List (Nat × List Acct)
  submitted : List (Acct × Node)
  wire : List (Acct × Stanza)

def abs (s : Sys) : ASys :=
  ⟨registered s, fun r => core (getClient s r), queueOf s.inbound, queueOf s.outbound, s.groups, s.submitted, s.wire⟩

namespace ASys
def setCl (A : ASys) (a : Acct) (k : Core) : ASys :=
  { A with reg := fun b => A.reg b || a == b, cl := fun b => if b = a then k else A.cl b }
def emit (A : ASys) (a : Acct) (st : Stanza) : ASys :=
  { A with inb := fun b => if b = a then A.inb a ++ [st] else A.inb b, wire := A.wire ++ [(a, st)] }
def push (A : ASys) (a : Acct) (st : Stanza) : ASys :=
  { A with outb := fun b => if b = a then A.outb a ++ [st] else A.outb b }
def setInb (A : ASys) (a : Acct) (l : List Stanza) : ASys :=
  { A with inb := fun b => if b = a then l else A.inb b }
def setOutb (A : ASys) (a : Acct) (l : List Stanza) : ASys :=
  { A with outb := fun b => if b = a then l else A.outb b }
def addSub (A : ASys) (p : Acct × Node) : ASys :=
  { A with submitted := A.submitted ++ [p] }
end ASys

theorem getClient_setClient (s : Sys) (a b : Acct) (c : Client) :
    getClient (setClient s a c) b = if b = a then c else getClient s b := by
  unfold getClient setClient
  simp only [lookup_insert]
  split <;> rfl

theorem registered_setClient (s : Sys) (a b : Acct) (c : Client) :
    registered (setClient s a c) b = (registered s b || a == b) := by
  unfold registered setClient
  exact any_insert _ _ _ _

theorem queueOf_insert (q : List (Acct × List Stanza)) (a b : Acct) (l : List Stanza) :
    queueOf (insert q a l) b = if b = a then l else queueOf q b := by
  unfold queueOf
  simp only [lookup_insert]
  split <;> rfl

theorem abs_setClient (s : Sys) (a : Acct) (c : Client) : abs (setClient s a c) = (abs s).setCl a (core c) := by
  apply ASys.ext <;> try rfl
  · funext b; exact registered_setClient s a b c
  · funext b; show core (getClient (setClient s a c) b) = _
    rw [getClient_setClient]; simp only [ASys.setCl, abs]; split <;> rfl

theorem abs_emit (s : Sys) (a : Acct) (st : Stanza) : abs (emit s a st) = (abs s).emit a st := by
  apply ASys.ext <;> try rfl
  funext b; exact queueOf_insert _ _ _ _

theorem abs_push (s : Sys) (a : Acct) (st : Stanza) : abs (push s a st) = (abs s).push a st := by
  apply ASys.ext <;> try rfl
  funext b; exact queueOf_insert _ _ _ _

theorem abs_setInbound (s : Sys) (a : Acct) (l : List Stanza) :
    abs { s with inbound := insert s.inbound a l } = (abs s).setInb a l := by
  apply ASys.ext <;> try rfl
  funext b; exact queueOf_insert _ _ _ _

theorem abs_setOutbound (s : Sys) (a : Acct) (l : List Stanza) :
    abs { s with outbound := insert s.outbound a l } = (abs s).setOutb a l := by
  apply ASys.ext <;> try rfl
  funext b; exact queueOf_insert _ _ _ _

theorem abs_addSub (s : Sys) (p : Acct × Node) :
    abs { s with submitted := s.submitted ++ [p] } = (abs s).addSub p := rfl

@[simp] theorem abs_nextGen (s : Sys) (x : Nat) : abs { s with nextGen := x } = abs s := rfl
@[simp] theorem abs_nextSess (s : Sys) (x : Nat) : abs { s with nextSess := x } = abs s := rfl
@[simp] theorem abs_nextCtr (s : Sys) (x : Nat) : abs { s with nextCtr := x } = abs s := rfl
@[simp] theorem abs_faulted (s : Sys) (x : List (Nat × Acct)) : abs { s with faulted := x } = abs s := rfl

/-- writing back a client whose relevant part is unchanged does not change the abstraction -/
theorem setCl_same (A : ASys) (a : Acct) (h : A.reg a = true) : A.setCl a (A.cl a) = A := by
  cases A with
  | mk reg cl inb outb groups submitted wire =>
    simp only [ASys.setCl, ASys.mk.injEq, and_true]
    constructor
    · funext b
      by_cases hb : a = b
      · subst hb; simpa using h
      · simp [hb]
    · funext b
      by_cases hb : b = a
      · subst hb; simp
      · simp [hb]

theorem abs_setClient_same (s : Sys) (a : Acct) (c : Client) (h : (abs s).reg a = true) (hc : core c = (abs s).cl a) :
    abs (setClient s a c) = abs s := by
  rw [abs_setClient, hc, setCl_same _ _ h]

-- ------------------------------------------------------------------------------------------------ invariant
/-- the account a stanza's `from` / `participant` attributes name -/
def whoOf (peer : Dest) (part : Option Acct) : Acct :=
  match part with
  | some p => p
  | none => match peer with | .user a => a | .group _ => 0

def intendedG (groups : List (Nat × List Acct)) (a : Acct) (n : Node) : List Acct :=
  match n.dest with
  | .user b => [b]
  | .group g => ((lookup groups g).getD []).filter (· != a)

theorem intended_eq (s : Sys) (a : Acct) (n : Node) : intended s a n = intendedG s.groups a n := rfl

def Origin (a : Acct) (n : Node) (peer : Dest) (part : Option Acct) : Prop :=
  match n.dest with
  | .user _ => peer = .user a ∧ part = none
  | .group g => peer = .group g ∧ part = some a

theorem Origin.who {a : Acct} {n : Node} {peer : Dest} {part : Option Acct} (h : Origin a n peer part) :
    whoOf peer part = a := by
  unfold Origin at h
  split at h <;> obtain ⟨h1, h2⟩ := h <;> subst h1 <;> subst h2 <;> rfl

/-- every payload carried by a ciphertext is the node's -/
def GoodEncs (n : Node) (encs : List (Option Acct × Ct)) : Prop :=
  ∀ e ∈ encs, ∀ p, e.2.plain.content = some p → p = n.payload

def iqOf : Stanza → Option Nat
  | .getKeys iq _ => some iq
  | .keys iq _ => some iq
  | .getGroup iq _ => some iq
  | .groupInfo iq _ _ => some iq
  | _ => none

def jidsOf : Stanza → List Acct
  | .getKeys _ j => j
  | .keys _ j => j
  | _ => []

/-- the accounts whose keys a continuation waits for -/
def asked : Cont → List Acct
  | .keysForSend n => (match n.dest with | .user b => [b] | .group _ => [])
  | .keysForRetry _ who _ => [who]
  | .keysForPending peer part => [whoOf peer part]
  | .groupInfo _ => []
  | .keysForGroup _ _ l => l

section Inv
variable (accts : List Acct) (groups : List (Nat × List Acct))

/-- a stanza in the queue from client `a` to the server -/
def UpOK (sub : List (Acct × Node)) (a : Acct) : Stanza → Prop
  | .msg id dest part _ encs pl =>
    pl = none ∧ ∃ n, (a, n) ∈ sub ∧ n.id = id ∧ n.dest = dest ∧ GoodEncs n encs ∧ ∀ r, part = some r → r ∈ intendedG groups a n
  | .receipt id peer part _ => ∃ a' n, (a', n) ∈ sub ∧ n.id = id ∧ a ∈ intendedG groups a' n ∧ Origin a' n peer part
  | _ => True

/-- a stanza in the queue from the server to client `r`, or parked at `r` -/
def DownOK (sub : List (Acct × Node)) (r : Acct) : Stanza → Prop
  | .msg id peer part _ encs _ =>
    ∃ a n, (a, n) ∈ sub ∧ n.id = id ∧ r ∈ intendedG groups a n ∧ Origin a n peer part ∧ GoodEncs n encs
  | .receipt id peer part _ => ∃ n, (r, n) ∈ sub ∧ n.id = id ∧ whoOf peer part ∈ intendedG groups r n
  | .groupInfo _ _ ms => ∀ m ∈ ms, m ∈ accts
  | _ => True

def ContOK (sub : List (Acct × Node)) (a : Acct) : Cont → Prop
  | .keysForSend n => (a, n) ∈ sub
  | .keysForRetry n who _ => (a, n) ∈ sub ∧ who ∈ intendedG groups a n
  | .keysForPending peer part => whoOf peer part ∈ accts
  | .groupInfo n => (a, n) ∈ sub
  | .keysForGroup n _ l => (a, n) ∈ sub ∧ ∀ j ∈ l, j ∈ accts

def ShownOK (sub : List (Acct × Node)) (r : Acct) (x : Shown) : Prop :=
  ∃ a n, (a, n) ∈ sub ∧ n.id = x.id ∧ n.payload = x.payload ∧ r ∈ intendedG groups a n ∧ Origin a n x.peer x.participant

structure ClientOK (sub : List (Acct × Node)) (r : Acct) (k : Core) : Prop where
  skip : k.skipEnc = []
  iq_lt : ∀ iq c, (iq, c) ∈ k.iqReg → iq < k.nextIq
  conts : ∀ iq c, (iq, c) ∈ k.iqReg → ContOK accts groups sub r c
  sentQ : ∀ n, n ∈ k.sentQueue → (r, n) ∈ sub
  pend : ∀ key l, (key, l) ∈ k.pendingIn → ∀ st, st ∈ l → DownOK accts groups sub r st
  shown : ∀ x, x ∈ k.shown → ShownOK groups sub r x

/-- an iq stanza carries an id the client already used, and answers what the continuation under that id waits for -/
def LinkOK (k : Core) (st : Stanza) : Prop :=
  ∀ iq, iqOf st = some iq → iq < k.nextIq ∧ ∀ c, lookup k.iqReg iq = some c → ∀ j, j ∈ asked c → j ∈ jidsOf st

def IqCompat (old new : Core) : Prop :=
  old.nextIq ≤ new.nextIq ∧ ∀ iq c, lookup new.iqReg iq = some c → lookup old.iqReg iq = some c ∨ old.nextIq ≤ iq

theorem IqCompat.rfl' {k k' : Core} (h1 : k'.nextIq = k.nextIq) (h2 : k'.iqReg = k.iqReg) : IqCompat k k' :=
  ⟨by omega, fun _ _ h => Or.inl (h2 ▸ h)⟩

theorem LinkOK.compat {old new : Core} {st : Stanza} (hq : IqCompat old new) (hl : LinkOK old st) : LinkOK new st := by
  intro iq hiq
  obtain ⟨h1, h2⟩ := hl iq hiq
  refine ⟨Nat.lt_of_lt_of_le h1 hq.1, fun c hc => ?_⟩
  rcases hq.2 iq c hc with h | h
  · exact h2 c h
  · omega

theorem LinkOK.of_none {k : Core} {st : Stanza} (h : iqOf st = none) : LinkOK k st := by
  intro iq hiq; rw [h] at hiq; cases hiq

structure AInv (A : ASys) : Prop where
  reg : ∀ a, A.reg a = true ↔ a ∈ accts
  grp : A.groups = groups
  wf : ∀ g l, (g, l) ∈ groups → ∀ m, m ∈ l → m ∈ accts
  sub_reg : ∀ a n, (a, n) ∈ A.submitted → a ∈ accts ∧ ∀ r, r ∈ intendedG groups a n → r ∈ accts
  sub_ids : ∀ a n a' n', (a, n) ∈ A.submitted → (a', n') ∈ A.submitted → n.id = n'.id → a = a' ∧ n = n'
  client : ∀ r, ClientOK accts groups A.submitted r (A.cl r)
  inb_ok : ∀ r st, st ∈ A.inb r → r ∈ accts ∧ UpOK groups A.submitted r st ∧ LinkOK (A.cl r) st
  outb_ok : ∀ r st, st ∈ A.outb r → r ∈ accts ∧ DownOK accts groups A.submitted r st ∧ LinkOK (A.cl r) st
  wire : ∀ a id peer part im encs pl, (a, Stanza.msg id peer part im encs pl) ∈ A.wire → pl = none

variable {accts groups}

theorem UpOK.mono {sub sub' : List (Acct × Node)} (h : ∀ p, p ∈ sub → p ∈ sub') {a : Acct} {st : Stanza} :
    UpOK groups sub a st → UpOK groups sub' a st := by
  cases st with
  | msg id dest part im encs pl =>
    simp only [UpOK]
    rintro ⟨h1, n, hn, rest⟩
    exact ⟨h1, n, h _ hn, rest⟩
  | receipt id peer part t =>
    simp only [UpOK]
    rintro ⟨a', n, hn, rest⟩
    exact ⟨a', n, h _ hn, rest⟩
  | _ => exact id

theorem DownOK.mono {sub sub' : List (Acct × Node)} (h : ∀ p, p ∈ sub → p ∈ sub') {r : Acct} {st : Stanza} :
    DownOK accts groups sub r st → DownOK accts groups sub' r st := by
  cases st with
  | msg id dest part im encs pl =>
    simp only [DownOK]
    rintro ⟨a, n, hn, rest⟩
    exact ⟨a, n, h _ hn, rest⟩
  | receipt id peer part t =>
    simp only [DownOK]
    rintro ⟨n, hn, rest⟩
    exact ⟨n, h _ hn, rest⟩
  | _ => exact id

theorem ContOK.mono {sub sub' : List (Acct × Node)} (h : ∀ p, p ∈ sub → p ∈ sub') {a : Acct} {c : Cont} :
    ContOK accts groups sub a c → ContOK accts groups sub' a c := by
  cases c with
  | keysForSend n => exact h _
  | keysForRetry n who count => exact fun ⟨h1, h2⟩ => ⟨h _ h1, h2⟩
  | keysForPending peer part => exact id
  | groupInfo n => exact h _
  | keysForGroup n all l => exact fun ⟨h1, h2⟩ => ⟨h _ h1, h2⟩

theorem ShownOK.mono {sub sub' : List (Acct × Node)} (h : ∀ p, p ∈ sub → p ∈ sub') {r : Acct} {x : Shown} :
    ShownOK groups sub r x → ShownOK groups sub' r x := by
  rintro ⟨a, n, hn, rest⟩
  exact ⟨a, n, h _ hn, rest⟩

theorem ClientOK.mono {sub sub' : List (Acct × Node)} (h : ∀ p, p ∈ sub → p ∈ sub') {r : Acct} {k : Core}
    (hk : ClientOK accts groups sub r k) : ClientOK accts groups sub' r k where
  skip := hk.skip
  iq_lt := hk.iq_lt
  conts iq c hc := (hk.conts iq c hc).mono h
  sentQ n hn := h _ (hk.sentQ n hn)
  pend key l hl st hst := (hk.pend key l hl st hst).mono h
  shown x hx := (hk.shown x hx).mono h

/-- the accounts a registered continuation waits for are registered -/
theorem AInv.asked_reg {A : ASys} (h : AInv accts groups A) {r : Acct} {iq : Nat} {c : Cont}
    (hc : (iq, c) ∈ (A.cl r).iqReg) : ∀ j, j ∈ asked c → j ∈ accts := by
  have hk := (h.client r).conts iq c hc
  intro j hj
  cases c with
  | keysForSend n =>
    simp only [ContOK] at hk
    have := (h.sub_reg r n hk).2 j
    simp only [asked] at hj
    simp only [intendedG] at this
    split at hj
    · next b hb => rw [hb] at this; exact this hj
    · simp at hj
  | keysForRetry n who count =>
    simp only [ContOK] at hk
    simp only [asked, List.mem_singleton] at hj
    subst hj
    exact (h.sub_reg r n hk.1).2 _ hk.2
  | keysForPending peer part =>
    simp only [ContOK] at hk
    simp only [asked, List.mem_singleton] at hj
    subst hj; exact hk
  | groupInfo n => simp [asked] at hj
  | keysForGroup n all l =>
    simp only [ContOK] at hk
    exact hk.2 j hj

theorem AInv.setCl {A : ASys} (h : AInv accts groups A) {a : Acct} {k : Core} (ha : a ∈ accts)
    (hk : ClientOK accts groups A.submitted a k) (hq : IqCompat (A.cl a) k) : AInv accts groups (A.setCl a k) where
  reg b := by
    show (A.reg b || a == b) = true ↔ b ∈ accts
    by_cases hb : a = b
    · subst hb; simp [ha]
    · simp [hb, h.reg b]
  grp := h.grp
  wf := h.wf
  sub_reg := h.sub_reg
  sub_ids := h.sub_ids
  client r := by
    show ClientOK accts groups A.submitted r (if r = a then k else A.cl r)
    split
    · next e => subst e; exact hk
    · exact h.client r
  inb_ok r st hst := by
    obtain ⟨h1, h2, h3⟩ := h.inb_ok r st hst
    refine ⟨h1, h2, ?_⟩
    show LinkOK (if r = a then k else A.cl r) st
    split
    · next e => subst e; exact h3.compat hq
    · exact h3
  outb_ok r st hst := by
    obtain ⟨h1, h2, h3⟩ := h.outb_ok r st hst
    refine ⟨h1, h2, ?_⟩
    show LinkOK (if r = a then k else A.cl r) st
    split
    · next e => subst e; exact h3.compat hq
    · exact h3
  wire := h.wire

theorem AInv.emit {A : ASys} (h : AInv accts groups A) {a : Acct} {st : Stanza} (ha : a ∈ accts)
    (hu : UpOK groups A.submitted a st) (hl : LinkOK (A.cl a) st) : AInv accts groups (A.emit a st) where
  reg := h.reg
  grp := h.grp
  wf := h.wf
  sub_reg := h.sub_reg
  sub_ids := h.sub_ids
  client := h.client
  inb_ok r st' hst := by
    have hst : st' ∈ (if r = a then A.inb a ++ [st] else A.inb r) := hst
    split at hst
    · next e =>
      subst e
      rcases List.mem_append.mp hst with h1 | h1
      · exact h.inb_ok r st' h1
      · rw [List.mem_singleton] at h1; subst h1; exact ⟨ha, hu, hl⟩
    · exact h.inb_ok r st' hst
  outb_ok := h.outb_ok
  wire a' id peer part im encs pl hw := by
    have hw : (a', Stanza.msg id peer part im encs pl) ∈ A.wire ++ [(a, st)] := hw
    rcases List.mem_append.mp hw with h1 | h1
    · exact h.wire _ _ _ _ _ _ _ h1
    · rw [List.mem_singleton] at h1
      cases h1
      exact hu.1

theorem AInv.push {A : ASys} (h : AInv accts groups A) {a : Acct} {st : Stanza} (ha : a ∈ accts)
    (hd : DownOK accts groups A.submitted a st) (hl : LinkOK (A.cl a) st) : AInv accts groups (A.push a st) where
  reg := h.reg
  grp := h.grp
  wf := h.wf
  sub_reg := h.sub_reg
  sub_ids := h.sub_ids
  client := h.client
  inb_ok := h.inb_ok
  outb_ok r st' hst := by
    have hst : st' ∈ (if r = a then A.outb a ++ [st] else A.outb r) := hst
    split at hst
    · next e =>
      subst e
      rcases List.mem_append.mp hst with h1 | h1
      · exact h.outb_ok r st' h1
      · rw [List.mem_singleton] at h1; subst h1; exact ⟨ha, hd, hl⟩
    · exact h.outb_ok r st' hst
  wire := h.wire

theorem AInv.setInb {A : ASys} (h : AInv accts groups A) {a : Acct} {l : List Stanza}
    (hl : ∀ st, st ∈ l → st ∈ A.inb a) : AInv accts groups (A.setInb a l) where
  reg := h.reg
  grp := h.grp
  wf := h.wf
  sub_reg := h.sub_reg
  sub_ids := h.sub_ids
  client := h.client
  inb_ok r st' hst := by
    by_cases e : r = a
    · subst e
      have h1 : st' ∈ l := by simpa [ASys.setInb] using hst
      exact h.inb_ok r st' (hl _ h1)
    · have h1 : st' ∈ A.inb r := by simpa [ASys.setInb, e] using hst
      exact h.inb_ok r st' h1
  outb_ok := h.outb_ok
  wire := h.wire

theorem AInv.setOutb {A : ASys} (h : AInv accts groups A) {a : Acct} {l : List Stanza}
    (hl : ∀ st, st ∈ l → st ∈ A.outb a) : AInv accts groups (A.setOutb a l) where
  reg := h.reg
  grp := h.grp
  wf := h.wf
  sub_reg := h.sub_reg
  sub_ids := h.sub_ids
  client := h.client
  inb_ok := h.inb_ok
  outb_ok r st' hst := by
    by_cases e : r = a
    · subst e
      have h1 : st' ∈ l := by simpa [ASys.setOutb] using hst
      exact h.outb_ok r st' (hl _ h1)
    · have h1 : st' ∈ A.outb r := by simpa [ASys.setOutb, e] using hst
      exact h.outb_ok r st' h1
  wire := h.wire

theorem AInv.addSub {A : ASys} (h : AInv accts groups A) {a : Acct} {n : Node} (ha : a ∈ accts)
    (hi : ∀ r, r ∈ intendedG groups a n → r ∈ accts) (hid : ∀ p, p ∈ A.submitted → p.2.id ≠ n.id) :
    AInv accts groups (A.addSub (a, n)) := by
  have hm : ∀ p, p ∈ A.submitted → p ∈ (A.addSub (a, n)).submitted := fun p hp => List.mem_append_left _ hp
  exact {
    reg := h.reg
    grp := h.grp
    wf := h.wf
    sub_reg := by
      intro a' n' hp
      rcases List.mem_append.mp hp with h1 | h1
      · exact h.sub_reg a' n' h1
      · rw [List.mem_singleton] at h1; cases h1; exact ⟨ha, hi⟩
    sub_ids := by
      intro a1 n1 a2 n2 h1 h2 e
      rcases List.mem_append.mp h1 with h1 | h1 <;> rcases List.mem_append.mp h2 with h2 | h2
      · exact h.sub_ids _ _ _ _ h1 h2 e
      · rw [List.mem_singleton] at h2; cases h2; exact absurd e (hid _ h1)
      · rw [List.mem_singleton] at h1; cases h1; exact absurd e.symm (hid _ h2)
      · rw [List.mem_singleton] at h1 h2; cases h1; cases h2; exact ⟨rfl, rfl⟩
    client := fun r => (h.client r).mono hm
    inb_ok := fun r st hst => let ⟨h1, h2, h3⟩ := h.inb_ok r st hst; ⟨h1, h2.mono hm, h3⟩
    outb_ok := fun r st hst => let ⟨h1, h2, h3⟩ := h.outb_ok r st hst; ⟨h1, h2.mono hm, h3⟩
    wire := h.wire }

/-- the conclusion of the per-function lemmas: the invariant holds afterwards and nothing was submitted -/
def Good (accts : List Acct) (groups : List (Nat × List Acct)) (A A' : ASys) : Prop :=
  AInv accts groups A' ∧ A'.submitted = A.submitted

theorem Good.refl {A : ASys} (h : AInv accts groups A) : Good accts groups A A := ⟨h, rfl⟩

theorem Good.trans {A B C : ASys} (h1 : Good accts groups A B) (h2 : Good accts groups B C) : Good accts groups A C :=
  ⟨h2.1, h2.2.trans h1.2⟩

end Inv

end Yow.E2E
