/-
  Token conservation in the E2E system model, part 5: the server's step (`process a`).
-/
import YowsupVerif.Lemmas.E2ETokStep
namespace Yow.E2E

-- ------------------------------------------------------------------------------------------------ views of pushes
theorem View.pushes_pushes (V : View) (f g : Acct → List Stanza) :
    (V.pushes f).pushes g = V.pushes (fun b => f b ++ g b) := by
  simp [View.pushes, List.append_assoc]

theorem View.pushes_nil (V : View) : V.pushes (fun _ => []) = V := by
  simp [View.pushes]

theorem view_foldl_push (f : Acct → Stanza) (l : List Acct) : ∀ s : Sys,
    view (l.foldl (fun acc m => push acc m (f m)) s) = (view s).pushes (fun b => (l.filter (· == b)).map f) := by
  induction l with
  | nil => intro s; simp [View.pushes_nil]
  | cons m l ih =>
    intro s
    rw [List.foldl_cons, ih, view_push, View.pushes_pushes]
    congr 1
    funext b
    by_cases hb : b = m
    · subst hb; simp
    · have : ¬ m = b := fun e => hb e.symm
      simp [hb, this]

theorem filter_beq_nodup {l : List Acct} (hn : l.Nodup) (b : Acct) : l.filter (· == b) = if b ∈ l then [b] else [] := by
  induction l with
  | nil => simp
  | cons m l ih =>
    rw [List.nodup_cons] at hn
    rw [List.filter_cons, ih hn.2]
    by_cases hb : m = b
    · subst hb; simp [hn.1]
    · have : ¬ b = m := fun e => hb e.symm
      simp [hb, this]

theorem registered_iff {accts : List Acct} {groups : List (Nat × List Acct)} {s : Sys} (h : AInv accts groups (abs s)) (b : Acct) :
    registered s b = true ↔ b ∈ accts := h.reg b

theorem count_filter_or {α : Type} (l : List α) (p q : α → Bool) (f : α → Nat) (n : Nat) (hd : ∀ e ∈ l, ¬ (p e = true ∧ q e = true)) :
    ((l.filter (fun e => p e || q e)).map f).count n = ((l.filter p).map f).count n + ((l.filter q).map f).count n := by
  induction l with
  | nil => rfl
  | cons e l ih =>
    have hi := ih (fun e' he' => hd e' (List.mem_cons_of_mem _ he'))
    have he := hd e (by simp)
    simp only [List.filter_cons]
    cases hp : p e <;> cases hq : q e <;> simp_all [List.count_cons] <;> omega

-- ------------------------------------------------------------------------------------------------ shapes going down
theorem ShapeB_filter_direct {encs : List (Option Acct × Ct)} (m : Acct) (h : ShapeB (fun t => t.isSome = true) encs) :
    ShapeB (fun t => t = none)
      ((encs.filter (fun e => e.1 == some m)).map (fun e => (none, e.2)) ++ encs.filter (fun e => e.1.isNone)) := by
  obtain ⟨l, k, rfl, hk1, hk2, hl⟩ := h
  have e1 : (l ++ [(none, k)]).filter (fun e => e.1 == some m) = l.filter (fun e => e.1 == some m) := by
    simp [List.filter_append]
  have e2 : (l ++ [((none : Option Acct), k)]).filter (fun e => e.1.isNone) = [(none, k)] := by
    rw [List.filter_append]
    have : l.filter (fun e => e.1.isNone) = [] := by
      rw [List.filter_eq_nil_iff]
      intro e he
      have := (hl e he).1
      cases h1 : e.1 <;> simp_all
    simp [this]
  rw [e1, e2]
  refine ⟨(l.filter (fun e => e.1 == some m)).map (fun e => (none, e.2)), k, rfl, hk1, hk2, ?_⟩
  intro e he
  obtain ⟨e', he', rfl⟩ := List.mem_map.mp he
  have := hl e' (List.mem_filter.mp he').1
  exact ⟨rfl, this.2.1, this.2.2⟩

theorem ShapeA_filter_direct {encs : List (Option Acct × Ct)} (h : ShapeA encs) :
    encs.filter (fun e => e.1.isNone) = encs := by
  obtain ⟨ct, rfl, _, _⟩ := h
  simp

theorem CtsOK_of_sub {k : Nat} {st st' : Stanza} (h : CtsOK k st) (hs : ∀ e ∈ ctsOf st', ∃ e' ∈ ctsOf st, e'.2 = e.2) : CtsOK k st' := by
  intro e he
  obtain ⟨e', he', heq⟩ := hs e he
  rw [← heq]
  exact h e' he'

end Yow.E2E

namespace Yow.E2E

def single (x : Acct) (st : Stanza) : Acct → List Stanza := fun b => if b = x then [st] else []

theorem view_push' (s : Sys) (x : Acct) (st : Stanza) : view (push s x st) = (view s).pushes (single x st) := view_push s x st

@[simp] theorem sumMap_single (f : Stanza → Nat) (x : Acct) (st : Stanza) (b : Acct) :
    sumMap f (single x st b) = if b = x then f st else 0 := by
  unfold single; split <;> simp

theorem mem_single_self (x : Acct) (st : Stanza) : st ∈ single x st x := by simp [single]

theorem mem_single {x : Acct} {st st' : Stanza} {b : Acct} (h : st' ∈ single x st b) : b = x ∧ st' = st := by
  unfold single at h
  split at h
  · next e => exact ⟨e, by simpa using h⟩
  · cases h

section Server
variable {ex : Bool} {accts : List Acct} {groups : List (Nat × List Acct)}

theorem DownGood.ack (V : View) (b : Acct) (id cls : Nat) : DownGood V b (.ack id cls) where
  dir := trivial
  cts := fun e he => by cases he
  shape := trivial
  rcpt := fun _ _ _ _ e => by cases e

theorem sv_msg_user {s : Sys} {a : Acct} {rest : List Stanza} {id : Nat} {b : Acct} {part : Option Acct} {im : Bool}
    {encs : List (Option Acct × Ct)} {pl : Option Payload} (hn : accts.Nodup)
    (hA : AInv accts groups (abs s)) (hT : TV ex accts groups s.submitted (view s))
    (hq : queueOf s.inbound a = .msg id (.user b) part im encs pl :: rest) :
    TV ex accts groups s.submitted (view (serverProcess { s with inbound := insert s.inbound a rest } a (.msg id (.user b) part im encs pl))) := by
  have hmem : Stanza.msg id (.user b) part im encs pl ∈ (abs s).inb a := by
    show _ ∈ queueOf s.inbound a; rw [hq]; simp
  obtain ⟨ha, ⟨_, n, hn1, hn2, hn3, _, _⟩, _⟩ := hA.inb_ok a _ hmem
  have hug := hT.ups a _ hmem
  obtain ⟨hpart, hshape⟩ : part = none ∧ ShapeA encs := hug.shape
  subst hpart
  have hint : intendedG groups a n = [b] := by simp [intendedG, hn3]
  have hb : b ∈ accts := (hA.sub_reg a n hn1).2 b (by rw [hint]; simp)
  have hba : b ≠ a := hT.neq a n hn1 b (by rw [hint]; simp)
  have hreg : registered s b = true := (hA.reg b).mpr hb
  simp only [serverProcess]
  rw [if_pos (show registered (push { s with inbound := insert s.inbound a rest } a (.ack id 0)) b = true from hreg)]
  rw [view_push', view_push', view_setInbound, View.pushes_pushes, ShapeA_filter_direct hshape]
  refine TV.server_step hn hT {
    hx := ha
    hq := hq
    good_add := ?_
    cons := ?_
    rcons := ?_
    ans := ?_
    unop := ?_ }
  · intro x st hst
    rcases List.mem_append.mp hst with h1 | h1
    · obtain ⟨_, rfl⟩ := mem_single h1; exact DownGood.ack _ _ _ _
    · obtain ⟨rfl, rfl⟩ := mem_single h1
      exact { dir := trivial, cts := hug.cts, shape := Or.inl hshape, rcpt := fun _ _ _ _ e => by cases e }
  · intro a' n' hn' r hr
    simp only [sumMap_append, sumMap_single, downTok, retryDownTok, upTok, retryUpTok]
    by_cases hid : id = n'.id
    · obtain ⟨rfl, rfl⟩ := sub_unique hA hn1 hn' (hn2.trans hid)
      rw [hint] at hr
      simp only [List.mem_singleton] at hr
      subst hr
      simp [hid]
    · simp [hid]
  · intro a' n' hn' r hr
    simp [rcptOut, rcptIn, deliveryReceiptFrom]
  · intro e he hiq
    cases hiq
  · intro r hr x
    simp only [sumMap_append, sumMap_single, nOf, ctrsOf, ctsOf]
    by_cases hra : r = a
    · subst hra
      have : ¬ r = b := fun e => hba e.symm
      simp [this]
    · have hra' : a ≠ r := fun e => hra e.symm
      simp only [hra, if_false, Nat.zero_add, hra', ne_eq, not_false_eq_true, if_true, upN, upGuard, isMsg, Bool.and_true, ctsFor]
      by_cases hrb : r = b
      · subst hrb
        rw [ShapeA_filter_direct hshape]
        simp [List.map_map, Function.comp_def]
      · have : ¬ b = r := fun e => hrb e.symm
        simp [hrb, this]


theorem sv_msg_group_some {s : Sys} {a : Acct} {rest : List Stanza} {id g : Nat} {p : Acct} {im : Bool}
    {encs : List (Option Acct × Ct)} {pl : Option Payload} (hn : accts.Nodup)
    (hA : AInv accts groups (abs s)) (hT : TV ex accts groups s.submitted (view s))
    (hq : queueOf s.inbound a = .msg id (.group g) (some p) im encs pl :: rest) :
    TV ex accts groups s.submitted
      (view (serverProcess { s with inbound := insert s.inbound a rest } a (.msg id (.group g) (some p) im encs pl))) := by
  have hmem : Stanza.msg id (.group g) (some p) im encs pl ∈ (abs s).inb a := by
    show _ ∈ queueOf s.inbound a; rw [hq]; simp
  obtain ⟨ha, ⟨_, n, hn1, hn2, hn3, _, hpi⟩, _⟩ := hA.inb_ok a _ hmem
  have hug := hT.ups a _ hmem
  have hshape : ShapeA encs := hug.shape
  have hpint : p ∈ intendedG groups a n := hpi p rfl
  have hp : p ∈ accts := (hA.sub_reg a n hn1).2 p hpint
  have hpa : p ≠ a := hT.neq a n hn1 p hpint
  have hreg : registered s p = true := (hA.reg p).mpr hp
  simp only [serverProcess]
  rw [if_pos (show registered (push { s with inbound := insert s.inbound a rest } a (.ack id 0)) p = true from hreg)]
  rw [view_push', view_push', view_setInbound, View.pushes_pushes, ShapeA_filter_direct hshape]
  refine TV.server_step hn hT {
    hx := ha
    hq := hq
    good_add := ?_
    cons := ?_
    rcons := ?_
    ans := ?_
    unop := ?_ }
  · intro x st hst
    rcases List.mem_append.mp hst with h1 | h1
    · obtain ⟨_, rfl⟩ := mem_single h1; exact DownGood.ack _ _ _ _
    · obtain ⟨rfl, rfl⟩ := mem_single h1
      exact { dir := trivial, cts := hug.cts, shape := Or.inl hshape, rcpt := fun _ _ _ _ e => by cases e }
  · intro a' n' hn' r hr
    simp only [sumMap_append, sumMap_single, downTok, retryDownTok, upTok, retryUpTok]
    by_cases hid : id = n'.id
    · obtain ⟨rfl, rfl⟩ := sub_unique hA hn1 hn' (hn2.trans hid)
      by_cases hrp : r = p
      · subst hrp; simp [hid]
      · have : ¬ p = r := fun e => hrp e.symm
        simp [hid, hrp, this]
    · simp [hid]
  · intro a' n' hn' r hr
    simp [rcptOut, rcptIn, deliveryReceiptFrom]
  · intro e he hiq
    cases hiq
  · intro r hr x
    simp only [sumMap_append, sumMap_single, nOf, ctrsOf, ctsOf]
    by_cases hra : r = a
    · subst hra
      have : ¬ r = p := fun e => hpa e.symm
      simp [this]
    · have hra' : a ≠ r := fun e => hra e.symm
      simp only [hra, if_false, Nat.zero_add, hra', ne_eq, not_false_eq_true, if_true, upN, upGuard, isMsg, Bool.and_true, ctsFor]
      by_cases hrp : r = p
      · subst hrp
        rw [ShapeA_filter_direct hshape]
        simp [List.map_map, Function.comp_def]
      · have : ¬ p = r := fun e => hrp e.symm
        simp [hrp, this]


def fan (targets : List Acct) (f : Acct → Stanza) : Acct → List Stanza := fun b => if b ∈ targets then [f b] else []

@[simp] theorem sumMap_fan (g : Stanza → Nat) (targets : List Acct) (f : Acct → Stanza) (b : Acct) :
    sumMap g (fan targets f b) = if b ∈ targets then g (f b) else 0 := by
  unfold fan; split <;> simp

theorem mem_fan {targets : List Acct} {f : Acct → Stanza} {b : Acct} {st : Stanza} (h : st ∈ fan targets f b) :
    b ∈ targets ∧ st = f b := by
  unfold fan at h
  split at h
  · next e => exact ⟨e, by simpa using h⟩
  · cases h

theorem view_foldl_push_nodup (f : Acct → Stanza) {l : List Acct} (hl : l.Nodup) (s : Sys) :
    view (l.foldl (fun acc m => push acc m (f m)) s) = (view s).pushes (fan l f) := by
  rw [view_foldl_push]
  congr 1
  funext b
  rw [filter_beq_nodup hl]
  unfold fan
  split <;> simp

theorem members_nodup (hnd : ∀ g ∈ groups, g.2.Nodup) (g : Nat) : ((lookup groups g).getD []).Nodup := by
  cases hl : lookup groups g with
  | none => simp
  | some l => exact hnd (g, l) (lookup_mem hl)

theorem sv_msg_group_none {s : Sys} {a : Acct} {rest : List Stanza} {id g : Nat} {im : Bool}
    {encs : List (Option Acct × Ct)} {pl : Option Payload} (hn : accts.Nodup) (hnd : ∀ g ∈ groups, g.2.Nodup)
    (hA : AInv accts groups (abs s)) (hT : TV ex accts groups s.submitted (view s))
    (hq : queueOf s.inbound a = .msg id (.group g) none im encs pl :: rest) :
    TV ex accts groups s.submitted
      (view (serverProcess { s with inbound := insert s.inbound a rest } a (.msg id (.group g) none im encs pl))) := by
  have hmem : Stanza.msg id (.group g) none im encs pl ∈ (abs s).inb a := by
    show _ ∈ queueOf s.inbound a; rw [hq]; simp
  obtain ⟨ha, ⟨_, n, hn1, hn2, hn3, _, _⟩, _⟩ := hA.inb_ok a _ hmem
  have hug := hT.ups a _ hmem
  have hshape : ShapeB (fun t => t.isSome = true) encs := hug.shape
  have hgrp : s.groups = groups := hA.grp
  have hint : intendedG groups a n = ((lookup groups g).getD []).filter (· != a) := by simp [intendedG, hn3]
  have htn : (((lookup groups g).getD []).filter (· != a)).Nodup := (members_nodup hnd g).sublist List.filter_sublist
  simp only [serverProcess]
  have hmem' : members (push { s with inbound := insert s.inbound a rest } a (.ack id 0)) g = (lookup groups g).getD [] := by
    show (lookup s.groups g).getD [] = _; rw [hgrp]
  rw [hmem', view_foldl_push_nodup _ htn, view_push', view_setInbound, View.pushes_pushes]
  refine TV.server_step hn hT {
    hx := ha
    hq := hq
    good_add := ?_
    cons := ?_
    rcons := ?_
    ans := ?_
    unop := ?_ }
  · intro x st hst
    rcases List.mem_append.mp hst with h1 | h1
    · obtain ⟨_, rfl⟩ := mem_single h1; exact DownGood.ack _ _ _ _
    · obtain ⟨_, rfl⟩ := mem_fan h1
      refine { dir := trivial, cts := ?_, shape := Or.inr ⟨rfl, ShapeB_filter_direct x hshape⟩, rcpt := fun _ _ _ _ e => by cases e }
      intro e he
      have he : e ∈ (encs.filter (fun e => e.1 == some x)).map (fun e => (none, e.2)) ++ encs.filter (fun e => e.1.isNone) := he
      rcases List.mem_append.mp he with h2 | h2
      · obtain ⟨e', he', rfl⟩ := List.mem_map.mp h2
        exact hug.cts e' (List.mem_filter.mp he').1
      · exact hug.cts e (List.mem_filter.mp h2).1
  · intro a' n' hn' r hr
    simp only [sumMap_append, sumMap_single, sumMap_fan, downTok, retryDownTok, upTok, retryUpTok]
    by_cases hid : id = n'.id
    · obtain ⟨rfl, rfl⟩ := sub_unique hA hn1 hn' (hn2.trans hid)
      rw [hint] at hr
      simp [hid, hr]
    · simp [hid]
  · intro a' n' hn' r hr
    simp [rcptOut, rcptIn, deliveryReceiptFrom]
  · intro e he hiq
    cases hiq
  · intro r hr x
    simp only [sumMap_append, sumMap_single, sumMap_fan, nOf, ctrsOf, ctsOf]
    by_cases hra : r = a
    · subst hra
      simp
    · have hra' : a ≠ r := fun e => hra e.symm
      simp only [hra, if_false, Nat.zero_add, hra', ne_eq, not_false_eq_true, if_true, upN, upGuard, isMsg, Bool.true_and, ctsFor,
        List.mem_filter, bne_iff_ne, and_true, List.contains_eq_mem, decide_eq_true_eq]
      split
      · rw [List.map_append, List.map_map, List.map_map, List.count_append]
        have := count_filter_or encs (fun e => e.1 == some r) (fun e => e.1.isNone) (fun e => e.2.ctr) x (by
          intro e _ ⟨h1, h2⟩
          cases h3 : e.1 <;> simp_all)
        exact this.symm
      · rfl


theorem sv_receipt {s : Sys} {a : Acct} {rest : List Stanza} {id : Nat} {peer : Dest} {part : Option Acct} {t : RType}
    (hn : accts.Nodup)
    (hA : AInv accts groups (abs s)) (hT : TV ex accts groups s.submitted (view s))
    (hq : queueOf s.inbound a = .receipt id peer part t :: rest) :
    TV ex accts groups s.submitted
      (view (serverProcess { s with inbound := insert s.inbound a rest } a (.receipt id peer part t))) := by
  have hmem : Stanza.receipt id peer part t ∈ (abs s).inb a := by
    show _ ∈ queueOf s.inbound a; rw [hq]; simp
  obtain ⟨ha, ⟨a', n, hn1, hn2, hn3, horig⟩, _⟩ := hA.inb_ok a _ hmem
  have hug := hT.ups a _ hmem
  have ha' : a' ∈ accts := (hA.sub_reg a' n hn1).1
  have hreg : registered s a' = true := (hA.reg a').mpr ha'
  -- the receipt as the sender will get it
  have key : ∃ peer' part', view (serverProcess { s with inbound := insert s.inbound a rest } a (.receipt id peer part t))
        = ((view s).popIn a rest).pushes (fun b => single a (.ack id 1) b ++ single a' (.receipt id peer' part' t) b) ∧
      RecShape n peer' part' ∧ whoOf peer' part' = a ∧
      (part' = some a ∨ (part' = none ∧ peer' = .user a)) ∧
      ((∃ g, peer' = .group g ∧ part' = some a) ∨ (peer' = .user a ∧ part' = none)) := by
    unfold Origin at horig
    split at horig
    · next b hb =>
      obtain ⟨rfl, rfl⟩ := horig
      have hab : a = b := by simpa [intendedG, hb] using hn3
      subst hab
      refine ⟨.user a, none, ?_, by simp [RecShape, hb], rfl, Or.inr ⟨rfl, rfl⟩, Or.inr ⟨rfl, rfl⟩⟩
      simp only [serverProcess]
      rw [if_pos (show registered (push { s with inbound := insert s.inbound a rest } a (.ack id 1)) a' = true from hreg)]
      rw [view_push', view_push', view_setInbound, View.pushes_pushes]
    · next g hg =>
      obtain ⟨rfl, rfl⟩ := horig
      refine ⟨.group g, some a, ?_, by simp [RecShape, hg], rfl, Or.inl rfl, Or.inl ⟨g, rfl, rfl⟩⟩
      simp only [serverProcess]
      rw [if_pos (show registered (push { s with inbound := insert s.inbound a rest } a (.ack id 1)) a' = true from hreg)]
      rw [view_push', view_push', view_setInbound, View.pushes_pushes]
  obtain ⟨peer', part', hview, hrs, hwho, hident, hform⟩ := key
  rw [hview]
  have hrd : ∀ id' r, retryDownTok id' r (.receipt id peer' part' t) = if a = r then retryUpTok id' (.receipt id peer part t) else 0 := by
    intro id' r
    cases t with
    | delivery => simp [retryDownTok, retryUpTok]
    | retry c =>
      simp only [retryDownTok, retryUpTok]
      rcases hform with ⟨g, rfl, rfl⟩ | ⟨rfl, rfl⟩
      · by_cases har : a = r <;> simp [har]
      · by_cases har : a = r <;> simp [har]
  have hro : ∀ id' r, rcptOut id' r (.receipt id peer' part' t) = if a = r then rcptIn id' (.receipt id peer part t) else 0 := by
    intro id' r
    cases t with
    | retry c =>
      rcases hform with ⟨g, rfl, rfl⟩ | ⟨rfl, rfl⟩ <;> simp [rcptOut, rcptIn, deliveryReceiptFrom]
    | delivery =>
      rcases hform with ⟨g, rfl, rfl⟩ | ⟨rfl, rfl⟩
      · by_cases har : a = r <;> by_cases hid : id = id' <;> simp [rcptOut, rcptIn, deliveryReceiptFrom, har, hid]
      · by_cases har : a = r <;> by_cases hid : id = id' <;> simp [rcptOut, rcptIn, deliveryReceiptFrom, har, hid]
  have hidn : ∀ a'' n', (a'', n') ∈ s.submitted → a'' ≠ a' → ∀ id', (id' = n'.id) →
      retryUpTok id' (.receipt id peer part t) = 0 ∧ rcptIn id' (.receipt id peer part t) = 0 := by
    intro a'' n' hn' hne id' hid'
    have hne' : id ≠ id' := by
      intro e
      exact hne (sub_unique hA hn' hn1 (by rw [hn2, e, hid'])).1
    cases t <;> simp [retryUpTok, rcptIn, deliveryReceiptFrom, hne']
  refine TV.server_step hn hT {
    hx := ha
    hq := hq
    good_add := ?_
    cons := ?_
    rcons := ?_
    ans := ?_
    unop := ?_ }
  · intro x st hst
    rcases List.mem_append.mp hst with h1 | h1
    · obtain ⟨_, rfl⟩ := mem_single h1; exact DownGood.ack _ _ _ _
    · obtain ⟨rfl, rfl⟩ := mem_single h1
      refine { dir := trivial, cts := (fun e he => by cases he), shape := trivial, rcpt := ?_ }
      intro id0 peer0 part0 t0 e
      cases e
      refine ⟨⟨n, hn1, hn2, hrs⟩, ?_, ?_⟩
      · intro ht; subst ht; rw [hwho]; exact hug.honest _ _ _ rfl
      · intro c ht; subst ht; exact hug.retry _ _ _ _ rfl
  · intro a'' n' hn' r hr
    simp only [sumMap_append, sumMap_single, hrd, downTok, upTok]
    by_cases haa : a'' = a'
    · subst haa
      by_cases hra : r = a
      · subst hra; simp
      · have : ¬ a = r := fun e => hra e.symm
        simp [hra, this]
    · have := (hidn a'' n' hn' haa n'.id rfl).1
      simp [haa, this]
  · intro a'' n' hn' r hr
    simp only [sumMap_append, sumMap_single, hro]
    by_cases haa : a'' = a'
    · subst haa
      by_cases hra : r = a
      · subst hra; simp
      · have : ¬ a = r := fun e => hra e.symm
        simp [hra, this]
    · have := (hidn a'' n' hn' haa n'.id rfl).2
      simp [haa, this]
  · intro e he hiq
    cases hiq
  · intro r hr x
    simp [nOf, ctrsOf, ctsOf, upN, upGuard, isMsg]


/-- a stanza that carries no token and is answered by `ans` (possibly nothing) to the same client -/
theorem sv_plain {s : Sys} {a : Acct} {rest : List Stanza} {st : Stanza} {add : Acct → List Stanza} (hn : accts.Nodup)
    (hA : AInv accts groups (abs s)) (hT : TV ex accts groups s.submitted (view s))
    (hq : queueOf s.inbound a = st :: rest)
    (hz : ∀ id r, upTok id r st = 0 ∧ retryUpTok id st = 0 ∧ rcptIn id st = 0 ∧ upN groups r id st = 0)
    (hadd : ∀ b x, x ∈ add b → b = a ∧ DownGood (view s) a x ∧
      ∀ id r, downTok id x = 0 ∧ retryDownTok id r x = 0 ∧ rcptOut id r x = 0 ∧ nOf id x = 0)
    (hans : ∀ iq, stanzaIq st = some iq → ∃ x ∈ add a, stanzaIq x = some iq) :
    TV ex accts groups s.submitted (((view s).popIn a rest).pushes add) := by
  have hmem : st ∈ (abs s).inb a := by
    show _ ∈ queueOf s.inbound a; rw [hq]; simp
  obtain ⟨ha, _, _⟩ := hA.inb_ok a _ hmem
  have hzero : ∀ (f : Stanza → Nat) b, (∀ x, x ∈ add b → f x = 0) → sumMap f (add b) = 0 :=
    fun f b hf => sumMap_eq_zero hf
  refine TV.server_step hn hT {
    hx := ha
    hq := hq
    good_add := ?_
    cons := ?_
    rcons := ?_
    ans := ?_
    unop := ?_ }
  · intro b x hx
    obtain ⟨rfl, h2, _⟩ := hadd b x hx
    exact h2
  · intro a' n' hn' r hr
    rw [hzero _ r (fun x hx => ((hadd r x hx).2.2 n'.id r).1), hzero _ a' (fun x hx => ((hadd a' x hx).2.2 n'.id r).2.1),
      (hz n'.id r).1, (hz n'.id r).2.1]
    simp
  · intro a' n' hn' r hr
    rw [hzero _ a' (fun x hx => ((hadd a' x hx).2.2 n'.id r).2.2.1), (hz n'.id r).2.2.1]
    simp
  · intro e he hiq
    exact hans e.1 hiq
  · intro r hr x
    rw [hzero _ r (fun y hy => ((hadd r y hy).2.2 x r).2.2.2), (hz x r).2.2.2]
    simp

theorem serverProcess_TV (hn : accts.Nodup) (hnd : ∀ g ∈ groups, g.2.Nodup) {s : Sys} {a : Acct} {st : Stanza} {rest : List Stanza}
    (hA : AInv accts groups (abs s)) (hT : TV ex accts groups s.submitted (view s))
    (hq : queueOf s.inbound a = st :: rest) :
    TV ex accts groups s.submitted (view (serverProcess { s with inbound := insert s.inbound a rest } a st)) := by
  have hmem : st ∈ (abs s).inb a := by
    show _ ∈ queueOf s.inbound a; rw [hq]; simp
  have hug := hT.ups a _ hmem
  cases st with
  | msg id dest part im encs pl =>
    cases dest with
    | user b => exact sv_msg_user hn hA hT hq
    | group g =>
      cases part with
      | none => exact sv_msg_group_none hn hnd hA hT hq
      | some p => exact sv_msg_group_some hn hA hT hq
  | receipt id peer part t => exact sv_receipt hn hA hT hq
  | ack id cls =>
    simp only [serverProcess]
    rw [view_setInbound, ← View.pushes_nil ((view s).popIn a rest)]
    exact sv_plain hn hA hT hq (fun _ _ => ⟨rfl, rfl, rfl, rfl⟩) (fun b x hx => by cases hx) (fun iq e => by cases e)
  | keys iq got => exact absurd hug.dir (by simp [upDir])
  | groupInfo iq g ms => exact absurd hug.dir (by simp [upDir])
  | getKeys iq jids =>
    simp only [serverProcess]
    rw [view_push', view_setInbound]
    refine sv_plain hn hA hT hq (fun _ _ => ⟨rfl, rfl, rfl, rfl⟩) ?_ ?_
    · intro b x hx
      obtain ⟨rfl, rfl⟩ := mem_single hx
      exact ⟨rfl, { dir := trivial, cts := (fun e he => by cases he), shape := trivial, rcpt := (fun _ _ _ _ e => by cases e) },
        fun _ _ => ⟨rfl, rfl, rfl, rfl⟩⟩
    · intro iq' e
      cases e
      exact ⟨_, mem_single_self _ _, rfl⟩
  | getGroup iq g =>
    simp only [serverProcess]
    rw [view_push', view_setInbound]
    refine sv_plain hn hA hT hq (fun _ _ => ⟨rfl, rfl, rfl, rfl⟩) ?_ ?_
    · intro b x hx
      obtain ⟨rfl, rfl⟩ := mem_single hx
      exact ⟨rfl, { dir := trivial, cts := (fun e he => by cases he), shape := trivial, rcpt := (fun _ _ _ _ e => by cases e) },
        fun _ _ => ⟨rfl, rfl, rfl, rfl⟩⟩
    · intro iq' e
      cases e
      exact ⟨_, mem_single_self _ _, rfl⟩

/-- the server's step preserves the invariant -/
theorem process_TInv (hw : WFConfig accts groups) (hnd : ∀ g ∈ groups, g.2.Nodup) {s : Sys} {a : Acct}
    (h : TInv ex accts groups s) (hall : Allowed s (.process a) = true) : TInv ex accts groups (step s (.process a)) := by
  refine ⟨step_inv h.1 hall, ?_⟩
  simp only [step]
  split
  · exact h.2
  · next st rest heq =>
    have hmem : st ∈ (abs s).inb a := by
      show st ∈ queueOf s.inbound a
      rw [heq]; simp
    obtain ⟨ha, hu, hl⟩ := h.1.inb_ok a st hmem
    have h' : AInv accts groups (abs { s with inbound := insert s.inbound a rest }) := by
      rw [abs_setInbound]
      refine h.1.setInb ?_
      intro st' hst'
      show st' ∈ queueOf s.inbound a
      rw [heq]; exact List.mem_cons_of_mem _ hst'
    have hsub : (serverProcess { s with inbound := insert s.inbound a rest } a st).submitted = s.submitted :=
      (serverProcess_good (s := { s with inbound := insert s.inbound a rest }) h' ha hu (by rw [abs_setInbound]; exact hl)).2
    rw [hsub]
    exact serverProcess_TV hw.1 hnd h.1 h.2 heq

end Server
end Yow.E2E
