import YowsupVerif.Model.Trust
namespace Yow.Trust

/-- a stored session was built for the pinned identity -/
def Inv (s : St) : Prop := ∀ c k, s.session c = some k → s.pinned c = some k

theorem inv_init : Inv init := by intro c k h; simp [init] at h

@[simp] theorem good_trustUnknown : Cfg.good.trustUnknown = true := rfl
@[simp] theorem good_trustSame : Cfg.good.trustSame = true := rfl
@[simp] theorem good_trustOther : Cfg.good.trustOther = false := rfl
@[simp] theorem good_saveReplaces : Cfg.good.saveReplaces = true := rfl
@[simp] theorem good_rebuild : Cfg.good.rebuildAfterTrust = true := rfl

@[simp] theorem upd_same (f : Nat → Option Nat) (c : Nat) (v : Option Nat) : upd f c v c = v := by simp [upd]
theorem upd_other (f : Nat → Option Nat) (c c' : Nat) (v : Option Nat) (h : c' ≠ c) : upd f c v c' = f c' := by simp [upd, h]

theorem save_good_pinned (s : St) (c k : Nat) : (save Cfg.good s c k).pinned = upd s.pinned c (some k) := by
  unfold save; cases s.pinned c <;> simp

theorem save_good_session (s : St) (c k : Nat) : (save Cfg.good s c k).session = s.session := by
  unfold save; cases s.pinned c <;> simp

theorem save_good_auto (s : St) (c k : Nat) : (save Cfg.good s c k).autotrust = s.autotrust := by
  unfold save; cases s.pinned c <;> simp

theorem build_good_pinned (s : St) (c k : Nat) : (build Cfg.good s c k).pinned = upd s.pinned c (some k) := by
  simp [build, save_good_pinned]

theorem build_good_session (s : St) (c k : Nat) : (build Cfg.good s c k).session = upd s.session c (some k) := by
  simp [build, save_good_session]

theorem build_good_auto (s : St) (c k : Nat) : (build Cfg.good s c k).autotrust = s.autotrust := by
  simp [build, save_good_auto]

theorem isTrusted_after_save (s : St) (c k : Nat) : isTrusted Cfg.good (save Cfg.good s c k) c k = true := by
  simp [isTrusted, save_good_pinned]

theorem inv_build (s : St) (c k : Nat) (h : Inv s) : Inv (build Cfg.good s c k) := by
  intro c' k' hs
  rw [build_good_session] at hs; rw [build_good_pinned]
  by_cases hc : c' = c
  · subst hc; simp at hs ⊢; exact hs
  · rw [upd_other _ _ _ _ hc] at hs ⊢; exact h c' k' hs

/-- with automatic trust off, a trusted identity is the pinned one or the first one -/
theorem isTrusted_good (s : St) (c k : Nat) :
    isTrusted Cfg.good s c k = true ↔ (s.pinned c = none ∨ s.pinned c = some k) := by
  unfold isTrusted
  cases hp : s.pinned c with
  | none => simp
  | some p => by_cases h : p = k <;> simp [h]

theorem inv_step (s : St) (e : Ev) (h : Inv s) : Inv (step Cfg.good s e).1 := by
  cases e with
  | bundle c k =>
    simp only [step]
    split
    · exact inv_build s c k h
    · split
      · simp only [isTrusted_after_save, good_rebuild, if_true]
        -- the intermediate state (pin replaced, old session still stored) need not satisfy Inv: go directly
        intro c' k' hs
        rw [build_good_session, save_good_session] at hs
        rw [build_good_pinned, save_good_pinned]
        by_cases hc : c' = c
        · subst hc; simp at hs ⊢; exact hs
        · rw [upd_other _ _ _ _ hc] at hs; rw [upd_other _ _ _ _ hc, upd_other _ _ _ _ hc]; exact h c' k' hs
      · exact h
  | firstMsg c k =>
    simp only [step]
    split
    · exact inv_build s c k h
    · split
      · simp only [isTrusted_after_save, if_true]
        intro c' k' hs
        rw [build_good_session, save_good_session] at hs
        rw [build_good_pinned, save_good_pinned]
        by_cases hc : c' = c
        · subst hc; simp at hs ⊢; exact hs
        · rw [upd_other _ _ _ _ hc] at hs; rw [upd_other _ _ _ _ hc, upd_other _ _ _ _ hc]; exact h c' k' hs
      · exact h
  | msgIn c k => simp only [step]; split <;> exact h
  | encrypt c => simp only [step]; split <;> exact h
  | restart => exact h
  | setAuto b => exact h

theorem inv_run (s : St) (es : List Ev) (h : Inv s) : Inv (run Cfg.good s es).1 := by
  induction es generalizing s with
  | nil => exact h
  | cons e es ih => exact ih _ (inv_step s e h)

/-- one step with automatic trust off: an existing pin is kept, automatic trust stays off unless switched on, and every
    ciphertext sent / message delivered for the contact belongs to the pinned identity -/
theorem step_noauto (s : St) (e : Ev) (c p : Nat) (hi : Inv s) (ha : s.autotrust = false) (hp : s.pinned c = some p)
    (hne : e ≠ .setAuto true) :
    (step Cfg.good s e).1.pinned c = some p ∧ (step Cfg.good s e).1.autotrust = false ∧
    (∀ k, Out.encryptedFor c k ∈ (step Cfg.good s e).2 → k = p) ∧
    (∀ k, Out.delivered c k ∈ (step Cfg.good s e).2 → k = p) ∧
    (∀ k, Out.trusted c k ∉ (step Cfg.good s e).2) := by
  cases e with
  | bundle c' k =>
    simp only [step, ha]
    by_cases ht : isTrusted Cfg.good s c' k = true
    · simp only [ht, if_true, build_good_pinned, build_good_auto, ha]
      refine ⟨?_, trivial, by simp, by simp, by simp⟩
      by_cases hc : c = c'
      · subst hc
        rcases (isTrusted_good s c k).1 ht with h0 | h1
        · rw [hp] at h0; cases h0
        · simp; rw [hp] at h1; exact (Option.some.inj h1).symm
      · rw [upd_other _ _ _ _ hc]; exact hp
    · simp [ht, hp, ha]
  | firstMsg c' k =>
    simp only [step, ha]
    by_cases ht : isTrusted Cfg.good s c' k = true
    · simp only [ht, if_true, build_good_pinned, build_good_auto, ha]
      by_cases hc : c = c'
      · subst hc
        rcases (isTrusted_good s c k).1 ht with h0 | h1
        · rw [hp] at h0; cases h0
        · rw [hp] at h1; have hk : p = k := Option.some.inj h1
          subst hk
          refine ⟨by simp, trivial, by simp, ?_, by simp⟩
          intro k' hk'; simp at hk'; exact hk'
      · rw [upd_other _ _ _ _ hc]
        refine ⟨hp, trivial, by simp, ?_, by simp⟩
        intro k' hk'; simp at hk'; exact absurd hk'.1 hc
    · simp [ht, hp, ha]
  | msgIn c' k =>
    simp only [step]
    split
    · rename_i hs
      refine ⟨hp, ha, by simp, ?_, by simp⟩
      intro k' hk'; simp at hk'
      obtain ⟨h1, h2⟩ := hk'; subst h1; subst h2
      have := hi c k' hs; rw [hp] at this; exact (Option.some.inj this).symm
    · exact ⟨hp, ha, by simp, by simp, by simp⟩
  | encrypt c' =>
    simp only [step]
    cases hs : s.session c' with
    | none => exact ⟨hp, ha, by simp, by simp, by simp⟩
    | some k =>
      refine ⟨hp, ha, ?_, by simp, by simp⟩
      intro k' hk'; simp at hk'
      obtain ⟨h1, h2⟩ := hk'; subst h1; subst h2
      have := hi c k' hs; rw [hp] at this; exact (Option.some.inj this).symm
  | restart => exact ⟨hp, ha, by simp [step], by simp [step], by simp [step]⟩
  | setAuto b =>
    cases b with
    | true => exact absurd rfl hne
    | false => exact ⟨hp, rfl, by simp [step], by simp [step], by simp [step]⟩

theorem noAutoOn_cons (e : Ev) (es : List Ev) (h : NoAutoOn (e :: es)) : e ≠ .setAuto true ∧ NoAutoOn es := by
  cases e with
  | setAuto b => cases b <;> simp_all [NoAutoOn]
  | _ => simp_all [NoAutoOn]

theorem run_noauto (s : St) (es : List Ev) (c p : Nat) (hi : Inv s) (ha : s.autotrust = false) (hp : s.pinned c = some p)
    (hn : NoAutoOn es) :
    (run Cfg.good s es).1.pinned c = some p ∧
    (∀ k, Out.encryptedFor c k ∈ (run Cfg.good s es).2 → k = p) ∧
    (∀ k, Out.delivered c k ∈ (run Cfg.good s es).2 → k = p) ∧
    (∀ k, Out.trusted c k ∉ (run Cfg.good s es).2) := by
  induction es generalizing s with
  | nil => simp [run, hp]
  | cons e es ih =>
    obtain ⟨hne, hn'⟩ := noAutoOn_cons e es hn
    obtain ⟨h1, h2, h3, h4, h5⟩ := step_noauto s e c p hi ha hp hne
    obtain ⟨i1, i2, i3, i4⟩ := ih (step Cfg.good s e).1 (inv_step s e hi) h2 h1 hn'
    refine ⟨i1, ?_, ?_, ?_⟩
    · intro k hk; simp only [run, List.mem_append] at hk; rcases hk with hk | hk
      · exact h3 k hk
      · exact i2 k hk
    · intro k hk; simp only [run, List.mem_append] at hk; rcases hk with hk | hk
      · exact h4 k hk
      · exact i3 k hk
    · intro k hk; simp only [run, List.mem_append] at hk; rcases hk with hk | hk
      · exact h5 k hk
      · exact i4 k hk

/-- events about other contacts (and restarts, option changes) leave a contact's pin and session alone -/
theorem step_frame (s : St) (e : Ev) (c : Nat) (h : e.about c = false) :
    (step Cfg.good s e).1.pinned c = s.pinned c ∧ (step Cfg.good s e).1.session c = s.session c := by
  cases e with
  | bundle c' k =>
    have hc : c ≠ c' := by intro hh; subst hh; simp [Ev.about] at h
    simp only [step]
    split
    · simp [build_good_pinned, build_good_session, upd_other _ _ _ _ hc]
    · split
      · simp only [isTrusted_after_save, good_rebuild, if_true]
        rw [build_good_pinned, build_good_session, save_good_pinned, save_good_session]
        simp [upd_other _ _ _ _ hc]
      · simp
  | firstMsg c' k =>
    have hc : c ≠ c' := by intro hh; subst hh; simp [Ev.about] at h
    simp only [step]
    split
    · simp [build_good_pinned, build_good_session, upd_other _ _ _ _ hc]
    · split
      · simp only [isTrusted_after_save, if_true]
        rw [build_good_pinned, build_good_session, save_good_pinned, save_good_session]
        simp [upd_other _ _ _ _ hc]
      · simp
  | msgIn c' k => simp only [step]; split <;> simp
  | encrypt c' => simp only [step]; split <;> simp
  | restart => simp [step]
  | setAuto b => simp [step]

end Yow.Trust
