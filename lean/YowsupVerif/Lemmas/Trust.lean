import YowsupVerif.Model.Trust
namespace Yow.Trust

/-- a stored session was built for the pinned identity; and a contact whose record holds earlier session states has a pinned identity
    (an earlier state only ever appears when a session is replaced, and building a session pins its identity) -/
def Inv (s : St) : Prop :=
  (∀ c k, s.session c = some k → s.pinned c = some k) ∧ (∀ c, s.pinned c = none → s.archived c = [])

theorem Inv.session_pin {s : St} (h : Inv s) : ∀ c k, s.session c = some k → s.pinned c = some k := h.1

theorem inv_init : Inv init := ⟨by intro c k h; simp [init] at h, by intro c _; rfl⟩

@[simp] theorem good_trustUnknown : Cfg.good.trustUnknown = true := rfl
@[simp] theorem good_trustSame : Cfg.good.trustSame = true := rfl
@[simp] theorem good_trustOther : Cfg.good.trustOther = false := rfl
@[simp] theorem good_saveReplaces : Cfg.good.saveReplaces = true := rfl
@[simp] theorem good_rebuild : Cfg.good.rebuildAfterTrust = true := rfl
@[simp] theorem good_checksOld : Cfg.good.checksOldSessions = true := rfl

@[simp] theorem upd_same (f : Nat → Option Nat) (c : Nat) (v : Option Nat) : upd f c v c = v := by simp [upd]
theorem upd_other (f : Nat → Option Nat) (c c' : Nat) (v : Option Nat) (h : c' ≠ c) : upd f c v c' = f c' := by simp [upd, h]
theorem updL_other (f : Nat → List Nat) (c c' : Nat) (v : List Nat) (h : c' ≠ c) : updL f c v c' = f c' := by simp [updL, h]

theorem setSession_pinned (s : St) (c k : Nat) : (setSession s c k).pinned = s.pinned := by
  unfold setSession
  split
  · split <;> rfl
  · rfl

theorem setSession_auto (s : St) (c k : Nat) : (setSession s c k).autotrust = s.autotrust := by
  unfold setSession
  split
  · split <;> rfl
  · rfl

theorem setSession_session (s : St) (c k : Nat) : (setSession s c k).session = upd s.session c (some k) := by
  unfold setSession
  split
  · rename_i j hj
    split
    · rename_i hjk
      subst hjk
      funext x
      by_cases hx : x = c
      · subst hx; simp [hj]
      · simp [upd, hx]
    · rfl
  · rfl

theorem setSession_archived_other (s : St) (c k c' : Nat) (h : c' ≠ c) : (setSession s c k).archived c' = s.archived c' := by
  unfold setSession
  split
  · split
    · rfl
    · exact updL_other _ _ _ _ h
  · exact updL_other _ _ _ _ h

theorem save_good_pinned (s : St) (c k : Nat) : (save Cfg.good s c k).pinned = upd s.pinned c (some k) := by
  unfold save; cases s.pinned c <;> simp

theorem save_good_session (s : St) (c k : Nat) : (save Cfg.good s c k).session = s.session := by
  unfold save; cases s.pinned c <;> simp

theorem save_good_archived (s : St) (c k : Nat) : (save Cfg.good s c k).archived = s.archived := by
  unfold save; cases s.pinned c <;> simp

theorem save_good_auto (s : St) (c k : Nat) : (save Cfg.good s c k).autotrust = s.autotrust := by
  unfold save; cases s.pinned c <;> simp

theorem build_good_pinned (s : St) (c k : Nat) : (build Cfg.good s c k).pinned = upd s.pinned c (some k) := by
  simp [build, save_good_pinned, setSession_pinned]

theorem build_good_session (s : St) (c k : Nat) : (build Cfg.good s c k).session = upd s.session c (some k) := by
  simp [build, save_good_session, setSession_session]

theorem build_good_archived_other (s : St) (c k c' : Nat) (h : c' ≠ c) : (build Cfg.good s c k).archived c' = s.archived c' := by
  simp [build, save_good_archived, setSession_archived_other _ _ _ _ h]

theorem build_good_auto (s : St) (c k : Nat) : (build Cfg.good s c k).autotrust = s.autotrust := by
  simp [build, save_good_auto, setSession_auto]

theorem isTrusted_after_save (s : St) (c k : Nat) : isTrusted Cfg.good (save Cfg.good s c k) c k = true := by
  simp [isTrusted, save_good_pinned]

/-- a state that agrees with `s` on every other contact and has pin = session identity for contact `c` keeps the invariant -/
theorem inv_of_frame (s t : St) (c k : Nat) (h : Inv s) (hp : t.pinned c = some k) (hs : t.session c = some k)
    (hf : ∀ c', c' ≠ c → t.pinned c' = s.pinned c' ∧ t.session c' = s.session c' ∧ t.archived c' = s.archived c') : Inv t := by
  constructor
  · intro c' k' hs'
    by_cases hc : c' = c
    · subst hc; rw [hs] at hs'; rw [hp]; exact hs'
    · obtain ⟨f1, f2, _⟩ := hf c' hc
      rw [f2] at hs'; rw [f1]; exact h.1 c' k' hs'
  · intro c' hn
    by_cases hc : c' = c
    · subst hc; rw [hp] at hn; cases hn
    · obtain ⟨f1, _, f3⟩ := hf c' hc
      rw [f1] at hn; rw [f3]; exact h.2 c' hn

theorem inv_build (s : St) (c k : Nat) (h : Inv s) : Inv (build Cfg.good s c k) := by
  refine inv_of_frame s _ c k h (by simp [build_good_pinned]) (by simp [build_good_session]) ?_
  intro c' hc
  simp [build_good_pinned, build_good_session, build_good_archived_other _ _ _ _ hc, upd_other _ _ _ _ hc]

/-- the intermediate state (pin replaced, old session still stored) need not satisfy Inv: go directly -/
theorem inv_build_save (s : St) (c k : Nat) (h : Inv s) : Inv (build Cfg.good (save Cfg.good s c k) c k) := by
  refine inv_of_frame s _ c k h (by simp [build_good_pinned]) (by simp [build_good_session]) ?_
  intro c' hc
  simp [build_good_pinned, build_good_session, build_good_archived_other _ _ _ _ hc, save_good_pinned, save_good_session,
    save_good_archived, upd_other _ _ _ _ hc]

theorem inv_setSession_save (s : St) (c k : Nat) (h : Inv s) : Inv (setSession (save Cfg.good s c k) c k) := by
  refine inv_of_frame s _ c k h (by simp [setSession_pinned, save_good_pinned]) (by simp [setSession_session]) ?_
  intro c' hc
  simp [setSession_pinned, setSession_session, setSession_archived_other _ _ _ _ hc, save_good_pinned, save_good_session,
    save_good_archived, upd_other _ _ _ _ hc]

/-- with automatic trust off, a trusted identity is the pinned one or the first one -/
theorem isTrusted_good (s : St) (c k : Nat) :
    isTrusted Cfg.good s c k = true ↔ (s.pinned c = none ∨ s.pinned c = some k) := by
  unfold isTrusted
  cases hp : s.pinned c with
  | none => simp
  | some p => by_cases h : p = k <;> simp [h]

/-- in a state with the invariant, a trusted identity that an earlier session state of the record belongs to is the pinned one -/
theorem pinned_of_trusted_archived (s : St) (c k : Nat) (h : Inv s) (hk : k ∈ s.archived c)
    (ht : isTrusted Cfg.good s c k = true) : s.pinned c = some k := by
  rcases (isTrusted_good s c k).1 ht with h0 | h1
  · have := h.2 c h0; rw [this] at hk; cases hk
  · exact h1

theorem inv_setSession (s : St) (c k : Nat) (h : Inv s) (hp : s.pinned c = some k) : Inv (setSession s c k) := by
  refine inv_of_frame s _ c k h (by simp [setSession_pinned, hp]) (by simp [setSession_session]) ?_
  intro c' hc
  simp [setSession_pinned, setSession_session, setSession_archived_other _ _ _ _ hc, upd_other _ _ _ _ hc]

theorem inv_step (s : St) (e : Ev) (h : Inv s) : Inv (step Cfg.good s e).1 := by
  cases e with
  | bundle c k =>
    simp only [step]
    split
    · exact inv_build s c k h
    · split
      · simp only [isTrusted_after_save, good_rebuild, if_true]
        exact inv_build_save s c k h
      · exact h
  | firstMsg c k =>
    simp only [step]
    split
    · exact inv_build s c k h
    · split
      · simp only [isTrusted_after_save, if_true]
        exact inv_build_save s c k h
      · exact h
  | msgIn c k =>
    simp only [step]
    split
    · exact h
    · split
      · rename_i hk
        simp only [good_checksOld, Bool.not_true, Bool.false_or]
        split
        · rename_i ht
          exact inv_setSession s c k h (pinned_of_trusted_archived s c k h hk ht)
        · split
          · simp only [isTrusted_after_save, if_true]
            exact inv_setSession_save s c k h
          · exact h
      · exact h
  | encrypt c => simp only [step]; split <;> exact h
  | restart => exact h
  | setAuto b => exact h

theorem inv_run (s : St) (es : List Ev) (h : Inv s) : Inv (run Cfg.good s es).1 := by
  induction es generalizing s with
  | nil => exact h
  | cons e es ih => exact ih _ (inv_step s e h)

/-- one step with automatic trust off: an existing pin is kept, automatic trust stays off unless switched on, and every
    ciphertext sent / message delivered for the contact belongs to the pinned identity -/
theorem step_noauto (s : St) (e : Ev) (c p : Nat) (hi : Inv s) (ha : s.autotrust = false) (hp : s.pinned c = some p)
    (hne : e ≠ .setAuto true) :
    (step Cfg.good s e).1.pinned c = some p ∧ (step Cfg.good s e).1.autotrust = false ∧
    (∀ k, Out.encryptedFor c k ∈ (step Cfg.good s e).2 → k = p) ∧
    (∀ k, Out.delivered c k ∈ (step Cfg.good s e).2 → k = p) ∧
    (∀ k, Out.trusted c k ∉ (step Cfg.good s e).2) := by
  cases e with
  | bundle c' k =>
    simp only [step, ha]
    by_cases ht : isTrusted Cfg.good s c' k = true
    · simp only [ht, if_true, build_good_pinned, build_good_auto, ha]
      refine ⟨?_, trivial, by simp, by simp, by simp⟩
      by_cases hc : c = c'
      · subst hc
        rcases (isTrusted_good s c k).1 ht with h0 | h1
        · rw [hp] at h0; cases h0
        · simp; rw [hp] at h1; exact (Option.some.inj h1).symm
      · rw [upd_other _ _ _ _ hc]; exact hp
    · simp [ht, hp, ha]
  | firstMsg c' k =>
    simp only [step, ha]
    by_cases ht : isTrusted Cfg.good s c' k = true
    · simp only [ht, if_true, build_good_pinned, build_good_auto, ha]
      by_cases hc : c = c'
      · subst hc
        rcases (isTrusted_good s c k).1 ht with h0 | h1
        · rw [hp] at h0; cases h0
        · rw [hp] at h1; have hk : p = k := Option.some.inj h1
          subst hk
          refine ⟨by simp, trivial, by simp, ?_, by simp⟩
          intro k' hk'; simp at hk'; exact hk'
      · rw [upd_other _ _ _ _ hc]
        refine ⟨hp, trivial, by simp, ?_, by simp⟩
        intro k' hk'; simp at hk'; exact absurd hk'.1 hc
    · simp [ht, hp, ha]
  | msgIn c' k =>
    simp only [step]
    split
    · rename_i hs
      refine ⟨hp, ha, by simp, ?_, by simp⟩
      intro k' hk'; simp at hk'
      obtain ⟨h1, h2⟩ := hk'; subst h1; subst h2
      have := hi.1 c k' hs; rw [hp] at this; exact (Option.some.inj this).symm
    · split
      · simp only [good_checksOld, Bool.not_true, Bool.false_or, ha]
        by_cases ht : isTrusted Cfg.good s c' k = true
        · simp only [ht, if_true, setSession_pinned, setSession_auto]
          refine ⟨hp, ha, by simp, ?_, by simp⟩
          intro k' hk'; simp at hk'
          obtain ⟨h1, h2⟩ := hk'; subst h1; subst h2
          rcases (isTrusted_good s c k').1 ht with h0 | h1
          · rw [hp] at h0; cases h0
          · rw [hp] at h1; exact (Option.some.inj h1).symm
        · simp [ht, hp, ha]
      · exact ⟨hp, ha, by simp, by simp, by simp⟩
  | encrypt c' =>
    simp only [step]
    cases hs : s.session c' with
    | none => exact ⟨hp, ha, by simp, by simp, by simp⟩
    | some k =>
      refine ⟨hp, ha, ?_, by simp, by simp⟩
      intro k' hk'; simp at hk'
      obtain ⟨h1, h2⟩ := hk'; subst h1; subst h2
      have := hi.1 c k' hs; rw [hp] at this; exact (Option.some.inj this).symm
  | restart => exact ⟨hp, ha, by simp [step], by simp [step], by simp [step]⟩
  | setAuto b =>
    cases b with
    | true => exact absurd rfl hne
    | false => exact ⟨hp, rfl, by simp [step], by simp [step], by simp [step]⟩

theorem noAutoOn_cons (e : Ev) (es : List Ev) (h : NoAutoOn (e :: es)) : e ≠ .setAuto true ∧ NoAutoOn es := by
  cases e with
  | setAuto b => cases b <;> simp_all [NoAutoOn]
  | _ => simp_all [NoAutoOn]

theorem run_noauto (s : St) (es : List Ev) (c p : Nat) (hi : Inv s) (ha : s.autotrust = false) (hp : s.pinned c = some p)
    (hn : NoAutoOn es) :
    (run Cfg.good s es).1.pinned c = some p ∧
    (∀ k, Out.encryptedFor c k ∈ (run Cfg.good s es).2 → k = p) ∧
    (∀ k, Out.delivered c k ∈ (run Cfg.good s es).2 → k = p) ∧
    (∀ k, Out.trusted c k ∉ (run Cfg.good s es).2) := by
  induction es generalizing s with
  | nil => simp [run, hp]
  | cons e es ih =>
    obtain ⟨hne, hn'⟩ := noAutoOn_cons e es hn
    obtain ⟨h1, h2, h3, h4, h5⟩ := step_noauto s e c p hi ha hp hne
    obtain ⟨i1, i2, i3, i4⟩ := ih (step Cfg.good s e).1 (inv_step s e hi) h2 h1 hn'
    refine ⟨i1, ?_, ?_, ?_⟩
    · intro k hk; simp only [run, List.mem_append] at hk; rcases hk with hk | hk
      · exact h3 k hk
      · exact i2 k hk
    · intro k hk; simp only [run, List.mem_append] at hk; rcases hk with hk | hk
      · exact h4 k hk
      · exact i3 k hk
    · intro k hk; simp only [run, List.mem_append] at hk; rcases hk with hk | hk
      · exact h5 k hk
      · exact i4 k hk

/-- events about other contacts (and restarts, option changes) leave a contact's pin, session and earlier session states alone -/
theorem step_frame (s : St) (e : Ev) (c : Nat) (h : e.about c = false) :
    (step Cfg.good s e).1.pinned c = s.pinned c ∧ (step Cfg.good s e).1.session c = s.session c ∧
    (step Cfg.good s e).1.archived c = s.archived c := by
  cases e with
  | bundle c' k =>
    have hc : c ≠ c' := by intro hh; subst hh; simp [Ev.about] at h
    simp only [step]
    split
    · simp [build_good_pinned, build_good_session, build_good_archived_other _ _ _ _ hc, upd_other _ _ _ _ hc]
    · split
      · simp only [isTrusted_after_save, good_rebuild, if_true]
        rw [build_good_pinned, build_good_session, build_good_archived_other _ _ _ _ hc, save_good_pinned, save_good_session,
          save_good_archived]
        simp [upd_other _ _ _ _ hc]
      · simp
  | firstMsg c' k =>
    have hc : c ≠ c' := by intro hh; subst hh; simp [Ev.about] at h
    simp only [step]
    split
    · simp [build_good_pinned, build_good_session, build_good_archived_other _ _ _ _ hc, upd_other _ _ _ _ hc]
    · split
      · simp only [isTrusted_after_save, if_true]
        rw [build_good_pinned, build_good_session, build_good_archived_other _ _ _ _ hc, save_good_pinned, save_good_session,
          save_good_archived]
        simp [upd_other _ _ _ _ hc]
      · simp
  | msgIn c' k =>
    have hc : c ≠ c' := by intro hh; subst hh; simp [Ev.about] at h
    simp only [step]
    split
    · simp
    · split
      · simp only [good_checksOld, Bool.not_true, Bool.false_or]
        split
        · simp [setSession_pinned, setSession_session, setSession_archived_other _ _ _ _ hc, upd_other _ _ _ _ hc]
        · split
          · simp only [isTrusted_after_save, if_true]
            simp [setSession_pinned, setSession_session, setSession_archived_other _ _ _ _ hc, save_good_pinned, save_good_session,
              save_good_archived, upd_other _ _ _ _ hc]
          · simp
      · simp
  | encrypt c' => simp only [step]; split <;> simp
  | restart => simp [step]
  | setAuto b => simp [step]

end Yow.Trust
