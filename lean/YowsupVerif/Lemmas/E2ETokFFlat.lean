/-
  Exactly-once with server faults, part 3: a queued message stanza whose first ciphertext the recipient has already
  opened is dead (a duplicated delivery left it behind); the flattened state forgets the dead stanzas.
-/
import YowsupVerif.Lemmas.E2ETokRun
import YowsupVerif.Lemmas.E2ETokFFrame
import YowsupVerif.Lemmas.E2ETokFGrow
namespace Yow.E2E

/-- the recipient has opened the ciphertext it would open first -/
def dead (c : Client) : Stanza → Bool
  | .msg _ _ _ _ encs _ =>
    (match heFirst encs with
     | some ct => c.seen.contains (ct.sess, ct.ctr)
     | none =>
       match firstKind encs .skmsg with
       | some k => c.seenSK.contains (k.sess, k.ctr)
       | none => false)
  | _ => false

theorem dead_mono {c c' : Client} (h : CGrow c c') {st : Stanza} (hd : dead c st = true) : dead c' st = true := by
  cases st with
  | msg id peer part im encs pl =>
    unfold dead at hd ⊢
    cases h1 : heFirst encs with
    | some ct =>
      simp only [h1, List.contains_eq_mem, decide_eq_true_eq] at hd ⊢
      exact h.1 _ hd
    | none =>
      cases h2 : firstKind encs .skmsg with
      | some k =>
        simp only [h1, h2, List.contains_eq_mem, decide_eq_true_eq] at hd ⊢
        exact h.2.1 _ hd
      | none => simp [h1, h2] at hd
  | _ => cases hd

def liveQ (c : Client) (q : List Stanza) : List Stanza := q.filter (fun st => !dead c st)

/-- the state without the dead stanzas -/
def flat (s : Sys) : Sys := s.wo (s.outbound.map (fun q => (q.1, liveQ (getClient s q.1) q.2))) s.faulted

theorem lookup_map_val {α β : Type} [DecidableEq α] (f : α → β → β) (l : List (α × β)) (k : α) :
    lookup (l.map (fun q => (q.1, f q.1 q.2))) k = (lookup l k).map (f k) := by
  induction l with
  | nil => rfl
  | cons p l ih =>
    rw [List.map_cons, lookup_cons, lookup_cons, ih]
    by_cases h : p.1 = k
    · subst h; simp
    · simp [h]

theorem queueOf_flat (s : Sys) (y : Acct) : queueOf (flat s).outbound y = liveQ (getClient s y) (queueOf s.outbound y) := by
  unfold queueOf flat
  rw [wo_outbound, lookup_map_val (fun a q => liveQ (getClient s a) q)]
  cases lookup s.outbound y <;> rfl

@[simp] theorem getClient_flat (s : Sys) (y : Acct) : getClient (flat s) y = getClient s y := rfl
@[simp] theorem flat_inbound (s : Sys) : (flat s).inbound = s.inbound := rfl
@[simp] theorem flat_submitted (s : Sys) : (flat s).submitted = s.submitted := rfl
@[simp] theorem flat_clients (s : Sys) : (flat s).clients = s.clients := rfl

/-- two states that differ in the queues for the clients only, with the same queue contents -/
theorem view_wo_eq (s : Sys) (o1 o2 : List (Acct × List Stanza)) (f1 f2 : List (Nat × Acct))
    (h : ∀ z, queueOf o1 z = queueOf o2 z) : view (s.wo o1 f1) = view (s.wo o2 f2) ∧ abs (s.wo o1 f1) = abs (s.wo o2 f2) := by
  constructor
  · apply View.ext <;> try rfl
    funext z; exact h z
  · apply ASys.ext <;> try rfl
    funext z; exact h z

/-- the flattened new state, seen from the step of the flattened state -/
theorem view_flat_eq {s' : Sys} {o2 : List (Acct × List Stanza)} {f2 : List (Nat × Acct)}
    (h : ∀ z, queueOf o2 z = liveQ (getClient s' z) (queueOf s'.outbound z)) :
    view (flat s') = view (s'.wo o2 f2) :=
  (view_wo_eq s' _ o2 s'.faulted f2 (fun z => by
    have := queueOf_flat s' z
    unfold flat at this
    rw [wo_outbound] at this
    rw [this, h z])).1

section
variable {ex : Bool} {accts : List Acct} {groups : List (Nat × List Acct)}

/-- forgetting queued stanzas keeps the safety invariant -/
theorem AInv_sub_out {s : Sys} {o : List (Acct × List Stanza)} {fl : List (Nat × Acct)} (h : AInv accts groups (abs s))
    (ho : ∀ z st, st ∈ queueOf o z → st ∈ queueOf s.outbound z) : AInv accts groups (abs (s.wo o fl)) where
  reg := h.reg
  grp := h.grp
  wf := h.wf
  sub_reg := h.sub_reg
  sub_ids := h.sub_ids
  client := h.client
  inb_ok := h.inb_ok
  outb_ok := fun r st hst => h.outb_ok r st (ho r st hst)
  wire := h.wire

theorem AInv_flat {s : Sys} (h : AInv accts groups (abs s)) : AInv accts groups (abs (flat s)) := by
  refine AInv_sub_out h ?_
  intro z st hst
  have := queueOf_flat s z
  unfold flat at this
  rw [wo_outbound] at this
  rw [this] at hst
  exact (List.mem_filter.mp hst).1

/-- what is queued in a state satisfying the invariant is not dead -/
theorem live_of_unop {L : List (Acct × Node)} {V : View} (hT : TV ex accts groups L V) {z : Acct} (hz : z ∈ accts) {st : Stanza}
    (hst : st ∈ V.outb z) : dead (V.cl z) st = false := by
  cases st with
  | msg id peer part im encs pl =>
    have hw : ∀ e ∈ encs, e.2.ctr ∉ (V.cl z).seen.map Prod.snd ∧ e.2.ctr ∉ (V.cl z).seenSK.map Prod.snd := by
      intro e he
      have h1 : 1 ≤ nOf e.2.ctr (.msg id peer part im encs pl) := by
        unfold nOf ctrsOf
        exact List.count_pos_iff.mpr (List.mem_map.mpr ⟨e, he, rfl⟩)
      have h2 : nOf e.2.ctr (.msg id peer part im encs pl) ≤ wayV accts V z e.2.ctr := by
        unfold wayV
        have := sumMap_le_of_mem (f := nOf e.2.ctr) hst
        omega
      exact (hT.unop z hz e.2.ctr).2 (by omega)
    simp only [dead]
    split
    · next ct hct =>
      obtain ⟨e, he, rfl⟩ := heFirst_mem hct
      rw [Bool.eq_false_iff]
      intro hc
      simp only [List.contains_eq_mem, decide_eq_true_eq] at hc
      exact (hw e he).1 (List.mem_map.mpr ⟨_, hc, rfl⟩)
    · split
      · next k hk =>
        obtain ⟨e, he, rfl⟩ := firstKind_mem hk
        rw [Bool.eq_false_iff]
        intro hc
        simp only [List.contains_eq_mem, decide_eq_true_eq] at hc
        exact (hw e he).2 (List.mem_map.mpr ⟨_, hc, rfl⟩)
      · rfl
  | _ => rfl

theorem liveQ_eq {c c' : Client} (hg : CGrow c c') {P : List Stanza} (hl : ∀ st ∈ liveQ c P, dead c' st = false) :
    liveQ c' P = liveQ c P := by
  unfold liveQ at *
  induction P with
  | nil => rfl
  | cons st P ih =>
    have ih' := ih (fun st' hst' => hl st' (by
      rw [List.filter_cons]; split
      · exact List.mem_cons_of_mem _ hst'
      · exact hst'))
    rw [List.filter_cons, List.filter_cons, ih']
    cases hd : dead c st with
    | true => simp [dead_mono hg hd]
    | false =>
      have := hl st (by rw [List.filter_cons]; simp [hd])
      simp [this]

theorem mem_liveQ {c : Client} {P : List Stanza} {st : Stanza} (h : st ∈ liveQ c P) : st ∈ P ∧ dead c st = false := by
  unfold liveQ at h
  have := List.mem_filter.mp h
  exact ⟨this.1, by simpa using this.2⟩

end

end Yow.E2E
