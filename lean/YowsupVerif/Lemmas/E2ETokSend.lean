/-
  Token conservation in the E2E system model, part 8: the sending client.  `Src`: what is known once the client has taken
  the token of message `n` (for all recipients, or for one) in hand - from a new submission, a continuation or a retry
  request; then the three things it can do with it: register a continuation, send the message, resend it to one participant.
-/
import YowsupVerif.Lemmas.E2ETokSendSpec
namespace Yow.E2E

def handTok (n : Node) (who : Option Acct) (id : Nat) (r : Acct) : Nat :=
  if n.id = id ∧ (who = none ∨ who = some r) then 1 else 0
def handSlot (n : Node) (who : Option Acct) (i : Nat) : Nat :=
  if n.id = i ∧ (who = none ∨ isGroupDest n.dest = false) then 1 else 0

/-- a stanza that carries no token at all -/
def PlainUp (st : Stanza) : Prop :=
  (∀ k c, UpGood k c st) ∧ ∀ id r groups, upTok id r st = 0 ∧ retryUpTok id st = 0 ∧ rcptIn id st = 0 ∧ upN groups r id st = 0

theorem PlainUp.ack (i c : Nat) : PlainUp (.ack i c) :=
  ⟨fun _ _ => ⟨trivial, (fun e he => by cases he), trivial, (fun _ _ _ e => by cases e), (fun _ _ _ _ e => by cases e)⟩,
   fun _ _ _ => ⟨rfl, rfl, rfl, rfl⟩⟩
theorem PlainUp.getKeys (i : Nat) (j : List Acct) : PlainUp (.getKeys i j) :=
  ⟨fun _ _ => ⟨trivial, (fun e he => by cases he), trivial, (fun _ _ _ e => by cases e), (fun _ _ _ _ e => by cases e)⟩,
   fun _ _ _ => ⟨rfl, rfl, rfl, rfl⟩⟩
theorem PlainUp.getGroup (i g : Nat) : PlainUp (.getGroup i g) :=
  ⟨fun _ _ => ⟨trivial, (fun e he => by cases he), trivial, (fun _ _ _ e => by cases e), (fun _ _ _ _ e => by cases e)⟩,
   fun _ _ _ => ⟨rfl, rfl, rfl, rfl⟩⟩

structure Src (accts : List Acct) (groups : List (Nat × List Acct)) (L : List (Acct × Node)) (V : View) (x : Acct)
    (cons rest : List Stanza) (c1 : Client) (n : Node) (who : Option Acct) : Prop where
  hx : x ∈ accts
  hq : V.outb x = cons ++ rest
  uniq : ∀ n', (x, n') ∈ L → n'.id = n.id → n' = n
  pend : c1.pendingIn = (V.cl x).pendingIn
  shown : c1.shown = (V.cl x).shown
  seen : c1.seen = (V.cl x).seen
  seenSK : c1.seenSK = (V.cl x).seenSK
  receipts : c1.receipts = (V.cl x).receipts
  ownSK : c1.ownSK = (V.cl x).ownSK
  cons_plain : ∀ st ∈ cons, ∀ id r, downTok id st = 0 ∧ nOf id st = 0 ∧ rcptOut id r st = 0
  conts : ∀ e ∈ c1.iqReg, ContShape e.2
  iqKeys : keysNodup c1.iqReg
  iq_lt : ∀ e ∈ c1.iqReg, e.1 < c1.nextIq
  tok : ∀ n', (x, n') ∈ L → ∀ r, r ∈ intendedG groups x n' →
    contS n'.id r c1.iqReg + handTok n who n'.id r = contS n'.id r (V.cl x).iqReg + sumMap (retryDownTok n'.id r) cons
  slot : ∀ i, sendSlots c1 i + handSlot n who i ≤ 1
  iq_sub : ∀ e ∈ c1.iqReg, e ∈ (V.cl x).iqReg ∧ ∀ st ∈ cons, stanzaIq st ≠ some e.1
  pend_ok : ∀ e ∈ (V.cl x).pendingIn, ∃ k ∈ c1.iqReg, k.2 = Cont.keysForPending e.1.1 e.1.2
  kept : ∀ n', (x, n') ∈ L → ∀ r, r ∈ intendedG groups x n' →
    inTransitV V x n'.id r = sumMap (retryDownTok n'.id r) cons ∨ n' ∈ c1.sentQueue ∨ 100 < V.submitted.length
  kept_hand : (x, n) ∈ L → ∀ r, r ∈ intendedG groups x n → handTok n who n.id r = 1 →
    inTransitV V x n.id r = sumMap (retryDownTok n.id r) cons
  ret3 : ∀ n', (x, n') ∈ L → ∀ g, n'.dest = .group g →
    (lookup c1.ownSK g).isSome = true ∨ (∃ e ∈ c1.iqReg, firstGroupCont e.2 n'.id) ∨ (n'.id = n.id ∧ who = none)
  retq : ∀ e ∈ c1.iqReg, ∀ n' w c, e.2 = Cont.keysForRetry n' w c → isGroupDest n'.dest = true →
    n' ∈ c1.sentQueue ∨ 100 < V.submitted.length

section Dst
variable {ex : Bool} {accts : List Acct} {groups : List (Nat × List Acct)} {L : List (Acct × Node)} {V : View} {x : Acct}
  {cons rest : List Stanza} {c1 : Client} {n : Node} {who : Option Acct}

/-- the token goes into a new continuation -/
theorem Src.toCont (h : TV ex accts groups L V) (hs : Src accts groups L V x cons rest c1 n who) (k1 : Cont)
    (pre : List Stanza) (st : Stanza) (hpre : ∀ p ∈ pre, PlainUp p ∧ stanzaIq p = none) (hst : PlainUp st)
    (hiq : stanzaIq st = some c1.nextIq)
    (htok : ∀ id r, contTok id r k1 = handTok n who id r) (hslot : ∀ i, slotTok i k1 = handSlot n who i)
    (hshape : ContShape k1) (hfirst : who = none → ∀ g, n.dest = .group g → firstGroupCont k1 n.id)
    (hretq : ∀ n' w c, k1 = Cont.keysForRetry n' w c → isGroupDest n'.dest = true →
      n' ∈ c1.sentQueue ∨ 100 < V.submitted.length) :
    SenderStep accts groups L V x cons rest
      { c1 with nextIq := c1.nextIq + 1, iqReg := c1.iqReg ++ [(c1.nextIq, k1)] } (pre ++ [st]) V.nextCtr := by
  have hplain : ∀ p ∈ pre ++ [st], PlainUp p := by
    intro p hp
    rcases List.mem_append.mp hp with h1 | h1
    · exact (hpre p h1).1
    · rw [List.mem_singleton] at h1; subst h1; exact hst
  have hup : ∀ id r, sumMap (upTok id r) (pre ++ [st]) = 0 :=
    fun id r => sumMap_eq_zero (fun p hp => ((hplain p hp).2 id r []).1)
  exact {
    hx := hs.hx
    hq := hs.hq
    hk := Nat.le_refl _
    pend := hs.pend
    shown := hs.shown
    seen := hs.seen
    seenSK := hs.seenSK
    cons_plain := fun st' h' id => ⟨(hs.cons_plain st' h' id 0).1, (hs.cons_plain st' h' id 0).2.1⟩
    out_plain := fun p hp id => ⟨((hplain p hp).2 id 0 []).2.1, ((hplain p hp).2 id 0 []).2.2.1⟩
    conts := by
      intro e he
      rcases List.mem_append.mp he with h1 | h1
      · exact hs.conts e h1
      · rw [List.mem_singleton] at h1; subst h1; exact hshape
    iqKeys := keysNodup_append_fresh hs.iqKeys (fun p hp e => Nat.lt_irrefl _ (e ▸ hs.iq_lt p hp))
    good_out := fun p hp => (hplain p hp).1 _ _
    cons_S := by
      intro n' hn' r hr
      have := hs.tok n' hn' r hr
      show contS n'.id r (c1.iqReg ++ [(c1.nextIq, k1)]) + _ = _
      rw [hup]
      simp only [contS, sumMap_append, sumMap_cons, sumMap_nil', htok] at this ⊢
      omega
    rcons_S := by
      intro n' _ r _
      have : sumMap (rcptOut n'.id r) cons = 0 := sumMap_eq_zero (fun st' h' => (hs.cons_plain st' h' n'.id r).2.2)
      rw [this]
      show rcptGot { c1 with nextIq := c1.nextIq + 1, iqReg := c1.iqReg ++ [(c1.nextIq, k1)] } n'.id r = _
      unfold rcptGot
      rw [show ({ c1 with nextIq := c1.nextIq + 1, iqReg := c1.iqReg ++ [(c1.nextIq, k1)] } : Client).receipts = (V.cl x).receipts from hs.receipts]
      rfl
    ans_iq := by
      intro e he
      rcases List.mem_append.mp he with h1 | h1
      · exact Or.inl (hs.iq_sub e h1)
      · rw [List.mem_singleton] at h1; subst h1
        exact Or.inr ⟨st, by simp, hiq⟩
    ans_pend := by
      intro e he
      obtain ⟨k, hk, hkk⟩ := hs.pend_ok e he
      exact ⟨k, List.mem_append_left _ hk, hkk⟩
    kept_S := by
      intro n' hn' r hr
      rw [hup]
      by_cases hh : handTok n who n'.id r = 1
      · have hid : n.id = n'.id := by
          unfold handTok at hh
          split at hh
          · next hc => exact hc.1
          · cases hh
        have hnn := hs.uniq n' hn' hid.symm
        subst hnn
        left
        rw [Nat.add_zero]
        exact hs.kept_hand hn' r hr hh
      · rcases hs.kept n' hn' r hr with h1 | h1
        · left; rw [Nat.add_zero]; exact h1
        · right; exact h1
    ret3 := by
      intro n' hn' g hg
      rcases hs.ret3 n' hn' g hg with h1 | ⟨e, he, hf⟩ | ⟨hid, hw⟩
      · exact Or.inl h1
      · exact Or.inr ⟨e, List.mem_append_left _ he, hf⟩
      · have hnn := hs.uniq n' hn' hid
        subst hnn
        exact Or.inr ⟨(c1.nextIq, k1), by simp, hfirst hw g hg⟩
    slots := by
      intro i
      have := hs.slot i
      unfold sendSlots slotS at this ⊢
      simp only [sumMap_append, sumMap_cons, sumMap_nil', hslot]
      omega
    rids := by
      intro e he
      exact h.rids x e (hs.receipts ▸ he)
    retq := by
      intro e he n' w c hc hg
      rcases List.mem_append.mp he with h1 | h1
      · exact hs.retq e h1 n' w c hc hg
      · rw [List.mem_singleton] at h1; subst h1
        exact hretq n' w c hc hg
    unop_out := by
      intro r _ m
      have : sumMap (upN groups r m) (pre ++ [st]) = 0 := sumMap_eq_zero (fun p hp => ((hplain p hp).2 m r groups).2.2.2)
      rw [this]
      exact ⟨by omega, fun hh => by omega⟩ }

theorem count_ctsFor_le (r : Acct) (st : Stanza) (m : Nat) : ((ctsFor r st).map (·.ctr)).count m ≤ (ctrsOf st).count m := by
  have hsub : ∀ (p : Option Acct × Ct → Bool) (encs : List (Option Acct × Ct)),
      (((encs.filter p).map Prod.snd).map (·.ctr)).count m ≤ (encs.map (fun e => e.2.ctr)).count m := by
    intro p encs
    rw [List.map_map]
    exact List.Sublist.count_le _ (List.Sublist.map _ List.filter_sublist)
  unfold ctsFor ctrsOf
  split
  · split
    · exact hsub _ _
    · simp
  · split
    · exact hsub _ _
    · simp
  · exact hsub _ _
  · simp

theorem upN_le (groups : List (Nat × List Acct)) (r : Acct) (st : Stanza) (m : Nat) : upN groups r m st ≤ nOf m st := by
  unfold upN nOf
  split
  · exact count_ctsFor_le r st m
  · omega

/-- the message stanza that goes out: fresh ciphertexts -/
structure FreshMsg (lo k : Nat) (st : Stanza) : Prop where
  cts : CtsOK k st
  fresh : ∀ m ∈ ctrsOf st, lo ≤ m
  nodup : (ctrsOf st).Nodup
  shape : UpShape st

theorem FreshMsg.unop {lo k : Nat} {st : Stanza} (hf : FreshMsg lo k st) (groups : List (Nat × List Acct)) (r : Acct) (m : Nat) :
    sumMap (upN groups r m) [st] ≤ 1 ∧ (1 ≤ sumMap (upN groups r m) [st] → lo ≤ m) := by
  simp only [sumMap_cons, sumMap_nil', Nat.add_zero]
  have h1 := upN_le groups r st m
  have h2 : nOf m st ≤ 1 := (List.nodup_iff_count.mp hf.nodup) m
  refine ⟨by omega, ?_⟩
  intro hge
  have : 0 < (ctrsOf st).count m := by unfold nOf at h1; omega
  exact hf.fresh m (List.count_pos_iff.mp this)

/-- the message is sent to all its recipients and kept in the sent queue -/
theorem Src.toFirst (h : TV ex accts groups L V) (hs : Src accts groups L V x cons rest c1 n who)
    (hall : ∀ r, r ∈ intendedG groups x n → who = none ∨ who = some r)
    (hslotc : who = none ∨ isGroupDest n.dest = false)
    (sk : List (Nat × Nat)) (encs : List (Option Acct × Ct)) (k : Nat) (hk : V.nextCtr ≤ k)
    (hmono : ∀ g, (lookup c1.ownSK g).isSome = true → (lookup sk g).isSome = true)
    (hown : ∀ g, n.dest = .group g → (lookup sk g).isSome = true)
    (hf : FreshMsg V.nextCtr k (.msg n.id n.dest none n.payload.isMedia encs none))
    (q : List Node) (hnq : n ∈ q) (hq1 : ∀ m ∈ c1.sentQueue, m ∈ q ∨ 100 < V.submitted.length)
    (hq2 : ∀ i, sentS i q ≤ sentS i c1.sentQueue + (if n.id = i then 1 else 0)) :
    SenderStep accts groups L V x cons rest
      { c1 with sentQueue := q, ownSK := sk } [.msg n.id n.dest none n.payload.isMedia encs none] k := by
  exact {
    hx := hs.hx
    hq := hs.hq
    hk := hk
    pend := hs.pend
    shown := hs.shown
    seen := hs.seen
    seenSK := hs.seenSK
    cons_plain := fun st' h' id => ⟨(hs.cons_plain st' h' id 0).1, (hs.cons_plain st' h' id 0).2.1⟩
    out_plain := by
      intro p hp id
      rw [List.mem_singleton] at hp; subst hp
      exact ⟨rfl, rfl⟩
    conts := hs.conts
    iqKeys := hs.iqKeys
    good_out := by
      intro p hp
      rw [List.mem_singleton] at hp; subst hp
      exact ⟨trivial, hf.cts, hf.shape, (fun _ _ _ e => by cases e), (fun _ _ _ _ e => by cases e)⟩
    cons_S := by
      intro n' hn' r hr
      have := hs.tok n' hn' r hr
      show contS n'.id r c1.iqReg + _ = _
      simp only [sumMap_cons, sumMap_nil', upTok, true_or, and_true, Nat.add_zero]
      by_cases hid : n.id = n'.id
      · have hnn := hs.uniq n' hn' hid.symm
        subst hnn
        have := hall r hr
        simp only [handTok, hid, this, and_self, if_true] at *
        omega
      · simp only [handTok, hid, false_and, if_false] at *
        omega
    rcons_S := by
      intro n' _ r _
      have : sumMap (rcptOut n'.id r) cons = 0 := sumMap_eq_zero (fun st' h' => (hs.cons_plain st' h' n'.id r).2.2)
      rw [this]
      unfold rcptGot
      rw [show ({ c1 with sentQueue := q, ownSK := sk } : Client).receipts = (V.cl x).receipts from hs.receipts]
      rfl
    ans_iq := fun e he => Or.inl (hs.iq_sub e he)
    ans_pend := hs.pend_ok
    kept_S := by
      intro n' hn' r hr
      by_cases hid : n.id = n'.id
      · have hnn := hs.uniq n' hn' hid.symm
        subst hnn
        exact Or.inr (Or.inl hnq)
      · rcases hs.kept n' hn' r hr with h1 | h1 | h1
        · left
          simp only [sumMap_cons, sumMap_nil', upTok, hid, false_and, if_false]
          omega
        · exact Or.inr (hq1 n' h1)
        · exact Or.inr (Or.inr h1)
    ret3 := by
      intro n' hn' g hg
      rcases hs.ret3 n' hn' g hg with h1 | h1 | ⟨hid, _⟩
      · exact Or.inl (hmono g h1)
      · exact Or.inr h1
      · have hnn := hs.uniq n' hn' hid
        subst hnn
        exact Or.inl (hown g hg)
    slots := by
      intro i
      have := hs.slot i
      have hq2i := hq2 i
      unfold sendSlots at this ⊢
      show slotS i c1.iqReg + sentS i q ≤ 1
      unfold handSlot at this
      by_cases hid : n.id = i
      · simp only [hid, hslotc, and_self, if_true] at this hq2i
        omega
      · simp only [hid, if_false] at this hq2i
        omega
    rids := by
      intro e he
      exact h.rids x e (hs.receipts ▸ he)
    retq := by
      intro e he n' w c hc hg
      rcases hs.retq e he n' w c hc hg with h1 | h1
      · exact hq1 n' h1
      · exact Or.inr h1
    unop_out := fun r _ m => hf.unop groups r m }

/-- the message is sent again to one participant of a group -/
theorem Src.toRetry (h : TV ex accts groups L V) {w : Acct} (hs : Src accts groups L V x cons rest c1 n (some w))
    (hin : n ∈ c1.sentQueue ∨ 100 < V.submitted.length)
    (sk : List (Nat × Nat)) (encs : List (Option Acct × Ct)) (k : Nat) (hk : V.nextCtr ≤ k)
    (hmono : ∀ g, (lookup c1.ownSK g).isSome = true → (lookup sk g).isSome = true)
    (hf : FreshMsg V.nextCtr k (.msg n.id n.dest (some w) n.payload.isMedia encs none)) :
    SenderStep accts groups L V x cons rest
      { c1 with ownSK := sk } [.msg n.id n.dest (some w) n.payload.isMedia encs none] k := by
  exact {
    hx := hs.hx
    hq := hs.hq
    hk := hk
    pend := hs.pend
    shown := hs.shown
    seen := hs.seen
    seenSK := hs.seenSK
    cons_plain := fun st' h' id => ⟨(hs.cons_plain st' h' id 0).1, (hs.cons_plain st' h' id 0).2.1⟩
    out_plain := by
      intro p hp id
      rw [List.mem_singleton] at hp; subst hp
      exact ⟨rfl, rfl⟩
    conts := hs.conts
    iqKeys := hs.iqKeys
    good_out := by
      intro p hp
      rw [List.mem_singleton] at hp; subst hp
      exact ⟨trivial, hf.cts, hf.shape, (fun _ _ _ e => by cases e), (fun _ _ _ _ e => by cases e)⟩
    cons_S := by
      intro n' hn' r hr
      have := hs.tok n' hn' r hr
      show contS n'.id r c1.iqReg + _ = _
      simp only [sumMap_cons, sumMap_nil', upTok, Nat.add_zero]
      simp only [handTok] at this
      exact this
    rcons_S := by
      intro n' _ r _
      have : sumMap (rcptOut n'.id r) cons = 0 := sumMap_eq_zero (fun st' h' => (hs.cons_plain st' h' n'.id r).2.2)
      rw [this]
      unfold rcptGot
      rw [show ({ c1 with ownSK := sk } : Client).receipts = (V.cl x).receipts from hs.receipts]
      rfl
    ans_iq := fun e he => Or.inl (hs.iq_sub e he)
    ans_pend := hs.pend_ok
    kept_S := by
      intro n' hn' r hr
      by_cases hid : n.id = n'.id
      · have hnn := hs.uniq n' hn' hid.symm
        subst hnn
        right
        exact hin
      · rcases hs.kept n' hn' r hr with h1 | h1
        · left
          simp only [sumMap_cons, sumMap_nil', upTok, hid, false_and, if_false]
          omega
        · right
          exact h1
    ret3 := by
      intro n' hn' g hg
      rcases hs.ret3 n' hn' g hg with h1 | h1 | ⟨_, hw⟩
      · exact Or.inl (hmono g h1)
      · exact Or.inr h1
      · cases hw
    slots := by
      intro i
      have := hs.slot i
      unfold sendSlots at this ⊢
      show slotS i c1.iqReg + sentS i c1.sentQueue ≤ 1
      omega
    rids := by
      intro e he
      exact h.rids x e (hs.receipts ▸ he)
    retq := hs.retq
    unop_out := fun r _ m => hf.unop groups r m }

end Dst

end Yow.E2E
