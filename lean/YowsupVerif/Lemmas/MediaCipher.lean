import YowsupVerif.Model.MediaCipher
namespace Yow.Media

theorem pad_length (p : Bytes) : (pad p).length = (p.length / 16 + 1) * 16 := by
  unfold pad
  simp only [List.length_append, List.length_replicate]
  omega

theorem pad_length_mod (p : Bytes) : (pad p).length % 16 = 0 ∧ 0 < (pad p).length := by
  rw [pad_length]; omega

private theorem getLastD_append_replicate (p : Bytes) (n : Nat) (h1 : 1 ≤ n) :
    (p ++ List.replicate n n).getLastD 0 = n := by
  obtain ⟨k, rfl⟩ : ∃ k, n = k + 1 := ⟨n - 1, by omega⟩
  rw [List.replicate_succ', ← List.append_assoc, List.getLastD_concat]

theorem unpad_append_replicate (p : Bytes) (n : Nat) (h1 : 1 ≤ n) (h16 : n ≤ 16)
    (hlen : (p.length + n) % 16 = 0) : unpad (p ++ List.replicate n n) = some p := by
  have hl : (p ++ List.replicate n n).length = p.length + n := by
    simp only [List.length_append, List.length_replicate]
  unfold unpad
  simp only [getLastD_append_replicate p n h1, hl]
  have hsub : p.length + n - n = p.length := by omega
  rw [hsub, List.drop_left, List.take_left]
  have hall : (List.replicate n n).all (fun b => b == n) = true := by
    simp [List.all_replicate]
  rw [if_neg (by omega), if_neg (by omega), if_pos hall]

theorem unpad_pad (p : Bytes) : unpad (pad p) = some p := by
  unfold pad
  apply unpad_append_replicate <;> omega

theorem pad_of_unpad (d p : Bytes) (h : unpad d = some p) (hb : ∀ b ∈ d, b < 256) : pad p = d := by
  have _ := hb  -- not needed: unpad already pins every padding byte
  unfold unpad at h
  split at h
  · cases h
  · rename_i h0
    simp only [] at h
    split at h
    · cases h
    · rename_i hn
      split at h
      · rename_i hall
        injection h with h
        subst h
        generalize hn' : d.getLastD 0 = n at *
        have hdl : 16 ≤ d.length := by omega
        have htl : (d.take (d.length - n)).length = d.length - n := by
          rw [List.length_take]; omega
        have hdr : d.drop (d.length - n) = List.replicate n n := by
          rw [List.eq_replicate_iff]
          refine ⟨by rw [List.length_drop]; omega, ?_⟩
          intro b hbm
          rw [List.all_eq_true] at hall
          have := hall b hbm
          simpa using this
        unfold pad
        rw [htl]
        have : 16 - (d.length - n) % 16 = n := by omega
        rw [this, ← hdr, List.take_append_drop]
      · cases h

theorem encrypt_split (c : Crypto) (hc : c.OK) (p refKey info : Bytes) :
    let x := encrypt c p refKey info
    let d := c.hkdf refKey info
    x.take (x.length - 10) = c.cbcEnc (keyOf d) (ivOf d) (pad p) ∧
    x.drop (x.length - 10) = tag c d (c.cbcEnc (keyOf d) (ivOf d) (pad p)) := by
  intro x d
  have ht : (tag c d (c.cbcEnc (keyOf d) (ivOf d) (pad p))).length = 10 := by
    unfold tag
    rw [List.length_take, hc.mac_len]; omega
  have hx : x = c.cbcEnc (keyOf d) (ivOf d) (pad p) ++ tag c d (c.cbcEnc (keyOf d) (ivOf d) (pad p)) := rfl
  have hl : x.length - 10 = (c.cbcEnc (keyOf d) (ivOf d) (pad p)).length := by
    rw [hx, List.length_append, ht]; omega
  rw [hl, hx, List.take_left, List.drop_left]
  exact ⟨rfl, rfl⟩

theorem decrypt_encrypt (c : Crypto) (hc : c.OK) (p refKey info : Bytes) :
    decrypt c (encrypt c p refKey info) refKey info = .ok p := by
  have hs := encrypt_split c hc p refKey info
  simp only [] at hs
  obtain ⟨h1, h2⟩ := hs
  unfold decrypt
  simp only [h1, h2]
  have hm := pad_length_mod p
  rw [if_neg (by simp), if_neg (by rw [hc.cbc_len]; omega), hc.cbc_inv _ _ _ hm.1, unpad_pad]

/-- nothing is returned unless the tag verifies -/
theorem decrypt_ok_verified (c : Crypto) (x refKey info q : Bytes) (h : decrypt c x refKey info = .ok q) :
    x.drop (x.length - 10) = tag c (c.hkdf refKey info) (x.take (x.length - 10)) := by
  unfold decrypt at h
  simp only [] at h
  split at h
  · cases h
  · rename_i hne
    exact Classical.not_not.mp hne

theorem decrypt_bad_tag (c : Crypto) (x refKey info : Bytes)
    (h : x.drop (x.length - 10) ≠ tag c (c.hkdf refKey info) (x.take (x.length - 10))) :
    decrypt c x refKey info = .error .invalidMac := by
  unfold decrypt
  simp only []
  rw [if_pos h]

end Yow.Media
