/-
  Exactly-once with server faults, part 16: the answer to a key / group query keeps decryptability.
-/
import YowsupVerif.Lemmas.E2ETokFAppSend
namespace Yow.E2E

section
variable {accts : List Acct} {groups : List (Nat × List Acct)}

/-- the client after the continuation was taken out of the registry (and sessions were made) -/
theorem CSrc.ofErase {s : Sys} (hA : AInv accts groups (abs s)) {a : Acct} {hd : Stanza} {rest : List Stanza}
    (hq : queueOf s.outbound a = hd :: rest) (hnm : ∀ id peer part im encs pl, hd ≠ .msg id peer part im encs pl)
    {c1 : Client} {iq : Nat}
    (hk : ∀ j σ, known (getClient s a) j σ → known c1 j σ)
    (hsm : ∀ j, (lookup (getClient s a).sessions j).isSome = true → (lookup c1.sessions j).isSome = true)
    (hd2 : ∀ j se, lookup c1.sessions j = some se → se.pendingPre = false → lookup (getClient s a).sessions j = some se)
    (hp : c1.peerSK = (getClient s a).peerSK) (hsame : SameBut (getClient s a) c1)
    (hreg : c1.iqReg = erase (getClient s a).iqReg iq) :
    CSrc groups (view s) a [hd] rest c1 where
  hq := hq
  cons_plain := by
    intro st hst
    rw [List.mem_singleton] at hst; subst hst
    exact hnm
  kmono := hk
  smono := hsm
  d2 := hd2
  peerSK := hp
  ownSK := hsame.ownSK
  pend := hsame.pend
  iq := by intro e he; rw [hreg] at he; exact mem_erase he
  nextIq := hsame.nextIq
  iq_lt := fun e he => (hA.client a).iq_lt e.1 e.2 he
  link := by
    intro st hst i hi
    rw [← iqOf_eq_stanzaIq] at hi
    rcases List.mem_append.mp hst with h1 | h1
    · exact ((hA.inb_ok a st h1).2.2 i hi).1
    · exact ((hA.outb_ok a st h1).2.2 i hi).1

theorem onIqResult_crypto {s : Sys} {a : Acct} {hd : Stanza} {rest : List Stanza} {iq : Nat} {got ms : List Acct} {k0 : Cont}
    (h : FInv accts groups s) (ha : a ∈ accts)
    (hq : queueOf s.outbound a = hd :: rest) (hnm : ∀ id peer part im encs pl, hd ≠ .msg id peer part im encs pl)
    (hk0 : lookup (getClient s a).iqReg iq = some k0) (hgot : ∀ j, j ∈ asked k0 → j ∈ got)
    (hms : ∀ n, k0 = Cont.groupInfo n → ∃ g, n.dest = .group g ∧ ms = (lookup groups g).getD []) :
    DV groups (view (onIqResult { s with outbound := insert s.outbound a rest } a iq got ms)) ∧
    GV groups (view (onIqResult { s with outbound := insert s.outbound a rest } a iq got ms)) ∧
    DeadOK (onIqResult { s with outbound := insert s.outbound a rest } a iq got ms) := by
  have hA := h.ainv
  have hD := h.dv
  have hG := h.gv
  have hacc : a ∈ (view { s with outbound := insert s.outbound a rest }).accounts := by
    show a ∈ (view s).accounts
    have : (view s).accounts = accts := h.tv.acc
    rw [this]; exact ha
  have hmem0 : (iq, k0) ∈ (getClient s a).iqReg := lookup_mem hk0
  have hcont : ContOK accts groups s.submitted a k0 := (hA.client a).conts iq k0 hmem0
  have hshape : ContShape k0 := (h.tv.clients a).conts _ hmem0
  have hfl : (onIqResult { s with outbound := insert s.outbound a rest } a iq got ms).faulted = s.faulted :=
    (outbound_eq_of_frame (f := fun s => onIqResult s a iq got ms) (fun s o fl => onIqResult_wo s o fl a iq got ms) _).2
  have hups : ∀ st' ∈ (view s).inb a, UpShape st' := fun st' hst' => (h.ups a st' hst').1
  have key : ∃ c' out k, view (onIqResult { s with outbound := insert s.outbound a rest } a iq got ms)
        = ((view s).popOut a rest).cstep a c' out k ∧
      c'.seen = (getClient s a).seen ∧ c'.seenSK = (getClient s a).seenSK ∧ c'.shown = (getClient s a).shown ∧
      c'.peerSK = (getClient s a).peerSK ∧ DV groups (((view s).popOut a rest).cstep a c' out k) ∧ GV groups (((view s).popOut a rest).cstep a c' out k) := by
    have hv0 : view (setClient { s with outbound := insert s.outbound a rest } a
        { getClient s a with iqReg := erase (getClient s a).iqReg iq })
        = ((view s).popOut a rest).cstep a { getClient s a with iqReg := erase (getClient s a).iqReg iq } [] (view s).nextCtr := by
      rw [view_setClient _ _ _ hacc, view_setOutbound]; rfl
    have hacc0 : a ∈ (view (setClient { s with outbound := insert s.outbound a rest } a
        { getClient s a with iqReg := erase (getClient s a).iqReg iq })).accounts := by
      rw [hv0]; exact hacc
    have hgc0 : getClient (setClient { s with outbound := insert s.outbound a rest } a
        { getClient s a with iqReg := erase (getClient s a).iqReg iq }) a = { getClient s a with iqReg := erase (getClient s a).iqReg iq } := by
      rw [getClient_setClient]; simp
    -- the source when no session is made
    have hsrc0 : CSrc groups (view s) a [hd] rest { getClient s a with iqReg := erase (getClient s a).iqReg iq } :=
      CSrc.ofErase hA hq hnm (fun _ _ hh => hh) (fun _ hh => hh) (fun _ _ hh _ => hh) rfl (SameBut.eraseIq _ iq) rfl
    -- the source after `processKeys`
    have hsrcK : ∀ (askd : List Acct) (s0 : Sys), a ∈ (view s0).accounts →
        getClient s0 a = { getClient s a with iqReg := erase (getClient s a).iqReg iq } → (∀ j, j ∈ askd → j ∈ got) →
        ∃ c1, view (processKeys s0 a askd got).1 = (view s0).cstep a c1 [] (view s0).nextCtr ∧
          CSrc groups (view s) a [hd] rest c1 ∧ (∀ j, j ∈ askd → (lookup c1.sessions j).isSome = true) ∧
          (processKeys s0 a askd got).2 = askd ∧ SameBut (getClient s a) c1 := by
      intro askd s0 h0 hg0 hsub
      obtain ⟨c1, q1, q2, q3, q4, q5, q6, q7, q8, q9⟩ := processKeys_spec_x a got askd s0 h0 hsub
      rw [hg0] at q2 q3 q4 q6 q7 q8
      have hsame : SameBut (getClient s a) c1 := (SameBut.eraseIq _ iq).trans q2
      exact ⟨c1, q1, CSrc.ofErase hA hq hnm q6 q8 q7 q4 hsame q3, q5, q9, hsame⟩
    unfold onIqResult
    have hgc : getClient { s with outbound := insert s.outbound a rest } a = getClient s a := rfl
    simp only [hgc, hk0]
    generalize hs0 : setClient { s with outbound := insert s.outbound a rest } a
        { getClient s a with iqReg := erase (getClient s a).iqReg iq } = s0 at hv0 hacc0 hgc0
    have hctr0 : s0.nextCtr = (view s).nextCtr := by
      have : (view s0).nextCtr = (view s).nextCtr := by rw [hv0]; rfl
      exact this
    cases k0 with
    | keysForPending p q => exact absurd rfl ((hD.p0 a).2 _ hmem0 p q)
    | keysForSend m =>
      simp only [ContShape] at hshape
      cases hmd : m.dest with
      | group g => rw [hmd] at hshape; cases hshape
      | user b =>
        simp only [hmd]
        obtain ⟨c1, hv1, hsrc, hsess1, hok1, hsame⟩ := hsrcK [b] s0 hacc0 hgc0 (by
          intro j hj; apply hgot; simpa [asked, hmd] using hj)
        generalize hpk : processKeys s0 a [b] got = pk at hv1 hok1
        obtain ⟨s1, ok⟩ := pk
        simp only at hv1 hok1 ⊢
        subst hok1
        simp only [List.length_singleton, if_true]
        have hgc1 : getClient s1 a = c1 := by
          have : (view s1).cl a = c1 := by rw [hv1]; simp
          exact this
        rw [hgc1]
        obtain ⟨se, hse⟩ := Option.isSome_iff_exists.mp (hsess1 b (by simp))
        have hacc1 : a ∈ (view s1).accounts := by rw [hv1]; exact hacc0
        have hctr : s1.nextCtr = (view s).nextCtr := by
          have : (view s1).nextCtr = (view s0).nextCtr := by rw [hv1]; rfl
          exact this.trans hctr0
        have := hsrc.toContact hD hG hmd hse ((view s).nextCtr + 1)
          (ct := { kind := if se.pendingPre then .pkmsg else .msg, sess := se.cur, ctr := s1.nextCtr,
                   plain := { skdm := none, content := some m.payload }, corrupt := false })
          rfl (by intro hk; dsimp only at hk; cases hp : se.pendingPre <;> simp_all) (by dsimp only; split <;> simp) rfl rfl
        refine ⟨enqueueSent c1 m, _, _, ?_, hsame.seen, hsame.seenSK, hsame.shown, hsrc.peerSK, this.1, this.2⟩
        rw [view_sendToContact _ _ _ _ _ se hacc1 hse, hv1, hv0, hctr]
        simp
    | keysForRetry m w cnt =>
      simp only [ContShape] at hshape
      simp only
      obtain ⟨c1, hv1, hsrc, hsess1, hok1, hsame⟩ := hsrcK [w] s0 hacc0 hgc0 (by
        intro j hj; apply hgot; simpa [asked] using hj)
      generalize hpk : processKeys s0 a [w] got = pk at hv1 hok1
      obtain ⟨s1, ok⟩ := pk
      simp only at hv1 hok1 ⊢
      subst hok1
      simp only [List.length_singleton, if_true]
      have hgc1 : getClient s1 a = c1 := by
        have : (view s1).cl a = c1 := by rw [hv1]; simp
        exact this
      rw [hgc1]
      obtain ⟨se, hse⟩ := Option.isSome_iff_exists.mp (hsess1 w (by simp))
      have hacc1 : a ∈ (view s1).accounts := by rw [hv1]; exact hacc0
      have hctr : s1.nextCtr = (view s).nextCtr := by
        have : (view s1).nextCtr = (view s0).nextCtr := by rw [hv1]; rfl
        exact this.trans hctr0
      have hwint : w ∈ intendedG groups a m := hcont.2
      unfold processPlaintext
      cases hmd : m.dest with
      | user b =>
        simp only
        have hwb : w = b := by simpa [intendedG, hmd] using hwint
        subst hwb
        rw [if_pos (hsess1 w (by simp))]
        have := hsrc.toContact hD hG hmd hse ((view s).nextCtr + 1)
          (ct := { kind := if se.pendingPre then .pkmsg else .msg, sess := se.cur, ctr := s1.nextCtr,
                   plain := { skdm := none, content := some m.payload }, corrupt := false })
          rfl (by intro hk; dsimp only at hk; cases hp : se.pendingPre <;> simp_all) (by dsimp only; split <;> simp) rfl rfl
        refine ⟨enqueueSent c1 m, _, _, ?_, hsame.seen, hsame.seenSK, hsame.shown, hsrc.peerSK, this.1, this.2⟩
        rw [view_sendToContact _ _ _ _ _ se hacc1 hse, hv1, hv0, hctr]
        simp
      | group g =>
        simp only
        have hown : (lookup c1.ownSK g).isSome = true := by
          rw [hsame.ownSK]
          exact retry_has_ownSK (V := view (flat s)) h.tv hmem0 hcont.1 hwint hmd
        unfold sendToGroup
        obtain ⟨gen0, hgen0⟩ := Option.isSome_iff_exists.mp hown
        simp only [hgen0]
        obtain ⟨sk, ct, gen, hview, hs1, hs2, hs3, hc1, hc2, hc3, hc4, hc5⟩ :=
          view_sgws_retry_x s1 a c1 m g w cnt se hacc1 hshape hse
        have := hsrc.toRetry hD hG hmd hse ((view s).nextCtr + 1) hc4 hc5 hc1 hc2 hc3 hs1 hs2 (by
          intro g' hg'
          rcases hs3 g' hg' with h1 | h1
          · exact h1
          · subst h1; exact hown)
        refine ⟨{ c1 with ownSK := sk }, _, _, ?_, hsame.seen, hsame.seenSK, hsame.shown, hsrc.peerSK, this.1, this.2⟩
        rw [hview, hv1, hv0, hctr]
        simp
    | groupInfo m =>
      simp only [ContShape] at hshape
      obtain ⟨g, hmd, hmsg⟩ := hms m rfl
      subst hmsg
      simp only [hmd]
      rw [hgc0]
      unfold ensureSessionsAndSend
      simp only
      split
      · next hemp =>
        obtain ⟨sk, l, kct, gen, hview, hs1, hs2, hs3, hk1, hk2, hk3, hk4, hl, hcov⟩ :=
          view_sgws_first_x s0 a { getClient s a with iqReg := erase (getClient s a).iqReg iq } m g
            (((lookup groups g).getD []).filter (· != a)) hacc0
        have := hsrc0.toGroup hD hG hmd ((view s).nextCtr + (((lookup groups g).getD []).filter (· != a)).length + 1) hups
          hs1 hs2 hs3 hk1 hk2 hk3 hk4
          (fun e he => by
            obtain ⟨j, se, e1, e2, e3, e4, e5, e6, e7, e8⟩ := hl e he
            exact ⟨j, se, e1, e3, e4, e5, e6, e7, e8⟩)
          (fun _ y hy hya => by
            have hyn : y ∈ ((lookup groups g).getD []).filter (· != a) := List.mem_filter.mpr ⟨hy, by simpa using hya⟩
            refine hcov y hyn ?_
            have : ((((lookup groups g).getD []).filter (· != a)).filter
                (fun j => (lookup (getClient s a).sessions j).isNone)) = [] := by simpa using hemp
            have hy2 := (List.filter_eq_nil_iff.mp this) y hyn
            cases hl' : lookup (getClient s a).sessions y with
            | none => simp [hl'] at hy2
            | some se => simp [hl'])
        refine ⟨enqueueSent { ({ getClient s a with iqReg := erase (getClient s a).iqReg iq } : Client) with ownSK := sk } m, _, _,
          ?_, rfl, rfl, rfl, rfl, this.1, this.2⟩
        rw [hview, hv0, hctr0]
        simp
      · next hne =>
        have := hsrc0.toCont hD hG
          (.keysForGroup m (((lookup groups g).getD []).filter (· != a))
            ((((lookup groups g).getD []).filter (· != a)).filter (fun j => (lookup (getClient s a).sessions j).isNone)))
          (.getKeys (getClient s a).nextIq ((((lookup groups g).getD []).filter (· != a)).filter (fun j => (lookup (getClient s a).sessions j).isNone)))
          (view s).nextCtr (fun _ _ _ _ _ _ e => by cases e) rfl (fun _ e => by cases e)
          (by
            intro n' al aq e
            cases e
            refine ⟨g, hmd, rfl, ?_⟩
            intro j hj
            cases hl' : lookup (getClient s a).sessions j with
            | some se => left; simp [hl']
            | none => right; exact List.mem_filter.mpr ⟨hj, by simp [hl']⟩)
          (fun _ _ e => by cases e)
        refine ⟨{ ({ getClient s a with iqReg := erase (getClient s a).iqReg iq } : Client) with
            nextIq := (getClient s a).nextIq + 1,
            iqReg := erase (getClient s a).iqReg iq ++ [((getClient s a).nextIq,
              Cont.keysForGroup m (((lookup groups g).getD []).filter (· != a))
                ((((lookup groups g).getD []).filter (· != a)).filter (fun j => (lookup (getClient s a).sessions j).isNone)))] }, _, _,
          ?_, rfl, rfl, rfl, rfl, this.1, this.2⟩
        rw [view_sendIq _ _ _ _ _ hacc0, hv0]
        simp
    | keysForGroup m all askd =>
      simp only [ContShape] at hshape
      obtain ⟨g, hmd, hall, hsess⟩ := hD.c2 a _ hmem0 m all askd rfl
      simp only [hmd]
      obtain ⟨c1, hv1, hsrc, hsess1, hok1, hsame⟩ := hsrcK askd s0 hacc0 hgc0 (by
        intro j hj; apply hgot; simpa [asked] using hj)
      generalize hpk : processKeys s0 a askd got = pk at hv1 hok1
      obtain ⟨s1, ok⟩ := pk
      simp only at hv1 hok1 ⊢
      subst hok1
      have hgc1 : getClient s1 a = c1 := by
        have : (view s1).cl a = c1 := by rw [hv1]; simp
        exact this
      rw [hgc1]
      have hacc1 : a ∈ (view s1).accounts := by rw [hv1]; exact hacc0
      have hctr : s1.nextCtr = (view s).nextCtr := by
        have : (view s1).nextCtr = (view s0).nextCtr := by rw [hv1]; rfl
        exact this.trans hctr0
      have hneed : all.filter (fun j => ok.contains j || !ok.contains j) = all := by
        rw [List.filter_eq_self]
        intro j _
        cases ok.contains j <;> rfl
      rw [hneed]
      obtain ⟨sk, l, kct, gen, hview, hs1, hs2, hs3, hk1, hk2, hk3, hk4, hl, hcov⟩ := view_sgws_first_x s1 a c1 m g all hacc1
      have := hsrc.toGroup hD hG hmd ((view s).nextCtr + all.length + 1) hups hs1 hs2 hs3 hk1 hk2 hk3 hk4
        (fun e he => by
          obtain ⟨j, se, e1, e2, e3, e4, e5, e6, e7, e8⟩ := hl e he
          exact ⟨j, se, e1, e3, e4, e5, e6, e7, e8⟩)
        (fun _ y hy hya => by
          have hyn : y ∈ all := by rw [hall]; exact List.mem_filter.mpr ⟨hy, by simpa using hya⟩
          refine hcov y hyn ?_
          rcases hsess y hyn with h1 | h1
          · exact hsrc.smono y h1
          · exact hsess1 y h1)
      refine ⟨enqueueSent { c1 with ownSK := sk } m, _, _, ?_, hsame.seen, hsame.seenSK, hsame.shown, hsrc.peerSK, this.1, this.2⟩
      rw [hview, hv1, hv0, hctr]
      simp
  obtain ⟨c', out, k, hv, h1, h2, h3, h4, hdv, hgv⟩ := key
  refine ⟨by rw [hv]; exact hdv, by rw [hv]; exact hgv, ?_⟩
  exact deadOK_of_view (cons := [hd]) h.dead hq hv h1 h2 (fun id => Nat.le_of_eq (shownC_congr h3 id).symm)
    (fun p hp => by rw [hfl]; exact hp) h4

end

end Yow.E2E
