/-
  Lemmas about Model/Locks.lean for the configuration in which both release sites are protected
  by try/finally (`good`).
-/
import YowsupVerif.Model.Locks
namespace Yow.Locks

def good : Cfg := { toLowerFinally := true, flushFinally := true }

/-- every layer lock at index ≤ k is free -/
def FreeBelow (s : St) (k : Nat) : Prop := ∀ j, j ≤ k → isHeld s j = false

/-- does the injected failure lie on the downward path starting at layer `i`? -/
def onPath (fail : Option Nat) (i : Nat) : Bool :=
  match fail with
  | some k => decide (k ≤ i)
  | none => false

/-! ### helper lemmas -/

theorem list_set_set_free (l : List Bool) (i : Nat) (h : l.getD i false = false) :
    (l.set i true).set i false = l := by
  induction l generalizing i with
  | nil => simp
  | cons a t ih =>
    cases i with
    | zero => simp at h; simp [h]
    | succ i => simp at h; simp [ih i (by simpa using h)]

theorem setHeld_setHeld_free (s : St) (i : Nat) (h : isHeld s i = false) :
    setHeld (setHeld s i true) i false = s := by
  cases s
  simp only [setHeld, isHeld] at *
  simp [list_set_set_free _ _ h]

theorem isHeld_setHeld_ne (s : St) (i j : Nat) (b : Bool) (h : j ≠ i) :
    isHeld (setHeld s i b) j = isHeld s j := by
  simp only [isHeld, setHeld, List.getD_eq_getElem?_getD]
  rw [List.getElem?_set_ne (Ne.symm h)]

theorem FreeBelow_mono {s : St} {a b : Nat} (h : FreeBelow s b) (hab : a ≤ b) : FreeBelow s a :=
  fun j hj => h j (Nat.le_trans hj hab)

theorem FreeBelow_setHeld (s : St) (i k : Nat) (b : Bool) (h : FreeBelow s i) (hk : k < i) :
    FreeBelow (setHeld s i b) k := by
  intro j hj
  rw [isHeld_setHeld_ne _ _ _ _ (by omega)]
  exact h j (by omega)

theorem onPath_succ (fail : Option Nat) (i : Nat) (hne : fail ≠ some (i + 1)) :
    onPath fail (i + 1) = onPath fail i := by
  cases fail with
  | none => rfl
  | some k =>
    have : k ≠ i + 1 := fun e => hne (by rw [e])
    simp only [onPath]
    by_cases hk : k ≤ i
    · simp [hk, Nat.le_succ_of_le hk]
    · have : ¬ k ≤ i + 1 := by omega
      simp [hk, this]

/-- With try/finally a downward send restores the lock state exactly, never blocks, and raises
    exactly when a failure site lies on its path. -/
theorem sendAt_good (fail : Option Nat) (i : Nat) (s : St) (h : FreeBelow s i) :
    sendAt good fail i s = (s, if onPath fail i then Res.raised else Res.ok) := by
  induction i generalizing s with
  | zero =>
    cases fail with
    | none => simp [sendAt, onPath]
    | some k =>
      by_cases hk : k = 0
      · simp [sendAt, onPath, hk]
      · simp [sendAt, onPath, hk]
  | succ i ih =>
    by_cases hf : fail = some (i + 1)
    · simp [sendAt, hf, onPath]
    · have hfree : isHeld s (i + 1) = false := h (i + 1) (Nat.le_refl _)
      have hih := ih (setHeld s (i + 1) true) (FreeBelow_setHeld s (i + 1) i true h (by omega))
      rw [onPath_succ fail i hf]
      simp only [sendAt, hf, hfree, if_false, hih]
      by_cases hp : onPath fail i = true
      · simp [hp, good, setHeld_setHeld_free s (i + 1) hfree]
      · simp [hp, setHeld_setHeld_free s (i + 1) hfree]


theorem toLowerAt_good (fail : Option Nat) (j : Nat) (s : St) (hj : 1 ≤ j) (h : FreeBelow s j) :
    toLowerAt good fail j s = (s, if onPath fail (j - 1) then Res.raised else Res.ok) := by
  have hfree : isHeld s j = false := h j (Nat.le_refl _)
  have hs := sendAt_good fail (j - 1) (setHeld s j true) (FreeBelow_setHeld s j (j - 1) true h (by omega))
  simp only [toLowerAt, hfree, hs]
  by_cases hp : onPath fail (j - 1) = true
  · simp [hp, good, setHeld_setHeld_free s j hfree]
  · simp [hp, setHeld_setHeld_free s j hfree]

/-- Going up never blocks, leaves every lock as it was, and either delivers the frame (ok) or raises. -/
theorem recvAt_good (u : UpSpec) (frame k j : Nat) (s : St) (h : FreeBelow s (j + k)) (hj : 1 ≤ j) :
    let r := recvAt good u frame k j s
    r.2 ≠ Res.blocked ∧ r.1.held = s.held ∧ r.1.flush = s.flush ∧ r.1.queue = s.queue ∧
    (r.2 = Res.ok → r.1.delivered = s.delivered ++ [frame]) ∧
    (r.2 = Res.raised → r.1.delivered = s.delivered) := by
  induction k generalizing j s with
  | zero => simp [recvAt]
  | succ k ih =>
    have hih := ih (j + 1) s (by rw [show j + 1 + k = j + (k + 1) by omega]; exact h) (by omega)
    by_cases hf : u.failAt = some j
    · simp [recvAt, hf]
    · by_cases hr : u.replyAt = some j
      · have ht := toLowerAt_good u.replyFail j s hj (FreeBelow_mono h (by omega))
        by_cases hp : onPath u.replyFail (j - 1) = true
        · simp [recvAt, hf, hr, ht, hp]
        · simp only [recvAt, hf, hr, ht, hp, if_true, if_false]
          exact hih
      · simp only [recvAt, hf, hr, if_false]
        exact hih

/-- A frame whose way up has no failure is delivered. -/
theorem recvAt_good_ok (u : UpSpec) (frame k j : Nat) (s : St) (h : FreeBelow s (j + k)) (hj : 1 ≤ j)
    (hu : u.failAt = none ∧ u.replyFail = none) :
    (recvAt good u frame k j s).2 = Res.ok := by
  induction k generalizing j s with
  | zero => simp [recvAt]
  | succ k ih =>
    have hih := ih (j + 1) s (by rw [show j + 1 + k = j + (k + 1) by omega]; exact h) (by omega)
    by_cases hr : u.replyAt = some j
    · have ht := toLowerAt_good u.replyFail j s hj (FreeBelow_mono h (by omega))
      simp [hu.2, onPath] at ht
      simp only [recvAt, hu.1, hu.2, hr, ht, if_true]
      simpa using hih
    · simp only [recvAt, hu.1, hr, if_false]
      simpa using hih

theorem FreeBelow_of_held {s t : St} {k : Nat} (h : FreeBelow s k) (e : t.held = s.held) : FreeBelow t k := by
  intro j hj
  have := h j hj
  simp only [isHeld] at *
  rw [e]; exact this

theorem flushLoop_good (spec : Nat → UpSpec) (n p fuel : Nat) (s : St) (hp : p < n) (h : FreeBelow s n) :
    let r := flushLoop good spec n p fuel s
    r.2 ≠ Res.blocked ∧ r.1.held = s.held ∧ r.1.flush = s.flush := by
  induction fuel generalizing s with
  | zero => simp [flushLoop]
  | succ fuel ih =>
    cases hq : s.queue with
    | nil => simp [flushLoop, hq]
    | cons f rest =>
      have hs' : FreeBelow { s with queue := rest } (p + 1 + (n - (p + 1))) := by
        rw [show p + 1 + (n - (p + 1)) = n by omega]
        exact FreeBelow_of_held h rfl
      have hr := recvAt_good (spec f) f (n - (p + 1)) (p + 1) { s with queue := rest } hs' (by omega)
      simp only at hr
      obtain ⟨h1, h2, h3, -, -, -⟩ := hr
      simp only [flushLoop, hq]
      cases hres : (recvAt good (spec f) f (n - (p + 1)) (p + 1) { s with queue := rest }).2 with
      | ok =>
        simp only
        have := ih _ (FreeBelow_of_held h h2)
        simp only at this
        obtain ⟨a, b, c⟩ := this
        exact ⟨a, b.trans h2, c.trans h3⟩
      | raised => simp [h2, h3]
      | blocked => exact absurd hres h1

/-- If no queued frame has a failure on its way, the loop (given enough fuel) empties the queue
    and delivers the frames in order. -/
theorem flushLoop_good_ok (spec : Nat → UpSpec) (n p fuel : Nat) (s : St) (hp : p < n) (h : FreeBelow s n)
    (hf : s.queue.length ≤ fuel)
    (hq : ∀ f ∈ s.queue, (spec f).failAt = none ∧ (spec f).replyFail = none) :
    let r := flushLoop good spec n p fuel s
    r.2 = Res.ok ∧ r.1.queue = [] ∧ r.1.delivered = s.delivered ++ s.queue := by
  induction fuel generalizing s with
  | zero =>
    have : s.queue = [] := List.eq_nil_of_length_eq_zero (by omega)
    simp [flushLoop, this]
  | succ fuel ih =>
    cases hqq : s.queue with
    | nil => simp [flushLoop, hqq]
    | cons f rest =>
      have hs' : FreeBelow { s with queue := rest } (p + 1 + (n - (p + 1))) := by
        rw [show p + 1 + (n - (p + 1)) = n by omega]
        exact FreeBelow_of_held h rfl
      have hr := recvAt_good (spec f) f (n - (p + 1)) (p + 1) { s with queue := rest } hs' (by omega)
      have hok := recvAt_good_ok (spec f) f (n - (p + 1)) (p + 1) { s with queue := rest } hs' (by omega)
        (hq f (by rw [hqq]; exact List.mem_cons_self))
      simp only at hr
      obtain ⟨-, h2, -, h4, h5, -⟩ := hr
      have h5 := h5 hok
      simp only [flushLoop, hqq, hok]
      have := ih _ (FreeBelow_of_held h h2) (by rw [h4]; rw [hqq] at hf; simp at hf ⊢; omega)
        (by rw [h4]; intro g hg; exact hq g (by rw [hqq]; exact List.mem_cons_of_mem _ hg))
      simp only at this
      obtain ⟨a, b, c⟩ := this
      refine ⟨a, b, ?_⟩
      rw [c, h4, h5]; simp

theorem AllFree_FreeBelow {s : St} (h : AllFree s) (k : Nat) : FreeBelow s k := by
  intro j _
  simp only [isHeld, List.getD_eq_getElem?_getD]
  by_cases hj : j < s.held.length
  · rw [List.getElem?_eq_getElem hj]
    exact h.1 _ (List.getElem_mem hj)
  · rw [List.getElem?_eq_none (by omega)]; rfl

/-- One operation from an all-free state: never blocks, ends all-free. -/
theorem step_good (spec : Nat → UpSpec) (n p : Nat) (hp : p < n) (s : St) (h : AllFree s) (op : Op) :
    AllFree (step good spec n p s op).1 ∧ (step good spec n p s op).2 ≠ Res.blocked := by
  cases op with
  | send fail =>
    simp only [step, sendAt_good fail (n - 1) s (AllFree_FreeBelow h _)]
    refine ⟨h, ?_⟩
    split <;> simp
  | recv frame =>
    have hfl : s.flush = false := h.2
    have hfb : FreeBelow { s with queue := s.queue ++ [frame], flush := true } n :=
      FreeBelow_of_held (AllFree_FreeBelow h n) rfl
    have hl := flushLoop_good spec n p (s.queue ++ [frame]).length _ hp hfb
    simp only at hl
    obtain ⟨h1, h2, h3⟩ := hl
    simp only [step, noiseReceive, hfl]
    cases hres : (flushLoop good spec n p (s.queue ++ [frame]).length
        { s with queue := s.queue ++ [frame], flush := true }).2 with
    | ok => exact ⟨⟨fun b hb => h.1 b (h2 ▸ hb), rfl⟩, by simp⟩
    | raised => exact ⟨⟨fun b hb => h.1 b (h2 ▸ hb), rfl⟩, by simp⟩
    | blocked => exact absurd hres h1
  | enq frame =>
    simp only [step]
    exact ⟨⟨h.1, h.2⟩, by simp⟩

/-- Any sequence of operations (with any failures anywhere): no lock stays held, nothing blocks. -/
theorem run_good (spec : Nat → UpSpec) (n p : Nat) (hp : p < n) (s : St) (h : AllFree s) (ops : List Op) :
    AllFree (run good spec n p s ops).1 ∧ ∀ r ∈ (run good spec n p s ops).2, r ≠ Res.blocked := by
  induction ops generalizing s with
  | nil => simp [run, h]
  | cons op ops ih =>
    have hs := step_good spec n p hp s h op
    have hi := ih _ hs.1
    simp only [run]
    refine ⟨hi.1, ?_⟩
    intro r hr
    rcases List.mem_cons.1 hr with e | e
    · rw [e]; exact hs.2
    · exact hi.2 r e

theorem init_allFree (n : Nat) : AllFree (init n) := by
  refine ⟨?_, rfl⟩
  intro b hb
  exact List.eq_of_mem_replicate hb

end Yow.Locks
