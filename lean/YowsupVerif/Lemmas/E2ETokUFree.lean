/-
  Exactly-once without a bound on the number of messages, part 1: which functions of the model can queue a retry
  request.  Apart from a failed decryption (`handleEnc`, `processPending`) and the forwarding of a retry request by the
  server, nothing does.
-/
import YowsupVerif.Lemmas.E2E
namespace Yow.E2E

def isRetry : Stanza → Bool
  | .receipt _ _ _ (.retry _) => true
  | _ => false

/-- no retry request is queued anywhere -/
def RF (s : Sys) : Prop := ∀ a st, (st ∈ queueOf s.inbound a ∨ st ∈ queueOf s.outbound a) → isRetry st = false

/-- what is queued in `s'` was queued in `s`, or is not a retry request -/
def QAdd (s s' : Sys) : Prop :=
  (∀ a st, st ∈ queueOf s'.inbound a → st ∈ queueOf s.inbound a ∨ isRetry st = false) ∧
  (∀ a st, st ∈ queueOf s'.outbound a → st ∈ queueOf s.outbound a ∨ isRetry st = false)

/-- the same queues -/
def SameQ (s s' : Sys) : Prop := s'.inbound = s.inbound ∧ s'.outbound = s.outbound

theorem SameQ.rfl' (s : Sys) : SameQ s s := ⟨rfl, rfl⟩
theorem SameQ.trans {s s1 s2 : Sys} (h1 : SameQ s s1) (h2 : SameQ s1 s2) : SameQ s s2 :=
  ⟨h2.1.trans h1.1, h2.2.trans h1.2⟩

theorem QAdd.rfl' (s : Sys) : QAdd s s := ⟨fun _ _ h => Or.inl h, fun _ _ h => Or.inl h⟩

theorem QAdd.trans {s s1 s2 : Sys} (h1 : QAdd s s1) (h2 : QAdd s1 s2) : QAdd s s2 := by
  constructor
  · intro a st hst
    rcases h2.1 a st hst with h | h
    · exact h1.1 a st h
    · exact Or.inr h
  · intro a st hst
    rcases h2.2 a st hst with h | h
    · exact h1.2 a st h
    · exact Or.inr h

theorem QAdd.of_same {s s' : Sys} (h : SameQ s s') : QAdd s s' := by
  constructor
  · intro a st hst; rw [h.1] at hst; exact Or.inl hst
  · intro a st hst; rw [h.2] at hst; exact Or.inl hst

theorem SameQ.qadd {s0 s s' : Sys} (h : SameQ s0 s) (hq : QAdd s s') : QAdd s0 s' := (QAdd.of_same h).trans hq

theorem RF.of_qadd {s s' : Sys} (h : RF s) (hq : QAdd s s') : RF s' := by
  intro a st hst
  rcases hst with h1 | h1
  · rcases hq.1 a st h1 with h2 | h2
    · exact h a st (Or.inl h2)
    · exact h2
  · rcases hq.2 a st h1 with h2 | h2
    · exact h a st (Or.inr h2)
    · exact h2

theorem QAdd.emit (s : Sys) (a : Acct) {st : Stanza} (h : isRetry st = false) : QAdd s (emit s a st) := by
  constructor
  · intro b st' hst'
    have e : (Yow.E2E.emit s a st).inbound = insert s.inbound a (queueOf s.inbound a ++ [st]) := rfl
    rw [e, queueOf_insert] at hst'
    split at hst'
    · next e' =>
      subst e'
      rcases List.mem_append.mp hst' with h1 | h1
      · exact Or.inl h1
      · rw [List.mem_singleton] at h1; subst h1; exact Or.inr h
    · exact Or.inl hst'
  · intro b st' hst'; exact Or.inl hst'

theorem QAdd.push (s : Sys) (a : Acct) {st : Stanza} (h : isRetry st = false) : QAdd s (push s a st) := by
  constructor
  · intro b st' hst'; exact Or.inl hst'
  · intro b st' hst'
    have e : (Yow.E2E.push s a st).outbound = insert s.outbound a (queueOf s.outbound a ++ [st]) := rfl
    rw [e, queueOf_insert] at hst'
    split at hst'
    · next e' =>
      subst e'
      rcases List.mem_append.mp hst' with h1 | h1
      · exact Or.inl h1
      · rw [List.mem_singleton] at h1; subst h1; exact Or.inr h
    · exact Or.inl hst'

theorem SameQ.setClient (s : Sys) (a : Acct) (c : Client) : SameQ s (setClient s a c) := ⟨rfl, rfl⟩

theorem QAdd.set_emit (s : Sys) (a : Acct) (c : Client) {st : Stanza} (h : isRetry st = false) :
    QAdd s (Yow.E2E.emit (Yow.E2E.setClient s a c) a st) :=
  (SameQ.setClient s a c).qadd (QAdd.emit _ _ h)

theorem QAdd.sendEnc (s : Sys) (a : Acct) (c : Client) (n : Node) (encs : List (Option Acct × Ct)) (p : Option Acct) :
    QAdd s (sendEnc s a c n encs p) := by
  unfold Yow.E2E.sendEnc
  exact QAdd.set_emit _ _ _ rfl

theorem QAdd.sendIq (s : Sys) (a : Acct) (c : Client) (mk : Nat → Stanza) (k : Cont) (hmk : ∀ iq, isRetry (mk iq) = false) :
    QAdd s (sendIq s a c mk k) := by
  unfold Yow.E2E.sendIq
  exact QAdd.set_emit _ _ _ (hmk _)

theorem QAdd.sendToContact (s : Sys) (a : Acct) (c : Client) (n : Node) (peer : Acct) : QAdd s (sendToContact s a c n peer) := by
  unfold Yow.E2E.sendToContact
  split
  · exact QAdd.rfl' s
  · exact (show SameQ s { s with nextCtr := s.nextCtr + 1 } from ⟨rfl, rfl⟩).qadd (QAdd.sendEnc _ _ _ _ _ _)

theorem ownSenderKey_same (s : Sys) (c : Client) (g : Nat) : SameQ s (ownSenderKey s c g).1 := by
  unfold ownSenderKey
  split <;> exact ⟨rfl, rfl⟩

theorem sgFirst_same (s : Sys) (c : Client) (n : Node) (g : Nat) (need : List Acct) (rc : Nat) (p : Option Acct) :
    SameQ s (sgFirst s c n g need rc p).1 := by
  unfold sgFirst
  split
  · exact ⟨rfl, rfl⟩
  · exact ⟨(ownSenderKey_same s c g).1, (ownSenderKey_same s c g).2⟩

theorem QAdd.sgTail {s0 : Sys} {t : Sys × Client × List (Option Acct × Ct)} (h : SameQ s0 t.1) (a : Acct) (n : Node) (g rc : Nat)
    (p : Option Acct) : QAdd s0 (sgTail a n g rc p t) := by
  obtain ⟨s1, c1, encs1⟩ := t
  simp only [Yow.E2E.sgTail]
  split
  · have h1 := ownSenderKey_same s1 c1 g
    generalize Yow.E2E.ownSenderKey s1 c1 g = os at h1
    obtain ⟨s2, c2, gen⟩ := os
    dsimp only at h1 ⊢
    have h2 : SameQ s0 { s2 with nextCtr := s2.nextCtr + 1 } := h.trans ⟨h1.1, h1.2⟩
    exact h2.qadd (QAdd.sendEnc _ _ _ _ _ _)
  · exact h.qadd (QAdd.sendEnc _ _ _ _ _ _)

theorem QAdd.sgws (s : Sys) (a : Acct) (c : Client) (n : Node) (g : Nat) (need : List Acct) (rc : Nat) :
    QAdd s (sendToGroupWithSessions s a c n g need rc) := by
  rw [sendToGroupWithSessions_eq]
  exact QAdd.sgTail (sgFirst_same s c n g need rc _) _ _ _ _ _

theorem QAdd.ensure (s : Sys) (a : Acct) (c : Client) (n : Node) (g : Nat) (jids : List Acct) :
    QAdd s (ensureSessionsAndSend s a c n g jids) := by
  unfold ensureSessionsAndSend
  dsimp only
  split
  · exact QAdd.sgws _ _ _ _ _ _ _
  · exact QAdd.sendIq _ _ _ _ _ (fun _ => rfl)

theorem QAdd.sendToGroup (s : Sys) (a : Acct) (c : Client) (n : Node) (g : Nat) (retry : Option (Acct × Nat)) :
    QAdd s (sendToGroup s a c n g retry) := by
  unfold Yow.E2E.sendToGroup
  split
  · exact QAdd.sendIq _ _ _ _ _ (fun _ => rfl)
  · split
    · exact QAdd.sgws _ _ _ _ _ _ _
    · exact QAdd.sgws _ _ _ _ _ _ _

theorem QAdd.processPlaintext (s : Sys) (a : Acct) (c : Client) (n : Node) (retry : Option (Acct × Nat)) :
    QAdd s (processPlaintext s a c n retry) := by
  unfold Yow.E2E.processPlaintext
  split
  · exact QAdd.sendToGroup _ _ _ _ _ _
  · split
    · exact QAdd.sendToContact _ _ _ _ _
    · exact QAdd.sendIq _ _ _ _ _ (fun _ => rfl)

theorem QAdd.sendLayerSend (s : Sys) (a : Acct) (n : Node) : QAdd s (sendLayerSend s a n) := by
  unfold Yow.E2E.sendLayerSend
  dsimp only
  split
  · exact QAdd.emit _ _ rfl
  · exact QAdd.processPlaintext _ _ _ _ _

theorem processKeys_same (s : Sys) (r : Acct) (asked got : List Acct) : SameQ s (processKeys s r asked got).1 := by
  unfold Yow.E2E.processKeys
  suffices H : ∀ (l : List Acct) (acc : Sys × List Acct),
      SameQ acc.1 (l.foldl (fun (acc : Sys × List Acct) j =>
        if got.contains j then
          (Yow.E2E.setClient { acc.1 with nextSess := acc.1.nextSess + 1 } r (createSession (getClient acc.1 r) j acc.1.nextSess), acc.2 ++ [j])
        else (Yow.E2E.setClient acc.1 r { getClient acc.1 r with skipEnc := (getClient acc.1 r).skipEnc ++ [.user j] }, acc.2)) acc).1 from
    H asked (s, [])
  intro l
  induction l with
  | nil => intro acc; exact SameQ.rfl' _
  | cons j l ih =>
    intro acc
    rw [List.foldl_cons]
    refine SameQ.trans ?_ (ih _)
    split <;> exact ⟨rfl, rfl⟩

/-- the answer to a query, for every continuation except the one a parked stanza waits for -/
theorem QAdd.onIqResult (s : Sys) (r : Acct) (iq : Nat) (got ms : List Acct)
    (hk : ∀ k, lookup (getClient s r).iqReg iq = some k → ∀ p q, k ≠ Cont.keysForPending p q) :
    QAdd s (onIqResult s r iq got ms) := by
  unfold Yow.E2E.onIqResult
  dsimp only
  split
  · exact QAdd.rfl' s
  · next k hk' =>
    have hk0 := hk k hk'
    have h0 : SameQ s (Yow.E2E.setClient s r { getClient s r with iqReg := erase (getClient s r).iqReg iq }) := ⟨rfl, rfl⟩
    refine h0.qadd ?_
    generalize Yow.E2E.setClient s r { getClient s r with iqReg := erase (getClient s r).iqReg iq } = s0
    cases k with
    | keysForSend n =>
      dsimp only
      split
      · next b hb =>
        have := processKeys_same s0 r [b] got
        split
        · exact this.qadd (QAdd.sendToContact _ _ _ _ _)
        · exact QAdd.of_same this
      · exact QAdd.rfl' _
    | keysForRetry n who count =>
      dsimp only
      have := processKeys_same s0 r [who] got
      split
      · exact this.qadd (QAdd.processPlaintext _ _ _ _ _)
      · exact QAdd.of_same this
    | keysForPending peer part => exact absurd rfl (hk0 peer part)
    | groupInfo n =>
      dsimp only
      split
      · exact QAdd.ensure _ _ _ _ _ _
      · exact QAdd.rfl' _
    | keysForGroup n all l =>
      dsimp only
      split
      · exact (processKeys_same s0 r l got).qadd (QAdd.sgws _ _ _ _ _ _ _)
      · exact QAdd.rfl' _

/-- a delivery receipt arrives -/
theorem QAdd.onReceipt_delivery (s : Sys) (r : Acct) (id : Nat) (peer : Dest) (part : Option Acct) :
    QAdd s (onReceipt s r id peer part .delivery) := by
  unfold Yow.E2E.onReceipt
  dsimp only
  split
  · exact QAdd.set_emit _ _ _ rfl
  · have h1 : SameQ s (Yow.E2E.setClient s r (if part.isSome = true then getClient s r
        else { getClient s r with sentQueue := (getClient s r).sentQueue.filter (fun m => m.id != id) })) := ⟨rfl, rfl⟩
    exact h1.qadd (QAdd.set_emit _ _ _ rfl)

theorem QAdd.foldl_push (f : Acct → Stanza) (hf : ∀ m, isRetry (f m) = false) (l : List Acct) :
    ∀ s : Sys, QAdd s (l.foldl (fun acc m => Yow.E2E.push acc m (f m)) s) := by
  induction l with
  | nil => intro s; exact QAdd.rfl' s
  | cons m l ih =>
    intro s
    rw [List.foldl_cons]
    exact (QAdd.push s m (hf m)).trans (ih _)

/-- the server forwards: a retry request comes out only if one went in -/
theorem QAdd.serverProcess (s : Sys) (a : Acct) {st : Stanza} (h : isRetry st = false) : QAdd s (serverProcess s a st) := by
  cases st with
  | msg id dest part im encs pl =>
    cases dest with
    | user b =>
      simp only [Yow.E2E.serverProcess]
      split
      · exact (QAdd.push s a rfl).trans (QAdd.push _ _ rfl)
      · exact QAdd.push s a rfl
    | group g =>
      simp only [Yow.E2E.serverProcess]
      cases part with
      | some p =>
        dsimp only
        split
        · exact (QAdd.push s a rfl).trans (QAdd.push _ _ rfl)
        · exact QAdd.push s a rfl
      | none =>
        dsimp only
        exact (QAdd.push s a rfl).trans (QAdd.foldl_push _ (fun _ => rfl) _ _)
  | receipt id peer part t =>
    have ht : ∀ p q, isRetry (.receipt id p q t) = false := by
      intro p q
      cases t with
      | delivery => rfl
      | retry c => cases h
    cases peer with
    | user b =>
      simp only [Yow.E2E.serverProcess]
      split
      · exact (QAdd.push s a rfl).trans (QAdd.push _ _ (ht _ _))
      · exact QAdd.push s a rfl
    | group g =>
      simp only [Yow.E2E.serverProcess]
      cases part with
      | some p =>
        dsimp only
        split
        · exact (QAdd.push s a rfl).trans (QAdd.push _ _ (ht _ _))
        · exact QAdd.push s a rfl
      | none => exact QAdd.push s a rfl
  | ack id k => exact QAdd.rfl' s
  | getKeys iq j => exact QAdd.push s a rfl
  | getGroup iq g => exact QAdd.push s a rfl
  | keys iq got => exact QAdd.rfl' s
  | groupInfo iq g ms => exact QAdd.rfl' s

end Yow.E2E
