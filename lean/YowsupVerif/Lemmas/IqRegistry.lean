import YowsupVerif.Model.IqRegistry
namespace Yow.Iq

/-! ### helper lemmas -/

theorem appReceive_next (s : St) (id : Nat) (r : Bool) : (appReceive s id r).1.next = s.next := by
  unfold appReceive
  split
  · rfl
  · split
    · rfl
    · split <;> rfl

theorem appReceive_layerReg (s : St) (id : Nat) (r : Bool) :
    (appReceive s id r).1.layerReg = s.layerReg := by
  unfold appReceive
  split
  · rfl
  · split
    · rfl
    · split <;> rfl

theorem appReceive_appReg (s : St) (id : Nat) (r : Bool) :
    (appReceive s id r).1.appReg = s.appReg ∨
    (appReceive s id r).1.appReg = s.appReg.filter (fun x => x.id != id) := by
  unfold appReceive
  split
  · exact Or.inl rfl
  · split
    · exact Or.inr rfl
    · split <;> exact Or.inr rfl

theorem deliver_next (s : St) (id : Nat) (r : Bool) : (step s (.deliver id r)).1.next = s.next := by
  simp only [step]
  split
  · rfl
  · split
    · simp only [appReceive_next]
    · rfl

theorem deliver_layerReg (s : St) (id : Nat) (r : Bool) :
    (step s (.deliver id r)).1.layerReg = s.layerReg ∨
    (step s (.deliver id r)).1.layerReg = s.layerReg.filter (fun x => x.id != id) := by
  simp only [step]
  split
  · exact Or.inl rfl
  · split
    · exact Or.inr (appReceive_layerReg _ id r)
    · exact Or.inr rfl

theorem deliver_appReg (s : St) (id : Nat) (r : Bool) :
    (step s (.deliver id r)).1.appReg = s.appReg ∨
    (step s (.deliver id r)).1.appReg = s.appReg.filter (fun x => x.id != id) := by
  simp only [step]
  split
  · exact Or.inl rfl
  · split
    · exact appReceive_appReg _ id r
    · exact Or.inl rfl

theorem filter_keep {α : Type} (f : α → Nat) (l : List α) (id id' : Nat) (hne : id' ≠ id) :
    (l.filter (fun x => f x != id')).filter (fun e => f e == id) = l.filter (fun e => f e == id) := by
  rw [List.filter_filter]
  apply List.filter_congr
  intro x _
  by_cases hx : f x = id
  · subst hx
    have : (f x != id') = true := by simp only [bne_iff_ne, ne_eq]; exact fun h => hne h.symm
    simp only [this, Bool.and_true]
  · have : (f x == id) = false := by simp only [beq_eq_false_iff_ne, ne_eq]; exact hx
    simp only [this, Bool.false_and]

theorem filter_fresh {α : Type} (f : α → Nat) (l : List α) (id : Nat) (h : ∀ e ∈ l, f e ≠ id) :
    l.filter (fun e => f e == id) = [] := by
  rw [List.filter_eq_nil_iff]
  intro a ha
  simp only [beq_iff_eq]
  exact h a ha

theorem find_of_filter {α : Type} (p : α → Bool) (l : List α) (e : α) (h : l.filter p = [e]) :
    l.find? p = some e := by
  induction l with
  | nil => simp at h
  | cons x xs ih =>
    by_cases hx : p x = true
    · rw [List.filter_cons_of_pos hx] at h
      rw [List.find?_cons_of_pos hx]
      simp only [List.cons.injEq] at h
      rw [h.1]
    · rw [List.filter_cons_of_neg hx] at h
      rw [List.find?_cons_of_neg hx]
      exact ih h

theorem find_none_of_filter {α : Type} (p : α → Bool) (l : List α) (h : l.filter p = []) :
    l.find? p = none := by
  rw [List.find?_eq_none]
  rw [List.filter_eq_nil_iff] at h
  exact h

theorem nodup_filter_map {α : Type} (f : α → Nat) (l : List α) (p : α → Bool)
    (h : (l.map f).Nodup) : ((l.filter p).map f).Nodup :=
  List.Nodup.sublist (List.Sublist.map f List.filter_sublist) h

theorem nodup_append_fresh {α : Type} (f : α → Nat) (l : List α) (x : α)
    (h : (l.map f).Nodup) (hx : ∀ e ∈ l, f e ≠ f x) : ((l ++ [x]).map f).Nodup := by
  rw [List.map_append, List.nodup_append]
  refine ⟨h, by simp, ?_⟩
  intro a ha b hb
  simp only [List.map_cons, List.map_nil, List.mem_singleton] at hb
  subst hb
  rcases List.mem_map.1 ha with ⟨e, he, rfl⟩
  exact hx e he

/-- the guard of `reReq` spelled out -/
theorem reReq_guard (s : St) (id : Nat) :
    (decide (id ≤ s.next) && !(s.layerReg.any (fun e => e.id == id)) && !(s.appReg.any (fun e => e.id == id))) = true ↔
    (id ≤ s.next ∧ (∀ e ∈ s.layerReg, e.id ≠ id) ∧ (∀ e ∈ s.appReg, e.id ≠ id)) := by
  simp only [Bool.and_eq_true, decide_eq_true_eq, Bool.not_eq_true', List.any_eq_false, beq_iff_eq,
    and_assoc, ne_eq]

/-- `reReq` is either a no-op or (when the guard holds) registers the id again -/
theorem step_reReq (s : St) (id : Nat) (k : Kind) (a b : Bool) :
    (step s (.reReq id k a b) = (s, [])) ∨
    ((id ≤ s.next ∧ (∀ e ∈ s.layerReg, e.id ≠ id) ∧ (∀ e ∈ s.appReg, e.id ≠ id)) ∧
      step s (.reReq id k a b) =
        ((if k.registers then
            { s with appReg := s.appReg ++ [{ id := id, succ := a, err := b }],
                     layerReg := s.layerReg ++ [{ layer := k.owner, id := id, succ := k.succ, err := k.err }] }
          else { s with appReg := s.appReg ++ [{ id := id, succ := a, err := b }] }), [.sent id])) := by
  by_cases hg : (decide (id ≤ s.next) && !(s.layerReg.any (fun e => e.id == id)) &&
      !(s.appReg.any (fun e => e.id == id))) = true
  · refine Or.inr ⟨(reReq_guard s id).1 hg, ?_⟩
    simp only [step, hg, if_true]
  · refine Or.inl ?_
    simp only [step, hg, if_false, Bool.false_eq_true]

theorem step_reReq_of_guard (s : St) (id : Nat) (k : Kind) (a b : Bool)
    (hid : id ≤ s.next) (hl : ∀ e ∈ s.layerReg, e.id ≠ id) (ha : ∀ e ∈ s.appReg, e.id ≠ id) :
    step s (.reReq id k a b) =
        ((if k.registers then
            { s with appReg := s.appReg ++ [{ id := id, succ := a, err := b }],
                     layerReg := s.layerReg ++ [{ layer := k.owner, id := id, succ := k.succ, err := k.err }] }
          else { s with appReg := s.appReg ++ [{ id := id, succ := a, err := b }] }), [.sent id]) := by
  have hg := (reReq_guard s id).2 ⟨hid, hl, ha⟩
  simp only [step, hg, if_true]

/-- a request of the server's own either changes nothing (it is answered) or — only when it is taken
    for an answer — filters the layer registry -/
theorem step_serverReq (s : St) (id : Nat) (c : Bool) :
    step s (.serverReq id c) = (s, [.pong id]) ∨
    (c = true ∧ step s (.serverReq id c) =
      ({ s with layerReg := s.layerReg.filter (fun x => x.id != id) }, [.swallowed id])) := by
  by_cases hg : (c && s.layerReg.any (fun e => e.id == id)) = true
  · refine Or.inr ⟨?_, ?_⟩
    · cases c
      · simp only [Bool.false_and, Bool.false_eq_true] at hg
      · rfl
    · simp only [step, hg, if_true]
  · refine Or.inl ?_
    simp only [step, hg, if_false, Bool.false_eq_true]

theorem step_serverReq_false (s : St) (id : Nat) : step s (.serverReq id false) = (s, [.pong id]) := by
  simp only [step, Bool.false_and, Bool.false_eq_true, if_false]

/-! ### theorems -/

theorem inv_init : Inv init := by
  simp [Inv, init]

theorem inv_step (s : St) (h : Inv s) (op : Op) : Inv (step s op).1 := by
  obtain ⟨h1, h2, h3, h4⟩ := h
  cases op with
  | appReq k a b =>
    simp only [step]
    have hA : ((s.appReg ++ [({ id := s.next + 1, succ := a, err := b } : AppEntry)]).map AppEntry.id).Nodup :=
      nodup_append_fresh _ _ _ h4 (fun e he => by have := h2 e he; simp only; omega)
    have hA' : ∀ e ∈ s.appReg ++ [({ id := s.next + 1, succ := a, err := b } : AppEntry)], e.id ≤ s.next + 1 := by
      intro e he
      rcases List.mem_append.1 he with he | he
      · have := h2 e he; omega
      · simp only [List.mem_singleton] at he; subst he; simp
    split
    · refine ⟨?_, hA', ?_, hA⟩
      · intro e he
        rcases List.mem_append.1 he with he | he
        · have := h1 e he; simp only; omega
        · simp only [List.mem_singleton] at he; subst he; simp
      · exact nodup_append_fresh _ _ _ h3 (fun e he => by have := h1 e he; simp only; omega)
    · refine ⟨?_, hA', h3, hA⟩
      intro e he
      have := h1 e he; simp only; omega
  | libReq k =>
    simp only [step]
    split
    · refine ⟨?_, ?_, ?_, h4⟩
      · intro e he
        rcases List.mem_append.1 he with he | he
        · have := h1 e he; simp only; omega
        · simp only [List.mem_singleton] at he; subst he; simp
      · intro e he
        have := h2 e he; simp only; omega
      · exact nodup_append_fresh _ _ _ h3 (fun e he => by have := h1 e he; simp only; omega)
    · refine ⟨?_, ?_, h3, h4⟩
      · intro e he
        have := h1 e he; simp only; omega
      · intro e he
        have := h2 e he; simp only; omega
  | reReq id k a b =>
    rcases step_reReq s id k a b with e | ⟨⟨hle, hl, ha⟩, e⟩ <;> rw [e]
    · exact ⟨h1, h2, h3, h4⟩
    · have hA : ((s.appReg ++ [({ id := id, succ := a, err := b } : AppEntry)]).map AppEntry.id).Nodup :=
        nodup_append_fresh _ _ _ h4 (fun e he => ha e he)
      have hA' : ∀ e ∈ s.appReg ++ [({ id := id, succ := a, err := b } : AppEntry)], e.id ≤ s.next := by
        intro e he
        rcases List.mem_append.1 he with he | he
        · exact h2 e he
        · simp only [List.mem_singleton] at he; subst he; exact hle
      simp only
      split
      · refine ⟨?_, hA', ?_, hA⟩
        · intro e he
          rcases List.mem_append.1 he with he | he
          · exact h1 e he
          · simp only [List.mem_singleton] at he; subst he; exact hle
        · exact nodup_append_fresh _ _ _ h3 (fun e he => hl e he)
      · exact ⟨h1, hA', h3, hA⟩
  | serverReq id c =>
    rcases step_serverReq s id c with e | ⟨_, e⟩ <;> rw [e]
    · exact ⟨h1, h2, h3, h4⟩
    · exact ⟨fun x hx => h1 x (List.mem_filter.1 hx).1, h2, nodup_filter_map _ _ _ h3, h4⟩
  | deliver id r =>
    unfold Inv
    rw [deliver_next]
    refine ⟨?_, ?_, ?_, ?_⟩
    · rcases deliver_layerReg s id r with e | e <;> rw [e]
      · exact h1
      · intro x hx; exact h1 x (List.mem_filter.1 hx).1
    · rcases deliver_appReg s id r with e | e <;> rw [e]
      · exact h2
      · intro x hx; exact h2 x (List.mem_filter.1 hx).1
    · rcases deliver_layerReg s id r with e | e <;> rw [e]
      · exact h3
      · exact nodup_filter_map _ _ _ h3
    · rcases deliver_appReg s id r with e | e <;> rw [e]
      · exact h4
      · exact nodup_filter_map _ _ _ h4

theorem inv_run (s : St) (h : Inv s) (ops : List Op) : Inv (run s ops).1 := by
  induction ops generalizing s with
  | nil => exact h
  | cons op ops ih =>
    simp only [run]
    exact ih _ (inv_step s h op)

/-- the counter never decreases, and a request increases it by exactly one -/
theorem next_mono_step (s : St) (op : Op) : s.next ≤ (step s op).1.next := by
  cases op with
  | appReq k a b => simp only [step]; split <;> simp
  | libReq k => simp only [step]; split <;> simp
  | reReq id k a b =>
    rcases step_reReq s id k a b with e | ⟨_, e⟩ <;> rw [e]
    · exact Nat.le_refl _
    · simp only; split <;> exact Nat.le_refl _
  | serverReq id c =>
    rcases step_serverReq s id c with e | ⟨_, e⟩ <;> rw [e] <;> exact Nat.le_refl _
  | deliver id r => rw [deliver_next]; exact Nat.le_refl _

theorem next_mono_run (s : St) (ops : List Op) : s.next ≤ (run s ops).1.next := by
  induction ops generalizing s with
  | nil => exact Nat.le_refl _
  | cons op ops ih =>
    simp only [run]
    exact Nat.le_trans (next_mono_step s op) (ih _)

/-- a request gets a fresh id: it is not the id of any outstanding request -/
theorem request_id_fresh (s : St) (h : Inv s) (k : Kind) (a b : Bool) :
    (step s (.appReq k a b)).2 = [.sent (s.next + 1)] ∧ (step s (.libReq k)).2 = [.sent (s.next + 1)] ∧
    (∀ e ∈ s.layerReg, e.id ≠ s.next + 1) ∧ (∀ e ∈ s.appReg, e.id ≠ s.next + 1) := by
  refine ⟨rfl, rfl, ?_, ?_⟩
  · intro e he; have := h.1 e he; omega
  · intro e he; have := h.2.1 e he; omega

/-- a reply whose id is in no protocol-layer registry invokes nothing and leaves every registry alone -/
theorem deliver_unknown (s : St) (id : Nat) (r : Bool) (h : ∀ e ∈ s.layerReg, e.id ≠ id) :
    step s (.deliver id r) = (s, [.ordinary id]) := by
  have hf : s.layerReg.find? (fun e => e.id == id) = none := by
    rw [List.find?_eq_none]
    intro x hx
    simp only [beq_iff_eq]
    exact h x hx
  simp only [step, hf]


theorem filter_append_fresh {α : Type} (f : α → Nat) (l : List α) (x : α) (id : Nat) (h : f x ≠ id) :
    (l ++ [x]).filter (fun e => f e == id) = l.filter (fun e => f e == id) := by
  have : (f x == id) = false := by simp only [beq_eq_false_iff_ne, ne_eq]; exact h
  rw [List.filter_append, List.filter_cons_of_neg (by simp only [this]; exact Bool.false_ne_true),
    List.filter_nil, List.append_nil]

theorem other_ops_keep_entries (s : St) (h : Inv s) (id : Nat) (hid : id ≤ s.next) (op : Op)
    (hop : ∀ r, op ≠ .deliver id r) (hre : ∀ k a b, op ≠ .reReq id k a b)
    (hsrv : ∀ i, op ≠ .serverReq i true) :
    (step s op).1.layerReg.filter (fun e => e.id == id) = s.layerReg.filter (fun e => e.id == id) ∧
    (step s op).1.appReg.filter (fun e => e.id == id) = s.appReg.filter (fun e => e.id == id) := by
  have _ := h
  cases op with
  | appReq k a b =>
    simp only [step]
    split
    · exact ⟨filter_append_fresh LayerEntry.id _ _ id (by simp only; omega),
        filter_append_fresh AppEntry.id _ _ id (by simp only; omega)⟩
    · exact ⟨rfl, filter_append_fresh AppEntry.id _ _ id (by simp only; omega)⟩
  | libReq k =>
    simp only [step]
    split
    · exact ⟨filter_append_fresh LayerEntry.id _ _ id (by simp only; omega), rfl⟩
    · exact ⟨rfl, rfl⟩
  | reReq id' k a b =>
    have hne : id' ≠ id := by
      intro e; subst e; exact hre k a b rfl
    rcases step_reReq s id' k a b with e | ⟨_, e⟩ <;> rw [e]
    · exact ⟨rfl, rfl⟩
    · simp only
      split
      · exact ⟨filter_append_fresh LayerEntry.id _ _ id hne, filter_append_fresh AppEntry.id _ _ id hne⟩
      · exact ⟨rfl, filter_append_fresh AppEntry.id _ _ id hne⟩
  | serverReq i c =>
    cases c with
    | true => exact absurd rfl (hsrv i)
    | false => rw [step_serverReq_false]; exact ⟨rfl, rfl⟩
  | deliver id' r =>
    have hne : id' ≠ id := by
      intro e; subst e; exact hop r rfl
    constructor
    · rcases deliver_layerReg s id' r with e | e <;> rw [e]
      exact filter_keep LayerEntry.id _ id id' hne
    · rcases deliver_appReg s id' r with e | e <;> rw [e]
      exact filter_keep AppEntry.id _ id id' hne

theorem other_ops_keep_entries_run (s : St) (h : Inv s) (id : Nat) (hid : id ≤ s.next) (ops : List Op)
    (hop : ∀ op ∈ ops, ∀ r, op ≠ .deliver id r) (hre : ∀ op ∈ ops, ∀ k a b, op ≠ .reReq id k a b)
    (hsrv : ∀ op ∈ ops, ∀ i, op ≠ .serverReq i true) :
    (run s ops).1.layerReg.filter (fun e => e.id == id) = s.layerReg.filter (fun e => e.id == id) ∧
    (run s ops).1.appReg.filter (fun e => e.id == id) = s.appReg.filter (fun e => e.id == id) := by
  induction ops generalizing s with
  | nil => exact ⟨rfl, rfl⟩
  | cons op ops ih =>
    simp only [run]
    have h1 := other_ops_keep_entries s h id hid op (hop op List.mem_cons_self)
      (hre op List.mem_cons_self) (hsrv op List.mem_cons_self)
    have h2 := ih (step s op).1 (inv_step s h op) (Nat.le_trans hid (next_mono_step s op))
      (fun o ho => hop o (List.mem_cons_of_mem _ ho)) (fun o ho => hre o (List.mem_cons_of_mem _ ho))
      (fun o ho => hsrv o (List.mem_cons_of_mem _ ho))
    exact ⟨h2.1.trans h1.1, h2.2.trans h1.2⟩

theorem mem_filter_bne {α : Type} (f : α → Nat) (l : List α) (id : Nat) :
    ∀ e ∈ l.filter (fun x => f x != id), f e ≠ id := by
  intro e he
  have := (List.mem_filter.1 he).2
  simpa only [bne_iff_ne, ne_eq] using this

/-- delivery to a state in which the layer registry holds a complete entry and the application
    registry holds an entry for `id` -/
theorem deliver_app_registered (s : St) (o id : Nat) (a b r : Bool)
    (hL : s.layerReg.find? (fun e => e.id == id) = some ⟨o, id, true, true⟩)
    (hA : s.appReg.find? (fun e => e.id == id) = some ⟨id, a, b⟩) :
    (step s (.deliver id r)).2 =
      [.layerCb o id r, if (if r then a else b) then .appCb id r else .swallowed id] ∧
    (step s (.deliver id r)).1.layerReg = s.layerReg.filter (fun x => x.id != id) ∧
    (step s (.deliver id r)).1.appReg = s.appReg.filter (fun x => x.id != id) := by
  have hc : ((r && true) || (!r && true)) = true := by cases r <;> rfl
  simp only [step, hL, hc, if_true, appReceive, hA]
  cases r <;> cases a <;> cases b <;> simp

theorem deliver_lib_registered (s : St) (o id : Nat) (r : Bool)
    (hL : s.layerReg.find? (fun e => e.id == id) = some ⟨o, id, true, true⟩)
    (hA : s.appReg.find? (fun e => e.id == id) = none) :
    (step s (.deliver id r)).2 = [.layerCb o id r, .appEntity id] := by
  have hc : ((r && true) || (!r && true)) = true := by cases r <;> rfl
  simp only [step, hL, hc, if_true, appReceive, hA]

theorem complete_fields (k : Kind) (hk : k.complete = true) :
    k.registers = true ∧ k.succ = true ∧ k.err = true := by
  simp only [Kind.complete, Bool.and_eq_true] at hk
  exact ⟨hk.1.1, hk.1.2, hk.2⟩

theorem app_request_reply (pre post : List Op) (k : Kind) (hk : k.complete = true) (a b r : Bool)
    (hpost : ∀ op ∈ post, ∀ r', op ≠ .deliver ((run init pre).1.next + 1) r')
    (hre : ∀ op ∈ post, ∀ k' a' b', op ≠ .reReq ((run init pre).1.next + 1) k' a' b')
    (hsrv : ∀ op ∈ post, ∀ i, op ≠ .serverReq i true) :
    let id := (run init pre).1.next + 1
    let s := (run (step (run init pre).1 (.appReq k a b)).1 post).1
    (step s (.deliver id r)).2 =
      [.layerCb k.owner id r, if (if r then a else b) then .appCb id r else .swallowed id] ∧
    (∀ e ∈ (step s (.deliver id r)).1.layerReg, e.id ≠ id) ∧
    (∀ e ∈ (step s (.deliver id r)).1.appReg, e.id ≠ id) := by
  intro id s
  obtain ⟨kr, ks, ke⟩ := complete_fields k hk
  have hI1 : Inv (run init pre).1 := inv_run init inv_init pre
  have hfr := request_id_fresh (run init pre).1 hI1 k a b
  have hI2 : Inv (step (run init pre).1 (.appReq k a b)).1 := inv_step _ hI1 _
  have hL0 : (step (run init pre).1 (.appReq k a b)).1.layerReg.filter (fun e => e.id == id)
      = [⟨k.owner, id, true, true⟩] := by
    simp only [step, kr, ks, ke, if_true, List.filter_append]
    rw [filter_fresh LayerEntry.id _ _ hfr.2.2.1]
    simp [id]
  have hA0 : (step (run init pre).1 (.appReq k a b)).1.appReg.filter (fun e => e.id == id)
      = [⟨id, a, b⟩] := by
    simp only [step, kr, if_true, List.filter_append]
    rw [filter_fresh AppEntry.id _ _ hfr.2.2.2]
    simp [id]
  have hnext : id ≤ (step (run init pre).1 (.appReq k a b)).1.next := by
    simp only [step, kr, if_true]; exact Nat.le_refl _
  have hkeep := other_ops_keep_entries_run _ hI2 id hnext post hpost hre hsrv
  have hL : s.layerReg.find? (fun e => e.id == id) = some ⟨k.owner, id, true, true⟩ :=
    find_of_filter _ _ _ (hkeep.1.trans hL0)
  have hA : s.appReg.find? (fun e => e.id == id) = some ⟨id, a, b⟩ :=
    find_of_filter _ _ _ (hkeep.2.trans hA0)
  obtain ⟨h1, h2, h3⟩ := deliver_app_registered s k.owner id a b r hL hA
  refine ⟨h1, ?_, ?_⟩
  · rw [h2]; exact mem_filter_bne LayerEntry.id _ id
  · rw [h3]; exact mem_filter_bne AppEntry.id _ id

theorem replay_invokes_nothing (s : St) (id : Nat) (r r' : Bool) :
    (∀ e ∈ (step s (.deliver id r)).1.layerReg, e.id ≠ id) →
    step (step s (.deliver id r)).1 (.deliver id r') = ((step s (.deliver id r)).1, [.ordinary id]) :=
  fun h => deliver_unknown _ id r' h

theorem lib_request_reply (pre post : List Op) (k : Kind) (hk : k.complete = true) (r : Bool)
    (hpost : ∀ op ∈ post, ∀ r', op ≠ .deliver ((run init pre).1.next + 1) r')
    (hre : ∀ op ∈ post, ∀ k' a' b', op ≠ .reReq ((run init pre).1.next + 1) k' a' b')
    (hsrv : ∀ op ∈ post, ∀ i, op ≠ .serverReq i true) :
    let id := (run init pre).1.next + 1
    let s := (run (step (run init pre).1 (.libReq k)).1 post).1
    (step s (.deliver id r)).2 = [.layerCb k.owner id r, .appEntity id] := by
  intro id s
  obtain ⟨kr, ks, ke⟩ := complete_fields k hk
  have hI1 : Inv (run init pre).1 := inv_run init inv_init pre
  have hfr := request_id_fresh (run init pre).1 hI1 k true true
  have hI2 : Inv (step (run init pre).1 (.libReq k)).1 := inv_step _ hI1 _
  have hL0 : (step (run init pre).1 (.libReq k)).1.layerReg.filter (fun e => e.id == id)
      = [⟨k.owner, id, true, true⟩] := by
    simp only [step, kr, ks, ke, if_true, List.filter_append]
    rw [filter_fresh LayerEntry.id _ _ hfr.2.2.1]
    simp [id]
  have hA0 : (step (run init pre).1 (.libReq k)).1.appReg.filter (fun e => e.id == id) = [] := by
    simp only [step, kr, if_true]
    exact filter_fresh AppEntry.id _ _ hfr.2.2.2
  have hnext : id ≤ (step (run init pre).1 (.libReq k)).1.next := by
    simp only [step, kr, if_true]; exact Nat.le_refl _
  have hkeep := other_ops_keep_entries_run _ hI2 id hnext post hpost hre hsrv
  have hL : s.layerReg.find? (fun e => e.id == id) = some ⟨k.owner, id, true, true⟩ :=
    find_of_filter _ _ _ (hkeep.1.trans hL0)
  have hA : s.appReg.find? (fun e => e.id == id) = none :=
    find_none_of_filter _ _ (hkeep.2.trans hA0)
  exact deliver_lib_registered s k.owner id r hL hA

end Yow.Iq

namespace Yow.Iq

/-- A retry under the old id (re-issued after — or from inside the callback of — its reply) is registered
    again and its own reply reaches the callbacks exactly like the first time. -/
theorem retry_same_id_reply (s : St) (h : Inv s) (id : Nat) (hid : id ≤ s.next)
    (hl : ∀ e ∈ s.layerReg, e.id ≠ id) (ha : ∀ e ∈ s.appReg, e.id ≠ id)
    (k : Kind) (hk : k.complete = true) (a b r : Bool) :
    (step s (.reReq id k a b)).2 = [.sent id] ∧
    (step (step s (.reReq id k a b)).1 (.deliver id r)).2 =
      [.layerCb k.owner id r, if (if r then a else b) then .appCb id r else .swallowed id] := by
  have _ := h
  obtain ⟨kr, ks, ke⟩ := complete_fields k hk
  have e := step_reReq_of_guard s id k a b hid hl ha
  rw [e]
  refine ⟨rfl, ?_⟩
  simp only [kr, ks, ke, if_true]
  refine (deliver_app_registered _ k.owner id a b r ?_ ?_).1
  · exact find_of_filter _ _ _ (by
      simp only [List.filter_append]
      rw [filter_fresh LayerEntry.id _ _ hl]
      simp)
  · exact find_of_filter _ _ _ (by
      simp only [List.filter_append]
      rw [filter_fresh AppEntry.id _ _ ha]
      simp)

end Yow.Iq
