/-
  Token conservation in the E2E system model, part 13: the answer to a key / group query arrives at a client whose
  continuation holds the token of a message to send.
-/
import YowsupVerif.Lemmas.E2ETokKeys
namespace Yow.E2E

section
variable {ex : Bool} {accts : List Acct} {groups : List (Nat × List Acct)}

theorem finish_sender {L : List (Acct × Node)} {s s' : Sys} {a : Acct} {cons rest : List Stanza} {c' : Client}
    {out : List Stanza} {k : Nat} (hn : accts.Nodup) (hT : TV ex accts groups L (view s))
    (hss : SenderStep accts groups L (view s) a cons rest c' out k)
    (hv : view s' = ((view s).popOut a rest).cstep a c' out k) : TV ex accts groups L (view s') :=
  hv ▸ TV.client_step hn hT (hss.toCStepOK hT)

theorem SameBut.eraseIq (c : Client) (iq : Nat) : SameBut c { c with iqReg := erase c.iqReg iq } :=
  ⟨rfl, rfl, rfl, rfl, rfl, rfl, rfl, rfl⟩

/-- room in the sent queue for the node in hand -/
theorem Src.short {s : Sys} {L : List (Acct × Node)} {x : Acct} {cons rest : List Stanza} {c1 : Client} {n : Node} {who : Option Acct}
    (hs : Src accts groups L (view s) x cons rest c1 n who) (hslotc : who = none ∨ isGroupDest n.dest = false)
    (hq : ∀ m ∈ c1.sentQueue, (x, m) ∈ s.submitted) (hn : (x, n) ∈ s.submitted) (hlen : s.submitted.length ≤ 100) :
    c1.sentQueue.length < 100 := by
  refine sentQueue_short (sub := s.submitted) (a := x) (n := n) ?_ hq hn hlen
  intro i
  have h1 := hs.slot i
  unfold sendSlots handSlot at h1
  by_cases hi : n.id = i
  · simp only [hi, hslotc, and_self, if_true] at h1 ⊢; omega
  · simp only [hi, false_and, if_false] at h1 ⊢; omega

theorem Src.room {s : Sys} {L : List (Acct × Node)} {x : Acct} {cons rest : List Stanza} {c1 : Client} {n : Node} {who : Option Acct}
    (hs : Src accts groups L (view s) x cons rest c1 n who) (hslotc : who = none ∨ isGroupDest n.dest = false)
    (hq : ∀ m ∈ c1.sentQueue, (x, m) ∈ s.submitted) (hn : (x, n) ∈ s.submitted) :
    c1.sentQueue.length < 100 ∨ 100 < (view s).submitted.length := by
  by_cases hlen : s.submitted.length ≤ 100
  · exact Or.inl (hs.short hslotc hq hn hlen)
  · right
    show 100 < s.submitted.length
    omega

theorem room_q {c1 : Client} {q : List Node} {P : Prop} (hroom : c1.sentQueue.length < 100 ∨ P)
    (hq1 : ∀ m ∈ c1.sentQueue, m ∈ q ∨ 100 ≤ c1.sentQueue.length) : ∀ m ∈ c1.sentQueue, m ∈ q ∨ P := by
  intro m hm
  rcases hq1 m hm with h1 | h1
  · exact Or.inl h1
  · rcases hroom with h2 | h2
    · omega
    · exact Or.inr h2

theorem onIqResult_sender' (hw : WFConfig accts groups) {s : Sys} {a : Acct} {hd : Stanza} {rest : List Stanza} {iq : Nat}
    {got ms : List Acct} {k0 : Cont} {n : Node} {who : Option Acct}
    (hA : AInv accts groups (abs s)) (hT : TV ex accts groups s.submitted (view s)) (ha : a ∈ accts)
    (hq : queueOf s.outbound a = hd :: rest) (hiq : stanzaIq hd = some iq)
    (hplain : ∀ id r, downTok id hd = 0 ∧ nOf id hd = 0 ∧ rcptOut id r hd = 0 ∧ retryDownTok id r hd = 0)
    (hk0 : lookup (getClient s a).iqReg iq = some k0) (hnode : contNode k0 = some (n, who))
    (hgot : ∀ j, j ∈ asked k0 → j ∈ got) :
    TV ex accts groups s.submitted (view (onIqResult { s with outbound := insert s.outbound a rest } a iq got ms)) := by
  have hn := hw.1
  have hacc : a ∈ (view { s with outbound := insert s.outbound a rest }).accounts := by
    show a ∈ (view s).accounts; rw [hT.acc]; exact ha
  have hmem0 : (iq, k0) ∈ (getClient s a).iqReg := lookup_mem hk0
  have hcont : ContOK accts groups s.submitted a k0 := (hA.client a).conts iq k0 hmem0
  obtain ⟨hnsub, hwho⟩ := contNode_sub hnode hcont
  have hshape : ContShape k0 := (hT.clients a).conts _ hmem0
  have hv0 : view (setClient { s with outbound := insert s.outbound a rest } a
      { getClient s a with iqReg := erase (getClient s a).iqReg iq })
      = ((view s).popOut a rest).cstep a { getClient s a with iqReg := erase (getClient s a).iqReg iq } [] (view s).nextCtr := by
    rw [view_setClient _ _ _ hacc, view_setOutbound]; rfl
  have hacc0 : a ∈ (view (setClient { s with outbound := insert s.outbound a rest } a
      { getClient s a with iqReg := erase (getClient s a).iqReg iq })).accounts := by
    rw [hv0]; exact hacc
  have hgc0 : getClient (setClient { s with outbound := insert s.outbound a rest } a
      { getClient s a with iqReg := erase (getClient s a).iqReg iq }) a = { getClient s a with iqReg := erase (getClient s a).iqReg iq } := by
    rw [getClient_setClient]; simp
  have hsq : ∀ (c1 : Client), SameBut (getClient s a) c1 → ∀ m ∈ c1.sentQueue, (a, m) ∈ s.submitted := by
    intro c1 hs1 m hm
    rw [hs1.sentQ] at hm
    exact (hA.client a).sentQ m hm
  unfold onIqResult
  have hgc : getClient { s with outbound := insert s.outbound a rest } a = getClient s a := rfl
  simp only [hgc, hk0]
  generalize hs0 : setClient { s with outbound := insert s.outbound a rest } a
      { getClient s a with iqReg := erase (getClient s a).iqReg iq } = s0 at hv0 hacc0 hgc0
  cases k0 with
  | keysForPending p q => cases hnode
  | keysForSend m =>
    simp only [contNode, Option.some.injEq, Prod.mk.injEq] at hnode
    obtain ⟨hm, hwh⟩ := hnode
    subst hm; subst hwh
    simp only [ContShape] at hshape
    cases hmd : m.dest with
    | group g => rw [hmd] at hshape; cases hshape
    | user b =>
      simp only [hmd]
      obtain ⟨c1, hv1, hsame1, hreg1, hsess1, _, hok1⟩ := processKeys_spec a got [b] s0 hacc0 (by
        intro j hj; apply hgot; simpa [asked, hmd] using hj)
      generalize hpk : processKeys s0 a [b] got = pk at hv1 hok1
      obtain ⟨s1, ok⟩ := pk
      simp only at hv1 hok1 ⊢
      subst hok1
      simp only [List.length_singleton, if_true]
      have hgc1 : getClient s1 a = c1 := by
        have : (view s1).cl a = c1 := by rw [hv1]; simp
        exact this
      rw [hgc1]
      rw [hgc0] at hsame1 hreg1
      have hsame : SameBut (getClient s a) c1 := (SameBut.eraseIq _ iq).trans hsame1
      have hsrc := Src.ofCont (c1 := c1) hA hT ha hq hiq hplain hk0 rfl hsame hreg1
      obtain ⟨se, hse⟩ := Option.isSome_iff_exists.mp (hsess1 b (by simp))
      have hacc1 : a ∈ (view s1).accounts := by rw [hv1]; exact hacc0
      have hroom := hsrc.room (Or.inl rfl) (hsq c1 hsame) hnsub
      obtain ⟨q, heq, hnq, hq1, hq2⟩ := enqueueSent_q c1 m
      have hctr : s1.nextCtr = (view s).nextCtr := by
        have : (view s1).nextCtr = (view s).nextCtr := by rw [hv1, hv0]; rfl
        exact this
      have hfm : FreshMsg (view s).nextCtr ((view s).nextCtr + 1) (.msg m.id m.dest none m.payload.isMedia
          [(none, { kind := if se.pendingPre then .pkmsg else .msg, sess := se.cur, ctr := s1.nextCtr,
                    plain := { skdm := none, content := some m.payload }, corrupt := false })] none) := by
        refine freshMsg_single ?_ rfl rfl hctr (by rw [hmd])
        dsimp only
        split <;> simp
      have hss := hsrc.toFirst hT (fun _ _ => Or.inl rfl) (Or.inl rfl) c1.ownSK _ ((view s).nextCtr + 1)
        (Nat.le_succ _) (fun _ h' => h') (fun g' hg' => by rw [hmd] at hg'; cases hg') hfm
        q hnq (room_q hroom hq1) hq2
      refine finish_sender hn hT hss ?_
      rw [view_sendToContact _ _ _ _ _ se hacc1 hse, hv1, hv0, heq, hctr]
      simp
  | keysForRetry m w cnt =>
    simp only [contNode, Option.some.injEq, Prod.mk.injEq] at hnode
    obtain ⟨hm, hwh⟩ := hnode
    subst hm; subst hwh
    simp only [ContShape] at hshape
    simp only
    obtain ⟨c1, hv1, hsame1, hreg1, hsess1, _, hok1⟩ := processKeys_spec a got [w] s0 hacc0 (by
      intro j hj; apply hgot; simpa [asked] using hj)
    generalize hpk : processKeys s0 a [w] got = pk at hv1 hok1
    obtain ⟨s1, ok⟩ := pk
    simp only at hv1 hok1 ⊢
    subst hok1
    simp only [List.length_singleton, if_true]
    have hgc1 : getClient s1 a = c1 := by
      have : (view s1).cl a = c1 := by rw [hv1]; simp
      exact this
    rw [hgc1]
    rw [hgc0] at hsame1 hreg1
    have hsame : SameBut (getClient s a) c1 := (SameBut.eraseIq _ iq).trans hsame1
    have hsrc := Src.ofCont (c1 := c1) hA hT ha hq hiq hplain hk0 rfl hsame hreg1
    obtain ⟨se, hse⟩ := Option.isSome_iff_exists.mp (hsess1 w (by simp))
    have hacc1 : a ∈ (view s1).accounts := by rw [hv1]; exact hacc0
    have hctr : s1.nextCtr = (view s).nextCtr := by
      have : (view s1).nextCtr = (view s).nextCtr := by rw [hv1, hv0]; rfl
      exact this
    have hwint : w ∈ intendedG groups a m := hwho w rfl
    unfold processPlaintext
    cases hmd : m.dest with
    | user b =>
      simp only [hmd]
      have hwb : w = b := by simpa [intendedG, hmd] using hwint
      subst hwb
      rw [if_pos (hsess1 w (by simp))]
      have hroom := hsrc.room (Or.inr (by rw [hmd]; rfl)) (hsq c1 hsame) hnsub
      obtain ⟨q, heq, hnq, hq1, hq2⟩ := enqueueSent_q c1 m
      have hfm : FreshMsg (view s).nextCtr ((view s).nextCtr + 1) (.msg m.id m.dest none m.payload.isMedia
          [(none, { kind := if se.pendingPre then .pkmsg else .msg, sess := se.cur, ctr := s1.nextCtr,
                    plain := { skdm := none, content := some m.payload }, corrupt := false })] none) := by
        refine freshMsg_single ?_ rfl rfl hctr (by rw [hmd])
        dsimp only
        split <;> simp
      have hss := hsrc.toFirst hT (fun r hr => by
          have : r = w := by simpa [intendedG, hmd] using hr
          subst this; exact Or.inr rfl) (Or.inr (by rw [hmd]; rfl)) c1.ownSK _ ((view s).nextCtr + 1)
        (Nat.le_succ _) (fun _ h' => h') (fun g' hg' => by rw [hmd] at hg'; cases hg') hfm
        q hnq (room_q hroom hq1) hq2
      refine finish_sender hn hT hss ?_
      rw [view_sendToContact _ _ _ _ _ se hacc1 hse, hv1, hv0, heq, hctr]
      simp
    | group g =>
      simp only [hmd]
      -- the own sender key exists: otherwise two continuations would hold the token of `w`
      have hown : (lookup c1.ownSK g).isSome = true := by
        rw [hsame.ownSK]
        rcases hT.ret3 a m hnsub g hmd with h1 | ⟨e, he, hf⟩
        · exact h1
        · exfalso
          have hne : e ≠ (iq, Cont.keysForRetry m w cnt) := by
            intro e'; rw [e'] at hf; exact hf
          have h2 := sumMap_two_le (f := fun e => contTok m.id w e.2) he hmem0 hne
          have h3 : contTok m.id w e.2 = 1 := by
            cases hk : e.2 <;> rw [hk] at hf <;> simp only [firstGroupCont] at hf <;> simp [contTok, hf]
          have h4 : contTok m.id w (Cont.keysForRetry m w cnt) = 1 := by simp [contTok]
          have h5 := hT.cons a m hnsub w hwint
          rw [tokens_split] at h5
          simp only [view_cl] at h2
          rw [h3, h4] at h2
          simp only [view_cl, contS] at h5
          omega
      unfold sendToGroup
      obtain ⟨gen, hgen⟩ := Option.isSome_iff_exists.mp hown
      simp only [hgen]
      obtain ⟨sk, ct, hview, hs1, hs2, hc1, hc2, hc3, hc4⟩ := view_sgws_retry s1 a c1 m g w cnt se hacc1 hshape hse
      have hin : m ∈ c1.sentQueue ∨ 100 < (view s).submitted.length := by
        rw [hsame.sentQ]
        exact hT.retq a _ hmem0 m w cnt rfl (by rw [hmd]; rfl)
      have hfm : FreshMsg (view s).nextCtr ((view s).nextCtr + 1) (.msg m.id m.dest (some w) m.payload.isMedia [(none, ct)] none) :=
        freshMsg_single hc1 (by rw [hc2]; rfl) hc3 (hc4.trans hctr) (by rw [hmd]; rfl)
      have hss := hsrc.toRetry hT hin sk _ ((view s).nextCtr + 1) (Nat.le_succ _) hs2 hfm
      refine finish_sender hn hT hss ?_
      rw [hview, hv1, hv0, hctr]
      simp
  | groupInfo m =>
    simp only [contNode, Option.some.injEq, Prod.mk.injEq] at hnode
    obtain ⟨hm, hwh⟩ := hnode
    subst hm; subst hwh
    simp only [ContShape] at hshape
    cases hmd : m.dest with
    | user b => rw [hmd] at hshape; cases hshape
    | group g =>
      simp only [hmd]
      rw [hgc0]
      have hsame : SameBut (getClient s a) { getClient s a with iqReg := erase (getClient s a).iqReg iq } := SameBut.eraseIq _ iq
      have hsrc := Src.ofCont (c1 := { getClient s a with iqReg := erase (getClient s a).iqReg iq }) hA hT ha hq hiq hplain hk0 rfl hsame rfl
      have hctr : s0.nextCtr = (view s).nextCtr := by
        have : (view s0).nextCtr = (view s).nextCtr := by rw [hv0]; rfl
        exact this
      unfold ensureSessionsAndSend
      simp only
      split
      · obtain ⟨sk, l, kct, hview, hs1, hs2, hk1, hk2, hk3, hk4, hl, hlnd⟩ :=
          view_sgws_first s0 a { getClient s a with iqReg := erase (getClient s a).iqReg iq } m g (ms.filter (· != a)) hacc0
        have hroom := hsrc.room (Or.inl rfl) (hsq _ hsame) hnsub
        obtain ⟨q, heq, hnq, hq1, hq2⟩ := enqueueSent_q { getClient s a with iqReg := erase (getClient s a).iqReg iq, ownSK := sk } m
        rw [hctr] at hk4 hl
        have hfm := freshMsg_group (id := m.id) (g := g) (im := m.payload.isMedia) hk1 (by rw [hk2]; rfl) hk3 hk4 hl hlnd
        have hss := hsrc.toFirst hT (fun _ _ => Or.inl rfl) (Or.inl rfl) sk (l ++ [(none, kct)])
          ((view s).nextCtr + (ms.filter (· != a)).length + 1)
          (by omega) hs2 (fun g' hg' => by rw [hmd] at hg'; cases hg'; exact hs1) (by rw [hmd]; exact hfm)
          q hnq (room_q hroom hq1) hq2
        refine finish_sender hn hT hss ?_
        rw [hview, hv0, heq, hctr]
        simp
      · have hss := hsrc.toCont hT
          (.keysForGroup m (ms.filter (· != a)) ((ms.filter (· != a)).filter (fun j => (lookup (getClient s a).sessions j).isNone)))
          [] (.getKeys (getClient s a).nextIq ((ms.filter (· != a)).filter (fun j => (lookup (getClient s a).sessions j).isNone)))
          (fun p hp => by cases hp) (PlainUp.getKeys _ _) rfl (fun id r => by simp [contTok, handTok])
          (fun i => by simp [slotTok, handSlot]) (by simp [ContShape, hmd, isGroupDest]) (fun _ g' _ => rfl) (fun n' w c e => by cases e)
        refine finish_sender hn hT hss ?_
        rw [view_sendIq _ _ _ _ _ hacc0, hv0]
        simp
  | keysForGroup m all askd =>
    simp only [contNode, Option.some.injEq, Prod.mk.injEq] at hnode
    obtain ⟨hm, hwh⟩ := hnode
    subst hm; subst hwh
    simp only [ContShape] at hshape
    cases hmd : m.dest with
    | user b => rw [hmd] at hshape; cases hshape
    | group g =>
      simp only [hmd]
      obtain ⟨c1, hv1, hsame1, hreg1, hsess1, _, hok1⟩ := processKeys_spec a got askd s0 hacc0 (by
        intro j hj; apply hgot; simpa [asked] using hj)
      generalize hpk : processKeys s0 a askd got = pk at hv1 hok1
      obtain ⟨s1, ok⟩ := pk
      simp only at hv1 hok1 ⊢
      have hgc1 : getClient s1 a = c1 := by
        have : (view s1).cl a = c1 := by rw [hv1]; simp
        exact this
      rw [hgc1]
      rw [hgc0] at hsame1 hreg1
      have hsame : SameBut (getClient s a) c1 := (SameBut.eraseIq _ iq).trans hsame1
      have hsrc := Src.ofCont (c1 := c1) hA hT ha hq hiq hplain hk0 rfl hsame hreg1
      have hacc1 : a ∈ (view s1).accounts := by rw [hv1]; exact hacc0
      have hctr : s1.nextCtr = (view s).nextCtr := by
        have : (view s1).nextCtr = (view s).nextCtr := by rw [hv1, hv0]; rfl
        exact this
      obtain ⟨sk, l, kct, hview, hs1, hs2, hk1, hk2, hk3, hk4, hl, hlnd⟩ :=
        view_sgws_first s1 a c1 m g (all.filter (fun j => ok.contains j || !askd.contains j)) hacc1
      have hroom := hsrc.room (Or.inl rfl) (hsq _ hsame) hnsub
      obtain ⟨q, heq, hnq, hq1, hq2⟩ := enqueueSent_q { c1 with ownSK := sk } m
      rw [hctr] at hk4 hl
      have hfm := freshMsg_group (id := m.id) (g := g) (im := m.payload.isMedia) hk1 (by rw [hk2]; rfl) hk3 hk4 hl hlnd
      have hss := hsrc.toFirst hT (fun _ _ => Or.inl rfl) (Or.inl rfl) sk (l ++ [(none, kct)])
        ((view s).nextCtr + (all.filter (fun j => ok.contains j || !askd.contains j)).length + 1)
        (by omega) hs2 (fun g' hg' => by rw [hmd] at hg'; cases hg'; exact hs1) (by rw [hmd]; exact hfm)
        q hnq (room_q hroom hq1) hq2
      refine finish_sender hn hT hss ?_
      rw [hview, hv1, hv0, heq, hctr]
      simp

theorem onIqResult_sender (hw : WFConfig accts groups) {s : Sys} {a : Acct} {hd : Stanza} {rest : List Stanza} {iq : Nat}
    {got ms : List Acct} {k0 : Cont} {n : Node} {who : Option Acct}
    (hA : AInv accts groups (abs s)) (hT : TV ex accts groups s.submitted (view s)) (ha : a ∈ accts)
    (_hlen : s.submitted.length ≤ 100)
    (hq : queueOf s.outbound a = hd :: rest) (hiq : stanzaIq hd = some iq)
    (hplain : ∀ id r, downTok id hd = 0 ∧ nOf id hd = 0 ∧ rcptOut id r hd = 0 ∧ retryDownTok id r hd = 0)
    (hk0 : lookup (getClient s a).iqReg iq = some k0) (hnode : contNode k0 = some (n, who))
    (hgot : ∀ j, j ∈ asked k0 → j ∈ got) :
    TV ex accts groups s.submitted (view (onIqResult { s with outbound := insert s.outbound a rest } a iq got ms)) :=
  onIqResult_sender' hw hA hT ha hq hiq hplain hk0 hnode hgot

end

end Yow.E2E
