/-
  Exactly-once with server faults, part 20: every allowed step keeps the invariant of runs with faults.
-/
import YowsupVerif.Lemmas.E2ETokFMsg
import YowsupVerif.Lemmas.E2ETokFNeutral
import YowsupVerif.Lemmas.E2ETokRun
namespace Yow.E2E

theorem dead_nonmsg (c : Client) {st : Stanza} (h : ∀ id peer part im encs pl, st ≠ .msg id peer part im encs pl) :
    dead c st = false := by
  cases st with
  | msg id peer part im encs pl => exact absurd rfl (h id peer part im encs pl)
  | _ => rfl

section
variable {accts : List Acct} {groups : List (Nat × List Acct)}

theorem clientReceive_faulted (s : Sys) (y : Acct) (st : Stanza) : (clientReceive s y st).faulted = s.faulted :=
  (outbound_eq_of_frame (f := fun s => clientReceive s y st) (fun s o fl => clientReceive_wo s o fl y st) s).2

/-- the delivery of a stanza that is not a message -/
theorem deliver_other_crypto {s : Sys} (h : FInv accts groups s) {y : Acct} {st : Stanza} {rest : List Stanza}
    (hq : queueOf s.outbound y = st :: rest) (hnm : ∀ id peer part im encs pl, st ≠ .msg id peer part im encs pl) :
    DV groups (view (clientReceive { s with outbound := insert s.outbound y rest } y st)) ∧
    GV groups (view (clientReceive { s with outbound := insert s.outbound y rest } y st)) ∧
    DeadOK (clientReceive { s with outbound := insert s.outbound y rest } y st) := by
  have hmem : st ∈ (abs s).outb y := by
    show _ ∈ queueOf s.outbound y; rw [hq]; simp
  have hmem' : st ∈ (view s).outb y := hmem
  obtain ⟨hy, hd, hl⟩ := h.ainv.outb_ok y st hmem
  have hacc : y ∈ (view { s with outbound := insert s.outbound y rest }).accounts := by
    show y ∈ (view s).accounts
    have : (view s).accounts = accts := h.tv.acc
    rw [this]; exact hy
  have hv0 : view { s with outbound := insert s.outbound y rest } = (view s).popOut y rest := view_setOutbound s y rest
  have hq' : queueOf s.outbound y = [st] ++ rest := hq
  have hcons : ∀ st' ∈ [st], ∀ id peer part im encs pl, st' ≠ .msg id peer part im encs pl := by
    intro st' hst'; rw [List.mem_singleton] at hst'; subst hst'; exact hnm
  have fin : ∀ {s' : Sys} {c' : Client} {out : List Stanza}, RStep { s with outbound := insert s.outbound y rest } s' y c' out →
      Neutral (getClient s y) c' out → s'.faulted = s.faulted → DV groups (view s') ∧ GV groups (view s') ∧ DeadOK s' := by
    intro s' c' out hr hn hf
    unfold RStep at hr
    rw [hv0] at hr
    exact neutral_step h hq' hcons hr hn (fun p hp => by rw [hf]; exact hp)
  have hidle := fin (RStep.refl' { s with outbound := insert s.outbound y rest } y) (Neutral.rfl' _) rfl
  cases st with
  | msg id peer part im encs pl => exact absurd rfl (hnm id peer part im encs pl)
  | receipt id peer part t =>
    obtain ⟨c', out, hr, hn⟩ := onReceipt_neutral hacc id peer part t
    exact fin hr hn (clientReceive_faulted _ y (.receipt id peer part t))
  | ack id k => exact hidle
  | getKeys iq j => exact hidle
  | getGroup iq g => exact hidle
  | keys iq got =>
    show DV groups (view (onIqResult _ y iq got [])) ∧ GV groups (view (onIqResult _ y iq got [])) ∧ DeadOK (onIqResult _ y iq got [])
    cases hk : lookup (getClient s y).iqReg iq with
    | none =>
      have e : onIqResult { s with outbound := insert s.outbound y rest } y iq got [] = { s with outbound := insert s.outbound y rest } := by
        unfold onIqResult
        have : getClient { s with outbound := insert s.outbound y rest } y = getClient s y := rfl
        simp only [this, hk]
      rw [e]; exact hidle
    | some k0 =>
      refine onIqResult_crypto h hy hq hnm hk ?_ ?_
      · intro j hj
        exact (hl iq rfl).2 k0 hk j hj
      · intro n hn
        subst hn
        obtain ⟨g, _, _, g3⟩ := h.dv.c1 y (iq, .groupInfo n) (lookup_mem hk) n rfl
        have := g3 _ hmem' rfl
        cases this
  | groupInfo iq g ms =>
    show DV groups (view (onIqResult _ y iq [] ms)) ∧ GV groups (view (onIqResult _ y iq [] ms)) ∧ DeadOK (onIqResult _ y iq [] ms)
    cases hk : lookup (getClient s y).iqReg iq with
    | none =>
      have e : onIqResult { s with outbound := insert s.outbound y rest } y iq [] ms = { s with outbound := insert s.outbound y rest } := by
        unfold onIqResult
        have : getClient { s with outbound := insert s.outbound y rest } y = getClient s y := rfl
        simp only [this, hk]
      rw [e]; exact hidle
    | some k0 =>
      refine onIqResult_crypto h hy hq hnm hk ?_ ?_
      · intro j hj
        exact (hl iq rfl).2 k0 hk j hj
      · intro n hn
        subst hn
        obtain ⟨g', g1, _, g3⟩ := h.dv.c1 y (iq, .groupInfo n) (lookup_mem hk) n rfl
        have := g3 _ hmem' rfl
        cases this
        exact ⟨g, g1, rfl⟩

/-- the view after a client step on the state with the head of the queue taken -/
theorem view_of_rstep {s s' : Sys} {y : Acct} {rest : List Stanza} {c' : Client} {out : List Stanza}
    (hr : RStep { s with outbound := insert s.outbound y rest } s' y c' out) :
    view s' = ((view s).popOut y rest).cstep y c' out (view s).nextCtr := by
  unfold RStep at hr
  rw [view_setOutbound] at hr
  exact hr

/-- the delivery of a dead copy -/
theorem deliver_dead_FInv (hw : WFConfig accts groups) {s : Sys} (h : FInv accts groups s) {y : Acct} {id : Nat} {peer : Dest}
    {part : Option Acct} {im : Bool} {encs : List (Option Acct × Ct)} {pl : Option Payload} {rest : List Stanza}
    (hq : queueOf s.outbound y = .msg id peer part im encs pl :: rest)
    (hdead : dead (getClient s y) (.msg id peer part im encs pl) = true) :
    FInv accts groups (step s (.deliver y .none)) := by
  have hmem : Stanza.msg id peer part im encs pl ∈ queueOf s.outbound y := by rw [hq]; simp
  have hdd := h.dv.down y _ hmem
  obtain ⟨hy, hxy, hgrp⟩ := down_origin h hmem
  obtain ⟨id', peer', part', im', encs'', pl', e, hsh, hfa, hpk⟩ := h.dead y _ hmem hdead
  cases e
  have hne := hdd.1.nonempty
  have h1 : ∀ ct, heFirst encs = some ct → decrypt (getClient s y) (whoOf peer part) ct = (getClient s y, .duplicate) := by
    intro ct hct
    obtain ⟨f1, _⟩ := first_ok h hmem (Or.inl rfl) ct hct
    obtain ⟨e, he, rfl⟩ := heFirst_mem hct
    have hunc := (hdd.2 e he).1.uncorrupt
    have hin : (e.2.sess, e.2.ctr) ∈ (getClient s y).seen := by
      simp only [dead, hct] at hdead
      simpa using hdead
    exact decrypt_dup (heFirst_kind hct) hunc hin f1
  have h2 : heFirst encs = none → ∃ g k, peer = .group g ∧ firstKind encs .skmsg = some k ∧
      groupDecrypt (getClient s y) g (whoOf peer part) k = (getClient s y, .duplicate) := by
    intro hf
    rcases hdd.1 with ⟨ct, rfl, hk, hc⟩ | ⟨hg, l, k, rfl, hk, hc, hl⟩
    · rw [heFirst_single hk] at hf; cases hf
    · cases peer with
      | user b => cases hg
      | group g =>
        have hl' : ∀ e ∈ l, e.2.kind ≠ .skmsg := fun e he => (hl e he).2.1
        rw [heFirst_append_sk hk] at hf
        have := shapeB_nofirst hl' hf
        subst this
        have hf0 : heFirst [((none : Option Acct), k)] = none := by
          unfold heFirst; rw [firstKind_single, firstKind_single]; simp [hk]
        have hf1 : firstKind [((none : Option Acct), k)] .skmsg = some k := by rw [firstKind_single]; simp [hk]
        refine ⟨g, k, rfl, hf1, ?_⟩
        have hin : (k.sess, k.ctr) ∈ (getClient s y).seenSK := by
          simp only [List.nil_append, dead, hf0, hf1] at hdead
          simpa using hdead
        exact groupDecrypt_dup (sk_known h hq hk) (hdd.2 (none, k) (by simp)).1.uncorrupt hin
  have hacc : y ∈ (view { s with outbound := insert s.outbound y rest }).accounts := by
    show y ∈ (view s).accounts
    have : (view s).accounts = accts := h.tv.acc
    rw [this]; exact hy
  have e1 : step s (.deliver y .none) = handleEnc { s with outbound := insert s.outbound y rest } y (.msg id peer part im encs pl) := by
    simp only [step, hq, clientReceive, hne, Bool.false_eq_true, if_false]
  have hr := handleEnc_dead (s := { s with outbound := insert s.outbound y rest }) hacc id peer part im encs pl h1 h2
  have hv := view_of_rstep hr
  have hq' : queueOf s.outbound y = [.msg id peer part im encs pl] ++ rest := hq
  have hout : ∀ st ∈ [Stanza.receipt id peer part .delivery], (∀ id peer part im encs pl, st ≠ .msg id peer part im encs pl) ∧
      stanzaIq st = none := by
    intro st hst; rw [List.mem_singleton] at hst; subst hst
    exact ⟨(fun _ _ _ _ _ _ e => by cases e), rfl⟩
  have hfl : (step s (.deliver y .none)).faulted = s.faulted := by
    rw [e1]
    exact (outbound_eq_of_frame (f := fun s => handleEnc s y (.msg id peer part im encs pl))
      (fun s o fl => handleEnc_wo s o fl y _) _).2
  refine ⟨step_inv h.ainv (by simp only [Allowed, hq]), sim_deliver_dead hw h.ainv h.tv hq hdead hne hsh h1 h2, ?_, ?_, ?_⟩
  · rw [e1, hv]
    exact h.dv.neutral (x := y) hq' rfl rfl rfl rfl (fun e he => Or.inl he)
      (fun st hst => ⟨(hout st hst).1, fun e _ => by rw [(hout st hst).2]; simp⟩)
  · rw [e1, hv]
    exact h.gv.deliver false hq (fun st hst => plainUpK_nomsg (hout st hst).1) (fun _ hk => hk) (fun _ hg => hg) hpk
  · rw [e1] at hfl ⊢
    exact deadOK_of_view h.dead hq' hv rfl rfl (fun _ => Nat.le_refl _) (fun p hp => by rw [hfl]; exact hp) rfl

/-- dead stanzas after a delivery: those that were dead, and the ones the step made dead -/
theorem deadOK_deliver {s s' : Sys} (hd : DeadOK s) (hg : Grow s s') (hfl : ∀ p, p ∈ s.faulted → p ∈ s'.faulted)
    (hpk : ∀ z key, (lookup (getClient s z).peerSK key).isSome = true → (lookup (getClient s' z).peerSK key).isSome = true)
    (hsub : ∀ z st, st ∈ queueOf s'.outbound z → st ∈ queueOf s.outbound z)
    (hnew : ∀ z st, st ∈ queueOf s'.outbound z → dead (getClient s z) st = false → dead (getClient s' z) st = true →
      ∃ id peer part im encs pl, st = .msg id peer part im encs pl ∧ 1 ≤ shownC (getClient s' z) id ∧ (id, z) ∈ s'.faulted ∧
        ∀ a g, isDistDown a g st = true → (lookup (getClient s' z).peerSK (g, a)).isSome = true) : DeadOK s' := by
  intro z st hst hdd
  cases h0 : dead (getClient s z) st with
  | false => exact hnew z st hst h0 hdd
  | true =>
    obtain ⟨id, peer, part, im, encs, pl, e, hs, hf, hp⟩ := hd z st (hsub z st hst) h0
    exact ⟨id, peer, part, im, encs, pl, e, Nat.le_trans hs ((hg z).2.2 id), hfl _ hf, fun a g hd' => hpk z _ (hp a g hd')⟩

/-- the clients after a step of `y` -/
theorem getClient_of_view {s s' : Sys} {y : Acct} {Q : List Stanza} {c' : Client} {out : List Stanza} {k : Nat}
    (hv : view s' = ((view s).popOut y Q).cstep y c' out k) (z : Acct) :
    getClient s' z = if z = y then c' else getClient s z := by
  have : (view s').cl z = upd (getClient s) y c' z := by rw [hv]; rfl
  exact this

theorem peerSK_of_view {s s' : Sys} {y : Acct} {Q : List Stanza} {c' : Client} {out : List Stanza} {k : Nat}
    (hv : view s' = ((view s).popOut y Q).cstep y c' out k)
    (hk : ∀ key, (lookup (getClient s y).peerSK key).isSome = true → (lookup c'.peerSK key).isSome = true) :
    ∀ z key, (lookup (getClient s z).peerSK key).isSome = true → (lookup (getClient s' z).peerSK key).isSome = true := by
  intro z key h
  rw [getClient_of_view hv z]
  split
  · next e => subst e; exact hk key h
  · exact h

/-- an ordinary delivery of a live message stanza -/
theorem deliver_live_none (hw : WFConfig accts groups) {s : Sys} (h : FInv accts groups s) (hlen : s.submitted.length ≤ 100)
    {y : Acct} {id : Nat} {peer : Dest}
    {part : Option Acct} {im : Bool} {encs : List (Option Acct × Ct)} {pl : Option Payload} {rest : List Stanza}
    (hq : queueOf s.outbound y = .msg id peer part im encs pl :: rest)
    (hlive : dead (getClient s y) (.msg id peer part im encs pl) = false) :
    FInv accts groups (step s (.deliver y .none)) := by
  have hmem : Stanza.msg id peer part im encs pl ∈ queueOf s.outbound y := by rw [hq]; simp
  have hdd := h.dv.down y _ hmem
  obtain ⟨hy, _, _⟩ := down_origin h hmem
  have hne := hdd.1.nonempty
  have hacc : y ∈ (view { s with outbound := insert s.outbound y rest }).accounts := by
    show y ∈ (view s).accounts
    have : (view s).accounts = accts := h.tv.acc
    rw [this]; exact hy
  have e0 : step s (.deliver y .none) = clientReceive { s with outbound := insert s.outbound y rest } y (.msg id peer part im encs pl) := by
    simp only [step, hq]
  have e1 : step s (.deliver y .none) = handleEnc { s with outbound := insert s.outbound y rest } y (.msg id peer part im encs pl) := by
    simp only [step, hq, clientReceive, hne, Bool.false_eq_true, if_false]
  have hv := view_of_rstep (rstep_handleEnc hacc id peer part im encs pl)
  have hgc : getClient { s with outbound := insert s.outbound y rest } y = getClient s y := rfl
  rw [hgc, ← e1] at hv
  obtain ⟨m1, m2, mQ, m4, m5, m6, m7⟩ := msg_crypto h hq hlive (Or.inl rfl) false
  obtain ⟨hTV, hkeep⟩ := sim_deliver_live hw h.ainv h.tv hlen hq hlive
  have hgrow : Grow s (step s (.deliver y .none)) := by
    rw [e0]; exact Grow.clientReceive { s with outbound := insert s.outbound y rest } y _
  have hfl : (step s (.deliver y .none)).faulted = s.faulted := by
    rw [e0]; exact clientReceive_faulted _ y _
  have hob : (step s (.deliver y .none)).outbound = insert s.outbound y rest := by
    rw [e0]
    exact (outbound_eq_of_frame (f := fun s => clientReceive s y (.msg id peer part im encs pl))
      (fun s o fl => clientReceive_wo s o fl y _) _).1
  refine ⟨step_inv h.ainv (by simp only [Allowed, hq]), hTV, by rw [hv]; exact m1, by rw [hv]; exact m2, ?_⟩
  refine deadOK_deliver h.dead hgrow (fun p hp => by rw [hfl]; exact hp) (peerSK_of_view hv m4) ?_ ?_
  · intro z st hst
    rw [hob, queueOf_insert] at hst
    split at hst
    · next e => subst e; rw [hq]; exact List.mem_cons_of_mem _ hst
    · exact hst
  · intro z st hst h0 h1
    rw [hob] at hst
    rw [hkeep z st hst h0] at h1
    cases h1

/-- a damaged delivery of a live message stanza -/
theorem deliver_live_corrupt (hw : WFConfig accts groups) {s : Sys} (h : FInv accts groups s)
    {y : Acct} {id : Nat} {peer : Dest}
    {part : Option Acct} {im : Bool} {encs : List (Option Acct × Ct)} {pl : Option Payload} {rest : List Stanza}
    (hq : queueOf s.outbound y = .msg id peer part im encs pl :: rest)
    (hlive : dead (getClient s y) (.msg id peer part im encs pl) = false)
    (hall : Allowed s (.deliver y .corrupt) = true) :
    FInv accts groups (step s (.deliver y .corrupt)) := by
  have hmem : Stanza.msg id peer part im encs pl ∈ queueOf s.outbound y := by rw [hq]; simp
  have hdd := h.dv.down y _ hmem
  obtain ⟨hy, _, _⟩ := down_origin h hmem
  obtain ⟨hshape', _⟩ := corruptLast_shape hdd.1
  have hne := hshape'.nonempty
  have hacc : y ∈ (view { s with outbound := insert s.outbound y rest, faulted := s.faulted ++ [(id, y)] }).accounts := by
    show y ∈ (view s).accounts
    have : (view s).accounts = accts := h.tv.acc
    rw [this]; exact hy
  have e0 : step s (.deliver y .corrupt) = clientReceive { s with outbound := insert s.outbound y rest, faulted := s.faulted ++ [(id, y)] } y
      (.msg id peer part im (corruptLast encs) pl) := by
    simp only [step, hq]
  have e1 : step s (.deliver y .corrupt) = handleEnc { s with outbound := insert s.outbound y rest, faulted := s.faulted ++ [(id, y)] } y
      (.msg id peer part im (corruptLast encs) pl) := by
    simp only [step, hq, clientReceive, hne, Bool.false_eq_true, if_false]
  have hr := rstep_handleEnc hacc id peer part im (corruptLast encs) pl
  have hv : view (step s (.deliver y .corrupt)) = ((view s).popOut y rest).cstep y
      (heC (getClient s y) id peer part im (corruptLast encs) pl).1 (heC (getClient s y) id peer part im (corruptLast encs) pl).2
      (view s).nextCtr := by
    rw [e1]
    unfold RStep at hr
    rw [hr]
    have : view { s with outbound := insert s.outbound y rest, faulted := s.faulted ++ [(id, y)] } = (view s).popOut y rest :=
      view_setOutbound s y rest
    rw [this]
    rfl
  obtain ⟨m1, m2, mQ, m4, m5, m6, m7⟩ := msg_crypto h hq hlive (Or.inr rfl) false
  obtain ⟨hTV, hkeep⟩ := sim_deliver_corrupt hw h.ainv h.tv hq hlive hshape' (corruptLast_ctr encs) m6
  have hgrow : Grow s (step s (.deliver y .corrupt)) := by
    rw [e0]; exact Grow.clientReceive { s with outbound := insert s.outbound y rest, faulted := s.faulted ++ [(id, y)] } y _
  have hfl : (step s (.deliver y .corrupt)).faulted = s.faulted ++ [(id, y)] := by
    rw [e0]; exact clientReceive_faulted _ y _
  have hob : (step s (.deliver y .corrupt)).outbound = insert s.outbound y rest := by
    rw [e0]
    exact (outbound_eq_of_frame (f := fun s => clientReceive s y (.msg id peer part im (corruptLast encs) pl))
      (fun s o fl => clientReceive_wo s o fl y _) _).1
  refine ⟨step_inv h.ainv hall, hTV, by rw [hv]; exact m1, by rw [hv]; exact m2, ?_⟩
  refine deadOK_deliver h.dead hgrow (fun p hp => by rw [hfl]; exact List.mem_append_left _ hp) (peerSK_of_view hv m4) ?_ ?_
  · intro z st hst
    rw [hob, queueOf_insert] at hst
    split at hst
    · next e => subst e; rw [hq]; exact List.mem_cons_of_mem _ hst
    · exact hst
  · intro z st hst h0 h1
    rw [hob] at hst
    rw [hkeep z st hst h0] at h1
    cases h1

/-- a duplicated delivery of a live message stanza -/
theorem deliver_live_dup (hw : WFConfig accts groups) {s : Sys} (h : FInv accts groups s) (hlen : s.submitted.length ≤ 100)
    {y : Acct} {id : Nat} {peer : Dest}
    {part : Option Acct} {im : Bool} {encs : List (Option Acct × Ct)} {pl : Option Payload} {rest : List Stanza}
    (hq : queueOf s.outbound y = .msg id peer part im encs pl :: rest)
    (hlive : dead (getClient s y) (.msg id peer part im encs pl) = false)
    (hall : Allowed s (.deliver y .dup) = true) :
    FInv accts groups (step s (.deliver y .dup)) := by
  have hmem : Stanza.msg id peer part im encs pl ∈ queueOf s.outbound y := by rw [hq]; simp
  have hdd := h.dv.down y _ hmem
  obtain ⟨hy, _, _⟩ := down_origin h hmem
  have hne := hdd.1.nonempty
  have hacc : y ∈ (view { s with faulted := s.faulted ++ [(id, y)] }).accounts := by
    show y ∈ (view s).accounts
    have : (view s).accounts = accts := h.tv.acc
    rw [this]; exact hy
  have hacc' : y ∈ (view s).accounts := hacc
  have e0 : step s (.deliver y .dup) = clientReceive { s with faulted := s.faulted ++ [(id, y)] } y (.msg id peer part im encs pl) := by
    simp only [step, hq]
  have e1 : step s (.deliver y .dup) = handleEnc { s with faulted := s.faulted ++ [(id, y)] } y (.msg id peer part im encs pl) := by
    simp only [step, hq, clientReceive, hne, Bool.false_eq_true, if_false]
  have hr := rstep_handleEnc hacc id peer part im encs pl
  have hv : view (step s (.deliver y .dup)) = ((view s).popOut y (.msg id peer part im encs pl :: rest)).cstep y
      (heC (getClient s y) id peer part im encs pl).1 (heC (getClient s y) id peer part im encs pl).2 (view s).nextCtr := by
    rw [e1]
    unfold RStep at hr
    rw [hr]
    have : view { s with faulted := s.faulted ++ [(id, y)] } = (view s).popOut y (.msg id peer part im encs pl :: rest) := by
      have e : (view s).outb y = .msg id peer part im encs pl :: rest := hq
      rw [← e, View.popOut_self']
      rfl
    rw [this]
    rfl
  obtain ⟨m1, m2, mQ, m4, m5, m6, m7⟩ := msg_crypto h hq hlive (Or.inl rfl) true
  obtain ⟨o1, o2, _⟩ := msg_opened h hq hlive
  have hcy : getClient (step s (.deliver y .dup)) y = (heC (getClient s y) id peer part im encs pl).1 := by
    rw [getClient_of_view hv y]; simp
  have hdead' : dead (getClient (clientReceive s y (.msg id peer part im encs pl)) y) (.msg id peer part im encs pl) = true := by
    have : clientReceive s y (.msg id peer part im encs pl) = handleEnc s y (.msg id peer part im encs pl) := by
      simp only [clientReceive, hne, Bool.false_eq_true, if_false]
    rw [this, (rstep_handleEnc hacc' id peer part im encs pl).cl]
    exact o1
  obtain ⟨hTV, hkeep⟩ := sim_deliver_dup hw h.ainv h.tv hlen hq hlive hdead'
  have hgrow : Grow s (step s (.deliver y .dup)) := by
    rw [e0]; exact Grow.clientReceive { s with faulted := s.faulted ++ [(id, y)] } y _
  have hfl : (step s (.deliver y .dup)).faulted = s.faulted ++ [(id, y)] := by
    rw [e0]; exact clientReceive_faulted _ y _
  have hob : (step s (.deliver y .dup)).outbound = s.outbound := by
    rw [e0]
    exact (outbound_eq_of_frame (f := fun s => clientReceive s y (.msg id peer part im encs pl))
      (fun s o fl => clientReceive_wo s o fl y _) _).1
  refine ⟨step_inv h.ainv hall, hTV, by rw [hv]; exact m1, by rw [hv]; exact m2, ?_⟩
  refine deadOK_deliver h.dead hgrow (fun p hp => by rw [hfl]; exact List.mem_append_left _ hp) (peerSK_of_view hv m4) ?_ ?_
  · intro z st hst
    rw [hob] at hst
    exact hst
  · intro z st hst h0 h1
    rw [hob] at hst
    by_cases hin : st ∈ queueOf (insert s.outbound y rest) z
    · rw [hkeep z st hin h0] at h1
      cases h1
    · rw [queueOf_insert] at hin
      by_cases hz : z = y
      · subst hz
        simp only [if_true] at hin
        rw [hq] at hst
        rcases List.mem_cons.mp hst with e | e
        · subst e
          refine ⟨id, peer, part, im, encs, pl, rfl, by rw [hcy]; exact o2, by rw [hfl]; simp, ?_⟩
          intro a g hd
          rw [hcy]
          exact m5 a g hd
        · exact absurd e hin
      · simp only [hz, if_false] at hin
        exact absurd hst hin

theorem process_faulted (s : Sys) (a : Acct) : (step s (.process a)).faulted = s.faulted := by
  cases hq : queueOf s.inbound a with
  | nil => simp only [step, hq]
  | cons st rest =>
    have e1 : step s (.process a) = serverProcess { s with inbound := insert s.inbound a rest } a st := by simp only [step, hq]
    obtain ⟨add, hadd⟩ := serverProcess_adds { s with inbound := insert s.inbound a rest } a st
    obtain ⟨o1, f1, _⟩ := hadd s.outbound s.faulted
    have f1' : step s (.process a) = ({ s with inbound := insert s.inbound a rest } : Sys).wo o1 s.faulted := e1.trans f1
    rw [f1']; rfl

/-- every allowed step keeps the invariant of runs with faults -/
theorem finv_step (hw : WFConfig accts groups) (hnd : ∀ g ∈ groups, g.2.Nodup) {s : Sys} {act : Act}
    (h : FInv accts groups s) (hall : Allowed s act = true) (hlen : (Yow.E2E.step s act).submitted.length ≤ 100) :
    FInv accts groups (Yow.E2E.step s act) := by
  have hlen0 := step_submitted_len h.ainv hall
  cases act with
  | appSend a n =>
    simp only at hlen0
    obtain ⟨c1, c2, c3⟩ := appSend_crypto h hall
    exact ⟨step_inv h.ainv hall, sim_appSend hw h.ainv h.tv hall (by omega), c1, c2, c3⟩
  | process a =>
    obtain ⟨hTV, hcl, hadd⟩ := sim_process hw hnd h.ainv h.tv hall
    have hne : ∃ st rest, queueOf s.inbound a = st :: rest := by
      simp only [Allowed] at hall
      cases hq : queueOf s.inbound a with
      | nil => rw [hq] at hall; cases hall
      | cons st rest => exact ⟨st, rest, rfl⟩
    obtain ⟨st, rest, hq⟩ := hne
    have e1 : Yow.E2E.step s (.process a) = serverProcess { s with inbound := insert s.inbound a rest } a st := by simp only [Yow.E2E.step, hq]
    obtain ⟨c1, c2⟩ := process_crypto hnd h.ainv (h.ups a) h.dv h.gv hq
    rw [← e1] at c1 c2
    refine ⟨step_inv h.ainv hall, hTV, c1, c2, ?_⟩
    refine h.dead.mono (fun z => by rw [hcl z]; exact CGrow.rfl' _) (fun p hp => by rw [process_faulted]; exact hp)
      (fun y key hk => by rw [hcl y]; exact hk) ?_
    intro y st' hst' hd
    rw [hcl y] at hd
    obtain ⟨add, e, hl⟩ := hadd y
    rw [e] at hst'
    rcases List.mem_append.mp hst' with h1 | h1
    · exact ⟨h1, hd⟩
    · rw [hl st' h1] at hd; cases hd
  | restart a =>
    have hall0 := hall
    simp only [Allowed, Bool.and_eq_true] at hall
    obtain ⟨⟨hreg, _⟩, _⟩ := hall
    have ha : a ∈ accts := (h.ainv.reg a).mp hreg
    have hacc : a ∈ (view s).accounts := by
      have : (view s).accounts = accts := h.tv.acc
      rw [this]; exact ha
    have hv : view (Yow.E2E.step s (.restart a)) = ((view s).popOut a ((view s).outb a)).cstep a
        { getClient s a with sentQueue := [], pendingIn := [], iqReg := [], retries := [], skipEnc := [] } [] (view s).nextCtr := by
      simp only [Yow.E2E.step]
      rw [view_setClient _ _ _ hacc, View.popOut_self]
    have hn : Neutral (getClient s a)
        { getClient s a with sentQueue := [], pendingIn := [], iqReg := [], retries := [], skipEnc := [] } [] :=
      ⟨rfl, rfl, rfl, (h.dv.p0 a).1.symm, rfl, rfl, rfl, (fun e he => by cases he), (fun st hst => by cases hst)⟩
    obtain ⟨c1, c2, c3⟩ := neutral_step (cons := []) (rest := queueOf s.outbound a) h rfl (fun st hst => by cases hst) hv hn
      (fun p hp => hp)
    exact ⟨step_inv h.ainv hall0, sim_restart hw h.ainv h.tv hall0, c1, c2, c3⟩
  | deliver y f =>
    simp only [Nat.add_zero] at hlen0
    have hlen' : s.submitted.length ≤ 100 := by omega
    cases hq : queueOf s.outbound y with
    | nil => simp only [Allowed, hq] at hall; cases f <;> cases hall
    | cons st rest =>
      by_cases hm : ∃ id peer part im encs pl, st = .msg id peer part im encs pl
      · obtain ⟨id, peer, part, im, encs, pl, rfl⟩ := hm
        cases hd : dead (getClient s y) (.msg id peer part im encs pl) with
        | false =>
          cases f with
          | none => exact deliver_live_none hw h hlen' hq hd
          | dup => exact deliver_live_dup hw h hlen' hq hd hall
          | corrupt => exact deliver_live_corrupt hw h hq hd hall
        | true =>
          have hmem : Stanza.msg id peer part im encs pl ∈ queueOf s.outbound y := by rw [hq]; simp
          obtain ⟨id', peer', part', im', encs'', pl', e, _, hfa, _⟩ := h.dead y _ hmem hd
          cases e
          cases f with
          | none => exact deliver_dead_FInv hw h hq hd
          | dup =>
            simp only [Allowed, hq] at hall
            have : s.faulted.contains (id, y) = true := by simpa using hfa
            rw [this] at hall; cases hall
          | corrupt =>
            simp only [Allowed, hq] at hall
            have : s.faulted.contains (id, y) = true := by simpa using hfa
            rw [this] at hall; cases hall
      · have hnm : ∀ id peer part im encs pl, st ≠ .msg id peer part im encs pl :=
          fun id peer part im encs pl e => hm ⟨id, peer, part, im, encs, pl, e⟩
        have hf : f = .none := by
          simp only [Allowed, hq] at hall
          cases f with
          | none => rfl
          | dup => cases st <;> first | cases hall | exact absurd rfl (hnm _ _ _ _ _ _)
          | corrupt => cases st <;> first | cases hall | exact absurd rfl (hnm _ _ _ _ _ _)
        subst hf
        have e0 : Yow.E2E.step s (.deliver y .none) = clientReceive { s with outbound := insert s.outbound y rest } y st := by
          simp only [Yow.E2E.step, hq]
        obtain ⟨c1, c2, c3⟩ := deliver_other_crypto h hq hnm
        rw [← e0] at c1 c2 c3
        exact ⟨step_inv h.ainv hall, (sim_deliver_live hw h.ainv h.tv hlen' hq (dead_nonmsg _ hnm)).1, c1, c2, c3⟩

end

end Yow.E2E
