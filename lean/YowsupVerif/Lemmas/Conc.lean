/-
  Concurrent senders (Model/Conc.lean): with the outer lock in place every schedule produces whole frames in counter
  order, each stanza exactly once, and no schedule deadlocks.
-/
import YowsupVerif.Lemmas.ConcBase
namespace Yow.Conc

/-- the stanzas of all threads, thread by thread -/
def allStanzas (work : List (List Nat)) : List Nat := work.flatMap id

/-- For EVERY schedule (any interleaving, any length, threads picked in any order, picks of blocked or finished threads
    included): what has reached the wire so far is a sequence of whole frames in counter order followed by at most the
    header of the frame being written. -/
theorem wire_prefix_wellFramed (inner : Bool) (work : List (List Nat)) (sched : List Nat) :
    let s := run (init { outer := true, inner := inner } work) sched
    (wellFramed s.wire 0 = true) ∨
    (∃ w f, s.wire = w ++ [.hdr f] ∧ wellFramed w 0 = true ∧ f.ctr * 2 = w.length) := by
  intro s
  obtain ⟨dn, base, cur, h⟩ := inv_reach inner work sched
  have hg := h.glob
  cases cur with
  | none =>
    simp only [Glob] at hg
    left; show wellFramed s.wire 0 = true
    rw [hg.2.2.2.1]; exact h.wfb
  | some c =>
    obtain ⟨i, ph, f⟩ := c
    simp only [Glob] at hg
    obtain ⟨hi, hv, hO, hN, hQ, hW, hC, hF⟩ := hg
    have hwf2 : wellFramed (base ++ [.hdr f, .pay f]) 0 = true :=
      wellFramed_append_frame _ _ _ h.wfb (by omega)
    cases ph <;> simp only [phWire, List.append_nil] at hW
    case wrP => right; exact ⟨base, f, hW, h.wfb, hF⟩
    all_goals left; show wellFramed s.wire 0 = true; rw [hW]; first | exact h.wfb | exact hwf2

/-- When all threads have finished: whole frames, counters 0,1,2,…, and the stanzas on the wire are exactly the stanzas
    submitted — each once (a permutation of the submitted ones; per thread in submission order). -/
theorem finished_exactly_once (inner : Bool) (work : List (List Nat)) (sched : List Nat)
    (hf : finished (run (init { outer := true, inner := inner } work) sched) = true) :
    let s := run (init { outer := true, inner := inner } work) sched
    wellFramed s.wire 0 = true ∧ (stanzasOnWire s.wire).Perm (allStanzas work) ∧
    ∀ i, i < work.length → (work.getD i []).Sublist (stanzasOnWire s.wire) := by
  intro s
  obtain ⟨dn, base, cur, h⟩ := inv_reach inner work sched
  have hfin : ∀ (j : Nat) (t : Thread), s.threads[j]? = some t → t.ops = [] := by
    intro j t ht
    have := List.all_eq_true.mp hf t (List.mem_of_getElem? ht)
    simpa using this
  have hg := h.glob
  cases cur with
  | some c =>
    exfalso
    obtain ⟨i, ph, f⟩ := c
    simp only [Glob] at hg
    obtain ⟨td, ht, _⟩ := thr_phase ph h.thr hg.1 h.lenT
    have := hfin i _ ht
    simp [busyThread, tailOps_ne_nil] at this
  | none =>
    simp only [Glob] at hg
    have hdn : dn = work := by
      apply List.ext_getElem?
      intro j
      by_cases hj : j < work.length
      · obtain ⟨t, w, d, ht, hw, hd, td, hok⟩ := h.thr j hj
        simp only at hok
        obtain ⟨hw', rfl⟩ := hok
        have hops := hfin j _ ht
        cases td with
        | nil => rw [hw, hd, hw']; simp
        | cons c td' => simp [idleThread, program_eq] at hops
      · have h1 : dn[j]? = none := by simp [h.lenD]; omega
        have h2 : work[j]? = none := by simp; omega
        rw [h1, h2]
    subst hdn
    have hW : s.wire = base := hg.2.2.2.1
    refine ⟨by rw [hW]; exact h.wfb, ?_, ?_⟩
    · rw [hW]; simpa [allStanzas, List.flatMap_id] using h.perm
    · intro i hi
      rw [hW]
      have : dn.getD i [] = dn[i] := by simp [hi]
      rw [this]
      exact h.sub i _ (by simp [hi])

/-- No deadlock: as long as some thread has operations left, some thread can move. -/
theorem progress (inner : Bool) (work : List (List Nat)) (sched : List Nat)
    (hf : finished (run (init { outer := true, inner := inner } work) sched) = false) :
    ∃ i, step (run (init { outer := true, inner := inner } work) sched) i ≠ run (init { outer := true, inner := inner } work) sched := by
  generalize hs : run (init { outer := true, inner := inner } work) sched = s at hf ⊢
  obtain ⟨dn, base, cur, h⟩ := hs ▸ inv_reach inner work sched
  have hg := h.glob
  cases cur with
  | none =>
    simp only [Glob] at hg
    obtain ⟨t, htm, hne⟩ := List.all_eq_false.mp hf
    obtain ⟨j, htj⟩ := List.mem_iff_getElem?.mp htm
    have hj : j < work.length := by
      rw [← h.lenT]
      rcases Nat.lt_or_ge j s.threads.length with h' | h'
      · exact h'
      · simp [List.getElem?_eq_none h'] at htj
    obtain ⟨td, ht, _⟩ := thr_acquire h.thr hj h.lenT
    rw [htj] at ht
    cases ht
    cases td with
    | nil => simp [idleThread] at hne
    | cons c td' =>
      refine ⟨j, step_ne htj (op := .acqO) (rest := tailOps inner c .enc ++ td'.flatMap (program (cfgO inner)))
        (by simp [idleThread, program_eq]) (fun _ => hg.1) (by simp) (by simp)⟩
  | some c =>
    obtain ⟨i, ph, f⟩ := c
    simp only [Glob] at hg
    obtain ⟨hi, hv, hO, hN, hQ, hW, hC, hF⟩ := hg
    obtain ⟨td, ht, _⟩ := thr_phase ph h.thr hi h.lenT
    obtain ⟨op, rest, hops, h1, h2, h3⟩ := tailOps_head inner f.stanza ph
    refine ⟨i, step_ne ht (op := op) (rest := rest ++ td.flatMap (program (cfgO inner)))
      (by simp [busyThread, hops]) (fun e => absurd e h1) ?_ ?_⟩
    · intro e
      have := h2 e
      subst this
      exact hN
    · intro e
      have := h3 e
      subst this
      rw [hQ]; simp [phQueue]

/-- Without the outer lock two senders can put their frames on the wire against the order of their counters (the peer
    cannot decrypt), even with the inner lock. -/
theorem without_outer_lock_misordered :
    ∃ sched, let s := run (init { outer := false, inner := true } [[7], [8]]) sched
      finished s = true ∧ wellFramed s.wire 0 = false := by
  exact ⟨[0, 1, 1, 1, 1, 1, 1, 1, 0, 0, 0, 0, 0, 0], by decide⟩

/-- Without the inner lock (and without the outer one) headers and payloads of two frames can interleave. -/
theorem without_locks_torn :
    ∃ sched, let s := run (init { outer := false, inner := false } [[7], [8]]) sched
      finished s = true ∧ ∃ f g, f ≠ g ∧ ∃ a b, s.wire = a ++ [.hdr f, .hdr g] ++ b := by
  refine ⟨[0, 0, 1, 1, 0, 1, 0, 1, 0, 1], by decide, ⟨0, 7⟩, ⟨1, 8⟩, by decide, [], [.pay ⟨0, 7⟩, .pay ⟨1, 8⟩], by decide⟩

end Yow.Conc
