import YowsupVerif.Model.Segments
namespace Yow.Segments

theorem rd24_be24 (n : Nat) (h : n < 16777216) :
    rd24 (n / 65536 % 256) (n / 256 % 256) (n % 256) = n := by
  unfold rd24; omega

theorem peel_short (buf : Bytes) (h : buf.length ≤ 3) : peel buf = ([], buf) := by
  apply peel.eq_2
  intro a b c d rest e
  subst e
  simp at h

theorem peel_cons4_ok (a b c d : Nat) (rest : Bytes) (h : rd24 a b c ≤ (d :: rest).length) :
    peel (a :: b :: c :: d :: rest)
      = ((d :: rest).take (rd24 a b c) :: (peel ((d :: rest).drop (rd24 a b c))).1,
         (peel ((d :: rest).drop (rd24 a b c))).2) := by
  rw [peel.eq_1]; simp only [h, ↓reduceDIte]

theorem peel_cons4_wait (a b c d : Nat) (rest : Bytes) (h : ¬ rd24 a b c ≤ (d :: rest).length) :
    peel (a :: b :: c :: d :: rest) = ([], a :: b :: c :: d :: rest) := by
  rw [peel.eq_1]; simp only [h, ↓reduceDIte]

/-- Peeling a buffer followed by more bytes = peel the buffer, then peel leftover ++ more. -/
theorem peel_append (x y : Bytes) :
    peel (x ++ y) = ((peel x).1 ++ (peel ((peel x).2 ++ y)).1, (peel ((peel x).2 ++ y)).2) := by
  induction x using peel.induct with
  | case1 a b c d rest n hn ih =>
    rw [peel_cons4_ok a b c d rest hn]
    have hn' : rd24 a b c ≤ (d :: (rest ++ y)).length := by
      simp only [List.length_cons, List.length_append] at hn ⊢; omega
    show peel (a :: b :: c :: d :: (rest ++ y)) = _
    rw [peel_cons4_ok a b c d (rest ++ y) hn']
    have htake : (d :: (rest ++ y)).take (rd24 a b c) = (d :: rest).take (rd24 a b c) := by
      show ((d :: rest) ++ y).take _ = _
      rw [List.take_append_of_le_length hn]
    have hdrop : (d :: (rest ++ y)).drop (rd24 a b c) = (d :: rest).drop (rd24 a b c) ++ y := by
      show ((d :: rest) ++ y).drop _ = _
      rw [List.drop_append_of_le_length hn]
    rw [htake, hdrop, ih]
    rfl
  | case2 a b c d rest n hn =>
    rw [peel_cons4_wait a b c d rest hn]; simp
  | case3 buf hshort =>
    rw [peel.eq_2 buf hshort]; simp

theorem peel_frame (p rest : Bytes) (h0 : 0 < p.length) (h : p.length < 16777216) :
    peel (frame p ++ rest) = (p :: (peel rest).1, (peel rest).2) := by
  match p, h0 with
  | d :: t, _ =>
    have hlen : rd24 ((d :: t).length / 65536 % 256) ((d :: t).length / 256 % 256)
        ((d :: t).length % 256) = (d :: t).length := rd24_be24 _ h
    show peel (_ :: _ :: _ :: d :: (t ++ rest)) = _
    have hle : rd24 ((d :: t).length / 65536 % 256) ((d :: t).length / 256 % 256)
        ((d :: t).length % 256) ≤ (d :: (t ++ rest)).length := by
      rw [hlen]; simp
    rw [peel_cons4_ok _ _ _ _ _ hle, hlen]
    have e1 : (d :: (t ++ rest)).take (d :: t).length = d :: t := by
      show ((d :: t) ++ rest).take (d :: t).length = _
      simp
    have e2 : (d :: (t ++ rest)).drop (d :: t).length = rest := by
      show ((d :: t) ++ rest).drop (d :: t).length = _
      simp
    rw [e1, e2]

def FramesOK (fs : List Bytes) : Prop := ∀ f ∈ fs, 0 < f.length ∧ f.length < 16777216

theorem peel_stream (fs : List Bytes) (hfs : FramesOK fs) (tail : Bytes) :
    peel (stream fs ++ tail) = (fs ++ (peel tail).1, (peel tail).2) := by
  induction fs with
  | nil => simp [stream]
  | cons f fs ih =>
    have hf := hfs f (by simp)
    have hrest : FramesOK fs := fun g hg => hfs g (by simp [hg])
    have : stream (f :: fs) ++ tail = frame f ++ (stream fs ++ tail) := by
      simp [stream]
    rw [this, peel_frame f _ hf.1 hf.2]
    rw [ih hrest]
    simp

/-- What `peel` leaves behind cannot be peeled further. -/
theorem peel_idem (x : Bytes) : peel (peel x).2 = ([], (peel x).2) := by
  induction x using peel.induct with
  | case1 a b c d rest n hn ih => rw [peel_cons4_ok a b c d rest hn]; exact ih
  | case2 a b c d rest n hn => rw [peel_cons4_wait a b c d rest hn]; exact peel_cons4_wait a b c d rest hn
  | case3 buf hshort => rw [peel.eq_2 buf hshort]; exact peel.eq_2 buf hshort

/-- Closed form of running `recv` over a chunk list (segmentation enabled), from any
    buffer that holds no complete frame (in particular the empty buffer of a fresh layer). -/
theorem run_enabled (buf : Bytes) (hb : peel buf = ([], buf)) (cs : List Bytes) (acc : List Bytes) :
    cs.foldl (fun (a : St × List Bytes) c => ((recv a.1 c).1, a.2 ++ (recv a.1 c).2))
        ({ enabled := true, buf := buf }, acc)
      = ({ enabled := true, buf := (peel (buf ++ cs.flatten)).2 },
         acc ++ (peel (buf ++ cs.flatten)).1) := by
  induction cs generalizing buf acc with
  | nil => simp [hb]
  | cons c cs ih =>
    simp only [List.foldl_cons, List.flatten_cons]
    have hr : recv { enabled := true, buf := buf } c
        = ({ enabled := true, buf := (peel (buf ++ c)).2 }, (peel (buf ++ c)).1) := by
      simp [recv]
    rw [hr]
    rw [ih (peel (buf ++ c)).2 (peel_idem _)]
    have := peel_append (buf ++ c) cs.flatten
    rw [List.append_assoc] at this
    rw [this]
    simp

/-- A proper prefix of one frame holds no complete frame. -/
theorem peel_proper_prefix (g tail x : Bytes) (hg : 0 < g.length ∧ g.length < 16777216)
    (hx : x ≠ []) (h : tail ++ x = frame g) : peel tail = ([], tail) := by
  match tail with
  | [] => exact peel_short _ (by simp)
  | [_] => exact peel_short _ (by simp)
  | [_, _] => exact peel_short _ (by simp)
  | [_, _, _] => exact peel_short _ (by simp)
  | a :: b :: c :: d :: rest =>
    apply peel_cons4_wait
    have hl := congrArg List.length h
    simp only [frame, be24, List.cons_append, List.nil_append, List.cons.injEq] at h
    obtain ⟨ha, hb, hc, _⟩ := h
    subst ha hb hc
    rw [rd24_be24 _ hg.2]
    have : 0 < x.length := List.length_pos_iff.mpr hx
    simp [frame, be24] at hl
    simp only [List.length_cons]
    omega

end Yow.Segments
