/-
  What the library's encoder (Model/Coder.lean: writeString / writeAttrs / writeNode / writeNodes)
  emits for a well-formed tree is a valid encoding of that tree (Model/WireSpec.lean), and the encoder
  does not refuse a well-formed tree.
-/
import YowsupVerif.Model.WireSpec
namespace Yow.Coder

theorem indexOf?_some {s : Str} {l : List Str} {i : Nat} (h : indexOf? s l = some i) :
    l[i]? = some s ∧ i < l.length := by
  induction l generalizing i with
  | nil => simp [indexOf?] at h
  | cons t ts ih =>
    simp only [indexOf?] at h
    split at h
    · cases h; subst_vars; simp
    · cases hc : indexOf? s ts with
      | none => simp [hc] at h
      | some j =>
        simp [hc] at h; subst h
        have := ih hc
        simp [this.1]; omega

theorem getIndex_false {d : Dict} {s : Str} {i : Nat} (h : d.getIndex s = some (i, false)) :
    indexOf? s d.primary = some i := by
  unfold Dict.getIndex at h
  split at h
  · simp_all
  · split at h <;> simp_all

theorem getIndex_true {d : Dict} {s : Str} {j : Nat} (h : d.getIndex s = some (j, true)) :
    indexOf? s d.secondary = some j := by
  unfold Dict.getIndex at h
  split at h
  · simp_all
  · split at h <;> simp_all

theorem atIndex_split {s : Str} {a : Nat} (h : atIndex s = some a) :
    s = s.take a ++ 64 :: s.drop (a + 1) := by
  induction s generalizing a with
  | nil => simp [atIndex] at h
  | cons c cs ih =>
    simp only [atIndex] at h
    split at h
    · cases h; subst_vars; simp
    · cases hc : atIndex cs with
      | none => simp [hc] at h
      | some j =>
        simp [hc] at h; subst h
        have := ih hc
        simp only [List.take_succ_cons, List.drop_succ_cons, List.cons_append]
        rw [← this]

theorem writeListStart_EncList {k : Nat} (hk : k < 65536) :
    ∃ h bh, writeListStart k = h :: bh ∧ EncList k h bh ∧ (k ≠ 0 → h ≠ 0) := by
  unfold writeListStart
  split
  · subst_vars; exact ⟨0, [], rfl, EncList.zero, by simp⟩
  · split
    · refine ⟨248, [k], ?_, EncList.short k ‹_›, by simp⟩
      simp only [writeInt8]; rw [Nat.mod_eq_of_lt ‹_›]
    · refine ⟨249, [k / 256, k % 256], ?_, EncList.long k hk, by simp⟩
      simp only [writeInt16]
      rw [Nat.mod_eq_of_lt (show k / 256 < 256 by omega)]

theorem packAll_nil_of_isEmpty {v : Nat} {s : Bytes} {ns : List Nat}
    (h : packAll v s = some ns) (hne : ns.isEmpty = false) : s ≠ [] := by
  intro hs; subst hs; simp [packAll] at h; subst h; simp at hne

theorem tryPack_some {v : Nat} {s r : Bytes} (h : tryPack v s = some r) :
    ∃ ns, packAll v s = some ns ∧ s ≠ [] ∧ (s.length + 1) / 2 < 128 ∧
      r = v :: (s.length % 2 * 128 + (s.length + 1) / 2) :: packPairs ns := by
  unfold tryPack at h
  split at h
  · cases h
  · split at h
    · cases h
    · rename_i ns hns
      split at h
      · cases h
      · cases h
        refine ⟨ns, hns, packAll_nil_of_isEmpty hns (by simpa using ‹¬ns.isEmpty = true›), by omega, rfl⟩

theorem writeBytes_EncStr (d : Dict) {s : Bytes} (hs : s.length < 2147483648) (p : Bool) :
    ∃ t bt, writeBytes s p = t :: bt ∧ EncStr d s t bt := by
  unfold writeBytes
  split
  · refine ⟨254, _, rfl, ?_⟩
    have := EncStr.raw31 (d := d) s hs
    simp only [writeInt31, List.cons_append, List.nil_append]
    rw [Nat.mod_eq_of_lt (show s.length / 16777216 < 128 by omega)]
    exact this
  · split
    · refine ⟨253, _, rfl, ?_⟩
      have := EncStr.raw20 (d := d) s (by omega)
      simp only [writeInt20, List.cons_append, List.nil_append]
      rw [Nat.mod_eq_of_lt (show s.length / 65536 < 16 by omega)]
      exact this
    · split
      · rename_i r hr
        cases p with
        | false => simp at hr
        | true =>
          simp only [if_true] at hr
          split at hr
          · rename_i r' hr'
            cases hr
            obtain ⟨ns, h1, h2, h3, rfl⟩ := tryPack_some hr'
            exact ⟨255, _, rfl, EncStr.nib s ns h2 h1 h3⟩
          · obtain ⟨ns, h1, h2, h3, rfl⟩ := tryPack_some hr
            exact ⟨251, _, rfl, EncStr.hex s ns h2 h1 h3⟩
      · refine ⟨252, _, rfl, ?_⟩
        have := EncStr.raw8 (d := d) s (by omega)
        simp only [writeInt8, List.cons_append, List.nil_append]
        rw [Nat.mod_eq_of_lt (show s.length < 256 by omega)]
        exact this

/-- a primary-dictionary hit of the encoder's lookup is a real hit of `getIndex`, and not one of the markers 0..2 -/
theorem lookup_false {d : Dict} {s : Str} {i : Nat} (h : d.lookup s = some (i, false)) :
    d.getIndex s = some (i, false) ∧ 2 < i := by
  unfold Dict.lookup at h
  split at h
  · rename_i i' hi'
    split at h
    · cases h
    · cases h; exact ⟨hi', by omega⟩
  · rename_i hn
    exact absurd h (hn i)

theorem lookup_true {d : Dict} {s : Str} {j : Nat} (h : d.lookup s = some (j, true)) :
    d.getIndex s = some (j, true) := by
  unfold Dict.lookup at h
  split at h
  · split at h <;> cases h
  · exact h

theorem writeString_none_lt {d : Dict} {s : Str} {p : Bool} (hg : d.lookup s = none)
    {a : Nat} (ha : atIndex s = some a) (h1 : a < 1) : writeString d s p = writeBytes s p := by
  rw [writeString]
  split
  · simp_all
  · simp_all
  · split
    · rfl
    · rename_i a' ha'
      rw [ha] at ha'; cases ha'
      simp [h1]

theorem writeString_none_none {d : Dict} {s : Str} {p : Bool} (hg : d.lookup s = none)
    (ha : atIndex s = none) : writeString d s p = writeBytes s p := by
  rw [writeString]
  split
  · simp_all
  · simp_all
  · split
    · rfl
    · rename_i a' ha'
      rw [ha] at ha'; cases ha'

theorem writeString_jid {d : Dict} {s : Str} {p : Bool} (hg : d.lookup s = none)
    {a : Nat} (ha : atIndex s = some a) (h1 : 1 ≤ a) :
    writeString d s p = 250 :: (writeString d (s.take a) true ++ writeString d (s.drop (a + 1)) false) := by
  rw [writeString]
  split
  · simp_all
  · simp_all
  · split
    · rename_i ha'; rw [ha] at ha'; cases ha'
    · rename_i a' ha'
      rw [ha] at ha'; cases ha'
      simp [show ¬ a < 1 by omega]

/-- the empty string is written in the raw 8-bit form, packed or not -/
theorem writeBytes_nil (p : Bool) : writeBytes [] p = [252, 0] := by
  cases p <;> rfl

theorem writeString_EncStr (d : Dict) (hd : d.WF) {s : Str} (h : StrOK d s) (p : Bool) :
    ∃ t bt, writeString d s p = t :: bt ∧ EncStr d s t bt := by
  induction h generalizing p with
  | token s i sec hne hg =>
    cases sec with
    | false =>
      obtain ⟨hgi, h2⟩ := lookup_false hg
      have hi := getIndex_false hgi
      obtain ⟨hget, hlt⟩ := indexOf?_some hi
      refine ⟨i, [], ?_, EncStr.tok i s h2 ?_ hget hne⟩
      · rw [writeString, hg]
      · have := hd.1; omega
    | true =>
      have hi := getIndex_true (lookup_true hg)
      obtain ⟨hget, hlt⟩ := indexOf?_some hi
      refine ⟨236 + i / 256, [i % 256], ?_, EncStr.tok2 i s ?_ hget hne⟩
      · rw [writeString, hg]
      · have := hd.2; omega
  | plain s hg ha hl =>
    rw [writeString_none_none hg ha]
    exact writeBytes_EncStr d hl p
  | atFirst s hg ha hl =>
    rw [writeString_none_lt hg ha (by omega)]
    exact writeBytes_EncStr d hl p
  | jid s a hg ha h1 _ _ ih1 ih2 =>
    rw [writeString_jid hg ha h1]
    obtain ⟨t1, b1, e1, r1⟩ := ih1 true
    obtain ⟨t2, b2, e2, r2⟩ := ih2 false
    refine ⟨250, _, rfl, ?_⟩
    rw [e1, e2]
    have := EncStr.jid _ _ _ _ _ _ r1 r2
    rw [← atIndex_split ha] at this
    exact this

/-- if the dictionary offers no token for the empty string, every string shorter than 2^31 is in the encoder's domain -/
theorem strOK_of_length (d : Dict) (hne : ∀ i sec, d.lookup [] ≠ some (i, sec)) (s : Str) (h : s.length < 2147483648) :
    StrOK d s := by
  induction hn : s.length using Nat.strongRecOn generalizing s with
  | _ n ih =>
    subst hn
    cases hl : d.lookup s with
    | some r =>
      obtain ⟨i, sec⟩ := r
      refine StrOK.token s i sec ?_ hl
      intro hs; subst hs; exact hne i sec hl
    | none =>
      cases ha : atIndex s with
      | none => exact StrOK.plain s hl ha h
      | some a =>
        cases a with
        | zero => exact StrOK.atFirst s hl ha h
        | succ a =>
          have hlt := atIndex_lt s _ ha
          refine StrOK.jid s (a + 1) hl ha (by omega) ?_ ?_
          · exact ih _ (by simp [List.length_take]; omega) _ (by simp [List.length_take]; omega) rfl
          · exact ih _ (by simp [List.length_drop]; omega) _ (by simp [List.length_drop]; omega) rfl

theorem writeAttrs_EncAttrs (d : Dict) (hd : d.WF) {attrs : List (Str × Str)}
    (h : ∀ kv ∈ attrs, StrOK d kv.1 ∧ StrOK d kv.2) : EncAttrs d attrs (writeAttrs d attrs) := by
  induction attrs with
  | nil => exact EncAttrs.nil
  | cons kv r ih =>
    obtain ⟨k, v⟩ := kv
    have hkv := h (k, v) (by simp)
    obtain ⟨t1, b1, e1, r1⟩ := writeString_EncStr d hd hkv.1 false
    obtain ⟨t2, b2, e2, r2⟩ := writeString_EncStr d hd hkv.2 true
    have ihr := ih (fun kv hm => h kv (List.mem_cons_of_mem _ hm))
    simp only [writeAttrs]
    rw [e1, e2]
    exact EncAttrs.cons k v r t1 b1 t2 b2 _ r1 r2 ihr

mutual
theorem writeNode_Enc (d : Dict) (hd : d.WF) {n : Node} (h : WFNode d n) : Enc d n (writeNode d n) := by
  cases h with
  | mk tag attrs data ks htag hattrs hdata hal hkl hks =>
    obtain ⟨t, bt, et, rt⟩ := writeString_EncStr d hd htag false
    have ra := writeAttrs_EncAttrs d hd hattrs.1
    have hnd := hattrs.2
    cases data with
    | some b =>
      obtain ⟨rfl, hb⟩ := hdata b rfl
      obtain ⟨c, bc, ec, rc⟩ := writeBytes_EncStr d hb false
      obtain ⟨hh, bh, eh, rh, hh0⟩ := writeListStart_EncList (k := 2 + attrs.length * 2) hal
      have hK : (1 + attrs.length * 2 + (if ([] : List Node).isEmpty = true then 0 else 1)) +
          (if (some b).isSome = true then 1 else 0) = 2 + attrs.length * 2 := by
        simp only [List.isEmpty_nil, if_true, Option.isSome_some]; omega
      rw [writeNode, et, hK, eh, ec]
      simp only [List.isEmpty_nil, if_true, List.append_nil, List.cons_append]
      exact Enc.content tag attrs b hh bh t bt _ c bc rh (hh0 (by omega)) rt ra hnd rc
    | none =>
      cases ks with
      | nil =>
        obtain ⟨hh, bh, eh, rh, hh0⟩ := writeListStart_EncList (k := 1 + attrs.length * 2) (by omega)
        have hK : (1 + attrs.length * 2 + (if ([] : List Node).isEmpty = true then 0 else 1)) +
            (if (none : Option Bytes).isSome = true then 1 else 0) = 1 + attrs.length * 2 := by
          simp only [List.isEmpty_nil, if_true, Option.isSome_none, Bool.false_eq_true, if_false]; omega
        rw [writeNode, et, hK, eh]
        simp only [List.isEmpty_nil, if_true, List.append_nil, List.cons_append]
        exact Enc.leaf tag attrs hh bh t bt _ rh (hh0 (by omega)) rt ra hnd
      | cons k ks' =>
        obtain ⟨hh, bh, eh, rh, hh0⟩ := writeListStart_EncList (k := 2 + attrs.length * 2) hal
        obtain ⟨hk, bhk, ek, rk, _⟩ := writeListStart_EncList (k := (k :: ks').length) hkl
        have rks := writeNodes_EncNodes d hd hks
        have hK : (1 + attrs.length * 2 + (if (k :: ks').isEmpty = true then 0 else 1)) +
            (if (none : Option Bytes).isSome = true then 1 else 0) = 2 + attrs.length * 2 := by
          simp only [List.isEmpty_cons, Option.isSome_none, Bool.false_eq_true, if_false]; omega
        rw [writeNode, et, hK, eh, ek]
        simp only [List.isEmpty_cons, Bool.false_eq_true, if_false, List.cons_append, List.nil_append]
        exact Enc.kids tag attrs (k :: ks') hh bh t bt _ hk bhk _ rh (hh0 (by omega)) rt ra hnd
          (by simp) rk rks

theorem writeNodes_EncNodes (d : Dict) (hd : d.WF) {ns : List Node} (h : WFNodes d ns) :
    EncNodes d ns (writeNodes d ns) := by
  cases h with
  | nil => rw [writeNodes]; exact EncNodes.nil
  | cons n ns hn hns =>
    rw [writeNodes]
    exact EncNodes.cons n ns _ _ (writeNode_Enc d hd hn) (writeNodes_EncNodes d hd hns)
end

mutual
theorem encodable_of_WFNode (d : Dict) {n : Node} (h : WFNode d n) : encodable d n = true := by
  cases h with
  | mk tag attrs data ks htag hattrs hdata hal hkl hks =>
    rw [encodable]
    have hl := encodableList_of_WFNodes d hks
    simp only [Bool.and_eq_true, decide_eq_true_eq]
    refine ⟨⟨?_, hkl⟩, hl⟩
    cases data with
    | some b =>
      obtain ⟨rfl, _⟩ := hdata b rfl
      simp; omega
    | none =>
      simp; split <;> omega

theorem encodableList_of_WFNodes (d : Dict) {ns : List Node} (h : WFNodes d ns) :
    encodableList d ns = true := by
  cases h with
  | nil => rw [encodableList]
  | cons n ns hn hns =>
    rw [encodableList, encodable_of_WFNode d hn, encodableList_of_WFNodes d hns]; rfl
end

end Yow.Coder
