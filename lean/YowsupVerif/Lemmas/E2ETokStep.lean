/-
  Token conservation in the E2E system model, part 4: the two master lemmas.  A client step (consume stanzas queued for
  `x`, change `x`'s record, emit stanzas) and a server step (consume a stanza from `x`'s connection, queue stanzas)
  preserve the invariant when a list of local conditions on what was consumed and produced holds.
-/
import YowsupVerif.Lemmas.E2ETokDelta
namespace Yow.E2E

/-- the only submission with a given id -/
theorem sub_unique {accts : List Acct} {groups : List (Nat × List Acct)} {s : Sys} (hA : AInv accts groups (abs s)) {a a' : Acct} {n n' : Node}
    (h1 : (a, n) ∈ s.submitted) (h2 : (a', n') ∈ s.submitted) (e : n.id = n'.id) : a = a' ∧ n = n' :=
  hA.sub_ids a n a' n' h1 h2 e

-- ------------------------------------------------------------------------------------------------ monotonicity
theorem CtsOK.mono {k k' : Nat} {st : Stanza} (hk : k ≤ k') (h : CtsOK k st) : CtsOK k' st :=
  fun e he => ⟨(h e he).1, Nat.lt_of_lt_of_le (h e he).2 hk⟩

theorem UpGood.mono {k k' : Nat} {c c' : Client} {st : Stanza} (hk : k ≤ k') (hs : ∀ id, shownC c id ≤ shownC c' id)
    (h : UpGood k c st) : UpGood k' c' st where
  dir := h.dir
  cts := h.cts.mono hk
  shape := h.shape
  honest id peer part e := Nat.le_trans (h.honest id peer part e) (hs id)
  retry := h.retry

theorem ParkGood.mono {k k' : Nat} {key : Dest × Option Acct} {st : Stanza} (hk : k ≤ k') (h : ParkGood k key st) :
    ParkGood k' key st := ⟨h.1, h.2.1.mono hk, h.2.2⟩

theorem ClientGood.mono {k k' : Nat} {c : Client} (hk : k ≤ k') (h : ClientGood k c) : ClientGood k' c where
  seen e he := Nat.lt_of_lt_of_le (h.seen e he) hk
  seenSK e he := Nat.lt_of_lt_of_le (h.seenSK e he) hk
  conts := h.conts
  iqKeys := h.iqKeys
  pendKeys := h.pendKeys
  parked e he st hst := (h.parked e he st hst).mono hk

theorem DownGood.mono {V V' : View} {a : Acct} {st : Stanza} (hle : V.le V') (h : DownGood V a st) : DownGood V' a st where
  dir := h.dir
  cts := h.cts.mono hle.1
  shape := h.shape
  rcpt id peer part t e := by
    obtain ⟨⟨n, h1, h2, h3⟩, h4, h5⟩ := h.rcpt id peer part t e
    exact ⟨⟨n, hle.2.2 _ h1, h2, h3⟩, fun ht => Nat.le_trans (h4 ht) (hle.2.1 _ _), h5⟩

-- ------------------------------------------------------------------------------------------------ nonces not handed out yet
theorem nOf_eq_zero {k n : Nat} {st : Stanza} (h : CtsOK k st) (hn : k ≤ n) : nOf n st = 0 := by
  unfold nOf ctrsOf
  rw [List.count_eq_zero]
  intro hm
  obtain ⟨e, he, rfl⟩ := List.mem_map.mp hm
  have := (h e he).2
  omega

theorem ctsFor_sub {r : Acct} {st : Stanza} {ct : Ct} (h : ct ∈ ctsFor r st) : ∃ e ∈ ctsOf st, e.2 = ct := by
  unfold ctsFor at h
  split at h
  · split at h
    · obtain ⟨e, he, rfl⟩ := List.mem_map.mp h
      exact ⟨e, (List.mem_filter.mp he).1, rfl⟩
    · cases h
  · split at h
    · obtain ⟨e, he, rfl⟩ := List.mem_map.mp h
      exact ⟨e, (List.mem_filter.mp he).1, rfl⟩
    · cases h
  · obtain ⟨e, he, rfl⟩ := List.mem_map.mp h
    exact ⟨e, (List.mem_filter.mp he).1, rfl⟩
  · cases h

theorem upN_eq_zero {groups : List (Nat × List Acct)} {r : Acct} {k n : Nat} {st : Stanza} (h : CtsOK k st) (hn : k ≤ n) :
    upN groups r n st = 0 := by
  unfold upN
  split
  · rw [List.count_eq_zero]
    intro hm
    obtain ⟨ct, hct, rfl⟩ := List.mem_map.mp hm
    obtain ⟨e, he, rfl⟩ := ctsFor_sub hct
    have := (h e he).2
    omega
  · rfl

theorem wayV_eq_zero {accts : List Acct} {groups : List (Nat × List Acct)} {L : List (Acct × Node)} {V : View}
    (h : TV ex accts groups L V) (r : Acct) {n : Nat} (hn : V.nextCtr ≤ n) : wayV accts V r n = 0 := by
  unfold wayV pendN
  have h1 : sumMap (nOf n) (V.outb r) = 0 := sumMap_eq_zero (fun st hst => nOf_eq_zero (h.downs r st hst).cts hn)
  have h2 : sumMap (fun e => sumMap (nOf n) e.2) (V.cl r).pendingIn = 0 :=
    sumMap_eq_zero (fun e he => sumMap_eq_zero (fun st hst => nOf_eq_zero ((h.clients r).parked e he st hst).2.1 hn))
  have h3 : sumMap (fun a => if a = r then 0 else sumMap (upN V.groups r n) (V.inb a)) accts = 0 := by
    apply sumMap_eq_zero
    intro a _
    split
    · rfl
    · exact sumMap_eq_zero (fun st hst => upN_eq_zero (h.ups a st hst).cts hn)
  omega

-- ------------------------------------------------------------------------------------------------ client step
structure CStepOKc (accts : List Acct) (groups : List (Nat × List Acct)) (L : List (Acct × Node)) (V : View) (x : Acct)
    (cons rest : List Stanza) (c' : Client) (out : List Stanza) (k : Nat) : Prop where
  hx : x ∈ accts
  hq : V.outb x = cons ++ rest
  hk : V.nextCtr ≤ k
  shown_mono : ∀ id, shownC (V.cl x) id ≤ shownC c' id
  good_c : ClientGood k c'
  good_out : ∀ st ∈ out, UpGood k c' st
  cons_S : ∀ n, (x, n) ∈ L → ∀ r, r ∈ intendedG groups x n →
    contS n.id r c'.iqReg + sumMap (upTok n.id r) out = contS n.id r (V.cl x).iqReg + sumMap (retryDownTok n.id r) cons
  cons_R : ∀ a n, (a, n) ∈ L → x ∈ intendedG groups a n →
    pendS n.id c'.pendingIn + sumMap (retryUpTok n.id) out + shownC c' n.id
      = sumMap (downTok n.id) cons + pendS n.id (V.cl x).pendingIn + shownC (V.cl x) n.id
  ans_iq : ∀ e ∈ c'.iqReg, (e ∈ (V.cl x).iqReg ∧ ∀ st ∈ cons, stanzaIq st ≠ some e.1) ∨ ∃ st ∈ out, stanzaIq st = some e.1
  ans_pend : ∀ e ∈ c'.pendingIn, ∃ k ∈ c'.iqReg, k.2 = Cont.keysForPending e.1.1 e.1.2
  kept_S : ∀ n, (x, n) ∈ L → ∀ r, r ∈ intendedG groups x n →
    inTransitV V x n.id r + sumMap (upTok n.id r) out = sumMap (retryDownTok n.id r) cons ∨ n ∈ c'.sentQueue ∨
      100 < V.submitted.length
  kept_R : ∀ a n, (a, n) ∈ L → x ∈ intendedG groups a n →
    pendS n.id c'.pendingIn + sumMap (retryUpTok n.id) out ≤ sumMap (downTok n.id) cons + pendS n.id (V.cl x).pendingIn
  ret3 : ∀ n, (x, n) ∈ L → ∀ g, n.dest = .group g →
    (lookup c'.ownSK g).isSome = true ∨ ∃ e ∈ c'.iqReg, firstGroupCont e.2 n.id
  slots : ∀ i, sendSlots c' i ≤ 1
  rids : ∀ e ∈ c'.receipts, ∃ p ∈ V.submitted, p.2.id = e.1
  retq : ∀ e ∈ c'.iqReg, ∀ n w c, e.2 = Cont.keysForRetry n w c → isGroupDest n.dest = true →
    n ∈ c'.sentQueue ∨ 100 < V.submitted.length
  unop_out : ∀ r, r ≠ x → ∀ n, sumMap (upN groups r n) out ≤ 1 ∧ (1 ≤ sumMap (upN groups r n) out → V.nextCtr ≤ n)
  unop_pend : ∀ n, pendN n c'.pendingIn ≤ sumMap (nOf n) cons + pendN n (V.cl x).pendingIn
  unop_seen : ∀ n, (n ∈ c'.seen.map Prod.snd ∨ n ∈ c'.seenSK.map Prod.snd) →
    (n ∈ (V.cl x).seen.map Prod.snd ∨ n ∈ (V.cl x).seenSK.map Prod.snd) ∨
      pendN n c'.pendingIn + 1 ≤ sumMap (nOf n) cons + pendN n (V.cl x).pendingIn

structure CStepOK (accts : List Acct) (groups : List (Nat × List Acct)) (L : List (Acct × Node)) (V : View) (x : Acct)
    (cons rest : List Stanza) (c' : Client) (out : List Stanza) (k : Nat)
    extends CStepOKc accts groups L V x cons rest c' out k : Prop where
  rcons_S : ∀ n, (x, n) ∈ L → ∀ r, r ∈ intendedG groups x n →
    rcptGot c' n.id r = rcptGot (V.cl x) n.id r + sumMap (rcptOut n.id r) cons
  rcons_R : ∀ a n, (a, n) ∈ L → x ∈ intendedG groups a n → sumMap (rcptIn n.id) out + shownC (V.cl x) n.id = shownC c' n.id

section Client
variable {ex : Bool} {accts : List Acct} {groups : List (Nat × List Acct)} {L : List (Acct × Node)} {V : View} {x : Acct}
  {cons rest : List Stanza} {c' : Client} {out : List Stanza} {k : Nat}

/-- sums over the consumed prefix -/
theorem tokensV_popOuts (hq : V.outb x = cons ++ rest) (a : Acct) (id : Nat) (r : Acct) :
    tokensV (V.popOut x rest) a id r + (if r = x then sumMap (downTok id) cons else 0)
      + (if a = x then sumMap (retryDownTok id r) cons else 0) = tokensV V a id r := by
  unfold tokensV View.popOut
  by_cases ha : a = x <;> by_cases hr : r = x <;> simp [ha, hr, upd_apply, hq] <;> omega

theorem inTransitV_popOuts (hq : V.outb x = cons ++ rest) (a : Acct) (id : Nat) (r : Acct) :
    inTransitV (V.popOut x rest) a id r + (if r = x then sumMap (downTok id) cons else 0)
      + (if a = x then sumMap (retryDownTok id r) cons else 0) = inTransitV V a id r := by
  unfold inTransitV View.popOut
  by_cases ha : a = x <;> by_cases hr : r = x <;> simp [ha, hr, upd_apply, hq] <;> omega

theorem receiptTokensV_popOuts (hq : V.outb x = cons ++ rest) (a : Acct) (id : Nat) (r : Acct) :
    receiptTokensV (V.popOut x rest) a id r + (if a = x then sumMap (rcptOut id r) cons else 0) = receiptTokensV V a id r := by
  unfold receiptTokensV View.popOut
  by_cases ha : a = x <;> simp [ha, upd_apply, hq] <;> omega

theorem wayV_popOuts (hq : V.outb x = cons ++ rest) (r : Acct) (n : Nat) :
    wayV accts (V.popOut x rest) r n + (if r = x then sumMap (nOf n) cons else 0) = wayV accts V r n := by
  unfold wayV View.popOut
  by_cases hr : r = x <;> simp [hr, upd_apply, hq] <;> omega

theorem TV.client_step_core (hn : accts.Nodup) (h : TV ex accts groups L V) (hs : CStepOKc accts groups L V x cons rest c' out k)
    (hrc : ∀ a n, (a, n) ∈ L → ∀ r, r ∈ intendedG groups a n →
      rcRel ex (receiptTokensV ((V.popOut x rest).cstep x c' out k) a n.id r) (shownC (((V.popOut x rest).cstep x c' out k).cl r) n.id)) :
    TV ex accts groups L ((V.popOut x rest).cstep x c' out k) := by
  have hle : V.le ((V.popOut x rest).cstep x c' out k) := by
    refine ⟨hs.hk, ?_, fun p hp => hp⟩
    intro r id
    show shownC (V.cl r) id ≤ shownC (upd V.cl x c' r) id
    rw [upd_apply]
    split
    · next e => subst e; exact hs.shown_mono id
    · exact Nat.le_refl _
  have hclx : ((V.popOut x rest).cstep x c' out k).cl x = c' := by simp [View.cstep]
  have hcl : ∀ r, r ≠ x → ((V.popOut x rest).cstep x c' out k).cl r = V.cl r := by
    intro r hr; simp [View.cstep, View.popOut, upd_ne _ _ hr]
  exact {
    acc := h.acc
    grp := h.grp
    clients := by
      intro r
      by_cases hr : r = x
      · subst hr; rw [hclx]; exact hs.good_c
      · rw [hcl r hr]; exact (h.clients r).mono hs.hk
    ups := by
      intro r st hst
      by_cases hr : r = x
      · subst hr
        rw [hclx]
        have hst : st ∈ V.inb r ++ out := by simpa [View.cstep, View.popOut] using hst
        rcases List.mem_append.mp hst with h1 | h1
        · exact (h.ups r st h1).mono hs.hk hs.shown_mono
        · exact hs.good_out st h1
      · rw [hcl r hr]
        have hst : st ∈ V.inb r := by simpa [View.cstep, View.popOut, upd_ne _ _ hr] using hst
        exact (h.ups r st hst).mono hs.hk (fun _ => Nat.le_refl _)
    downs := by
      intro r st hst
      refine DownGood.mono hle (h.downs r st ?_)
      by_cases hr : r = x
      · subst hr
        have hst : st ∈ rest := by simpa [View.cstep, View.popOut] using hst
        rw [hs.hq]; exact List.mem_append_right _ hst
      · simpa [View.cstep, View.popOut, upd_ne _ _ hr] using hst
    neq := h.neq
    cons := by
      intro a n hn' r hr
      have hne := h.neq a n hn' r hr
      have d1 := tokensV_cstep (V.popOut x rest) x c' out k a n.id r
      have d2 := tokensV_popOuts hs.hq a n.id r
      have h0 := h.cons a n hn' r hr
      have hcx : (V.popOut x rest).cl x = V.cl x := rfl
      rw [hcx] at d1
      by_cases ha : a = x
      · subst ha
        have := hs.cons_S n hn' r hr
        simp only [hne, if_false, if_true] at d1 d2
        omega
      · by_cases hrx : r = x
        · subst hrx
          have := hs.cons_R a n hn' hr
          simp only [ha, if_false, if_true] at d1 d2
          omega
        · simp only [ha, hrx, if_false] at d1 d2
          omega
    rcons := hrc
    ans := by
      intro r
      by_cases hr : r = x
      · subst hr
        rw [hclx]
        refine ⟨?_, hs.ans_pend⟩
        intro e he
        have hin : ((V.popOut r rest).cstep r c' out k).inb r = V.inb r ++ out := by simp [View.cstep, View.popOut]
        have hout : ((V.popOut r rest).cstep r c' out k).outb r = rest := by simp [View.cstep, View.popOut]
        rw [hin, hout]
        rcases hs.ans_iq e he with ⟨h1, h2⟩ | ⟨st, h1, h2⟩
        · obtain ⟨st, hst, hiq⟩ := (h.ans r).1 e h1
          refine ⟨st, ?_, hiq⟩
          rw [hs.hq] at hst
          simp only [List.mem_append] at hst ⊢
          rcases hst with h3 | h3 | h3
          · exact Or.inl (Or.inl h3)
          · exact absurd hiq (h2 st h3)
          · exact Or.inr h3
        · exact ⟨st, by simp [h1], h2⟩
      · rw [hcl r hr]
        have hin : ((V.popOut x rest).cstep x c' out k).inb r = V.inb r := by simp [View.cstep, View.popOut, upd_ne _ _ hr]
        have hout : ((V.popOut x rest).cstep x c' out k).outb r = V.outb r := by simp [View.cstep, View.popOut, upd_ne _ _ hr]
        rw [hin, hout]
        exact h.ans r
    unop := by
      intro r hr n
      have d1 := wayV_cstep (V.popOut x rest) x hn c' out k r n
      have d2 := wayV_popOuts (accts := accts) hs.hq r n
      have hcx : (V.popOut x rest).cl x = V.cl x := rfl
      have hgx : (V.popOut x rest).groups = groups := h.grp
      rw [hcx, hgx] at d1
      obtain ⟨u1, u2⟩ := h.unop r hr n
      by_cases hrx : r = x
      · subst hrx
        rw [hclx]
        have hp := hs.unop_pend n
        simp only [if_true, ne_eq, not_true_eq_false, and_false, if_false] at d1 d2
        refine ⟨by omega, ?_⟩
        intro hge
        have hold := u2 (by omega)
        constructor
        · intro hm
          rcases hs.unop_seen n (Or.inl hm) with h1 | h1
          · rcases h1 with h1 | h1
            · exact hold.1 h1
            · exact hold.2 h1
          · omega
        · intro hm
          rcases hs.unop_seen n (Or.inr hm) with h1 | h1
          · rcases h1 with h1 | h1
            · exact hold.1 h1
            · exact hold.2 h1
          · omega
      · rw [hcl r hrx]
        have hxr : x ≠ r := fun e => hrx e.symm
        obtain ⟨o1, o2⟩ := hs.unop_out r hrx n
        simp only [hrx, if_false, hs.hx, hxr, ne_eq, not_false_eq_true, and_self, if_true] at d1 d2
        by_cases hpos : 1 ≤ sumMap (upN groups r n) out
        · have hz := wayV_eq_zero h r (o2 hpos)
          refine ⟨by omega, ?_⟩
          intro _
          have hlt := o2 hpos
          constructor
          · intro hm
            obtain ⟨e, he, rfl⟩ := List.mem_map.mp hm
            have := (h.clients r).seen e he
            omega
          · intro hm
            obtain ⟨e, he, rfl⟩ := List.mem_map.mp hm
            have := (h.clients r).seenSK e he
            omega
        · refine ⟨by omega, ?_⟩
          intro hge
          exact u2 (by omega)
    kept := by
      intro a n hn' r hr
      have hne := h.neq a n hn' r hr
      have d1 := inTransitV_cstep (V.popOut x rest) x c' out k a n.id r
      have d2 := inTransitV_popOuts hs.hq a n.id r
      have h0 := h.kept a n hn' r hr
      have hcx : (V.popOut x rest).cl x = V.cl x := rfl
      rw [hcx] at d1
      by_cases ha : a = x
      · subst ha
        rw [hclx]
        simp only [hne, if_false, if_true] at d1 d2
        rcases hs.kept_S n hn' r hr with h1 | h1
        · left; omega
        · exact Or.inr h1
      · rw [hcl a ha]
        by_cases hrx : r = x
        · subst hrx
          have := hs.kept_R a n hn' hr
          simp only [ha, if_false, if_true] at d1 d2
          rcases h0 with h1 | h1
          · left; omega
          · exact Or.inr h1
        · simp only [ha, hrx, if_false] at d1 d2
          rcases h0 with h1 | h1
          · left; omega
          · exact Or.inr h1
    ret3 := by
      intro a n hn' g hg
      by_cases ha : a = x
      · subst ha; rw [hclx]; exact hs.ret3 n hn' g hg
      · rw [hcl a ha]; exact h.ret3 a n hn' g hg
    slots := by
      intro a i
      by_cases ha : a = x
      · subst ha; rw [hclx]; exact hs.slots i
      · rw [hcl a ha]; exact h.slots a i
    rids := by
      intro a e he
      by_cases ha : a = x
      · subst ha; rw [hclx] at he; exact hs.rids e he
      · rw [hcl a ha] at he; exact h.rids a e he
    retq := by
      intro a e he
      by_cases ha : a = x
      · subst ha; rw [hclx] at he ⊢; exact hs.retq e he
      · rw [hcl a ha] at he ⊢; exact h.retq a e he }

theorem TV.client_step (hn : accts.Nodup) (h : TV ex accts groups L V) (hs : CStepOK accts groups L V x cons rest c' out k) :
    TV ex accts groups L ((V.popOut x rest).cstep x c' out k) := by
  refine TV.client_step_core hn h hs.toCStepOKc ?_
  have hclx : ((V.popOut x rest).cstep x c' out k).cl x = c' := by simp [View.cstep]
  have hcl : ∀ r, r ≠ x → ((V.popOut x rest).cstep x c' out k).cl r = V.cl r := by
    intro r hr; simp [View.cstep, View.popOut, upd_ne _ _ hr]
  intro a n hn' r hr
  have hne := h.neq a n hn' r hr
  have d1 := receiptTokensV_cstep (V.popOut x rest) x c' out k a n.id r
  have d2 := receiptTokensV_popOuts hs.hq a n.id r
  have h0 := h.rcons a n hn' r hr
  have hcx : (V.popOut x rest).cl x = V.cl x := rfl
  rw [hcx] at d1
  by_cases ha : a = x
  · subst ha
    have := hs.rcons_S n hn' r hr
    rw [hcl r hne]
    simp only [hne, if_false, if_true] at d1 d2
    exact rcRel_shift h0 (by omega)
  · by_cases hrx : r = x
    · subst hrx
      have := hs.rcons_R a n hn' hr
      rw [hclx]
      simp only [ha, if_false, if_true] at d1 d2
      exact rcRel_shift h0 (by omega)
    · rw [hcl r hrx]
      simp only [ha, hrx, if_false] at d1 d2
      exact rcRel_shift h0 (by omega)

end Client

-- ------------------------------------------------------------------------------------------------ server step
structure SStepOK (accts : List Acct) (groups : List (Nat × List Acct)) (L : List (Acct × Node)) (V : View) (x : Acct)
    (hd : Stanza) (rest : List Stanza) (add : Acct → List Stanza) : Prop where
  hx : x ∈ accts
  hq : V.inb x = hd :: rest
  good_add : ∀ b st, st ∈ add b → DownGood V b st
  cons : ∀ a n, (a, n) ∈ L → ∀ r, r ∈ intendedG groups a n →
    sumMap (downTok n.id) (add r) + sumMap (retryDownTok n.id r) (add a)
      = (if a = x then upTok n.id r hd else 0) + (if r = x then retryUpTok n.id hd else 0)
  rcons : ∀ a n, (a, n) ∈ L → ∀ r, r ∈ intendedG groups a n →
    sumMap (rcptOut n.id r) (add a) = if r = x then rcptIn n.id hd else 0
  ans : ∀ e ∈ (V.cl x).iqReg, stanzaIq hd = some e.1 → ∃ st ∈ add x, stanzaIq st = some e.1
  unop : ∀ r, r ∈ accts → ∀ n, sumMap (nOf n) (add r) = if x ≠ r then upN groups r n hd else 0

theorem TV.server_step {accts : List Acct} {groups : List (Nat × List Acct)} {L : List (Acct × Node)} {V : View} {x : Acct}
    {hd : Stanza} {rest : List Stanza} {add : Acct → List Stanza}
    (hn : accts.Nodup) (h : TV ex accts groups L V) (hs : SStepOK accts groups L V x hd rest add) :
    TV ex accts groups L ((V.popIn x rest).pushes add) := by
  have hle : V.le ((V.popIn x rest).pushes add) := ⟨Nat.le_refl _, fun _ _ => Nat.le_refl _, fun p hp => hp⟩
  exact {
    acc := h.acc
    grp := h.grp
    clients := h.clients
    ups := by
      intro r st hst
      refine h.ups r st ?_
      by_cases hr : r = x
      · subst hr
        have hst : st ∈ rest := by simpa [View.pushes, View.popIn] using hst
        rw [hs.hq]; exact List.mem_cons_of_mem _ hst
      · simpa [View.pushes, View.popIn, upd_ne _ _ hr] using hst
    downs := by
      intro r st hst
      have hst : st ∈ V.outb r ++ add r := hst
      rcases List.mem_append.mp hst with h1 | h1
      · exact (h.downs r st h1).mono hle
      · exact (hs.good_add r st h1).mono hle
    neq := h.neq
    cons := by
      intro a n hn' r hr
      have d1 := tokensV_pushes (V.popIn x rest) add a n.id r
      have d2 := tokensV_popIn V x hs.hq a n.id r
      have := hs.cons a n hn' r hr
      have := h.cons a n hn' r hr
      omega
    rcons := by
      intro a n hn' r hr
      have d1 := receiptTokensV_pushes (V.popIn x rest) add a n.id r
      have d2 := receiptTokensV_popIn V x hs.hq a n.id r
      have := hs.rcons a n hn' r hr
      have h0 := h.rcons a n hn' r hr
      show rcRel ex (receiptTokensV ((V.popIn x rest).pushes add) a n.id r) (shownC (V.cl r) n.id)
      exact rcRel_shift h0 (by omega)
    ans := by
      intro r
      refine ⟨?_, (h.ans r).2⟩
      intro e he
      obtain ⟨st, hst, hiq⟩ := (h.ans r).1 e he
      have hout : ((V.popIn x rest).pushes add).outb r = V.outb r ++ add r := rfl
      rw [hout]
      by_cases hr : r = x
      · subst hr
        have hin : ((V.popIn r rest).pushes add).inb r = rest := by simp [View.pushes, View.popIn]
        rw [hin]
        rw [hs.hq] at hst
        simp only [List.cons_append, List.mem_cons, List.mem_append] at hst
        rcases hst with h1 | h1 | h1
        · subst h1
          obtain ⟨st', h2, h3⟩ := hs.ans e he hiq
          exact ⟨st', by simp [h2], h3⟩
        · exact ⟨st, by simp [h1], hiq⟩
        · exact ⟨st, by simp [h1], hiq⟩
      · have hin : ((V.popIn x rest).pushes add).inb r = V.inb r := by simp [View.pushes, View.popIn, upd_ne _ _ hr]
        rw [hin]
        refine ⟨st, ?_, hiq⟩
        simp only [List.mem_append] at hst ⊢
        rcases hst with h1 | h1
        · exact Or.inl h1
        · exact Or.inr (Or.inl h1)
    unop := by
      intro r hr n
      have d1 := wayV_pushes (accts := accts) (V.popIn x rest) add r n
      have d2 := wayV_popIn V x hn hs.hq r n
      have hu := hs.unop r hr n
      have hg : V.groups = groups := h.grp
      rw [hg] at d2
      have h0 := h.unop r hr n
      show wayV accts ((V.popIn x rest).pushes add) r n ≤ 1 ∧ (1 ≤ wayV accts ((V.popIn x rest).pushes add) r n → _)
      have e : wayV accts ((V.popIn x rest).pushes add) r n = wayV accts V r n := by
        by_cases hxr : x = r
        · simp only [hxr, ne_eq, not_true_eq_false, and_false, if_false] at d2 hu
          subst hxr
          omega
        · simp only [hxr, ne_eq, not_false_eq_true, and_true, hs.hx, if_true] at d2 hu
          omega
      rw [e]
      exact h0
    kept := by
      intro a n hn' r hr
      have d1 := inTransitV_pushes (V.popIn x rest) add a n.id r
      have d2 := inTransitV_popIn V x hs.hq a n.id r
      have := hs.cons a n hn' r hr
      rcases h.kept a n hn' r hr with h1 | h1
      · left; omega
      · exact Or.inr h1
    ret3 := h.ret3
    slots := h.slots
    rids := h.rids
    retq := h.retq }

end Yow.E2E
