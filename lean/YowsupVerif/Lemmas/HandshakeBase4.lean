/-
  Base lemmas for Lemmas/Handshake.lean: the inductive invariant of the handshake / transport orchestration for the
  configuration in which a disconnect retires the queue and the protocol object, and its preservation by every action.
-/
import YowsupVerif.Lemmas.HandshakeBase2
import YowsupVerif.Lemmas.HandshakeBase3
namespace Yow.HS
open Obs

/-- object tables and worker table: the current objects are the newest ones; the worker of attempt `c` sits at index `c-1`;
    the worker of the live connection drives the current objects, all others (abandoned attempts) older ones -/
structure Struct (s : St) : Prop where
  sp : s.curP + 1 = s.protos.length
  sq : s.curQ + 1 = s.queues.length
  qk : QK s.queues
  wl : s.workers.length = s.conn
  wk : ∀ i w, s.workers[i]? = some w → w.conn = i + 1
  stale : ∀ i w, s.workers[i]? = some w → ¬(s.live = true ∧ i + 1 = s.conn) → w.p < s.curP ∧ w.q < s.curQ
  cur : ∀ i w, s.workers[i]? = some w → s.live = true → i + 1 = s.conn → w.p = s.curP ∧ w.q = s.curQ

/-- segments waiting in transport state will be flushed by somebody -/
def Pend (s : St) : Prop :=
  qGetL s.queues s.curQ ≠ [] → pstate s = .transport →
    s.npc ≠ .idle ∨ ∃ (i : Nat) (w : Worker), s.workers[i]? = some w ∧ (w.pc = .wantFlush ∨ w.pc = .inFlush)

structure Inv (s : St) : Prop where
  st : Struct s
  env : Env (obs s)
  ph : ∀ i w, s.workers[i]? = some w → s.live = true → i + 1 = s.conn → Phase (obs s) w.pc
  pend : Pend s

theorem Inv_of (s s' : St) (h : Inv s)
    (hP : s'.protos.length = s.protos.length) (hQl : s'.queues.length = s.queues.length) (hQK : QK s'.queues)
    (hcp : s'.curP = s.curP) (hcq : s'.curQ = s.curQ) (hconn : s'.conn = s.conn) (hlive : s'.live = s.live)
    (hwl : s'.workers.length = s.workers.length)
    (hw : ∀ j w', s'.workers[j]? = some w' → ∃ w, s.workers[j]? = some w ∧ w'.conn = w.conn ∧ w'.p = w.p ∧ w'.q = w.q ∧
            (s.live = true → j + 1 = s.conn → Phase (obs s) w.pc → Phase (obs s') w'.pc))
    (henv : Env (obs s')) (hpend : Pend s') : Inv s' := by
  refine ⟨⟨?_, ?_, hQK, ?_, ?_, ?_, ?_⟩, henv, ?_, hpend⟩
  · rw [hcp, hP]; exact h.st.sp
  · rw [hcq, hQl]; exact h.st.sq
  · rw [hwl, hconn]; exact h.st.wl
  · intro j w' hj
    obtain ⟨w, h1, h2, _⟩ := hw j w' hj
    rw [h2]; exact h.st.wk j w h1
  · intro j w' hj hn
    obtain ⟨w, h1, _, h3, h4, _⟩ := hw j w' hj
    rw [hlive, hconn] at hn
    rw [h3, h4, hcp, hcq]; exact h.st.stale j w h1 hn
  · intro j w' hj hl hc
    obtain ⟨w, h1, _, h3, h4, _⟩ := hw j w' hj
    rw [hlive] at hl; rw [hconn] at hc
    rw [h3, h4, hcp, hcq]; exact h.st.cur j w h1 hl hc
  · intro j w' hj hl hc
    obtain ⟨w, h1, _, _, _, h5⟩ := hw j w' hj
    rw [hlive] at hl; rw [hconn] at hc
    exact h5 hl hc (h.ph j w h1 hl hc)

/-- the worker table is untouched -/
theorem Inv_of_same_workers (s s' : St) (h : Inv s)
    (hP : s'.protos.length = s.protos.length) (hQl : s'.queues.length = s.queues.length) (hQK : QK s'.queues)
    (hcp : s'.curP = s.curP) (hcq : s'.curQ = s.curQ) (hconn : s'.conn = s.conn) (hlive : s'.live = s.live)
    (hw : s'.workers = s.workers)
    (hph : s.live = true → ∀ pc, Phase (obs s) pc → Phase (obs s') pc)
    (henv : Env (obs s')) (hpend : Pend s') : Inv s' := by
  refine Inv_of s s' h hP hQl hQK hcp hcq hconn hlive (by rw [hw]) ?_ henv hpend
  intro j w' hj
  rw [hw] at hj
  exact ⟨w', hj, rfl, rfl, rfl, fun hl _ hp => hph hl _ hp⟩

/-- worker `i` moves to program counter `pc'` -/
theorem Inv_of_setW (s s' : St) (i : Nat) (w : Worker) (pc' : WPc) (h : Inv s) (hi : s.workers[i]? = some w)
    (hP : s'.protos.length = s.protos.length) (hQl : s'.queues.length = s.queues.length) (hQK : QK s'.queues)
    (hcp : s'.curP = s.curP) (hcq : s'.curQ = s.curQ) (hconn : s'.conn = s.conn) (hlive : s'.live = s.live)
    (hw : s'.workers = s.workers.set i { w with pc := pc' })
    (hph : s.live = true → ∀ j pc, j ≠ i → j + 1 = s.conn → Phase (obs s) pc → Phase (obs s') pc)
    (hphi : s.live = true → i + 1 = s.conn → Phase (obs s) w.pc → Phase (obs s') pc')
    (henv : Env (obs s')) (hpend : Pend s') : Inv s' := by
  refine Inv_of s s' h hP hQl hQK hcp hcq hconn hlive (by rw [hw]; simp) ?_ henv hpend
  intro j w' hj
  rw [hw] at hj
  rcases getElem?_set_some _ _ _ _ _ hj with ⟨h1, h2, _⟩ | ⟨h1, h2⟩
  · subst h1; subst h2
    exact ⟨w, hi, rfl, rfl, rfl, fun hl hc hp => hphi hl hc hp⟩
  · exact ⟨w', h2, rfl, rfl, rfl, fun hl hc hp => hph hl j _ h1 hc hp⟩

/-! ### basic facts -/

theorem Inv.curP_lt {s : St} (h : Inv s) : s.curP < s.protos.length := by have := h.st.sp; omega
theorem Inv.curQ_lt {s : St} (h : Inv s) : s.curQ < s.queues.length := by have := h.st.sq; omega

theorem Inv.w_q_lt {s : St} (h : Inv s) {i : Nat} {w : Worker} (hi : s.workers[i]? = some w) : w.q < s.queues.length := by
  have := h.st.sq
  by_cases hc : s.live = true ∧ i + 1 = s.conn
  · have := (h.st.cur i w hi hc.1 hc.2).2; omega
  · have := (h.st.stale i w hi hc).2; omega

/-- the live connection's worker exists -/
theorem Inv.cur_worker {s : St} (h : Inv s) (hl : s.live = true) :
    ∃ w, s.workers[s.conn - 1]? = some w ∧ s.conn - 1 + 1 = s.conn := by
  have h1 : 1 ≤ s.conn := h.env.lc hl
  have h2 := h.st.wl
  have : s.conn - 1 < s.workers.length := by omega
  exact ⟨s.workers[s.conn - 1], List.getElem?_eq_getElem this, by omega⟩

theorem Inv.cur_phase {s : St} (h : Inv s) (hl : s.live = true) : ∃ pc, Phase (obs s) pc := by
  obtain ⟨w, hw, hc⟩ := h.cur_worker hl
  exact ⟨w.pc, h.ph _ w hw hl hc⟩

theorem Inv.post_of_transport {s : St} (h : Inv s) (hps : pstate s = .transport) : Post (obs s) := by
  have hl : s.live = true := live_of_ps (obs s) h.env (by show pstate s ≠ .init; rw [hps]; simp)
  obtain ⟨pc, hp⟩ := h.cur_phase hl
  exact Obs.post_of_transport (obs s) pc hp hps

end Yow.HS
