/-
  Liveness half of C03 on the E2E system model, as a conservation law: in fault-free runs every (message, intended
  recipient) pair has exactly one token (waiting for keys at the sender / on its way / parked / asked for again /
  shown), and every showing has exactly one delivery receipt (on its way back / handed to the sender's application).
  At a settled state (all queues empty, nothing pending) all tokens are showings and all receipts have arrived.

  The proofs are in Lemmas/E2ETok*.lean: the Prop-valued invariant `TInv` (E2ETokInv) over the functional view of a
  state (E2ETokBase), the two master lemmas for a client step and a server step (E2ETokStep), one file per kind of step
  (E2ETokServer, E2ETokAppSend, E2ETokIq, E2ETokRcpt, E2ETokDeliver, E2ETokRestart), the induction (E2ETokRun) and the
  implication `TInv → tokInv` (E2ETokBool).
-/
import YowsupVerif.Lemmas.E2E
import YowsupVerif.Model.E2ETok
import YowsupVerif.Lemmas.E2ETokBool
import YowsupVerif.Lemmas.E2ETokQKeys
namespace Yow.E2E

def sendCount : List Act → Nat
  | [] => 0
  | .appSend _ _ :: as => sendCount as + 1
  | _ :: as => sendCount as

theorem sendCount_eq (acts : List Act) : sendCount acts = sendCountAux acts := by
  induction acts with
  | nil => rfl
  | cons a as ih => cases a <;> simp [sendCount, sendCountAux, ih]

/-- the conservation invariant holds after every fault-free allowed run with at most 100 messages (the sent queue's
    capacity).  `hnd`: a group lists each member once (otherwise the server's fan-out queues two copies for it). -/
theorem tokInv_run (accts : List Acct) (groups : List (Nat × List Acct)) (hw : WFConfig accts groups)
    (hnd : ∀ g ∈ groups, g.2.Nodup)
    (acts : List Act) (ha : AllowedRun (initSys accts groups) acts = true) (hf : NoFault acts = true) (hn : sendCount acts ≤ 100) :
    tokInv (run (initSys accts groups) acts) = true :=
  tinv_tokInv hw.1 (TInv_run hw hnd acts (initSys accts groups) (init_TInv hw) ha hf (by
    show ([] : List (Acct × Node)).length + sendCountAux acts ≤ 100
    rw [← sendCount_eq]
    simpa using hn)) (by
    rw [run_submitted_len acts _ (init_inv accts groups hw) ha, ← sendCount_eq]
    show ([] : List (Acct × Node)).length + sendCount acts ≤ 100
    simpa using hn)

theorem tokInv_conserved {s : Sys} (h : tokInv s = true) : conserved s = true := by
  simp only [tokInv, Bool.and_eq_true] at h
  exact h.1.1.1.1.1.1.1.1.1.1

/-- nothing can be stuck: when all queues are empty, no continuation is waiting and nothing is parked -/
theorem quiescent_settled (s : Sys) (hi : tokInv s = true) (hq : quiescent s = true) : settled s = true := by
  simp only [tokInv, Bool.and_eq_true] at hi
  exact quiescent_settled' s hi.1.1.1.1.1.1.1.1.2 hq

/-- at a settled state conservation means: shown exactly once, and the sender's application holds the delivery receipt -/
theorem settled_exactly_once (s : Sys) (hi : tokInv s = true) (hs : settled s = true) :
    ∀ a n, (a, n) ∈ s.submitted → ∀ r, r ∈ intended s a n →
      shownCount s r n.id = 1 ∧
      ((getClient s a).receipts.filter (fun e =>
        e.1 == n.id && e.2.2.2 == RType.delivery && (e.2.2.1 == some r || (e.2.2.1.isNone && e.2.1 == Dest.user r)))).length = 1 := by
  simp only [tokInv, Bool.and_eq_true] at hi
  exact settled_exactly_once' s hi.1.1.1.1.1.1.1.1.1.1 hi.1.1.1.1.1.1.1.1.1.2 hs

/-- the queues of a run from the initial state hold each account at most once -/
theorem queueKeys_run (accts : List Acct) (groups : List (Nat × List Acct)) (acts : List Act) :
    let s := run (initSys accts groups) acts
    (s.inbound.map Prod.fst).Nodup ∧ (s.outbound.map Prod.fst).Nodup :=
  QKeys.run acts _ (QKeys.init accts groups)

/-- a run that is not settled can always go on: some server action is enabled (so a fair scheduler reaches a settled state
    or runs for ever).  `hk`: without it a shadowed duplicate key with a non-empty queue would be a counterexample. -/
theorem not_quiescent_enabled (s : Sys) (hk : (s.inbound.map Prod.fst).Nodup ∧ (s.outbound.map Prod.fst).Nodup)
    (h : quiescent s = false) :
    ∃ a, Allowed s (.process a) = true ∨ Allowed s (.deliver a .none) = true :=
  not_quiescent_enabled' s hk h

end Yow.E2E
