/-
  Base lemmas for Lemmas/Handshake.lean: the observable part of a state (the CURRENT protocol object and queue, the
  environment's history, what went upward) and the invariant over it, with its preservation under the abstract effects of
  the actions.  No worker tables here.
-/
import YowsupVerif.Lemmas.HandshakeBase1
namespace Yow.HS

structure Obs where
  ps : PState
  key : Option Nat
  Q : List Seg
  conn : Nat
  arrived : List Seg
  up : List Up
  live : Bool
  helloSeen : Bool
  npc : NPc

def obs (s : St) : Obs :=
  { ps := pstate s, key := keyOf s, Q := qGetL s.queues s.curQ, conn := s.conn, arrived := s.arrived, up := s.up,
    live := s.live, helloSeen := s.helloSeen, npc := s.npc }

namespace Obs

def arrivedCur (o : Obs) : List Seg := o.arrived.filter (fun sg => sg.conn == o.conn)
def foc (o : Obs) : List Seg := o.arrived.filter (fun sg => sg.kind == .frame && sg.conn == o.conn)
def fup (up : List Up) : List Seg := up.filterMap (fun u => match u with | .frame sg => some sg | _ => none)
def fuc (o : Obs) : List Seg := (fup o.up).filter (fun sg => sg.conn == o.conn)
def good (o : Obs) : Bool := o.arrived.all (·.good)
def noRaise (o : Obs) : Bool := o.up.all (fun u => u != .raised)

/-- the current handshake is over -/
def Post (o : Obs) : Prop :=
  ∃ h t, o.arrivedCur = h :: t ∧ (o.ps = .transport ∨ o.ps = .error) ∧
    (h.good = false → o.ps = .error ∧ Up.failure o.conn ∈ o.up) ∧
    (o.ps = .transport → o.key = some o.conn ∧ o.fuc ++ o.Q = o.foc) ∧
    (o.ps = .error → o.good = false)

/-- the current objects, as seen from the program counter of the current connection's worker -/
def Phase (o : Obs) : WPc → Prop
  | .reading => o.ps = .handshake ∧ o.Q = o.arrivedCur ∧ o.fuc = []
  | .finishing ok => o.ps = .handshake ∧ o.fuc = [] ∧ ∃ h, o.arrivedCur = h :: o.Q ∧ ok = h.good
  | _ => Post o

structure Env (o : Obs) : Prop where
  hello0 : o.live = true → o.helloSeen = false → o.arrivedCur = []
  hello1 : o.live = true → o.helloSeen = true → ∃ h, h.kind = .hello ∧ o.arrivedCur = h :: o.foc
  /-- no connection: the network thread is idle, or still inside the flush loop in which a re-entrant disconnect was
      issued (it will find the fresh queue empty and leave) -/
  notLive : o.live = false → (o.npc = .idle ∨ o.npc = .inFlush) ∧ o.ps = .init ∧ o.Q = []
  netFlush : o.npc = .wantFlush ∨ o.npc = .inFlush → o.ps ≠ .handshake
  pfx : o.fuc <+: o.foc
  nr : o.good = true → o.noRaise = true
  upb : ∀ sg, Up.frame sg ∈ o.up → sg.conn ≤ o.conn
  arb : ∀ sg ∈ o.arrived, sg.conn ≤ o.conn
  lc : o.live = true → 1 ≤ o.conn

theorem fup_append (a b : List Up) : fup (a ++ b) = fup a ++ fup b := by simp [fup]

theorem mem_fup (up : List Up) (sg : Seg) : sg ∈ fup up ↔ Up.frame sg ∈ up := by
  simp only [fup, List.mem_filterMap]
  constructor
  · rintro ⟨u, hu, h⟩
    cases u with
    | frame s => simp at h; subst h; exact hu
    | failure c => simp at h
    | raised => simp at h
  · intro h; exact ⟨_, h, rfl⟩

theorem foc_sub (o : Obs) (sg : Seg) (h : sg ∈ o.foc) : sg ∈ o.arrivedCur ∧ sg.kind = .frame ∧ sg.conn = o.conn ∧ sg ∈ o.arrived := by
  simp only [foc, arrivedCur, List.mem_filter, Bool.and_eq_true, beq_iff_eq] at *
  exact ⟨⟨h.1, h.2.2⟩, h.2.1, h.2.2, h.1⟩

theorem foc_eq_filter (o : Obs) : o.foc = o.arrivedCur.filter (fun sg => sg.kind == .frame) := by
  simp only [foc, arrivedCur, List.filter_filter]

/-- phases do not depend on the network thread's program counter -/
theorem Phase_npc (o : Obs) (n : NPc) (pc : WPc) : Phase { o with npc := n } pc ↔ Phase o pc := by
  cases pc <;> exact Iff.rfl

theorem Env_npc (o : Obs) (n : NPc) (h : Env o) (h1 : o.live = false → n = .idle ∨ n = .inFlush)
    (h2 : n = .wantFlush ∨ n = .inFlush → o.ps ≠ .handshake) : Env { o with npc := n } :=
  { hello0 := h.hello0, hello1 := h.hello1, notLive := fun hl => ⟨h1 hl, (h.notLive hl).2⟩, netFlush := h2,
    pfx := h.pfx, nr := h.nr, upb := h.upb, arb := h.arb, lc := h.lc }

/-! #### something that is not a frame goes upward -/

theorem Env_up_other (o : Obs) (u : Up) (h : Env o) (hu : ∀ sg, u ≠ .frame sg) (hr : u = .raised → o.good = false) :
    Env { o with up := o.up ++ [u] } := by
  have hf : fup (o.up ++ [u]) = fup o.up := by
    rw [fup_append]; cases u <;> simp [fup] ; exact absurd rfl (hu _)
  refine { hello0 := h.hello0, hello1 := h.hello1, notLive := h.notLive, netFlush := h.netFlush, pfx := ?_, nr := ?_,
           upb := ?_, arb := h.arb, lc := h.lc }
  · show (fup (o.up ++ [u])).filter _ <+: _
    rw [hf]; exact h.pfx
  · intro hg
    have := h.nr hg
    simp only [noRaise, List.all_append, List.all_cons, List.all_nil, Bool.and_true, Bool.and_eq_true] at this ⊢
    refine ⟨this, ?_⟩
    cases u <;> simp
    have hg' : o.good = true := hg
    rw [hr rfl] at hg'; cases hg'
  · intro sg hsg
    simp only [List.mem_append, List.mem_singleton] at hsg
    rcases hsg with hsg | hsg
    · exact h.upb sg hsg
    · exact absurd hsg.symm (hu sg)

theorem Phase_up_other (o : Obs) (u : Up) (hu : ∀ sg, u ≠ .frame sg) (pc : WPc) (h : Phase o pc) :
    Phase { o with up := o.up ++ [u] } pc := by
  have hf : fup (o.up ++ [u]) = fup o.up := by
    rw [fup_append]; cases u <;> simp [fup] ; exact absurd rfl (hu _)
  have hfuc : fuc { o with up := o.up ++ [u] } = fuc o := by
    show (fup (o.up ++ [u])).filter _ = _
    rw [hf]; rfl
  cases pc with
  | reading => exact ⟨h.1, h.2.1, hfuc ▸ h.2.2⟩
  | finishing ok => exact ⟨h.1, hfuc ▸ h.2.1, h.2.2⟩
  | wantFlush | inFlush | done =>
    obtain ⟨hd, t, h1, h2, h3, h4, h5⟩ := h
    refine ⟨hd, t, h1, h2, fun hb => ⟨(h3 hb).1, ?_⟩, fun ht => ⟨(h4 ht).1, ?_⟩, h5⟩
    · show _ ∈ o.up ++ [u]
      exact List.mem_append_left _ (h3 hb).2
    · rw [hfuc]; exact (h4 ht).2

/-! #### the current protocol object / queue change while the connection is live -/

theorem Env_cur (o : Obs) (x : PState) (k : Option Nat) (q : List Seg) (h : Env o) (hl : o.live = true)
    (hx : o.npc = .wantFlush ∨ o.npc = .inFlush → x ≠ .handshake) : Env { o with ps := x, key := k, Q := q } :=
  { hello0 := h.hello0, hello1 := h.hello1, notLive := fun hn => (by simp [hl] at hn), netFlush := hx,
    pfx := h.pfx, nr := h.nr, upb := h.upb, arb := h.arb, lc := h.lc }

theorem arrivedCur_ne_nil (o : Obs) (h : Env o) (hl : o.live = true) (hne : o.arrivedCur ≠ []) :
    o.helloSeen = true ∧ ∃ hd, hd.kind = .hello ∧ o.arrivedCur = hd :: o.foc := by
  cases hh : o.helloSeen with
  | false => exact absurd (h.hello0 hl hh) hne
  | true => exact ⟨rfl, h.hello1 hl hh⟩

/-! #### a segment arrives -/

def arriveO (o : Obs) (sg : Seg) : Obs :=
  { o with Q := o.Q ++ [sg], npc := .check, arrived := o.arrived ++ [sg], helloSeen := o.helloSeen || sg.kind == .hello }

theorem arrivedCur_arrive (o : Obs) (sg : Seg) (hc : sg.conn = o.conn) : (arriveO o sg).arrivedCur = o.arrivedCur ++ [sg] := by
  simp [arriveO, arrivedCur, List.filter_append, hc]

theorem foc_arrive_frame (o : Obs) (sg : Seg) (hc : sg.conn = o.conn) (hk : sg.kind = .frame) : (arriveO o sg).foc = o.foc ++ [sg] := by
  simp [arriveO, foc, List.filter_append, hc, hk]

theorem foc_arrive_hello (o : Obs) (sg : Seg) (hk : sg.kind = .hello) : (arriveO o sg).foc = o.foc := by
  simp [arriveO, foc, List.filter_append, hk]

theorem Env_arrive (o : Obs) (sg : Seg) (h : Env o) (hl : o.live = true) (hc : sg.conn = o.conn)
    (hk : (sg.kind = .hello ∧ o.helloSeen = false) ∨ (sg.kind = .frame ∧ o.helloSeen = true)) : Env (arriveO o sg) := by
  refine { hello0 := ?_, hello1 := ?_, notLive := ?_, netFlush := ?_, pfx := ?_, nr := ?_, upb := h.upb, arb := ?_, lc := h.lc }
  · intro _ hh
    have hh' : (o.helloSeen || sg.kind == .hello) = false := hh
    rcases hk with ⟨hk, _⟩ | ⟨_, hs⟩
    · simp [hk] at hh'
    · simp [hs] at hh'
  · intro _ _
    rw [arrivedCur_arrive o sg hc]
    rcases hk with ⟨hk, hs⟩ | ⟨hk, hs⟩
    · rw [foc_arrive_hello o sg hk, foc_eq_filter, h.hello0 hl hs]
      exact ⟨sg, hk, rfl⟩
    · obtain ⟨hd, hd1, hd2⟩ := h.hello1 hl hs
      rw [foc_arrive_frame o sg hc hk, hd2]
      exact ⟨hd, hd1, rfl⟩
  · intro hn; exact absurd (hl.symm.trans hn) (by simp)
  · intro hn
    have : NPc.check = .wantFlush ∨ NPc.check = .inFlush := hn
    simp at this
  · show o.fuc <+: (arriveO o sg).foc
    rcases hk with ⟨hk, _⟩ | ⟨hk, _⟩
    · rw [foc_arrive_hello o sg hk]; exact h.pfx
    · rw [foc_arrive_frame o sg hc hk]; exact h.pfx.trans (List.prefix_append _ _)
  · intro hg
    have hg' : (o.arrived ++ [sg]).all (·.good) = true := hg
    rw [List.all_append, Bool.and_eq_true] at hg'
    exact h.nr hg'.1
  · intro x hx
    have hx' : x ∈ o.arrived ++ [sg] := hx
    simp only [List.mem_append, List.mem_singleton] at hx'
    rcases hx' with hx' | hx'
    · exact h.arb x hx'
    · subst hx'; exact Nat.le_of_eq hc

theorem Phase_arrive (o : Obs) (sg : Seg) (h : Env o) (hl : o.live = true) (hc : sg.conn = o.conn)
    (hk : (sg.kind = .hello ∧ o.helloSeen = false) ∨ (sg.kind = .frame ∧ o.helloSeen = true)) (pc : WPc) (hp : Phase o pc) :
    Phase (arriveO o sg) pc := by
  have hpost : Post o → Post (arriveO o sg) := by
    rintro ⟨hd, t, h1, h2, h3, h4, h5⟩
    have hne : o.arrivedCur ≠ [] := by rw [h1]; simp
    have hs := (arrivedCur_ne_nil o h hl hne).1
    have hkf : sg.kind = .frame := by
      rcases hk with ⟨_, hs'⟩ | ⟨hk, _⟩
      · rw [hs] at hs'; cases hs'
      · exact hk
    refine ⟨hd, t ++ [sg], ?_, h2, h3, ?_, ?_⟩
    · rw [arrivedCur_arrive o sg hc, h1]; rfl
    · intro ht
      refine ⟨(h4 ht).1, ?_⟩
      rw [foc_arrive_frame o sg hc hkf, ← (h4 ht).2]
      show o.fuc ++ (o.Q ++ [sg]) = _
      rw [List.append_assoc]
    · intro he
      have := h5 he
      show (o.arrived ++ [sg]).all (·.good) = false
      rw [List.all_append]
      have h' : o.arrived.all (·.good) = false := this
      rw [h']; rfl
  cases pc with
  | reading =>
    refine ⟨hp.1, ?_, hp.2.2⟩
    rw [arrivedCur_arrive o sg hc, ← hp.2.1]; rfl
  | finishing ok =>
    obtain ⟨h1, h2, hd, h3, h4⟩ := hp
    refine ⟨h1, h2, hd, ?_, h4⟩
    rw [arrivedCur_arrive o sg hc, h3]; rfl
  | wantFlush => exact hpost hp
  | inFlush => exact hpost hp
  | done => exact hpost hp

/-! #### one iteration of the flush loop in transport state -/

theorem post_of_transport (o : Obs) (pc : WPc) (hp : Phase o pc) (hps : o.ps = .transport) : Post o := by
  cases pc with
  | reading => rw [hp.1] at hps; cases hps
  | finishing ok => rw [hp.1] at hps; cases hps
  | wantFlush => exact hp
  | inFlush => exact hp
  | done => exact hp

theorem live_of_ps (o : Obs) (h : Env o) (hps : o.ps ≠ .init) : o.live = true := by
  cases hl : o.live with
  | true => rfl
  | false => exact absurd (h.notLive hl).2.1 hps

theorem flush_head (o : Obs) (sg : Seg) (rest : List Seg) (hQ : o.Q = sg :: rest) (hps : o.ps = .transport) (hpost : Post o) :
    o.key = some o.conn ∧ o.fuc ++ sg :: rest = o.foc ∧ sg.kind = .frame ∧ sg.conn = o.conn ∧ sg ∈ o.arrived := by
  obtain ⟨hd, t, h1, h2, h3, h4, h5⟩ := hpost
  have h6 := (h4 hps).2
  rw [hQ] at h6
  have hm : sg ∈ o.foc := by rw [← h6]; simp
  have := foc_sub o sg hm
  exact ⟨(h4 hps).1, h6, this.2.1, this.2.2.1, this.2.2.2⟩

theorem Env_deliver (o : Obs) (sg : Seg) (rest : List Seg) (h : Env o) (hQ : o.Q = sg :: rest) (hps : o.ps = .transport)
    (hpost : Post o) : Env { o with Q := rest, up := o.up ++ [.frame sg] } := by
  have hl : o.live = true := live_of_ps o h (by rw [hps]; simp)
  obtain ⟨hk, hf, _, hc, _⟩ := flush_head o sg rest hQ hps hpost
  have hfuc : fuc { o with Q := rest, up := o.up ++ [.frame sg] } = o.fuc ++ [sg] := by
    show (fup (o.up ++ [.frame sg])).filter _ = _
    rw [fup_append, List.filter_append]
    simp [fup, hc]; rfl
  refine { hello0 := h.hello0, hello1 := h.hello1, notLive := fun hn => (by simp [hl] at hn), netFlush := h.netFlush,
           pfx := ?_, nr := ?_, upb := ?_, arb := h.arb, lc := h.lc }
  · rw [hfuc]; show _ <+: o.foc
    rw [← hf]
    exact ⟨rest, by simp⟩
  · intro hg
    have := h.nr hg
    simp only [noRaise, List.all_append, List.all_cons, List.all_nil, Bool.and_true, Bool.and_eq_true] at this ⊢
    exact ⟨this, by simp⟩
  · intro x hx
    have hx' : Up.frame x ∈ o.up ++ [.frame sg] := hx
    simp only [List.mem_append, List.mem_singleton] at hx'
    rcases hx' with hx' | hx'
    · exact h.upb x hx'
    · cases hx'; exact Nat.le_of_eq hc

theorem Phase_deliver (o : Obs) (sg : Seg) (rest : List Seg) (hQ : o.Q = sg :: rest) (hps : o.ps = .transport)
    (pc : WPc) (hp : Phase o pc) : Phase { o with Q := rest, up := o.up ++ [.frame sg] } pc := by
  have hpost := post_of_transport o pc hp hps
  obtain ⟨_, hf, _, hc, _⟩ := flush_head o sg rest hQ hps hpost
  have hfuc : fuc { o with Q := rest, up := o.up ++ [.frame sg] } = o.fuc ++ [sg] := by
    show (fup (o.up ++ [.frame sg])).filter _ = _
    rw [fup_append, List.filter_append]
    simp [fup, hc]; rfl
  have hpost' : Post { o with Q := rest, up := o.up ++ [.frame sg] } := by
    obtain ⟨hd, t, h1, h2, h3, h4, h5⟩ := hpost
    refine ⟨hd, t, h1, h2, fun hb => ⟨(h3 hb).1, ?_⟩, fun ht => ⟨(h4 ht).1, ?_⟩, h5⟩
    · show _ ∈ o.up ++ [Up.frame sg]
      exact List.mem_append_left _ (h3 hb).2
    · rw [hfuc]; show _ ++ rest = o.foc
      rw [← hf]; simp
  cases pc with
  | reading => rw [hp.1] at hps; cases hps
  | finishing ok => rw [hp.1] at hps; cases hps
  | wantFlush => exact hpost'
  | inFlush => exact hpost'
  | done => exact hpost'

theorem bad_of_undecryptable (o : Obs) (sg : Seg) (rest : List Seg) (hQ : o.Q = sg :: rest) (hps : o.ps = .transport)
    (hpost : Post o) (hc : (sg.kind == .frame && sg.good && o.key == some sg.conn) = false) : o.good = false := by
  obtain ⟨hk, _, hkf, hcn, hm⟩ := flush_head o sg rest hQ hps hpost
  have hb : sg.good = false := by
    rw [hkf, hk, hcn] at hc
    simpa using hc
  cases hg : o.good with
  | false => rfl
  | true =>
    have hg' : o.arrived.all (·.good) = true := hg
    rw [List.all_eq_true] at hg'
    have := hg' sg hm
    rw [hb] at this; cases this

theorem Phase_error (o : Obs) (q : List Seg) (hps : o.ps = .transport) (hb : o.good = false)
    (pc : WPc) (hp : Phase o pc) : Phase { o with Q := q, ps := .error } pc := by
  have hpost := post_of_transport o pc hp hps
  have hpost' : Post { o with Q := q, ps := .error } := by
    obtain ⟨hd, t, h1, h2, h3, h4, h5⟩ := hpost
    refine ⟨hd, t, h1, Or.inr rfl, fun hbd => ?_, fun ht => ?_, fun _ => hb⟩
    · have := (h3 hbd).1; rw [hps] at this; cases this
    · cases ht
  cases pc with
  | reading => rw [hp.1] at hps; cases hps
  | finishing ok => rw [hp.1] at hps; cases hps
  | wantFlush => exact hpost'
  | inFlush => exact hpost'
  | done => exact hpost'

/-! #### connect / disconnect -/

theorem Env_connect (o : Obs) (h : Env o) (hl : o.live = false) (hi : o.npc = .idle) :
    Env { o with conn := o.conn + 1, live := true, helloSeen := false, ps := .handshake, key := none } ∧
    Phase { o with conn := o.conn + 1, live := true, helloSeen := false, ps := .handshake, key := none } .reading := by
  have hac : arrivedCur { o with conn := o.conn + 1, live := true, helloSeen := false, ps := .handshake, key := none } = [] := by
    show o.arrived.filter _ = []
    rw [List.filter_eq_nil_iff]
    intro x hx
    have := h.arb x hx
    simp; omega
  have hfuc : fuc { o with conn := o.conn + 1, live := true, helloSeen := false, ps := .handshake, key := none } = [] := by
    show (fup o.up).filter _ = []
    rw [List.filter_eq_nil_iff]
    intro x hx
    have := h.upb x ((mem_fup _ _).mp hx)
    simp; omega
  have hn := h.notLive hl
  refine ⟨{ hello0 := fun _ _ => hac, hello1 := fun _ hh => (by cases hh), notLive := fun hn => (by cases hn),
            netFlush := ?_, pfx := ?_, nr := h.nr, upb := ?_, arb := ?_, lc := fun _ => Nat.le_add_left _ _ }, rfl, ?_, hfuc⟩
  · intro hx
    have hx' : o.npc = .wantFlush ∨ o.npc = .inFlush := hx
    rw [hi] at hx'; simp at hx'
  · rw [hfuc]; exact List.nil_prefix
  · intro x hx; exact Nat.le_succ_of_le (h.upb x hx)
  · intro x hx; exact Nat.le_succ_of_le (h.arb x hx)
  · rw [hac]; exact hn.2.2

theorem Env_disconnect (o : Obs) (h : Env o) (hi : o.npc = .idle ∨ o.npc = .inFlush) :
    Env { o with live := false, ps := .init, key := none, Q := [] } :=
  { hello0 := fun hn => (by cases hn), hello1 := fun hn => (by cases hn), notLive := fun _ => ⟨hi, rfl, rfl⟩,
    netFlush := fun _ => (by show PState.init ≠ .handshake; simp),
    pfx := h.pfx, nr := h.nr, upb := h.upb, arb := h.arb, lc := fun hn => (by cases hn) }

/-! #### the current worker's own steps -/

theorem Phase_read (o : Obs) (sg : Seg) (rest : List Seg) (h : Env o) (hl : o.live = true) (hp : Phase o .reading)
    (hQ : o.Q = sg :: rest) : Phase { o with Q := rest } (.finishing (sg.kind == .hello && sg.good && sg.conn == o.conn)) := by
  obtain ⟨h1, h2, h3⟩ := hp
  have hne : o.arrivedCur ≠ [] := by rw [← h2, hQ]; simp
  obtain ⟨_, hd, hd1, hd2⟩ := arrivedCur_ne_nil o h hl hne
  have hsg : sg = hd := by
    rw [← h2, hQ] at hd2; exact (List.cons.inj hd2).1
  have hm : sg ∈ o.arrivedCur := by rw [← h2, hQ]; simp
  have hc : sg.conn = o.conn := by
    simp only [arrivedCur, List.mem_filter, beq_iff_eq] at hm; exact hm.2
  refine ⟨h1, h3, sg, ?_, ?_⟩
  · show o.arrivedCur = sg :: rest
    rw [← h2, hQ]
  · rw [hsg, hd1, ← hsg, hc]; simp

theorem Post_finish_ok (o : Obs) (h : Env o) (hl : o.live = true) (hp : Phase o (.finishing true)) :
    Post { o with ps := .transport, key := some o.conn } := by
  obtain ⟨h1, h2, hd, h3, h4⟩ := hp
  have hne : o.arrivedCur ≠ [] := by rw [h3]; simp
  obtain ⟨_, hd', _, hd2⟩ := arrivedCur_ne_nil o h hl hne
  have hq : o.Q = o.foc := by rw [h3] at hd2; exact (List.cons.inj hd2).2
  refine ⟨hd, o.Q, h3, Or.inl rfl, fun hb => ?_, fun _ => ⟨rfl, ?_⟩, fun he => by cases he⟩
  · rw [← h4] at hb; cases hb
  · show o.fuc ++ o.Q = o.foc
    rw [h2, hq]; rfl

theorem Post_finish_fail (o : Obs) (hp : Phase o (.finishing false)) :
    o.good = false ∧ Post { o with ps := .error, up := o.up ++ [.failure o.conn] } := by
  obtain ⟨h1, h2, hd, h3, h4⟩ := hp
  have hm : hd ∈ o.arrivedCur := by rw [h3]; simp
  have hm' : hd ∈ o.arrived := by
    simp only [arrivedCur, List.mem_filter] at hm; exact hm.1
  have hb : o.good = false := by
    cases hg : o.good with
    | false => rfl
    | true =>
      have hg' : o.arrived.all (·.good) = true := hg
      rw [List.all_eq_true] at hg'
      have := hg' hd hm'
      rw [← h4] at this; cases this
  refine ⟨hb, hd, o.Q, h3, Or.inr rfl, fun _ => ⟨rfl, ?_⟩, fun ht => (by cases ht), fun _ => hb⟩
  show _ ∈ o.up ++ [Up.failure o.conn]
  simp

end Obs
end Yow.HS
