/-
  Token conservation in the E2E system model, part 9: where the sending client takes a token from - a new submission, a
  continuation whose answer arrived, a retry request.
-/
import YowsupVerif.Lemmas.E2ETokSend
namespace Yow.E2E

/-- the fields of a client record the invariant reads, apart from `iqReg` -/
structure SameBut (c c1 : Client) : Prop where
  pend : c1.pendingIn = c.pendingIn
  shown : c1.shown = c.shown
  seen : c1.seen = c.seen
  seenSK : c1.seenSK = c.seenSK
  receipts : c1.receipts = c.receipts
  ownSK : c1.ownSK = c.ownSK
  sentQ : c1.sentQueue = c.sentQueue
  nextIq : c1.nextIq = c.nextIq

theorem SameBut.rfl' (c : Client) : SameBut c c := ⟨rfl, rfl, rfl, rfl, rfl, rfl, rfl, rfl⟩

theorem SameBut.trans {c c1 c2 : Client} (h1 : SameBut c c1) (h2 : SameBut c1 c2) : SameBut c c2 :=
  ⟨h2.pend.trans h1.pend, h2.shown.trans h1.shown, h2.seen.trans h1.seen, h2.seenSK.trans h1.seenSK,
   h2.receipts.trans h1.receipts, h2.ownSK.trans h1.ownSK, h2.sentQ.trans h1.sentQ, h2.nextIq.trans h1.nextIq⟩

def contNode : Cont → Option (Node × Option Acct)
  | .keysForSend n => some (n, none)
  | .groupInfo n => some (n, none)
  | .keysForGroup n _ _ => some (n, none)
  | .keysForRetry n w _ => some (n, some w)
  | .keysForPending _ _ => none

theorem contNode_tok {k : Cont} {n : Node} {who : Option Acct} (h : contNode k = some (n, who)) (id : Nat) (r : Acct) :
    contTok id r k = handTok n who id r := by
  cases k with
  | keysForSend m => cases h; simp [contTok, handTok]
  | groupInfo m => cases h; simp [contTok, handTok]
  | keysForGroup m a b => cases h; simp [contTok, handTok]
  | keysForRetry m w c =>
    cases h
    simp only [contTok, handTok]
    by_cases h2 : w = r <;> simp [h2]
  | keysForPending p q => cases h

theorem contNode_slot {k : Cont} {n : Node} {who : Option Acct} (h : contNode k = some (n, who)) (i : Nat) :
    slotTok i k = handSlot n who i := by
  cases k with
  | keysForSend m => cases h; simp [slotTok, handSlot]
  | groupInfo m => cases h; simp [slotTok, handSlot]
  | keysForGroup m a b => cases h; simp [slotTok, handSlot]
  | keysForRetry m w c => cases h; simp [slotTok, handSlot]
  | keysForPending p q => cases h

theorem contNode_first {k : Cont} {n : Node} {who : Option Acct} (h : contNode k = some (n, who)) {i : Nat}
    (hf : firstGroupCont k i) : n.id = i ∧ who = none := by
  cases k with
  | keysForSend m => cases hf
  | groupInfo m => cases h; exact ⟨hf, rfl⟩
  | keysForGroup m a b => cases h; exact ⟨hf, rfl⟩
  | keysForRetry m w c => cases hf
  | keysForPending p q => cases h

theorem contNode_sub {accts : List Acct} {groups : List (Nat × List Acct)} {sub : List (Acct × Node)} {a : Acct} {k : Cont}
    {n : Node} {who : Option Acct} (h : contNode k = some (n, who)) (hc : ContOK accts groups sub a k) :
    (a, n) ∈ sub ∧ ∀ w, who = some w → w ∈ intendedG groups a n := by
  cases k with
  | keysForSend m => cases h; exact ⟨hc, fun _ e => by cases e⟩
  | groupInfo m => cases h; exact ⟨hc, fun _ e => by cases e⟩
  | keysForGroup m a b => cases h; exact ⟨hc.1, fun _ e => by cases e⟩
  | keysForRetry m w c => cases h; exact ⟨hc.1, fun _ e => by cases e; exact hc.2⟩
  | keysForPending p q => cases h

section
variable {ex : Bool} {accts : List Acct} {groups : List (Nat × List Acct)}

theorem tokens_split (V : View) (a : Acct) (id : Nat) (r : Acct) :
    tokensV V a id r = contS id r (V.cl a).iqReg + inTransitV V a id r + shownC (V.cl r) id := by
  unfold tokensV inTransitV; omega

theorem contS_erase {l : List (Nat × Cont)} (hn : keysNodup l) {iq : Nat} {k0 : Cont} (hl : lookup l iq = some k0) (id : Nat) (r : Acct) :
    contS id r (erase l iq) + contTok id r k0 = contS id r l := by
  have := sumMap_erase hn (fun e => contTok id r e.2) iq
  rw [hl] at this
  exact this

theorem slotS_erase {l : List (Nat × Cont)} (hn : keysNodup l) {iq : Nat} {k0 : Cont} (hl : lookup l iq = some k0) (i : Nat) :
    slotS i (erase l iq) + slotTok i k0 = slotS i l := by
  have := sumMap_erase hn (fun e => slotTok i e.2) iq
  rw [hl] at this
  exact this

/-- the answer to an iq arrived and the continuation `k0` holding the token of `n` was taken out of the registry -/
theorem Src.ofCont {s : Sys} {x : Acct} {hd : Stanza} {rest : List Stanza} {iq : Nat} {k0 : Cont} {n : Node} {who : Option Acct}
    {c1 : Client}
    (hA : AInv accts groups (abs s)) (hT : TV ex accts groups s.submitted (view s)) (hx : x ∈ accts)
    (hq : (view s).outb x = hd :: rest) (hiq : stanzaIq hd = some iq)
    (hplain : ∀ id r, downTok id hd = 0 ∧ nOf id hd = 0 ∧ rcptOut id r hd = 0 ∧ retryDownTok id r hd = 0)
    (hk0 : lookup (getClient s x).iqReg iq = some k0) (hnode : contNode k0 = some (n, who))
    (hsame : SameBut (getClient s x) c1) (hreg : c1.iqReg = erase (getClient s x).iqReg iq) :
    Src accts groups s.submitted (view s) x [hd] rest c1 n who := by
  have hcg : ClientGood (view s).nextCtr (getClient s x) := hT.clients x
  have hmem0 : (iq, k0) ∈ (getClient s x).iqReg := lookup_mem hk0
  have hcont : ContOK accts groups s.submitted x k0 := (hA.client x).conts iq k0 hmem0
  obtain ⟨hnsub, _⟩ := contNode_sub hnode hcont
  have hrd : ∀ id r, sumMap (retryDownTok id r) [hd] = 0 := by
    intro id r; simp [(hplain id r).2.2.2]
  exact {
    hx := hx
    hq := hq
    uniq := fun n' hn' e => ((sub_unique hA hn' hnsub e).2)
    pend := hsame.pend
    shown := hsame.shown
    seen := hsame.seen
    seenSK := hsame.seenSK
    receipts := hsame.receipts
    ownSK := hsame.ownSK
    cons_plain := by
      intro st hst id r
      rw [List.mem_singleton] at hst; subst hst
      exact ⟨(hplain id r).1, (hplain id r).2.1, (hplain id r).2.2.1⟩
    conts := by
      intro e he
      rw [hreg] at he
      exact hcg.conts e (mem_erase he)
    iqKeys := by rw [hreg]; exact keysNodup_erase iq hcg.iqKeys
    iq_lt := by
      intro e he
      rw [hreg] at he
      rw [hsame.nextIq]
      exact (hA.client x).iq_lt e.1 e.2 (mem_erase he)
    tok := by
      intro n' _ r _
      rw [hrd, hreg, ← contNode_tok hnode]
      have := contS_erase hcg.iqKeys hk0 n'.id r
      show contS n'.id r (erase (getClient s x).iqReg iq) + _ = contS n'.id r (getClient s x).iqReg + 0
      omega
    slot := by
      intro i
      have h1 := hT.slots x i
      have h2 := slotS_erase hcg.iqKeys hk0 i
      unfold sendSlots at h1 ⊢
      rw [hreg, hsame.sentQ, ← contNode_slot hnode]
      have : (view s).cl x = getClient s x := rfl
      rw [this] at h1
      omega
    iq_sub := by
      intro e he
      rw [hreg] at he
      obtain ⟨h1, h2⟩ := mem_erase_iff.mp he
      refine ⟨h1, ?_⟩
      intro st hst
      rw [List.mem_singleton] at hst; subst hst
      rw [hiq]
      intro e'
      exact h2 (Option.some.inj e').symm
    pend_ok := by
      intro e he
      obtain ⟨k, hk, hkk⟩ := (hT.ans x).2 e he
      refine ⟨k, ?_, hkk⟩
      rw [hreg]
      refine mem_erase_iff.mpr ⟨hk, ?_⟩
      intro e'
      have := lookup_of_mem hcg.iqKeys hk
      rw [e'] at this
      have hk0' : lookup (getClient s x).iqReg iq = some k0 := hk0
      rw [hk0'] at this
      have : k0 = k.2 := Option.some.inj this
      rw [this, hkk] at hnode
      cases hnode
    kept := by
      intro n' hn' r hr
      rw [hrd, hsame.sentQ]
      exact hT.kept x n' hn' r hr
    kept_hand := by
      intro hn' r hr hh
      rw [hrd]
      have h1 := hT.cons x n hn' r hr
      rw [tokens_split] at h1
      have h2 : contTok n.id r k0 ≤ contS n.id r ((view s).cl x).iqReg :=
        sumMap_le_of_mem (f := fun e => contTok n.id r e.2) hmem0
      rw [contNode_tok hnode, hh] at h2
      omega
    ret3 := by
      intro n' hn' g hg
      rw [hsame.ownSK]
      rcases hT.ret3 x n' hn' g hg with h1 | ⟨e, he, hf⟩
      · exact Or.inl h1
      · by_cases hei : e.1 = iq
        · have := lookup_of_mem hcg.iqKeys he
          rw [hei] at this
          have hk0' : lookup (getClient s x).iqReg iq = some k0 := hk0
          rw [hk0'] at this
          have hek : k0 = e.2 := Option.some.inj this
          rw [← hek] at hf
          obtain ⟨f1, f2⟩ := contNode_first hnode hf
          exact Or.inr (Or.inr ⟨f1.symm, f2⟩)
        · exact Or.inr (Or.inl ⟨e, by rw [hreg]; exact mem_erase_iff.mpr ⟨he, hei⟩, hf⟩)
    retq := by
      intro e he n' w c hc hg
      rw [hreg] at he
      rw [hsame.sentQ]
      exact hT.retq x e (mem_erase he) n' w c hc hg }

end

end Yow.E2E
