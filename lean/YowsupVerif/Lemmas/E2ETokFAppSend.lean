/-
  Exactly-once with server faults, part 15: a submission keeps decryptability.
-/
import YowsupVerif.Lemmas.E2ETokFSendC
namespace Yow.E2E

theorem iqOf_eq_stanzaIq (st : Stanza) : iqOf st = stanzaIq st := by cases st <;> rfl

theorem CMono.of_cl {V V' : View} (h : V'.cl = V.cl) : CMono V V' := by
  intro z; rw [h]; exact CMonoC.rfl' _

section
variable {accts : List Acct} {groups : List (Nat × List Acct)}

/-- decryptability and key availability read the clients and the queues only -/
theorem DV.congr {V V' : View} (h : DV groups V) (hcl : V'.cl = V.cl) (hin : V'.inb = V.inb) (hout : V'.outb = V.outb) : DV groups V' := by
  have hm := CMono.of_cl hcl
  exact {
    p0 := by rw [hcl]; exact h.p0
    d2 := by rw [hcl]; exact h.d2
    up := by intro x st hst; rw [hin] at hst; exact (h.up x st hst).mono hm
    down := by intro y st hst; rw [hout] at hst; exact (h.down y st hst).mono hm
    g2 := by rw [hcl]; exact h.g2
    c1 := by rw [hcl, hin, hout]; exact h.c1
    c2 := by rw [hcl]; exact h.c2 }

theorem GV.congr {V V' : View} (h : GV groups V) (hcl : V'.cl = V.cl) (hin : V'.inb = V.inb) (hout : V'.outb = V.outb) : GV groups V' := by
  intro a g hown y hy hya
  rw [hcl] at hown
  have := h a g hown y hy hya
  unfold avail at this ⊢
  rw [hcl, hin, hout]
  exact this

/-- a client about to send, nothing consumed -/
theorem CSrc.ofSame {s : Sys} (hA : AInv accts groups (abs s)) {V : View} (hcl : V.cl = (view s).cl) (hin : V.inb = (view s).inb)
    (hout : V.outb = (view s).outb) (x : Acct) : CSrc groups V x [] (V.outb x) (V.cl x) := by
  have hcx : V.cl x = getClient s x := by rw [hcl]; rfl
  exact {
    hq := rfl
    cons_plain := fun st hst => by cases hst
    kmono := fun _ _ h => h
    smono := fun _ h => h
    d2 := fun _ _ h _ => h
    peerSK := rfl
    ownSK := rfl
    pend := rfl
    iq := fun _ h => h
    nextIq := rfl
    iq_lt := by rw [hcx]; exact fun e he => (hA.client x).iq_lt e.1 e.2 he
    link := by
      rw [hcx, hin, hout]
      intro st hst i hi
      rw [← iqOf_eq_stanzaIq] at hi
      rcases List.mem_append.mp hst with h1 | h1
      · exact ((hA.inb_ok x st h1).2.2 i hi).1
      · exact ((hA.outb_ok x st h1).2.2 i hi).1 }

theorem appSend_crypto {s : Sys} {a : Acct} {n : Node} (h : FInv accts groups s) (hall : Allowed s (.appSend a n) = true) :
    DV groups (view (step s (.appSend a n))) ∧ GV groups (view (step s (.appSend a n))) ∧ DeadOK (step s (.appSend a n)) := by
  have hA := h.ainv
  simp only [Allowed, Bool.and_eq_true, Bool.not_eq_true'] at hall
  obtain ⟨⟨hra, _⟩, _⟩ := hall
  have ha : a ∈ accts := (hA.reg a).mp hra
  have hacc : a ∈ (view s).accounts := by rw [← h.tv.acc] at ha; exact ha
  have hskip : (getClient s a).skipEnc = [] := (hA.client a).skip
  have hstep : step s (.appSend a n) = processPlaintext { s with submitted := s.submitted ++ [(a, n)] } a (getClient s a) n none := by
    simp only [step, sendLayerSend]
    have : getClient { s with submitted := s.submitted ++ [(a, n)] } a = getClient s a := rfl
    rw [this, hskip]
    simp
  have hfl : (step s (.appSend a n)).faulted = s.faulted := by
    show (sendLayerSend { s with submitted := s.submitted ++ [(a, n)] } a n).faulted = _
    exact (outbound_eq_of_frame (f := fun s => sendLayerSend s a n) (fun s o fl => sendLayerSend_wo s o fl a n) _).2
  -- the view the send layer starts from
  have hV : view { s with submitted := s.submitted ++ [(a, n)] } = (view s).addSub (a, n) := rfl
  have hD0 : DV groups ((view s).addSub (a, n)) := h.dv.congr rfl rfl rfl
  have hG0 : GV groups ((view s).addSub (a, n)) := h.gv.congr rfl rfl rfl
  have hsrc : CSrc groups ((view s).addSub (a, n)) a [] (((view s).addSub (a, n)).outb a) (getClient s a) :=
    CSrc.ofSame (V := (view s).addSub (a, n)) hA rfl rfl rfl a
  have hacc1 : a ∈ (view { s with submitted := s.submitted ++ [(a, n)] }).accounts := hacc
  have hpop : ((view s).addSub (a, n)).popOut a (((view s).addSub (a, n)).outb a) = (view s).addSub (a, n) := View.popOut_self _ _
  have hups : ∀ st' ∈ ((view s).addSub (a, n)).inb a, UpShape st' := fun st' hst' => (h.ups a st' hst').1
  have key : ∃ c' out k, view (processPlaintext { s with submitted := s.submitted ++ [(a, n)] } a (getClient s a) n none)
        = ((view s).addSub (a, n)).cstep a c' out k ∧
      c'.seen = (getClient s a).seen ∧ c'.seenSK = (getClient s a).seenSK ∧ c'.shown = (getClient s a).shown ∧
      c'.peerSK = (getClient s a).peerSK ∧ DV groups (((view s).addSub (a, n)).cstep a c' out k) ∧ GV groups (((view s).addSub (a, n)).cstep a c' out k) := by
    unfold processPlaintext
    split
    · next g hgd =>
      unfold sendToGroup
      split
      · next hnone =>
        have hv := view_sendIq { s with submitted := s.submitted ++ [(a, n)] } a (getClient s a) (fun iq => .getGroup iq g) (.groupInfo n) hacc1
        rw [hV] at hv
        have := hsrc.toCont hD0 hG0 (.groupInfo n) (.getGroup (getClient s a).nextIq g) (view s).nextCtr
          (fun _ _ _ _ _ _ e => by cases e) rfl (fun n' e => by cases e; exact ⟨g, hgd, rfl⟩) (fun _ _ _ e => by cases e)
          (fun _ _ e => by cases e)
        rw [hpop] at this
        exact ⟨_, _, _, hv, rfl, rfl, rfl, rfl, this.1, this.2⟩
      · next gen hsome =>
        obtain ⟨sk, l, kct, gen', hv, hs1, hs2, hs3, hk1, hk2, hk3, hk4, hl, _⟩ :=
          view_sgws_first_x { s with submitted := s.submitted ++ [(a, n)] } a (getClient s a) n g [] hacc1
        rw [hV] at hv
        have := hsrc.toGroup hD0 hG0 hgd (s.nextCtr + ([] : List Acct).length + 1) hups hs1 hs2 hs3 hk1 hk2 hk3 hk4
          (fun e he => by
            obtain ⟨j, se, e1, e2, e3, e4, e5, e6, e7, e8⟩ := hl e he
            exact ⟨j, se, e1, e3, e4, e5, e6, e7, e8⟩)
          (fun hno => by
            have : lookup (((view s).addSub (a, n)).cl a).ownSK g = some gen := hsome
            rw [this] at hno; cases hno)
        rw [hpop] at this
        exact ⟨_, _, _, hv, rfl, rfl, rfl, rfl, this.1, this.2⟩
    · next b hb =>
      split
      · next hsess =>
        obtain ⟨se, hse⟩ := Option.isSome_iff_exists.mp hsess
        have hv := view_sendToContact { s with submitted := s.submitted ++ [(a, n)] } a (getClient s a) n b se hacc1 hse
        rw [hV] at hv
        have := hsrc.toContact hD0 hG0 hb hse (s.nextCtr + 1)
          (ct := { kind := if se.pendingPre then .pkmsg else .msg, sess := se.cur, ctr := s.nextCtr,
                   plain := { skdm := none, content := some n.payload }, corrupt := false })
          rfl (by intro hk; dsimp only at hk; cases hp : se.pendingPre <;> simp_all) (by dsimp only; split <;> simp) rfl rfl
        rw [hpop] at this
        exact ⟨_, _, _, hv, rfl, rfl, rfl, rfl, this.1, this.2⟩
      · next hnosess =>
        have hv := view_sendIq { s with submitted := s.submitted ++ [(a, n)] } a (getClient s a) (fun iq => .getKeys iq [b]) (.keysForSend n) hacc1
        rw [hV] at hv
        have := hsrc.toCont hD0 hG0 (.keysForSend n) (.getKeys (getClient s a).nextIq [b]) (view s).nextCtr
          (fun _ _ _ _ _ _ e => by cases e) rfl (fun n' e => by cases e) (fun _ _ _ e => by cases e)
          (fun _ _ e => by cases e)
        rw [hpop] at this
        exact ⟨_, _, _, hv, rfl, rfl, rfl, rfl, this.1, this.2⟩
  obtain ⟨c', out, k, hv, h1, h2, h3, h4, hdv, hgv⟩ := key
  rw [hstep] at hfl ⊢
  refine ⟨by rw [hv]; exact hdv, by rw [hv]; exact hgv, ?_⟩
  refine deadOK_of_cl (x := a) (cons := []) (rest := queueOf s.outbound a) (c' := c') h.dead rfl ?_ ?_ h1 h2
    (fun id => Nat.le_of_eq (shownC_congr h3 id).symm) (fun p hp => by rw [hfl]; exact hp) h4
  · intro z
    have : (view (processPlaintext { s with submitted := s.submitted ++ [(a, n)] } a (getClient s a) n none)).cl z
        = upd (getClient s) a c' z := by rw [hv]; rfl
    exact this
  · intro z
    have : (view (processPlaintext { s with submitted := s.submitted ++ [(a, n)] } a (getClient s a) n none)).outb z
        = queueOf s.outbound z := by rw [hv]; rfl
    rw [show queueOf (processPlaintext { s with submitted := s.submitted ++ [(a, n)] } a (getClient s a) n none).outbound z
      = queueOf s.outbound z from this]
    split
    · next e => rw [e]
    · rfl

end

end Yow.E2E
