/-
  Token conservation in the E2E system model, part 6: the two usual kinds of client step.  A client acting as the sender
  of messages (nothing parked / shown / opened changes, no receipts go out, no message stanza is consumed) and a client
  acting as a recipient (its continuations keep their tokens, sent queue / receipts / sender keys unchanged, no message
  stanza goes out, no receipt is consumed).
-/
import YowsupVerif.Lemmas.E2ETokStep
namespace Yow.E2E

structure SenderStep (accts : List Acct) (groups : List (Nat × List Acct)) (L : List (Acct × Node)) (V : View) (x : Acct)
    (cons rest : List Stanza) (c' : Client) (out : List Stanza) (k : Nat) : Prop where
  hx : x ∈ accts
  hq : V.outb x = cons ++ rest
  hk : V.nextCtr ≤ k
  pend : c'.pendingIn = (V.cl x).pendingIn
  shown : c'.shown = (V.cl x).shown
  seen : c'.seen = (V.cl x).seen
  seenSK : c'.seenSK = (V.cl x).seenSK
  cons_plain : ∀ st ∈ cons, ∀ id, downTok id st = 0 ∧ nOf id st = 0
  out_plain : ∀ st ∈ out, ∀ id, retryUpTok id st = 0 ∧ rcptIn id st = 0
  conts : ∀ e ∈ c'.iqReg, ContShape e.2
  iqKeys : keysNodup c'.iqReg
  good_out : ∀ st ∈ out, UpGood k c' st
  cons_S : ∀ n, (x, n) ∈ L → ∀ r, r ∈ intendedG groups x n →
    contS n.id r c'.iqReg + sumMap (upTok n.id r) out = contS n.id r (V.cl x).iqReg + sumMap (retryDownTok n.id r) cons
  rcons_S : ∀ n, (x, n) ∈ L → ∀ r, r ∈ intendedG groups x n →
    rcptGot c' n.id r = rcptGot (V.cl x) n.id r + sumMap (rcptOut n.id r) cons
  ans_iq : ∀ e ∈ c'.iqReg, (e ∈ (V.cl x).iqReg ∧ ∀ st ∈ cons, stanzaIq st ≠ some e.1) ∨ ∃ st ∈ out, stanzaIq st = some e.1
  ans_pend : ∀ e ∈ (V.cl x).pendingIn, ∃ k ∈ c'.iqReg, k.2 = Cont.keysForPending e.1.1 e.1.2
  kept_S : ∀ n, (x, n) ∈ L → ∀ r, r ∈ intendedG groups x n →
    inTransitV V x n.id r + sumMap (upTok n.id r) out = sumMap (retryDownTok n.id r) cons ∨ n ∈ c'.sentQueue ∨
      100 < V.submitted.length
  ret3 : ∀ n, (x, n) ∈ L → ∀ g, n.dest = .group g →
    (lookup c'.ownSK g).isSome = true ∨ ∃ e ∈ c'.iqReg, firstGroupCont e.2 n.id
  slots : ∀ i, sendSlots c' i ≤ 1
  rids : ∀ e ∈ c'.receipts, ∃ p ∈ V.submitted, p.2.id = e.1
  retq : ∀ e ∈ c'.iqReg, ∀ n w c, e.2 = Cont.keysForRetry n w c → isGroupDest n.dest = true →
    n ∈ c'.sentQueue ∨ 100 < V.submitted.length
  unop_out : ∀ r, r ≠ x → ∀ n, sumMap (upN groups r n) out ≤ 1 ∧ (1 ≤ sumMap (upN groups r n) out → V.nextCtr ≤ n)

theorem shownC_congr {c c' : Client} (h : c'.shown = c.shown) (id : Nat) : shownC c' id = shownC c id := by
  unfold shownC; rw [h]

theorem SenderStep.toCStepOK {accts : List Acct} {groups : List (Nat × List Acct)} {L : List (Acct × Node)} {V : View} {x : Acct}
    {cons rest : List Stanza} {c' : Client} {out : List Stanza} {k : Nat}
    (h : TV ex accts groups L V) (hs : SenderStep accts groups L V x cons rest c' out k) :
    CStepOK accts groups L V x cons rest c' out k := by
  have hcg := (h.clients x).mono hs.hk
  have hz1 : ∀ id, sumMap (downTok id) cons = 0 := fun id => sumMap_eq_zero (fun st hst => (hs.cons_plain st hst id).1)
  have hz2 : ∀ id, sumMap (nOf id) cons = 0 := fun id => sumMap_eq_zero (fun st hst => (hs.cons_plain st hst id).2)
  have hz3 : ∀ id, sumMap (retryUpTok id) out = 0 := fun id => sumMap_eq_zero (fun st hst => (hs.out_plain st hst id).1)
  have hz4 : ∀ id, sumMap (rcptIn id) out = 0 := fun id => sumMap_eq_zero (fun st hst => (hs.out_plain st hst id).2)
  exact {
    hx := hs.hx
    hq := hs.hq
    hk := hs.hk
    shown_mono := fun id => Nat.le_of_eq (shownC_congr hs.shown id).symm
    good_c := {
      seen := by rw [hs.seen]; exact hcg.seen
      seenSK := by rw [hs.seenSK]; exact hcg.seenSK
      conts := hs.conts
      iqKeys := hs.iqKeys
      pendKeys := by rw [hs.pend]; exact hcg.pendKeys
      parked := by rw [hs.pend]; exact hcg.parked }
    good_out := hs.good_out
    cons_S := hs.cons_S
    cons_R := by
      intro a n _ _
      rw [hs.pend, hz1, hz3, shownC_congr hs.shown]
      omega
    rcons_S := hs.rcons_S
    rcons_R := by
      intro a n _ _
      rw [hz4, shownC_congr hs.shown]
      omega
    ans_iq := hs.ans_iq
    ans_pend := by rw [hs.pend]; exact hs.ans_pend
    kept_S := hs.kept_S
    kept_R := by
      intro a n _ _
      rw [hs.pend, hz1, hz3]
      omega
    ret3 := hs.ret3
    slots := hs.slots
    rids := hs.rids
    retq := hs.retq
    unop_out := hs.unop_out
    unop_pend := by intro n; rw [hs.pend]; omega
    unop_seen := by
      intro n hn
      rw [hs.seen, hs.seenSK] at hn
      exact Or.inl hn }

structure RecipStep (accts : List Acct) (groups : List (Nat × List Acct)) (L : List (Acct × Node)) (V : View) (x : Acct)
    (cons rest : List Stanza) (c' : Client) (out : List Stanza) (k : Nat) : Prop where
  hx : x ∈ accts
  hq : V.outb x = cons ++ rest
  hk : V.nextCtr ≤ k
  sentQ : c'.sentQueue = (V.cl x).sentQueue
  receipts : c'.receipts = (V.cl x).receipts
  ownSK : c'.ownSK = (V.cl x).ownSK
  contS_eq : ∀ id r, contS id r c'.iqReg = contS id r (V.cl x).iqReg
  slot_eq : ∀ i, slotS i c'.iqReg = slotS i (V.cl x).iqReg
  first_keep : ∀ e ∈ (V.cl x).iqReg, ∀ i, firstGroupCont e.2 i → e ∈ c'.iqReg
  iq_new : ∀ e ∈ c'.iqReg, e ∈ (V.cl x).iqReg ∨ ∃ p q, e.2 = Cont.keysForPending p q
  cons_plain : ∀ st ∈ cons, ∀ id r, retryDownTok id r st = 0 ∧ rcptOut id r st = 0
  out_plain : ∀ st ∈ out, ∀ id r, upTok id r st = 0 ∧ upN groups r id st = 0
  shown_mono : ∀ id, shownC (V.cl x) id ≤ shownC c' id
  good_c : ClientGood k c'
  good_out : ∀ st ∈ out, UpGood k c' st
  cons_R : ∀ a n, (a, n) ∈ L → x ∈ intendedG groups a n →
    pendS n.id c'.pendingIn + sumMap (retryUpTok n.id) out + shownC c' n.id
      = sumMap (downTok n.id) cons + pendS n.id (V.cl x).pendingIn + shownC (V.cl x) n.id
  rcons_R : ∀ a n, (a, n) ∈ L → x ∈ intendedG groups a n → sumMap (rcptIn n.id) out + shownC (V.cl x) n.id = shownC c' n.id
  ans_iq : ∀ e ∈ c'.iqReg, (e ∈ (V.cl x).iqReg ∧ ∀ st ∈ cons, stanzaIq st ≠ some e.1) ∨ ∃ st ∈ out, stanzaIq st = some e.1
  ans_pend : ∀ e ∈ c'.pendingIn, ∃ k ∈ c'.iqReg, k.2 = Cont.keysForPending e.1.1 e.1.2
  kept_R : ∀ a n, (a, n) ∈ L → x ∈ intendedG groups a n →
    pendS n.id c'.pendingIn + sumMap (retryUpTok n.id) out ≤ sumMap (downTok n.id) cons + pendS n.id (V.cl x).pendingIn
  unop_pend : ∀ n, pendN n c'.pendingIn ≤ sumMap (nOf n) cons + pendN n (V.cl x).pendingIn
  unop_seen : ∀ n, (n ∈ c'.seen.map Prod.snd ∨ n ∈ c'.seenSK.map Prod.snd) →
    (n ∈ (V.cl x).seen.map Prod.snd ∨ n ∈ (V.cl x).seenSK.map Prod.snd) ∨
      pendN n c'.pendingIn + 1 ≤ sumMap (nOf n) cons + pendN n (V.cl x).pendingIn

theorem RecipStep.toCStepOK {accts : List Acct} {groups : List (Nat × List Acct)} {L : List (Acct × Node)} {V : View} {x : Acct}
    {cons rest : List Stanza} {c' : Client} {out : List Stanza} {k : Nat}
    (h : TV ex accts groups L V) (hs : RecipStep accts groups L V x cons rest c' out k) :
    CStepOK accts groups L V x cons rest c' out k := by
  have hz1 : ∀ id r, sumMap (retryDownTok id r) cons = 0 := fun id r => sumMap_eq_zero (fun st hst => (hs.cons_plain st hst id r).1)
  have hz2 : ∀ id r, sumMap (rcptOut id r) cons = 0 := fun id r => sumMap_eq_zero (fun st hst => (hs.cons_plain st hst id r).2)
  have hz3 : ∀ id r, sumMap (upTok id r) out = 0 := fun id r => sumMap_eq_zero (fun st hst => (hs.out_plain st hst id r).1)
  have hz4 : ∀ id r, sumMap (upN groups r id) out = 0 := fun id r => sumMap_eq_zero (fun st hst => (hs.out_plain st hst id r).2)
  exact {
    hx := hs.hx
    hq := hs.hq
    hk := hs.hk
    shown_mono := hs.shown_mono
    good_c := hs.good_c
    good_out := hs.good_out
    cons_S := by
      intro n _ r _
      rw [hs.contS_eq, hz1, hz3]
    cons_R := hs.cons_R
    rcons_S := by
      intro n _ r _
      rw [hz2]
      unfold rcptGot
      rw [hs.receipts]
      omega
    rcons_R := hs.rcons_R
    ans_iq := hs.ans_iq
    ans_pend := hs.ans_pend
    kept_S := by
      intro n hn r hr
      rw [hz1, hz3, hs.sentQ]
      exact h.kept x n hn r hr
    kept_R := hs.kept_R
    ret3 := by
      intro n hn g hg
      rw [hs.ownSK]
      rcases h.ret3 x n hn g hg with h1 | ⟨e, he, hf⟩
      · exact Or.inl h1
      · exact Or.inr ⟨e, hs.first_keep e he _ hf, hf⟩
    slots := by
      intro i
      have := h.slots x i
      unfold sendSlots at this ⊢
      rw [hs.slot_eq, hs.sentQ]
      exact this
    rids := by rw [hs.receipts]; exact h.rids x
    retq := by
      intro e he n w c hc hg
      rw [hs.sentQ]
      rcases hs.iq_new e he with h1 | ⟨p, q, h1⟩
      · exact h.retq x e h1 n w c hc hg
      · rw [h1] at hc; cases hc
    unop_out := by
      intro r _ n
      rw [hz4]
      exact ⟨by omega, fun hh => by omega⟩
    unop_pend := hs.unop_pend
    unop_seen := hs.unop_seen }

end Yow.E2E
