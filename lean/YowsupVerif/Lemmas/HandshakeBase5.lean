/-
  Base lemmas for Lemmas/Handshake.lean: the invariant is preserved by the network thread's actions.
-/
import YowsupVerif.Lemmas.HandshakeBase4
namespace Yow.HS
open Obs

/-! ### how the observable part follows the tables -/

theorem obs_queues_cur (s : St) (l : List Seg) :
    obs { s with queues := qSetL s.queues s.curQ l } = { obs s with Q := l } := by
  show Obs.mk _ _ (qGetL (qSetL s.queues s.curQ l) s.curQ) _ _ _ _ _ _ = _
  rw [qGetL_qSetL, if_pos rfl]; rfl

theorem obs_queues_other (s : St) (q : Nat) (l : List Seg) (hq : q ≠ s.curQ) :
    obs { s with queues := qSetL s.queues q l } = obs s := by
  show Obs.mk _ _ (qGetL (qSetL s.queues q l) s.curQ) _ _ _ _ _ _ = _
  rw [qGetL_qSetL, if_neg (fun e => hq e.symm)]; rfl

theorem obs_protos_cur (s : St) (x : Proto) (h : s.curP < s.protos.length) :
    obs { s with protos := s.protos.set s.curP x } = { obs s with ps := x.state, key := x.keyOf } := by
  show Obs.mk ((s.protos.set s.curP x).getD s.curP {}).state ((s.protos.set s.curP x).getD s.curP {}).keyOf _ _ _ _ _ _ _ = _
  rw [getD_set, if_pos ⟨rfl, h⟩]; rfl

theorem obs_protos_other (s : St) (p : Nat) (x : Proto) (hp : p ≠ s.curP) :
    obs { s with protos := s.protos.set p x } = obs s := by
  show Obs.mk ((s.protos.set p x).getD s.curP {}).state ((s.protos.set p x).getD s.curP {}).keyOf _ _ _ _ _ _ _ = _
  rw [getD_set, if_neg (fun e => hp e.1)]; rfl

/-! ### who will flush -/

theorem Pend_of_npc (s : St) (h : s.npc ≠ .idle) : Pend s := fun _ _ => Or.inl h
theorem Pend_of_ps (s : St) (h : pstate s ≠ .transport) : Pend s := fun _ ht => absurd ht h
theorem Pend_of_empty (s : St) (h : qGetL s.queues s.curQ = []) : Pend s := fun hq _ => absurd h hq
theorem Pend_of_worker (s : St) (i : Nat) (w : Worker) (hi : s.workers[i]? = some w) (hpc : w.pc = .wantFlush ∨ w.pc = .inFlush) :
    Pend s := fun _ _ => Or.inr ⟨i, w, hi, hpc⟩

theorem Pend_setW (s s' : St) (i : Nat) (w : Worker) (pc' : WPc) (h : Pend s) (hi : s.workers[i]? = some w)
    (hw : s'.workers = s.workers.set i { w with pc := pc' }) (hnpc : s'.npc = s.npc)
    (hkeep : (w.pc = .wantFlush ∨ w.pc = .inFlush) → (pc' = .wantFlush ∨ pc' = .inFlush))
    (hq : qGetL s'.queues s'.curQ = qGetL s.queues s.curQ) (hps : pstate s' = pstate s) : Pend s' := by
  intro h1 h2
  rw [hq] at h1; rw [hps] at h2
  rcases h h1 h2 with h3 | ⟨j, wj, hj, hpc⟩
  · exact Or.inl (by rw [hnpc]; exact h3)
  · right
    have hil : i < s.workers.length := by
      rcases Nat.lt_or_ge i s.workers.length with hl | hl
      · exact hl
      · rw [List.getElem?_eq_none hl] at hi; cases hi
    by_cases hji : j = i
    · subst hji
      rw [hi] at hj; cases hj
      refine ⟨j, { w with pc := pc' }, ?_, hkeep hpc⟩
      rw [hw, List.getElem?_set_self hil]
    · refine ⟨j, wj, ?_, hpc⟩
      rw [hw, List.getElem?_set_ne (fun e => hji e.symm)]; exact hj

/-! ### facts about the live connection -/

theorem Inv.live_of_npc {s : St} (h : Inv s) (hn : s.npc ≠ .idle) (hn2 : s.npc ≠ .inFlush) : s.live = true := by
  cases hl : s.live with
  | true => rfl
  | false =>
    rcases (h.env.notLive hl).1 with h1 | h1
    · exact absurd h1 hn
    · exact absurd h1 hn2

/-- something waits in the current queue: a connection is up (a disconnect leaves a fresh, empty queue) -/
theorem Inv.live_of_queue {s : St} (h : Inv s) (hq : qGetL s.queues s.curQ ≠ []) : s.live = true := by
  cases hl : s.live with
  | true => rfl
  | false => exact absurd (h.env.notLive hl).2.2 hq

theorem Inv.post_of_not_hs {s : St} (h : Inv s) (hl : s.live = true) (hps : pstate s ≠ .handshake) : Post (obs s) := by
  obtain ⟨pc, hp⟩ := h.cur_phase hl
  cases pc with
  | reading => exact absurd hp.1 hps
  | finishing ok => exact absurd hp.1 hps
  | wantFlush => exact hp
  | inFlush => exact hp
  | done => exact hp

theorem Inv.bad_of_not_transport {s : St} (h : Inv s) (hl : s.live = true) (hps : pstate s ≠ .handshake)
    (hpt : pstate s ≠ .transport) : (obs s).good = false := by
  obtain ⟨_, _, _, h2, _, _, h5⟩ := h.post_of_not_hs hl hps
  rcases h2 with h2 | h2
  · exact absurd h2 hpt
  · exact h5 h2

/-! ### trivial steps -/

theorem Inv_net_check_hs (s : St) (h : Inv s) (hp : pstate s = .handshake) : Inv { s with npc := .idle } := by
  refine Inv_of_same_workers s _ h rfl rfl h.st.qk rfl rfl rfl rfl rfl (fun _ pc hpc => (Phase_npc (obs s) .idle pc).mpr hpc) ?_ ?_
  · exact Env_npc (obs s) .idle h.env (fun _ => Or.inl rfl) (fun hx => by simp at hx)
  · exact Pend_of_ps _ (by show pstate s ≠ _; rw [hp]; simp)

theorem Inv_net_check_other (s : St) (h : Inv s) (hn : s.npc = .check) (hp : pstate s ≠ .handshake) :
    Inv { s with npc := .wantFlush } := by
  have hl := h.live_of_npc (by rw [hn]; simp) (by rw [hn]; simp)
  refine Inv_of_same_workers s _ h rfl rfl h.st.qk rfl rfl rfl rfl rfl (fun _ pc hpc => (Phase_npc (obs s) .wantFlush pc).mpr hpc) ?_ ?_
  · exact Env_npc (obs s) .wantFlush h.env (fun hf => by rw [show (obs s).live = s.live from rfl, hl] at hf; cases hf) (fun _ => hp)
  · exact Pend_of_npc _ (by simp)

theorem Inv_net_want_free (s : St) (h : Inv s) (hn : s.npc = .wantFlush) :
    Inv { s with flushHeld := true, npc := .inFlush } := by
  refine Inv_of_same_workers s _ h rfl rfl h.st.qk rfl rfl rfl rfl rfl (fun _ pc hpc => (Phase_npc (obs s) .inFlush pc).mpr hpc) ?_ ?_
  · exact Env_npc (obs s) .inFlush h.env (fun _ => Or.inr rfl)
      (fun _ => h.env.netFlush (Or.inl hn))
  · exact Pend_of_npc _ (by simp)

/-! ### one iteration of the flush loop, by whichever thread -/

theorem Inv_deliver (s : St) (h : Inv s) (sg : Seg) (rest : List Seg) (hQ : qGetL s.queues s.curQ = sg :: rest)
    (hpt : pstate s = .transport)
    (hf : s.npc ≠ .idle ∨ ∃ (i : Nat) (w : Worker), s.workers[i]? = some w ∧ (w.pc = .wantFlush ∨ w.pc = .inFlush)) :
    Inv { s with queues := qSetL s.queues s.curQ rest, up := s.up ++ [.frame sg] } := by
  have ho : obs { s with queues := qSetL s.queues s.curQ rest, up := s.up ++ [.frame sg] } =
      { obs s with Q := rest, up := (obs s).up ++ [.frame sg] } :=
    congrArg (fun o : Obs => { o with up := s.up ++ [Up.frame sg] }) (obs_queues_cur s rest)
  have hpost := h.post_of_transport hpt
  refine Inv_of_same_workers s _ h rfl (qSetL_length _ _ _ h.st.qk h.curQ_lt) (QK_qSetL _ _ _ h.st.qk h.curQ_lt)
    rfl rfl rfl rfl rfl ?_ ?_ (fun _ _ => hf)
  · intro _ pc hpc
    rw [ho]; exact Phase_deliver (obs s) sg rest hQ hpt pc hpc
  · rw [ho]; exact Env_deliver (obs s) sg rest h.env hQ hpt hpost

/-- the state after a frame that does not decrypt was consumed -/
theorem obs_undec (s : St) (h : Inv s) (rest : List Seg) :
    obs { s with queues := qSetL s.queues s.curQ rest, protos := s.protos.set s.curP { pGet s s.curP with state := .error } } =
      { obs s with ps := .error, key := (obs s).key, Q := rest } := by
  have h1 := obs_queues_cur { s with protos := s.protos.set s.curP { pGet s s.curP with state := .error } } rest
  have h2 := obs_protos_cur s { pGet s s.curP with state := .error } h.curP_lt
  exact h1.trans (congrArg (fun o : Obs => { o with Q := rest }) h2)

theorem Inv_net_flush (cfg : Cfg) (s : St) (h : Inv s) (hn : s.npc = .inFlush) : Inv (step cfg s .net) := by
  have hnh : pstate s ≠ .handshake := h.env.netFlush (Or.inr hn)
  cases hQ : qGetL s.queues s.curQ with
  | nil =>
    rw [step_net_flush_empty cfg s s hn (flushOne_empty s hQ)]
    refine Inv_of_same_workers s _ h rfl rfl h.st.qk rfl rfl rfl rfl rfl (fun _ pc hpc => (Phase_npc (obs s) .idle pc).mpr hpc) ?_ ?_
    · exact Env_npc (obs s) .idle h.env (fun _ => Or.inl rfl) (fun hx => by simp at hx)
    · exact Pend_of_empty _ hQ
  | cons sg rest =>
    have hl : s.live = true := h.live_of_queue (by rw [hQ]; simp)
    by_cases hpt : pstate s = .transport
    · cases hc : (sg.kind == .frame && sg.good && keyOf s == some sg.conn) with
      | true =>
        rw [step_net_flush_delivered cfg s _ hn (flushOne_delivered s sg rest hQ hpt hc)]
        exact Inv_deliver s h sg rest hQ hpt (Or.inl (by rw [hn]; simp))
      | false =>
        rw [step_net_flush_undec cfg s _ hn (flushOne_undec s sg rest hQ hpt hc)]
        have hb := bad_of_undecryptable (obs s) sg rest hQ hpt (h.post_of_transport hpt) hc
        have ho := obs_undec s h rest
        have ho' : obs { ({ s with queues := qSetL s.queues s.curQ rest,
                                   protos := s.protos.set s.curP { pGet s s.curP with state := .error } } : St) with
                         flushHeld := false, npc := .idle, up := s.up ++ [.raised] } =
            { ({ ({ obs s with ps := .error, key := (obs s).key, Q := rest } : Obs) with npc := .idle } : Obs) with
                up := (obs s).up ++ [.raised] } :=
          congrArg (fun o : Obs => { o with npc := .idle, up := s.up ++ [Up.raised] }) ho
        have he1 : Env ({ obs s with ps := .error, key := (obs s).key, Q := rest } : Obs) :=
          Env_cur (obs s) .error _ rest h.env hl (fun _ => by simp)
        have he2 := Env_npc _ .idle he1 (fun _ => Or.inl rfl) (fun hx => by simp at hx)
        have he3 := Env_up_other _ .raised he2 (fun _ => by simp) (fun _ => hb)
        refine Inv_of_same_workers s _ h (by simp) (qSetL_length _ _ _ h.st.qk h.curQ_lt) (QK_qSetL _ _ _ h.st.qk h.curQ_lt)
          rfl rfl rfl rfl rfl ?_ ?_ ?_
        · intro _ pc hpc
          rw [ho']
          exact Phase_up_other _ .raised (fun _ => by simp) pc
            ((Phase_npc _ .idle pc).mpr (Phase_error (obs s) rest hpt hb pc hpc))
        · rw [ho']; exact he3
        · apply Pend_of_ps
          have : (obs { ({ s with queues := qSetL s.queues s.curQ rest,
                                   protos := s.protos.set s.curP { pGet s s.curP with state := .error } } : St) with
                         flushHeld := false, npc := .idle, up := s.up ++ [.raised] }).ps = .error := by rw [ho']
          intro hx; rw [show pstate _ = Obs.ps (obs _) from rfl, this] at hx; cases hx
    · rw [step_net_flush_refused cfg s s hn (flushOne_refused s sg rest hQ hpt)]
      have hb := h.bad_of_not_transport hl hnh hpt
      have he2 := Env_npc _ .idle h.env (fun _ => Or.inl rfl) (fun hx => by simp at hx)
      have he3 := Env_up_other _ .raised he2 (fun _ => by simp) (fun _ => hb)
      refine Inv_of_same_workers s _ h rfl rfl h.st.qk rfl rfl rfl rfl rfl ?_ he3 (Pend_of_ps _ hpt)
      intro _ pc hpc
      exact Phase_up_other _ .raised (fun _ => by simp) pc ((Phase_npc _ .idle pc).mpr hpc)

/-! ### a segment arrives -/

theorem Inv_arrive (cfg : Cfg) (s : St) (sg : Seg) (h : Inv s) (ha : Allowed s (.arrive sg) = true) :
    Inv (step cfg s (.arrive sg)) := by
  simp only [Allowed, Bool.and_eq_true, beq_iff_eq, decide_eq_true_eq] at ha
  obtain ⟨⟨⟨⟨hn, hl⟩, hc⟩, _⟩, hk⟩ := ha
  have hk' : (sg.kind = .hello ∧ (obs s).helloSeen = false) ∨ (sg.kind = .frame ∧ (obs s).helloSeen = true) := by
    cases hkk : sg.kind with
    | hello => rw [hkk] at hk; exact Or.inl ⟨rfl, show s.helloSeen = false by simpa using hk⟩
    | frame => rw [hkk] at hk; exact Or.inr ⟨rfl, hk⟩
  rw [step_arrive cfg s sg hn]
  have ho : obs { s with queues := qSetL s.queues s.curQ (qGetL s.queues s.curQ ++ [sg]), npc := .check,
                         arrived := s.arrived ++ [sg], lastSerial := sg.serial,
                         helloSeen := s.helloSeen || sg.kind == .hello } = arriveO (obs s) sg :=
    congrArg (fun o : Obs => { o with npc := .check, arrived := s.arrived ++ [sg], helloSeen := s.helloSeen || sg.kind == SKind.hello })
      (obs_queues_cur s (qGetL s.queues s.curQ ++ [sg]))
  refine Inv_of_same_workers s _ h rfl (qSetL_length _ _ _ h.st.qk h.curQ_lt) (QK_qSetL _ _ _ h.st.qk h.curQ_lt)
    rfl rfl rfl rfl rfl ?_ ?_ (Pend_of_npc _ (by simp))
  · intro _ pc hpc
    rw [ho]; exact Phase_arrive (obs s) sg h.env hl hc hk' pc hpc
  · rw [ho]; exact Env_arrive (obs s) sg h.env hl hc hk'

/-! ### connect / disconnect -/

theorem Inv_connect (cfg : Cfg) (s : St) (h : Inv s) (ha : Allowed s .connect = true) : Inv (step cfg s .connect) := by
  simp only [Allowed, Bool.and_eq_true, beq_iff_eq, Bool.not_eq_true'] at ha
  obtain ⟨hn, hl⟩ := ha
  have hnl := h.env.notLive hl
  have hps : pstate s ≠ .handshake := by
    have : pstate s = .init := hnl.2.1
    rw [this]; simp
  rw [step_connect cfg s hn hps]
  have ho : obs { s with conn := s.conn + 1, live := true, helloSeen := false,
                         protos := s.protos.set s.curP { state := .handshake, keyOf := none },
                         workers := s.workers ++ [{ conn := s.conn + 1, q := s.curQ, p := s.curP, pc := .reading }] } =
      { obs s with conn := (obs s).conn + 1, live := true, helloSeen := false, ps := .handshake, key := none } :=
    congrArg (fun o : Obs => { o with conn := s.conn + 1, live := true, helloSeen := false })
      (obs_protos_cur s { state := .handshake, keyOf := none } h.curP_lt)
  obtain ⟨he, hph⟩ := Env_connect (obs s) h.env hl hn
  have hwl := h.st.wl
  refine ⟨⟨?_, h.st.sq, h.st.qk, ?_, ?_, ?_, ?_⟩, ?_, ?_, ?_⟩
  · show s.curP + 1 = (s.protos.set s.curP _).length
    rw [List.length_set]; exact h.st.sp
  · show (s.workers ++ [_]).length = s.conn + 1
    simp [hwl]
  · intro j w' hj
    rcases getElem?_append_single_some _ _ _ _ hj with ⟨h1, h2⟩ | ⟨_, h2⟩
    · subst h2; show s.conn + 1 = j + 1; omega
    · exact h.st.wk j w' h2
  · intro j w' hj hnc
    rcases getElem?_append_single_some _ _ _ _ hj with ⟨h1, _⟩ | ⟨_, h2⟩
    · exact absurd ⟨rfl, show j + 1 = s.conn + 1 by omega⟩ hnc
    · exact h.st.stale j w' h2 (fun hc => by rw [hl] at hc; cases hc.1)
  · intro j w' hj _ hc
    have hc' : j + 1 = s.conn + 1 := hc
    rcases getElem?_append_single_some _ _ _ _ hj with ⟨_, h2⟩ | ⟨h1, _⟩
    · subst h2; exact ⟨rfl, rfl⟩
    · omega
  · rw [ho]; exact he
  · intro j w' hj _ hc
    have hc' : j + 1 = s.conn + 1 := hc
    rcases getElem?_append_single_some _ _ _ _ hj with ⟨_, h2⟩ | ⟨h1, _⟩
    · subst h2; rw [ho]; exact hph
    · omega
  · apply Pend_of_ps
    have : (obs { s with conn := s.conn + 1, live := true, helloSeen := false,
                         protos := s.protos.set s.curP { state := .handshake, keyOf := none },
                         workers := s.workers ++ [{ conn := s.conn + 1, q := s.curQ, p := s.curP, pc := .reading }] }).ps
        = .handshake := by rw [ho]
    intro hx; rw [show pstate _ = Obs.ps (obs _) from rfl, this] at hx; cases hx

theorem Inv_disconnect (s : St) (h : Inv s) (ha : Allowed s .disconnect = true) :
    Inv (step { freshQueue := true, freshProtocol := true, segReset := true } s .disconnect) := by
  simp only [Allowed, Bool.and_eq_true, Bool.or_eq_true, beq_iff_eq] at ha
  obtain ⟨hn, hl⟩ := ha
  rw [step_disconnect s hn]
  have hQ : qGetL (s.queues ++ [(s.queues.length, [])]) s.queues.length = [] := by
    rw [qGetL_append_new _ h.st.qk, qGetL_length _ h.st.qk]
  have ho : obs { s with live := false, curP := s.protos.length, protos := s.protos ++ [{}], curQ := s.queues.length,
                         queues := s.queues ++ [(s.queues.length, [])] } =
      { obs s with live := false, ps := .init, key := none, Q := [] } := by
    show Obs.mk ((s.protos ++ [({} : Proto)]).getD s.protos.length {}).state ((s.protos ++ [({} : Proto)]).getD s.protos.length {}).keyOf
      (qGetL (s.queues ++ [(s.queues.length, [])]) s.queues.length) _ _ _ _ _ _ = _
    rw [getD_append_new, hQ]; rfl
  have hsp := h.st.sp
  have hsq := h.st.sq
  refine ⟨⟨?_, ?_, QK_append _ _ h.st.qk, h.st.wl, h.st.wk, ?_, ?_⟩, ?_, ?_, Pend_of_empty _ hQ⟩
  · show s.protos.length + 1 = (s.protos ++ [({} : Proto)]).length
    simp
  · show s.queues.length + 1 = (s.queues ++ [(s.queues.length, [])]).length
    simp
  · intro j w hj _
    show w.p < s.protos.length ∧ w.q < s.queues.length
    by_cases hc : s.live = true ∧ j + 1 = s.conn
    · have := h.st.cur j w hj hc.1 hc.2; omega
    · have := h.st.stale j w hj hc; omega
  · intro j w _ hx; cases hx
  · rw [ho]; exact Env_disconnect (obs s) h.env hn
  · intro j w _ hx; cases hx

end Yow.HS
