/-
  Token conservation in the E2E system model, part 22: the invariant holds initially and along every allowed fault-free
  run with at most 100 submissions.
-/
import YowsupVerif.Lemmas.E2ETokRestart
import YowsupVerif.Lemmas.E2ETokServer
namespace Yow.E2E

/-- number of submissions in an action list (the same function as `sendCount` of Lemmas/E2ETokens.lean) -/
def sendCountAux : List Act → Nat
  | [] => 0
  | .appSend _ _ :: as => sendCountAux as + 1
  | _ :: as => sendCountAux as

section
variable {ex : Bool} {accts : List Acct} {groups : List (Nat × List Acct)}

theorem init_TInv (hw : WFConfig accts groups) : TInv ex accts groups (initSys accts groups) := by
  refine ⟨init_inv accts groups hw, ?_⟩
  have hcl : ∀ r, (view (initSys accts groups)).cl r = {} := fun r => getClient_init accts groups r
  have hin : ∀ r, (view (initSys accts groups)).inb r = [] := fun r => rfl
  have hout : ∀ r, (view (initSys accts groups)).outb r = [] := fun r => rfl
  exact {
    acc := by simp [view, initSys, List.map_map, Function.comp_def]
    grp := rfl
    clients := by
      intro r; rw [hcl]
      exact ⟨(fun e he => by cases he), (fun e he => by cases he), (fun e he => by cases he), keysNodup_nil, keysNodup_nil,
        (fun e he => by cases he)⟩
    ups := by intro r st hst; rw [hin] at hst; cases hst
    downs := by intro r st hst; rw [hout] at hst; cases hst
    neq := fun a n hn => by cases hn
    cons := fun a n hn => by cases hn
    rcons := fun a n hn => by cases hn
    ans := by
      intro r; rw [hcl]
      exact ⟨(fun e he => by cases he), (fun e he => by cases he)⟩
    unop := by
      intro r _ x
      have : wayV accts (view (initSys accts groups)) r x = 0 := by
        unfold wayV
        rw [hout, hcl]
        have : sumMap (fun a => if a = r then 0 else sumMap (upN (view (initSys accts groups)).groups r x)
            ((view (initSys accts groups)).inb a)) accts = 0 := by
          apply sumMap_eq_zero
          intro a _
          rw [hin]
          simp
        rw [this]
        rfl
      rw [this]
      exact ⟨by omega, fun h => by omega⟩
    kept := fun a n hn => by cases hn
    ret3 := fun a n hn => by cases hn
    slots := by intro a i; rw [hcl]; simp [sendSlots, slotS, sentS]
    rids := by intro r e he; rw [hcl] at he; cases he
    retq := by intro a e he; rw [hcl] at he; cases he }

theorem step_submitted_len {s : Sys} {act : Act} (hA : AInv accts groups (abs s)) (hall : Allowed s act = true) :
    (step s act).submitted.length = s.submitted.length + (match act with | .appSend _ _ => 1 | _ => 0) := by
  cases act with
  | appSend a n =>
    simp only [Allowed, Bool.and_eq_true, Bool.not_eq_true'] at hall
    obtain ⟨⟨hra, hid⟩, hdest⟩ := hall
    have ha : a ∈ accts := (hA.reg a).mp hra
    have hg : s.groups = groups := hA.grp
    have hadd : AInv accts groups (abs { s with submitted := s.submitted ++ [(a, n)] }) := by
      rw [abs_addSub]
      refine hA.addSub ha ?_ ?_
      · intro r hr
        unfold intendedG at hr
        split at hdest
        · next b hb =>
          rw [hb] at hr
          simp only [List.mem_singleton] at hr
          subst hr
          simp only [Bool.and_eq_true] at hdest
          exact (hA.reg r).mp hdest.1
        · next g hgd =>
          rw [hgd] at hr
          simp only [Bool.and_eq_true, List.all_eq_true] at hdest
          have hr' := (List.mem_filter.mp hr).1
          rw [← hg] at hr'
          exact (hA.reg r).mp (hdest.2 r hr')
      · intro p hp e
        have : n.id ∈ usedIds s := List.mem_map.mpr ⟨p, hp, e⟩
        have hc : (usedIds s).contains n.id = true := by simpa using this
        rw [hc] at hid
        cases hid
    have := (sendLayerSend_good (s := { s with submitted := s.submitted ++ [(a, n)] }) (n := n) hadd ha (by simp)).2
    have e : (step s (.appSend a n)).submitted = s.submitted ++ [(a, n)] := this
    rw [e]; simp
  | process a =>
    simp only [step]
    split
    · rfl
    · next st rest heq =>
      have hmem : st ∈ (abs s).inb a := by
        show st ∈ queueOf s.inbound a
        rw [heq]; simp
      obtain ⟨ha, hu, hl⟩ := hA.inb_ok a st hmem
      have h' : AInv accts groups (abs { s with inbound := insert s.inbound a rest }) := by
        rw [abs_setInbound]
        refine hA.setInb ?_
        intro st' hst'
        show st' ∈ queueOf s.inbound a
        rw [heq]; exact List.mem_cons_of_mem _ hst'
      have hsub : (serverProcess { s with inbound := insert s.inbound a rest } a st).submitted = s.submitted :=
        (serverProcess_good (s := { s with inbound := insert s.inbound a rest }) h' ha hu (by rw [abs_setInbound]; exact hl)).2
      rw [hsub]; rfl
  | deliver a f =>
    simp only [step]
    split
    · rfl
    · next st rest heq =>
      have hmem : st ∈ (abs s).outb a := by
        show st ∈ queueOf s.outbound a
        rw [heq]; simp
      obtain ⟨ha, hd, hl⟩ := hA.outb_ok a st hmem
      have h' : AInv accts groups (abs { s with outbound := insert s.outbound a rest }) := by
        rw [abs_setOutbound]
        refine hA.setOutb ?_
        intro st' hst'
        show st' ∈ queueOf s.outbound a
        rw [heq]; exact List.mem_cons_of_mem _ hst'
      split
      · next id peer part im encs pl =>
        have := (clientReceive_good (s := { s with faulted := s.faulted ++ [(id, a)] }) hA ha hd hl).2
        exact congrArg List.length this
      · next id peer part im encs pl =>
        have := (clientReceive_good (s := { s with outbound := insert s.outbound a rest, faulted := s.faulted ++ [(id, a)] })
          (st := .msg id peer part im (corruptLast encs) pl) h' ha (by
            obtain ⟨a', n, h1, h2, h3, h4, he⟩ := hd
            exact ⟨a', n, h1, h2, h3, h4, he.corruptLast⟩) (LinkOK.of_none rfl)).2
        exact congrArg List.length this
      · have := (clientReceive_good (s := { s with outbound := insert s.outbound a rest }) h' ha hd (by
          rw [abs_setOutbound]; exact hl)).2
        exact congrArg List.length this
  | restart a => rfl

theorem run_submitted_len (acts : List Act) : ∀ s : Sys, AInv accts groups (abs s) → AllowedRun s acts = true →
    (run s acts).submitted.length = s.submitted.length + sendCountAux acts := by
  induction acts with
  | nil => intro s _ _; rfl
  | cons act acts ih =>
    intro s h ha
    simp only [AllowedRun, Bool.and_eq_true] at ha
    have hlen := step_submitted_len h ha.1
    have := ih _ (step_inv h ha.1) ha.2
    show (run (step s act) acts).submitted.length = _
    rw [this, hlen]
    cases act <;> simp only [sendCountAux] <;> omega

theorem TInv_run (hw : WFConfig accts groups) (hnd : ∀ g ∈ groups, g.2.Nodup) (acts : List Act) : ∀ s : Sys,
    TInv ex accts groups s → AllowedRun s acts = true → NoFault acts = true → s.submitted.length + sendCountAux acts ≤ 100 →
    TInv ex accts groups (run s acts) := by
  induction acts with
  | nil => intro s h _ _ _; exact h
  | cons act acts ih =>
    intro s h ha hf hn
    simp only [AllowedRun, Bool.and_eq_true] at ha
    have hlen := step_submitted_len h.1 ha.1
    cases act with
    | appSend a n =>
      simp only [sendCountAux] at hn
      simp only at hlen
      exact ih _ (appSend_TInv hw h ha.1 (by omega)) ha.2 hf (by omega)
    | process a =>
      simp only [sendCountAux] at hn
      simp only [Nat.add_zero] at hlen
      exact ih _ (process_TInv hw hnd h ha.1) ha.2 hf (by omega)
    | deliver a f =>
      simp only [sendCountAux] at hn
      simp only [Nat.add_zero] at hlen
      cases f with
      | none => exact ih _ (deliver_TInv hw h ha.1 (by omega)) ha.2 hf (by omega)
      | dup => simp [NoFault] at hf
      | corrupt => simp [NoFault] at hf
    | restart a =>
      simp only [sendCountAux] at hn
      simp only [Nat.add_zero] at hlen
      exact ih _ (restart_TInv hw h ha.1) ha.2 hf (by omega)

end

end Yow.E2E
