/-
  Token conservation in the E2E system model, part 2: the (Prop-valued, stronger) invariant `TV` over the functional view,
  its ingredients and the invariant `TInv` of the induction.
-/
import YowsupVerif.Lemmas.E2ETokBase
namespace Yow.E2E

-- ------------------------------------------------------------------------------------------------ counting
def contS (id : Nat) (r : Acct) (l : List (Nat × Cont)) : Nat := sumMap (fun e => contTok id r e.2) l
def pendS (id : Nat) (l : List ((Dest × Option Acct) × List Stanza)) : Nat := sumMap (fun e => sumMap (downTok id) e.2) l
def shownC (c : Client) (id : Nat) : Nat := (c.shown.filter (fun x => x.id == id)).length

def tokensV (V : View) (a : Acct) (id : Nat) (r : Acct) : Nat :=
  contS id r (V.cl a).iqReg + sumMap (upTok id r) (V.inb a) + sumMap (downTok id) (V.outb r) + pendS id (V.cl r).pendingIn
  + sumMap (retryUpTok id) (V.inb r) + sumMap (retryDownTok id r) (V.outb a) + shownC (V.cl r) id

theorem tokens_eq (s : Sys) (a : Acct) (id : Nat) (r : Acct) : tokens s a id r = tokensV (view s) a id r := rfl

def inTransitV (V : View) (a : Acct) (id : Nat) (r : Acct) : Nat :=
  sumMap (upTok id r) (V.inb a) + sumMap (downTok id) (V.outb r) + pendS id (V.cl r).pendingIn
  + sumMap (retryUpTok id) (V.inb r) + sumMap (retryDownTok id r) (V.outb a)

theorem inTransit_eq (s : Sys) (a : Acct) (id : Nat) (r : Acct) : inTransit s a id r = inTransitV (view s) a id r := rfl

def rcptIn (id : Nat) (st : Stanza) : Nat := if deliveryReceiptFrom id st then 1 else 0
def rcptOut (id : Nat) (r : Acct) (st : Stanza) : Nat :=
  match st with
  | .receipt id' (.user r') none .delivery => if id' = id ∧ r' = r then 1 else 0
  | .receipt id' (.group _) (some r') .delivery => if id' = id ∧ r' = r then 1 else 0
  | _ => 0
def rcptGot (c : Client) (id : Nat) (r : Acct) : Nat :=
  (c.receipts.filter (fun e =>
      e.1 == id && e.2.2.2 == RType.delivery && (e.2.2.1 == some r || (e.2.2.1.isNone && e.2.1 == Dest.user r)))).length

def receiptTokensV (V : View) (a : Acct) (id : Nat) (r : Acct) : Nat :=
  sumMap (rcptIn id) (V.inb r) + sumMap (rcptOut id r) (V.outb a) + rcptGot (V.cl a) id r

theorem receiptTokens_eq (s : Sys) (a : Acct) (id : Nat) (r : Acct) : receiptTokens s a id r = receiptTokensV (view s) a id r := rfl

theorem shownCount_eq (s : Sys) (r : Acct) (id : Nat) : shownCount s r id = shownC ((view s).cl r) id := rfl

-- nonces on their way to `r`
def ctrsOf (st : Stanza) : List Nat := (ctsOf st).map (fun e => e.2.ctr)
def nOf (x : Nat) (st : Stanza) : Nat := (ctrsOf st).count x
def upGuard (groups : List (Nat × List Acct)) (r : Acct) (st : Stanza) : Bool :=
  isMsg st && (match st with
    | .msg _ (.group g) none _ _ _ => ((lookup groups g).getD []).contains r
    | _ => true)
def upN (groups : List (Nat × List Acct)) (r : Acct) (x : Nat) (st : Stanza) : Nat :=
  if upGuard groups r st then ((ctsFor r st).map (·.ctr)).count x else 0
def pendN (x : Nat) (l : List ((Dest × Option Acct) × List Stanza)) : Nat := sumMap (fun e => sumMap (nOf x) e.2) l
def wayV (accts : List Acct) (V : View) (r : Acct) (x : Nat) : Nat :=
  sumMap (nOf x) (V.outb r) + pendN x (V.cl r).pendingIn
  + sumMap (fun a => if a = r then 0 else sumMap (upN V.groups r x) (V.inb a)) accts

-- the sender's slot for a message: waiting for its first send / for a 1:1 resend, or in the sent queue
def slotTok (i : Nat) : Cont → Nat
  | .keysForSend n => if n.id = i then 1 else 0
  | .groupInfo n => if n.id = i then 1 else 0
  | .keysForGroup n _ _ => if n.id = i then 1 else 0
  | .keysForRetry n _ _ => if n.id = i ∧ isGroupDest n.dest = false then 1 else 0
  | .keysForPending _ _ => 0
def slotS (i : Nat) (l : List (Nat × Cont)) : Nat := sumMap (fun e => slotTok i e.2) l
def sentS (i : Nat) (l : List Node) : Nat := sumMap (fun m => if m.id = i then 1 else 0) l
def sendSlots (c : Client) (i : Nat) : Nat := slotS i c.iqReg + sentS i c.sentQueue

-- ------------------------------------------------------------------------------------------------ shapes
def ContShape : Cont → Prop
  | .keysForSend n => isGroupDest n.dest = false
  | .groupInfo n => isGroupDest n.dest = true
  | .keysForGroup n _ _ => isGroupDest n.dest = true
  | .keysForRetry _ _ c => 1 ≤ c
  | .keysForPending _ _ => True

def firstGroupCont (k : Cont) (i : Nat) : Prop :=
  match k with
  | .groupInfo n => n.id = i
  | .keysForGroup n _ _ => n.id = i
  | _ => False

/-- one pairwise ciphertext carrying the content -/
def ShapeA (encs : List (Option Acct × Ct)) : Prop :=
  ∃ ct, encs = [(none, ct)] ∧ ct.kind ≠ .skmsg ∧ ct.plain.content.isSome = true

/-- sender-key distributions (without content) and the sender-key ciphertext carrying the content -/
def ShapeB (tag : Option Acct → Prop) (encs : List (Option Acct × Ct)) : Prop :=
  ∃ l k, encs = l ++ [(none, k)] ∧ k.kind = .skmsg ∧ k.plain.content.isSome = true ∧
    ∀ e ∈ l, tag e.1 ∧ e.2.kind ≠ .skmsg ∧ e.2.plain.content = none

def UpShape : Stanza → Prop
  | .msg _ (.user _) part _ encs _ => part = none ∧ ShapeA encs
  | .msg _ (.group _) (some _) _ encs _ => ShapeA encs
  | .msg _ (.group _) none _ encs _ => ShapeB (fun t => t.isSome = true) encs
  | _ => True

def DownShape : Stanza → Prop
  | .msg _ peer _ _ encs _ => ShapeA encs ∨ (isGroupDest peer = true ∧ ShapeB (fun t => t = none) encs)
  | _ => True

def CtsOK (k : Nat) (st : Stanza) : Prop := ∀ e ∈ ctsOf st, e.2.corrupt = false ∧ e.2.ctr < k

def RecShape (n : Node) (peer : Dest) (part : Option Acct) : Prop :=
  match n.dest with
  | .user b => peer = .user b ∧ part = none
  | .group g => peer = .group g ∧ part.isSome = true

def upDir : Stanza → Prop
  | .keys .. => False
  | .groupInfo .. => False
  | _ => True

def downDir : Stanza → Prop
  | .getKeys .. => False
  | .getGroup .. => False
  | _ => True

/-- a stanza in the connection of a client with record `c` (nonces below `k`) -/
structure UpGood (k : Nat) (c : Client) (st : Stanza) : Prop where
  dir : upDir st
  cts : CtsOK k st
  shape : UpShape st
  honest : ∀ id peer part, st = .receipt id peer part .delivery → 1 ≤ shownC c id
  retry : ∀ id peer part cnt, st = .receipt id peer part (.retry cnt) → 1 ≤ cnt

/-- a stanza queued for client `a` -/
structure DownGood (V : View) (a : Acct) (st : Stanza) : Prop where
  dir : downDir st
  cts : CtsOK V.nextCtr st
  shape : DownShape st
  rcpt : ∀ id peer part t, st = .receipt id peer part t →
    (∃ n, (a, n) ∈ V.submitted ∧ n.id = id ∧ RecShape n peer part) ∧
    (t = .delivery → 1 ≤ shownC (V.cl (whoOf peer part)) id) ∧ (∀ cnt, t = .retry cnt → 1 ≤ cnt)

/-- a stanza parked under `key` -/
def ParkGood (k : Nat) (key : Dest × Option Acct) (st : Stanza) : Prop :=
  (∃ id im encs pl, st = .msg id key.1 key.2 im encs pl) ∧ CtsOK k st ∧ DownShape st

structure ClientGood (k : Nat) (c : Client) : Prop where
  seen : ∀ e ∈ c.seen, e.2 < k
  seenSK : ∀ e ∈ c.seenSK, e.2 < k
  conts : ∀ e ∈ c.iqReg, ContShape e.2
  iqKeys : keysNodup c.iqReg
  pendKeys : keysNodup c.pendingIn
  parked : ∀ e ∈ c.pendingIn, ∀ st ∈ e.2, ParkGood k e.1 st

/-- the part of the invariant that only ever gets "more true" -/
def View.le (V V' : View) : Prop :=
  V.nextCtr ≤ V'.nextCtr ∧ (∀ r id, shownC (V.cl r) id ≤ shownC (V'.cl r) id) ∧ (∀ p, p ∈ V.submitted → p ∈ V'.submitted)

/-- receipts against showings: exactly as many (fault-free runs), or at least as many (duplicated deliveries are
    acknowledged again) -/
def rcRel (ex : Bool) (rt sc : Nat) : Prop := if ex = true then rt = sc else sc ≤ rt

theorem rcRel_shift {ex : Bool} {rt sc rt' sc' : Nat} (h : rcRel ex rt sc) (he : rt' + sc = rt + sc') : rcRel ex rt' sc' := by
  unfold rcRel at *
  split <;> simp_all <;> omega

/-- the invariant over the view; `L`: the submissions it speaks about (all of them, except in the middle of `appSend`) -/
structure TV (ex : Bool) (accts : List Acct) (groups : List (Nat × List Acct)) (L : List (Acct × Node)) (V : View) : Prop where
  acc : V.accounts = accts
  grp : V.groups = groups
  clients : ∀ r, ClientGood V.nextCtr (V.cl r)
  ups : ∀ r st, st ∈ V.inb r → UpGood V.nextCtr (V.cl r) st
  downs : ∀ r st, st ∈ V.outb r → DownGood V r st
  neq : ∀ a n, (a, n) ∈ L → ∀ r, r ∈ intendedG groups a n → r ≠ a
  cons : ∀ a n, (a, n) ∈ L → ∀ r, r ∈ intendedG groups a n → tokensV V a n.id r = 1
  rcons : ∀ a n, (a, n) ∈ L → ∀ r, r ∈ intendedG groups a n → rcRel ex (receiptTokensV V a n.id r) (shownC (V.cl r) n.id)
  ans : ∀ r, (∀ e ∈ (V.cl r).iqReg, ∃ st ∈ V.inb r ++ V.outb r, stanzaIq st = some e.1) ∧
    (∀ e ∈ (V.cl r).pendingIn, ∃ k ∈ (V.cl r).iqReg, k.2 = Cont.keysForPending e.1.1 e.1.2)
  unop : ∀ r, r ∈ accts → ∀ x, wayV accts V r x ≤ 1 ∧
    (1 ≤ wayV accts V r x → x ∉ (V.cl r).seen.map Prod.snd ∧ x ∉ (V.cl r).seenSK.map Prod.snd)
  kept : ∀ a n, (a, n) ∈ L → ∀ r, r ∈ intendedG groups a n → inTransitV V a n.id r = 0 ∨ n ∈ (V.cl a).sentQueue ∨ 100 < V.submitted.length
  ret3 : ∀ a n, (a, n) ∈ L → ∀ g, n.dest = .group g →
    (lookup (V.cl a).ownSK g).isSome = true ∨ ∃ e ∈ (V.cl a).iqReg, firstGroupCont e.2 n.id
  slots : ∀ a i, sendSlots (V.cl a) i ≤ 1
  rids : ∀ r e, e ∈ (V.cl r).receipts → ∃ p ∈ V.submitted, p.2.id = e.1
  retq : ∀ a e, e ∈ (V.cl a).iqReg → ∀ n w c, e.2 = Cont.keysForRetry n w c → isGroupDest n.dest = true →
    n ∈ (V.cl a).sentQueue ∨ 100 < V.submitted.length

/-- the invariant of the induction -/
def TInv (ex : Bool) (accts : List Acct) (groups : List (Nat × List Acct)) (s : Sys) : Prop :=
  AInv accts groups (abs s) ∧ TV ex accts groups s.submitted (view s)

end Yow.E2E
