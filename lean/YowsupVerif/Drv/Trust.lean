import YowsupVerif.Model.Trust
import YowsupVerif.Gen.TrustCfg
namespace Yow.Drv
open Yow.Trust

def trOut : Out → String
  | .built c k => s!"built:{c}:{k}"
  | .refused c k => s!"refused:{c}:{k}"
  | .trusted c k => s!"trusted:{c}:{k}"
  | .delivered c k => s!"delivered:{c}:{k}"
  | .ignored c k => s!"ignored:{c}:{k}"
  | .undecryptable c k => s!"undecryptable:{c}:{k}"
  | .encryptedFor c k => s!"encryptedFor:{c}:{k}"
  | .noSession c => s!"noSession:{c}"
  | .raised => "raised"

def trOpt : Option Nat → String
  | none => "-"
  | some k => toString k

/-- contacts 0..3 are shown -/
def trShow (s : St) : String :=
  let cs := [0, 1, 2, 3]
  s!"pin={",".intercalate (cs.map fun c => trOpt (s.pinned c))};ses={",".intercalate (cs.map fun c => trOpt (s.session c))};auto={if s.autotrust then 1 else 0}"

def trEv : List String → Option Ev
  | ["bundle", c, k] => match c.toNat?, k.toNat? with | some c, some k => some (.bundle c k) | _, _ => none
  | ["firstMsg", c, k] => match c.toNat?, k.toNat? with | some c, some k => some (.firstMsg c k) | _, _ => none
  | ["msgIn", c, k] => match c.toNat?, k.toNat? with | some c, some k => some (.msgIn c k) | _, _ => none
  | ["encrypt", c] => c.toNat?.map Ev.encrypt
  | ["restart"] => some .restart
  | ["setAuto", b] => some (.setAuto (b == "1"))
  | _ => none

def trustStep (s : St) : List String → St × String
  | ["reset"] => (init, "ok")
  | ["author", chat, part] => (s, author chat (if part == "-" then none else some part))
  | "ev" :: rest =>
    match trEv rest with
    | some e =>
      let r := step Yow.Gen.trustCfg s e
      (r.1, s!"{",".intercalate (r.2.map trOut)} | {trShow r.1}")
    | none => (s, "bad-op")
  | _ => (s, "bad-op")

end Yow.Drv
