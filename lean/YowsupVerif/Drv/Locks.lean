import YowsupVerif.Model.Locks
import YowsupVerif.Gen.LockCfg
namespace Yow.Drv
open Yow.Locks

structure LocksSt where
  n : Nat := 1
  p : Nat := 0
  st : St := init 1

def optNat (t : String) : Option Nat := t.toNat?

def showRes : Res → String
  | .ok => "ok" | .raised => "raised" | .blocked => "blocked"

def showLocks (r : Res) (s : St) : String :=
  s!"{showRes r} held={",".intercalate (s.held.map fun b => if b then "1" else "0")} flush={if s.flush then 1 else 0} queue={s.queue.length} delivered={s.delivered.length}"

def locksStep (s : LocksSt) : List String → LocksSt × String
  | ["reset", n, p] =>
    match n.toNat?, p.toNat? with
    | some n, some p => ({ n := n, p := p, st := init n }, "ok")
    | _, _ => (s, "bad-op")
  | ["cfg"] => (s, s!"{Yow.Gen.lockCfg.toLowerFinally} {Yow.Gen.lockCfg.flushFinally}")
  | ["send", f] =>
    let r := sendAt Yow.Gen.lockCfg (optNat f) (s.n - 1) s.st
    ({ s with st := r.1 }, showLocks r.2 r.1)
  | ["recv", frame, fa, ra, rf] =>
    match frame.toNat? with
    | some fr =>
      let u : UpSpec := { failAt := optNat fa, replyAt := optNat ra, replyFail := optNat rf }
      -- frames already queued keep a fault-free spec; the new frame gets `u`
      let spec : Nat → UpSpec := fun f => if f = fr then u else { failAt := none, replyAt := none, replyFail := none }
      let r := noiseReceive Yow.Gen.lockCfg spec s.n s.p fr s.st
      ({ s with st := r.1 }, showLocks r.2 r.1)
    | none => (s, "bad-op")
  | ["unlock"] =>      -- harness-side recovery after a reported leak (keeps the run going)
    ({ s with st := { s.st with held := List.replicate s.n false, flush := false } }, "ok")
  | _ => (s, "bad-op")

end Yow.Drv
