import YowsupVerif.Model.Locks
import YowsupVerif.Gen.LockCfg
import YowsupVerif.Model.SendNumbering
import YowsupVerif.Gen.SendNumberingCfg
namespace Yow.Drv
open Yow.Locks

structure LocksSt where
  n : Nat := 1
  p : Nat := 0
  st : St := init 1
  specs : List (Nat × UpSpec) := []     -- what happens to each frame on its way up (by frame id)
  num : Yow.SendNumbering.St := {}      -- message numbering of the downward path

def optNat (t : String) : Option Nat := t.toNat?

def showRes : Res → String
  | .ok => "ok" | .raised => "raised" | .blocked => "blocked"

def showLocks (r : Res) (s : St) : String :=
  s!"{showRes r} held={",".intercalate (s.held.map fun b => if b then "1" else "0")} flush={if s.flush then 1 else 0} queue={s.queue.length} delivered={s.delivered.length}"

def locksStep (s : LocksSt) : List String → LocksSt × String
  | ["reset", n, p] =>
    match n.toNat?, p.toNat? with
    | some n, some p => ({ n := n, p := p, st := init n }, "ok")
    | _, _ => (s, "bad-op")
  | ["cfg"] => (s, s!"{Yow.Gen.lockCfg.toLowerFinally} {Yow.Gen.lockCfg.flushFinally}")
  | ["numreset"] => ({ s with num := {} }, "ok")
  | ["numsend", size] =>
    match size.toNat? with
    | some k =>
      let r := Yow.SendNumbering.send Yow.Gen.sizeCheckFirst s.num k
      ({ s with num := r.1 }, s!"{if r.2 then "refused" else "written"} next={r.1.next} wire={",".intercalate (r.1.wire.map toString)}")
    | none => (s, "bad-op")
  | ["send", f] =>
    let r := sendAt Yow.Gen.lockCfg (optNat f) (s.n - 1) s.st
    ({ s with st := r.1 }, showLocks r.2 r.1)
  | [op, frame, fa, ra, rf] =>
    match frame.toNat? with
    | some fr =>
      let u : UpSpec := { failAt := optNat fa, replyAt := optNat ra, replyFail := optNat rf }
      let specs := (fr, u) :: s.specs
      let spec : Nat → UpSpec := fun f =>
        match specs.find? (fun e => e.1 == f) with
        | some e => e.2
        | none => { failAt := none, replyAt := none, replyFail := none }
      if op == "recv" then
        let r := noiseReceive Yow.Gen.lockCfg spec s.n s.p fr s.st
        ({ s with st := r.1, specs := specs }, showLocks r.2 r.1)
      else if op == "enq" then
        let r := step Yow.Gen.lockCfg spec s.n s.p s.st (.enq fr)
        ({ s with st := r.1, specs := specs }, showLocks r.2 r.1)
      else (s, "bad-op")
    | none => (s, "bad-op")
  | ["unlock"] =>      -- harness-side recovery after a reported leak (keeps the run going)
    ({ s with st := { s.st with held := List.replicate s.n false, flush := false } }, "ok")
  | _ => (s, "bad-op")

end Yow.Drv
