import YowsupVerif.Model.MediaCipher
namespace Yow.Drv
open Yow Yow.Media

def mediaStep : List String → String
  | ["pad", h] =>
    match Hex.toBytes? h with
    | some p => Hex.render (pad p)
    | none => "bad-op"
  | ["unpad", h] =>
    match Hex.toBytes? h with
    | some d => match unpad d with | some p => "ok " ++ Hex.render p | none => "err"
    | none => "bad-op"
  | ["enclen", n] =>
    match n.toNat? with
    | some n => toString ((pad (List.replicate n 0)).length + 10)
    | none => "bad-op"
  | _ => "bad-op"

end Yow.Drv
