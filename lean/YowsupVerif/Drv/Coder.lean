import YowsupVerif.Model.Coder
import YowsupVerif.Gen.TokenDict
import YowsupVerif.Gen.NibblesSrc
namespace Yow.Drv
open Yow Yow.Coder

/-- tree on one line:  N <tag> <nattrs> (<k> <v>)* (D <hex> | X) <nkids> <kid>*   (all strings hex) -/
partial def parseNode : List String → Option (Node × List String)
  | "N" :: tag :: na :: rest => do
    let tag ← Hex.toBytes? tag
    let na ← na.toNat?
    let rec attrs (k : Nat) (ts : List String) (acc : List (Str × Str)) : Option (List (Str × Str) × List String) :=
      match k, ts with
      | 0, ts => some (acc.reverse, ts)
      | k + 1, a :: b :: ts => do
        let a ← Hex.toBytes? a
        let b ← Hex.toBytes? b
        attrs k ts ((a, b) :: acc)
      | _, _ => none
    let (as, rest) ← attrs na rest []
    let (data, rest) ← (match rest with
      | "D" :: h :: r => (Hex.toBytes? h).map (fun b => (some b, r))
      | "X" :: r => some (none, r)
      | _ => none)
    match rest with
    | nk :: rest => do
      let nk ← nk.toNat?
      let rec kids (k : Nat) (ts : List String) (acc : List Node) : Option (List Node × List String) :=
        match k with
        | 0 => some (acc.reverse, ts)
        | k + 1 => do
          let (n, ts) ← parseNode ts
          kids k ts (n :: acc)
      let (ks, rest) ← kids nk rest []
      some (.mk tag as data ks, rest)
    | _ => none
  | _ => none

partial def showNode : Node → String
  | .mk tag as data ks =>
    let a := as.map (fun (k, v) => s!" {Hex.render k} {Hex.render v}")
    let d := match data with | some b => s!" D {Hex.render b}" | none => " X"
    s!"N {Hex.render tag} {as.length}{String.join a}{d} {ks.length}{String.join (ks.map (fun k => " " ++ showNode k))}"

def showErr : Err → String
  | .eof => "eof" | .badToken => "badToken" | .badList => "badList" | .nullTag => "nullTag"
  | .badNibble => "badNibble" | .badJid => "badJid" | .nullAttr => "nullAttr" | .streamEnd => "streamEnd"
  | .segmented => "segmented" | .inflate => "inflate" | .fuel => "fuel"

def showPyRes : Py.Res → String
  | .raised => "raised"
  | .none => "none"
  | .ret v => s!"ret {v}"

/-- the TRANSLATION of the current source's digit packing functions (Gen/NibblesSrc.lean), evaluated: validates the translator against the real functions -/
def showPyOut : Py.Out → String
  | .raised => "raised"
  | .wrote bs => "wrote " ++ ",".intercalate (bs.map toString)

def showPyRd : Py.Rd → String
  | .raised => "raised"
  | .ret v rest => s!"ret {v} {Hex.render rest}"

def nibSrcStep : List String → String
  | ["r", f, t, h] =>
    match t.toNat?, Hex.toBytes? h with
    | some tok, some bs =>
      if f == "readInt8" then showPyRd (Gen.NibSrc.dec_readInt8 bs) else if f == "readInt16" then showPyRd (Gen.NibSrc.dec_readInt16 bs)
      else if f == "readInt20" then showPyRd (Gen.NibSrc.dec_readInt20 bs) else if f == "readInt24" then showPyRd (Gen.NibSrc.dec_readInt24 bs)
      else if f == "readInt31" then showPyRd (Gen.NibSrc.dec_readInt31 bs) else if f == "readListSize" then showPyRd (Gen.NibSrc.dec_readListSize tok bs)
      else "bad-op"
    | _, _ => "bad-op"
  | ["w", f, a] =>
    match a.toNat? with
    | some v =>
      if f == "writeInt8" then showPyOut (Gen.NibSrc.enc_writeInt8 v) else if f == "writeInt16" then showPyOut (Gen.NibSrc.enc_writeInt16 v)
      else if f == "writeInt20" then showPyOut (Gen.NibSrc.enc_writeInt20 v) else if f == "writeInt24" then showPyOut (Gen.NibSrc.enc_writeInt24 v)
      else if f == "writeInt31" then showPyOut (Gen.NibSrc.enc_writeInt31 v) else if f == "writeListStart" then showPyOut (Gen.NibSrc.enc_writeListStart v)
      else if f == "writeToken" then showPyOut (Gen.NibSrc.enc_writeToken v) else "bad-op"
    | none => "bad-op"
  | [f, a] =>
    match a.toInt? with
    | some x =>
      if f == "packHex" then showPyRes (Gen.NibSrc.enc_packHex x) else if f == "packNibble" then showPyRes (Gen.NibSrc.enc_packNibble x)
      else if f == "unpackHex" then showPyRes (Gen.NibSrc.dec_unpackHex x) else if f == "unpackNibble" then showPyRes (Gen.NibSrc.dec_unpackNibble x)
      else "bad-op"
    | none => "bad-op"
  | [f, a, b] =>
    match a.toInt?, b.toInt? with
    | some x, some y =>
      if f == "packByte" then showPyRes (Gen.NibSrc.enc_packByte x y) else if f == "unpackByte" then showPyRes (Gen.NibSrc.dec_unpackByte x y) else "bad-op"
    | _, _ => "bad-op"
  | _ => "bad-op"

def coderStep : List String → String
  | "nibsrc" :: rest => nibSrcStep rest
  | "enc" :: toks =>
    match parseNode toks with
    | some (n, []) =>
      if encodable Gen.waDict n then Hex.render (encodeFrame Gen.waDict n) else "refused"
    | _ => "bad-op"
  | ["dec", h] =>
    match Hex.toBytes? h with
    | some bs =>
      match decodeFrame Gen.waDict (fun _ => none) bs with
      | .ok n => "ok " ++ showNode n
      | .error e => "err " ++ showErr e
    | none => "bad-op"
  | ["decz", h, body] =>   -- frame, and what zlib.decompress returns for frame[1:] ("!" = zlib error)
    match Hex.toBytes? h with
    | some bs =>
      let infl : Bytes → Option Bytes := fun _ => if body == "!" then none else Hex.toBytes? body
      match decodeFrame Gen.waDict infl bs with
      | .ok n => "ok " ++ showNode n
      | .error e => "err " ++ showErr e
    | none => "bad-op"
  | ["str", p, h] =>        -- writeString alone
    match Hex.toBytes? h with
    | some s => Hex.render (writeString Gen.waDict s (p == "1"))
    | none => "bad-op"
  | _ => "bad-op"

end Yow.Drv
