import YowsupVerif.Model.Config
import YowsupVerif.Model.Bytes
import YowsupVerif.Gen.FileOps
namespace Yow.Drv
open Yow Yow.Config

def cpsOf (t : String) : Option (List Nat) :=
  if t == "-" then some []
  else
    let xs := (t.splitOn ",").map String.toNat?
    if xs.all Option.isSome then some (xs.filterMap id) else none

def showCps (s : List Nat) : String := if s.isEmpty then "-" else ",".intercalate (s.map toString)

partial def cpPairs : List String → Option (List (Str × Str))
  | [] => some []
  | k :: v :: rest => do
    let k ← cpsOf k
    let v ← cpsOf v
    let r ← cpPairs rest
    some ((k, v) :: r)
  | _ => none

def configStep : List String → String
  | "render" :: rest =>
    match cpPairs rest with
    | some kvs => showCps (render kvs)
    | none => "bad-op"
  | ["parse", t] =>
    match cpsOf t with
    | some s =>
      match parse s with
      | some d => "ok" ++ String.join (d.map fun (k, v) => s!" {showCps k} {showCps v}")
      | none => "err"
    | none => "bad-op"
  | ["isspace", c] =>
    match c.toNat? with
    | some c => if isSpace c then "1" else "0"
    | none => "bad-op"
  | ["crash", which, k] =>
    -- content class of the profile's config file after the first k traced file operations
    match k.toNat? with
    | some k =>
      match (if which == "fresh" then Yow.Gen.saveTraceFresh else Yow.Gen.saveTraceExisting) with
      | none => "raises"
      | some ops =>
        let old : FS := { files := fun p => if p = 0 ∧ which != "fresh" then some [111] else none,   -- "o"
                          buf := fun _ => [], target := fun p => p }
        let fs := applyOps [110] old (ops.take k)                                       -- "n"
        s!"{ops.length} " ++ (match fs.files 0 with
          | none => "absent" | some [111] => "old" | some [110] => "new" | some [] => "empty" | some _ => "other")
    | none => "bad-op"
  | _ => "bad-op"

end Yow.Drv
