import YowsupVerif.Model.IqRegistry
import YowsupVerif.Gen.IqKinds
namespace Yow.Drv
open Yow.Iq

def showIqOut : Out → String
  | .sent id => s!"sent:{id}"
  | .layerCb l id s => s!"layercb:{l}:{id}:{if s then "result" else "error"}"
  | .appCb id s => s!"appcb:{id}:{if s then "result" else "error"}"
  | .appEntity id => s!"entity:{id}"
  | .ordinary id => s!"ordinary:{id}"
  | .swallowed id => s!"swallowed:{id}"
  | .pong id => s!"pong:{id}"

def iqStep (s : St) : List String → St × String
  | ["reset"] => (init, "ok")
  | ["appreq", k, a, b] =>
    match k.toNat? with
    | some k =>
      match Yow.Gen.iqKinds[k]? with
      | some kd => let r := step s (.appReq kd (a == "1") (b == "1")); (r.1, ",".intercalate (r.2.map showIqOut))
      | none => (s, "bad-op")
    | none => (s, "bad-op")
  | ["libreq", k] =>
    match k.toNat? with
    | some k =>
      match Yow.Gen.iqKinds[k]? with
      | some kd => let r := step s (.libReq kd); (r.1, ",".intercalate (r.2.map showIqOut))
      | none => (s, "bad-op")
    | none => (s, "bad-op")
  | ["rereq", id, k, a, b] =>
    match id.toNat?, k.toNat? with
    | some id, some k =>
      match Yow.Gen.iqKinds[k]? with
      | some kd => let r := step s (.reReq id kd (a == "1") (b == "1")); (r.1, ",".intercalate (r.2.map showIqOut))
      | none => (s, "bad-op")
    | _, _ => (s, "bad-op")
  | ["deliver", id, res] =>
    match id.toNat? with
    | some id => let r := step s (.deliver id (res == "1")); (r.1, ",".intercalate (r.2.map showIqOut))
    | none => (s, "bad-op")
  | ["serverreq", id] =>
    match id.toNat? with
    | some id => let r := step s (.serverReq id Yow.Gen.serverRequestConsumes); (r.1, ",".intercalate (r.2.map showIqOut))
    | none => (s, "bad-op")
  | _ => (s, "bad-op")

end Yow.Drv
