import YowsupVerif.Model.Payload
import YowsupVerif.Gen.PayloadSchema
namespace Yow.Drv
open Yow.Payload

instance : Inhabited Vals := ⟨.nil⟩
instance : Inhabited Val := ⟨.none⟩

/-- values on the line protocol: `N` | `S<n>` | `L<n,n,…>` | `( v … )` -/
partial def plParseVals : List String → Vals × List String
  | [] => (.nil, [])
  | ")" :: rest => (.nil, rest)
  | "(" :: rest =>
    let (inner, rest1) := plParseVals rest
    let (more, rest2) := plParseVals rest1
    (.cons (.obj inner) more, rest2)
  | tok :: rest =>
    let v : Val :=
      if tok == "N" then .none
      else if tok.startsWith "S" then .scalar ((tok.drop 1).toString.toNat?.getD 0)
      else if tok.startsWith "L" then .list (((tok.drop 1).toString.splitOn ",").filterMap (·.toNat?))
      else .none
    let (more, rest1) := plParseVals rest
    (.cons v more, rest1)

mutual
  partial def plShowVal : Val → String
    | .none => "N"
    | .scalar n => s!"S{n}"
    | .list xs => "L" ++ ",".intercalate (xs.map toString)
    | .obj fs => "( " ++ plShowVals fs ++ ")"
  partial def plShowVals : Vals → String
    | .nil => ""
    | .cons v vs => plShowVal v ++ " " ++ plShowVals vs
end

def payloadStep : List String → String
  | "rt" :: sid :: toks =>
    match sid.toNat?, plParseVals toks with
    | some sid, (.cons v .nil, []) =>
      (match encodeObj Yow.Gen.payloadTable sid v with
       | none => "raised"
       | some p => plShowVal (decodeObj Yow.Gen.payloadTable sid p))
    | _, _ => "bad-op"
  | ["good", sid] =>
    match sid.toNat? with
    | some sid => if schemaGood Yow.Gen.payloadTable.length (Yow.Gen.payloadTable.getD sid []) then "1" else "0"
    | none => "bad-op"
  | _ => "bad-op"

end Yow.Drv
