import YowsupVerif.Model.SendBuf
import YowsupVerif.Gen.SendBufCfg
namespace Yow.Drv
open Yow.SendBuf

/-- `run <frames: 1+2+3/4+5> <flushes> <sched: 0,1,…>` with the regenerated configuration -/
def sendBufStep : List String → String
  | ["cfg"] => s!"locked={Yow.Gen.sendBufCfg.locked}"
  | ["run", frames, flushes, sched] =>
    let fs := (frames.splitOn "/").map fun t => (t.splitOn "+").filterMap (·.toNat?)
    let sc := (sched.splitOn ",").filterMap (·.toNat?)
    let s := run (init Yow.Gen.sendBufCfg fs (flushes.toNat?.getD 0)) sc
    s!"finished={finished s} socket={",".intercalate (s.socket.map toString)} buf={",".intercalate (s.buf.map toString)}"
  | _ => "bad-op"

end Yow.Drv
