import YowsupVerif.Model.SendBuf
import YowsupVerif.Gen.SendBufCfg
namespace Yow.Drv
open Yow.SendBuf

/-- `run <frames: 1+2+3/4+5> <flushes> <sched: 0:65536,1:3,…>` with the regenerated configuration; `runcfg <locked> <appendLocked> …` with a given one -/
def sendBufStep : List String → String
  | ["cfg"] => s!"locked={Yow.Gen.sendBufCfg.locked} appendLocked={Yow.Gen.sendBufCfg.appendLocked}"
  | ["run", frames, flushes, sched] => go Yow.Gen.sendBufCfg frames flushes sched
  | ["runcfg", l, a, frames, flushes, sched] => go { locked := l == "1", appendLocked := a == "1" } frames flushes sched
  | _ => "bad-op"
where
  go (cfg : Cfg) (frames flushes sched : String) : String :=
    let fs := (frames.splitOn "/").map fun t => (t.splitOn "+").filterMap (·.toNat?)
    let sc := (sched.splitOn ",").filterMap fun t =>
      match t.splitOn ":" with
      | [i, c] => (i.toNat?).bind fun i => (c.toNat?).map fun c => (i, c)
      | [i] => (i.toNat?).map fun i => (i, 65536)
      | _ => none
    let s := run (init cfg fs (flushes.toNat?.getD 0)) sc
    s!"finished={finished s} lock={s.lock.isSome} socket={",".intercalate (s.socket.map toString)} buf={",".intercalate (s.buf.map toString)} appended={",".intercalate (s.appended.map toString)}"

end Yow.Drv
