import YowsupVerif.Model.Segments
namespace Yow.Drv
open Yow Yow.Segments

def showFrames (fs : List Bytes) : String := ",".intercalate (fs.map Hex.render)

def segStep (s : St) : List String → St × String
  | ["reset", e] => ({ enabled := e == "1", buf := [] }, "ok")
  | ["recv", h] =>
    match Hex.toBytes? h with
    | some bs =>
      let r := recv s bs
      (r.1, s!"up:{showFrames r.2};buf:{Hex.render r.1.buf}")
    | none => (s, "bad-op")
  | ["recvf", bads, h] =>
    -- receive with upward failures: `bads` = '+'-separated hex of the frames whose handling raises ("-" = none)
    let bad : List Bytes := (bads.splitOn "+").filterMap Hex.toBytes?
    match (if h == "-" then some [] else Hex.toBytes? h) with
    | some bs =>
      let r := recvF (fun f => bad.contains f) s.buf bs
      ({ s with buf := r.1 }, s!"up:{showFrames r.2.1};buf:{Hex.render r.1};raised:{r.2.2}")
    | none => (s, "bad-op")
  | ["recvc", cl, h] =>
    -- receive where handling one of the frames `cl` closes the connection re-entrantly
    let closing : List Bytes := (cl.splitOn "+").filterMap Hex.toBytes?
    match (if h == "-" then some [] else Hex.toBytes? h) with
    | some bs =>
      let r := recvC (fun f => closing.contains f) s.buf bs
      ({ s with buf := r.1 }, s!"up:{showFrames r.2.1};buf:{Hex.render r.1};closed:{r.2.2}")
    | none => (s, "bad-op")
  | ["send", h] =>
    match Hex.toBytes? h with
    | some bs =>
      match send s.enabled bs with
      | .refused => (s, "refused")
      | .writes ws => (s, s!"writes:{showFrames ws}")
    | none => (s, "bad-op")
  | ["sendlen", n] =>
    match n.toNat? with
    | some k =>
      -- payload of k zero bytes; only lengths of the writes are reported
      match send s.enabled (List.replicate k 0) with
      | .refused => (s, "refused")
      | .writes ws => (s, s!"writes:{",".intercalate (ws.map fun w => if w.length ≤ 3 then Hex.render w else toString w.length)}")
    | none => (s, "bad-op")
  | _ => (s, "bad-op")

end Yow.Drv
