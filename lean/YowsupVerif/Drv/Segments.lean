import YowsupVerif.Model.Segments
import YowsupVerif.Gen.SegmentsSrc
namespace Yow.Drv
open Yow Yow.Segments

def showFrames (fs : List Bytes) : String := ",".intercalate (fs.map Hex.render)

/-- the same call on the TRANSLATION of the current source (Gen/SegmentsSrc.lean): empty when it agrees with the model, otherwise what it
    computes — so that a source whose translation no longer is the model shows up as a concrete input (and the real layer is compared with both) -/
def srcRecvNote (s : St) (bs : Bytes) (mbuf : Bytes) (mup : List Bytes) : String :=
  -- (the translation works on lists, one `drop` per frame: evaluated for reads up to 64 KiB, which is where every boundary of the layer lies)
  if s.buf.length + bs.length > 65536 then "" else
  let g := Gen.SegSrc.runReceive (some s.enabled) s.buf bs
  if Gen.SegSrc.bufOf g == mbuf && g.up == mup && g.low == [] && !g.raised && !g.fuelOut then ""
  else s!";SOURCE-TRANSLATION up:{showFrames g.up};buf:{Hex.render (Gen.SegSrc.bufOf g)};low:{showFrames g.low};raised:{g.raised};fuelOut:{g.fuelOut}"

/-- a write summarised: its length, and its bytes when it is a header (comparing megabyte lists element by element overflows the stack) -/
def writeSummary (w : Bytes) : Nat × Bytes := (w.length, if w.length ≤ 3 then w else [])

def srcSendNote (s : St) (p : Bytes) (m : SendOut) : String :=
  let g := Gen.SegSrc.runSend (some s.enabled) s.buf p
  let same : Bool := match m with
    | .refused => g.raised
    | .writes ws => !g.raised && g.low.map writeSummary == ws.map writeSummary &&
        (p.length > 4096 || g.low.getLast? == ws.getLast?)
  if same && (Gen.SegSrc.bufOf g).length == s.buf.length && g.up.isEmpty then ""
  else s!";SOURCE-TRANSLATION raised:{g.raised};writes:{",".intercalate (g.low.map fun w => if w.length ≤ 3 then Hex.render w else toString w.length)}"

def segStep (s : St) : List String → St × String
  | ["reset", e] => ({ enabled := e == "1", buf := [] }, "ok")
  | ["recv", h] =>
    match Hex.toBytes? h with
    | some bs =>
      let r := recv s bs
      (r.1, s!"up:{showFrames r.2};buf:{Hex.render r.1.buf}" ++ srcRecvNote s bs r.1.buf r.2)
    | none => (s, "bad-op")
  | ["recvf", bads, h] =>
    -- receive with upward failures: `bads` = '+'-separated hex of the frames whose handling raises ("-" = none)
    let bad : List Bytes := (bads.splitOn "+").filterMap Hex.toBytes?
    match (if h == "-" then some [] else Hex.toBytes? h) with
    | some bs =>
      let r := recvF (fun f => bad.contains f) s.buf bs
      let g := Gen.SegSrc.runReceiveF (fun f => bad.contains f) s.buf bs
      let note := if Gen.SegSrc.bufOf g == r.1 && g.up == r.2.1 && g.raised == r.2.2 && g.low == [] && !g.fuelOut then ""
        else s!";SOURCE-TRANSLATION up:{showFrames g.up};buf:{Hex.render (Gen.SegSrc.bufOf g)};raised:{g.raised}"
      ({ s with buf := r.1 }, s!"up:{showFrames r.2.1};buf:{Hex.render r.1};raised:{r.2.2}" ++ note)
    | none => (s, "bad-op")
  | ["recvc", cl, h] =>
    -- receive where handling one of the frames `cl` closes the connection re-entrantly
    let closing : List Bytes := (cl.splitOn "+").filterMap Hex.toBytes?
    match (if h == "-" then some [] else Hex.toBytes? h) with
    | some bs =>
      let r := recvC (fun f => closing.contains f) s.buf bs
      ({ s with buf := r.1 }, s!"up:{showFrames r.2.1};buf:{Hex.render r.1};closed:{r.2.2}")
    | none => (s, "bad-op")
  | ["send", h] =>
    match Hex.toBytes? h with
    | some bs =>
      match send s.enabled bs with
      | .refused => (s, "refused" ++ srcSendNote s bs .refused)
      | .writes ws => (s, s!"writes:{showFrames ws}" ++ srcSendNote s bs (.writes ws))
    | none => (s, "bad-op")
  | ["sendlen", n] =>
    match n.toNat? with
    | some k =>
      -- payload of k zero bytes; only lengths of the writes are reported
      match send s.enabled (List.replicate k 0) with
      | .refused => (s, "refused" ++ srcSendNote s (List.replicate k 0) .refused)
      | .writes ws => (s, s!"writes:{",".intercalate (ws.map fun w => if w.length ≤ 3 then Hex.render w else toString w.length)}" ++ srcSendNote s (List.replicate k 0) (.writes ws))
    | none => (s, "bad-op")
  | _ => (s, "bad-op")

end Yow.Drv
