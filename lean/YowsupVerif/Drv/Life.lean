import YowsupVerif.Model.Lifecycle
namespace Yow.Drv
open Yow.Life

def pIn : List String → Option In
  | ["connectReq"] => some .connectReq
  | ["connectEvt"] => some .connectEvt
  | ["dConnected", d] => d.toNat?.map In.dConnected
  | ["dClosed", d] => d.toNat?.map In.dClosed
  | ["disconnectReq"] => some .disconnectReq
  | ["success"] => some .success
  | ["failure"] => some .failure
  | ["streamError:conflict"] => some (.streamError .conflict)
  | ["streamError:ack"] => some (.streamError .ack)
  | ["streamError:xmlNotWellFormed"] => some (.streamError .xmlNotWellFormed)
  | ["streamError:unknown"] => some (.streamError .unknown)
  | ["pingTick"] => some .pingTick
  | ["pong:1"] => some (.pong true)
  | ["pong:0"] => some (.pong false)
  | ["pongRaises"] => some .pongRaises
  | ["setReconnect:1"] => some (.setReconnect true)
  | ["setReconnect:0"] => some (.setReconnect false)
  | ["keysFlushed"] => some .keysFlushed
  | ["loop"] => some .loop
  | ["appSend"] => some .appSend
  | _ => none

def errName : ErrKind → String
  | .conflict => "conflict" | .ack => "ack" | .xmlNotWellFormed => "xmlNotWellFormed" | .unknown => "unknown"

def lifeOut : Out → String
  | .created d => s!"created:{d}" | .closed d => s!"closed:{d}" | .up => "up" | .downNear => "downNear" | .downAll => "downAll"
  | .authAttempt p => s!"authAttempt:{if p then 1 else 0}" | .authed => "authed" | .entityFailure => "entityFailure"
  | .entityStreamError k => s!"entityStreamError:{errName k}" | .written d => s!"written:{d}" | .dropped => "dropped"
  | .pingSent => "pingSent" | .raisedNotImplemented => "raised:NotImplementedError"
  | .appRaised => "raised:RuntimeError"

def lifeStep (s : St) : List String → St × String
  | ["reset", r, p] => ({ reconnectOpt := r == "1", passive := p == "1" }, "ok")
  | ["reset", r, p, c] => ({ reconnectOpt := r == "1", passive := p == "1", control := c == "1" }, "ok")
  | "allowed" :: rest =>
    match pIn rest with
    | some i => (s, if Allowed s i then "1" else "0")
    | none => (s, "bad-op")
  | "step" :: rest =>
    match pIn rest with
    | some i => let r := step s i; (r.1, ",".intercalate (r.2.map lifeOut))
    | none => (s, "bad-op")
  | _ => (s, "bad-op")

end Yow.Drv
