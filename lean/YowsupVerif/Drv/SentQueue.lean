import YowsupVerif.Model.SentQueue
import YowsupVerif.Gen.SentQueueCfg
namespace Yow.Drv
open Yow.SentQueue

def showQ (q : List Nat) : String := if q.isEmpty then "-" else ",".intercalate (q.map toString)

/-- `sq reset` / `sq enq <id>` / `sq take <id> <0|1>`: bound and eviction end as regenerated from the current source -/
def sqStep (q : List Nat) : List String → List Nat × String
  | ["reset"] => ([], "ok")
  | ["cap"] => (q, toString Yow.Gen.sentQueueCap)
  | ["enq", x] =>
    match x.toNat? with
    | some x => let q' := step Yow.Gen.sentQueueOldestFirst Yow.Gen.sentQueueCap q (.enq x); (q', showQ q')
    | none => (q, "bad-op")
  | ["take", x, k] =>
    match x.toNat?, k.toNat? with
    | some x, some k =>
      let q' := step Yow.Gen.sentQueueOldestFirst Yow.Gen.sentQueueCap q (.take x (k != 0))
      (q', s!"{if found q x then "found" else "none"} {showQ q'}")
    | _, _ => (q, "bad-op")
  | _ => (q, "bad-op")

end Yow.Drv
