import YowsupVerif.Model.Conc
import YowsupVerif.Gen.ConcCfg
import YowsupVerif.Model.StaleWrite
import YowsupVerif.Gen.StaleWriteCfg
namespace Yow.Drv
open Yow.Conc

def concW : W → String
  | .hdr f => s!"h{f.ctr}:{f.stanza}"
  | .pay f => s!"p{f.ctr}:{f.stanza}"

/-- `run <work: 7+9/8/…> <sched: 0,1,0,…>` with the regenerated lock configuration -/
def concStep : List String → String
  | ["cfg"] => s!"outer={Yow.Gen.concCfg.outer} inner={Yow.Gen.concCfg.inner}"
  | ["run", work, sched] =>
    let w := (work.splitOn "/").map fun t => (t.splitOn "+").filterMap (·.toNat?)
    let sc := (sched.splitOn ",").filterMap (·.toNat?)
    let s := run (init Yow.Gen.concCfg w) sc
    s!"finished={finished s} framed={wellFramed s.wire 0} wire={" ".intercalate (s.wire.map concW)} left={",".intercalate (s.threads.map fun t => toString t.ops.length)}"
  | ["stale", work, sched] =>
    -- `stale <work: 2/-/1 (stanzas per sender, "-" = a connection loss + new login)> <sched>` with the regenerated configuration
    let w := (work.splitOn "/").map fun t => if t == "-" then none else t.toNat?
    let sc := (sched.splitOn ",").filterMap (·.toNat?)
    let s := Yow.Stale.run (Yow.Stale.init Yow.Gen.staleWriteCfg w) sc
    s!"atomic={Yow.Gen.staleWriteCfg.atomic} wire={" ".intercalate (s.wire.map fun p => s!"{p.1}:{p.2}")} left={",".intercalate (s.threads.map fun t => toString t.ops.length)}"
  | _ => "bad-op"

end Yow.Drv
