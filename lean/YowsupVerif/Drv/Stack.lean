import YowsupVerif.Model.Stack
namespace Yow.Drv
open Yow.Stack

structure StackSt where
  layers : List (Nat × LayerB) := []
  insts : List Inst := []

def fan (kind : String) : Nat → List Nat :=
  if kind == "pass" then fun m => [m]
  else if kind == "drop" then fun _ => []
  else if kind == "dup" then fun m => [m, m + 1000]
  else fun m => [m + 1]     -- "inc"

def envOf (s : StackSt) : Nat → LayerB := fun l =>
  match s.layers.find? (·.1 == l) with
  | some (_, b) => b
  | none => { cls := 0, tx := fun m => [m], rx := fun m => [m], consumes := fun _ => false, iface := none }

def parseSlot (t : String) : Option Slot :=
  if t.startsWith "S" then (t.drop 1).toNat?.map Slot.single
  else if t.startsWith "P" then
    let ids := ((t.drop 1).toString.splitOn ",").map String.toNat?
    if ids.all Option.isSome then some (Slot.par (ids.filterMap id)) else none
  else none

def showEv : Ev → String
  | .sent l m => s!"s{l}:{m}"
  | .recvd l m => s!"r{l}:{m}"
  | .saw l e => s!"e{l}:{e}"

def showTrace (t : List Ev) : String := ",".intercalate (t.map showEv)

def showOut (o : EvOut) : String :=
  s!"{showTrace o.seen};deferred:{match o.deferred with | some j => toString j | none => "-"}"

def stackStep (s : StackSt) : List String → StackSt × String
  | ["reset"] => ({}, "ok")
  | ["layer", l, cls, tx, rx, cons, iface] =>
    match l.toNat?, cls.toNat? with
    | some l, some c =>
      let consumes : Nat → Bool := match cons.toNat? with | some e => fun ev => ev == e | none => fun _ => false
      let b : LayerB := { cls := c, tx := fan tx, rx := fan rx, consumes := consumes, iface := iface.toNat? }
      ({ s with layers := (l, b) :: s.layers }, "ok")
    | _, _ => (s, "bad-op")
  | "build" :: rev :: slots =>
    let ps := slots.map parseSlot
    if ps.all Option.isSome then
      ({ s with insts := construct (ps.filterMap id) (rev == "1") }, "ok")
    else (s, "bad-op")
  | ["send", m] =>
    match m.toNat? with
    | some m => (s, showTrace (sendAt (envOf s) s.insts s.insts.length (s.insts.length - 1) m))
    | none => (s, "bad-op")
  | ["recv", m] =>
    match m.toNat? with
    | some m => (s, showTrace (recvAt (envOf s) s.insts s.insts.length 0 m))
    | none => (s, "bad-op")
  | ["emit", who, ev, det] =>
    match ev.toNat? with
    | some e =>
      let d := det == "1"
      if who == "stack" then (s, showOut (stackEmits (envOf s) s.insts e d))
      else match who.toNat? with
        | some i => (s, showOut (layerEmits (envOf s) s.insts i e d))
        | none => (s, "bad-op")
    | none => (s, "bad-op")
  | ["bcast", who, ev, det] =>
    match ev.toNat? with
    | some e =>
      let d := det == "1"
      if who == "stack" then (s, showOut (stackBroadcasts (envOf s) s.insts e d))
      else match who.toNat? with
        | some i => (s, showOut (layerBroadcasts (envOf s) s.insts i e d))
        | none => (s, "bad-op")
    | none => (s, "bad-op")
  | ["loop", kind, j, ev] =>
    match j.toNat?, ev.toNat? with
    | some j, some e =>
      if kind == "emit" then (s, showTrace (loopRunsEmit (envOf s) s.insts j e))
      else (s, showTrace (loopRunsBroadcast (envOf s) s.insts j e))
    | _, _ => (s, "bad-op")
  | ["iface", c] =>
    match c.toNat? with
    | some c => (s, match getInterface (envOf s) c s.insts with | some x => toString x | none => "-")
    | none => (s, "bad-op")
  | "builder" :: ops =>
    let parsed := ops.map fun o =>
      if o == "pop" then some BuilderOp.pop
      else if o.startsWith "E" then
        let ss := ((o.drop 1).toString.splitOn ";").map parseSlot
        if ss.all Option.isSome then some (BuilderOp.extend (ss.filterMap id)) else none
      else (parseSlot o).map BuilderOp.push
    if parsed.all Option.isSome then
      let sl := builderRun (parsed.filterMap id)
      (s, " ".intercalate (sl.map fun
        | .single l => s!"S{l}"
        | .par ls => "P" ++ ",".intercalate (ls.map toString)))
    else (s, "bad-op")
  | _ => (s, "bad-op")

end Yow.Drv
