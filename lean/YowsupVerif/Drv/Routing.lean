import YowsupVerif.Model.Routing
namespace Yow.Drv
open Yow.Routing

def pTag : String → Tag
  | "message" => .message | "receipt" => .receipt | "ack" => .ack | "presence" => .presence | "chatstate" => .chatstate
  | "call" => .call | "ib" => .ib | "iq" => .iq | "notification" => .notification | "success" => .success
  | "failure" => .failure | "streamFeatures" => .streamFeatures | "streamError" => .streamError | _ => .other
def pNType : String → NType
  | "picture" => .picture | "status" => .status | "contacts" => .contacts | "subject" => .subject | "wgp2" => .wgp2
  | "encrypt" => .encrypt | _ => .other
def pMType : String → MType
  | "text" => .text | "media" => .media | _ => .other
def pMedia : String → Media
  | "absent" => .absent | "image" => .image | "sticker" => .sticker | "audio" => .audio | "ptt" => .ptt | "video" => .video
  | "gif" => .gif | "location" => .location | "contact" => .contact | "document" => .document | "url" => .url | _ => .other
def pPayload : String → Payload
  | "conversation" => .conversation | "extendedText" => .extendedText | "keyDistributionOnly" => .keyDistributionOnly | _ => .other
def pXmlns : String → Xmlns
  | "ping" => .ping | "wp" => .wp | "push" => .push | "w" => .w | "account" => .account | "encrypt" => .encrypt | "last" => .last
  | "sync" => .sync | "wm" => .wm | "wg2" => .wg2 | "profilePicture" => .profilePicture | "privacy" => .privacy | "status" => .status
  | "jabberPrivacy" => .jabberPrivacy | "absent" => .absent | _ => .other
def pIqType : String → IqType
  | "set" => .set | "result" => .result | "error" => .error | "delete" => .delete | _ => .get
def pCls : String → EClass
  | "cleanIq" => .cleanIq | "groupsRequest" => .groupsRequest | "getStatuses" => .getStatuses | "setStatus" => .setStatus | _ => .plain

def kvs (toks : List String) : List (String × String) :=
  toks.filterMap fun t => match t.splitOn "=" with | [k, v] => some (k, v) | _ => none

def getS (m : List (String × String)) (k : String) (d : String := "") : String :=
  match m.find? (·.1 == k) with | some (_, v) => v | none => d
def getB (m : List (String × String)) (k : String) : Bool := getS m k "0" == "1"

def mkStanza (m : List (String × String)) : Stanza :=
  { tag := pTag (getS m "tag"), ntype := pNType (getS m "ntype"), mtype := pMType (getS m "mtype"),
    hasProto := getB m "hasProto", media := pMedia (getS m "media" "absent"), payload := pPayload (getS m "payload"),
    iqType := pIqType (getS m "iqType"), xmlns := pXmlns (getS m "xmlns" "absent"), callOffer := getB m "callOffer",
    errKnown := getB m "errKnown", cSet := getB m "cSet", cDelete := getB m "cDelete", cRemove := getB m "cRemove",
    cAdd := getB m "cAdd", cUpdate := getB m "cUpdate", cSync := getB m "cSync", cSubject := getB m "cSubject",
    cCreate := getB m "cCreate", cCount := getB m "cCount", cIdentity := getB m "cIdentity", cDirty := getB m "cDirty",
    cOffline := getB m "cOffline", cAccount := getB m "cAccount" }

def mkFlags (s : String) : Flags :=
  match s.toList with
  | [a, b, c, d] => { groups := a == '1', media := b == '1', privacy := c == '1', profiles := d == '1' }
  | _ => { groups := true, media := true, privacy := true, profiles := true }

def entName : Ent → String
  | .success => "success" | .failure => "failure" | .streamFeatures => "streamFeatures" | .streamError => "streamError"
  | .text => "text" | .extendedText => "extendedText" | .image => "image" | .sticker => "sticker" | .audio => "audio"
  | .video => "video" | .location => "location" | .contact => "contact" | .document => "document"
  | .extendedTextMedia => "extendedTextMedia" | .receipt => "receipt" | .ack => "ack" | .presence => "presence"
  | .chatstate => "chatstate" | .call => "call" | .ibDirty => "ibDirty" | .ibOffline => "ibOffline" | .ibAccount => "ibAccount"
  | .syncResult => "syncResult" | .pictureSet => "pictureSet" | .pictureDelete => "pictureDelete"
  | .statusNotification => "statusNotification" | .contactRemove => "contactRemove" | .contactAdd => "contactAdd"
  | .contactUpdate => "contactUpdate" | .contactsSync => "contactsSync" | .groupSubject => "groupSubject"
  | .groupCreate => "groupCreate" | .groupRemove => "groupRemove" | .groupAdd => "groupAdd"

def downName : Down → String
  | .notificationAck p => s!"notificationAck:{if p then 1 else 0}" | .callReceipt => "callReceipt" | .callAck => "callAck"
  | .pong => "pong" | .messageReceipt => "messageReceipt" | .messageReadReceipt => "messageReadReceipt"

def evtName : Evt → String
  | .authed => "authed" | .disconnectRequest => "disconnectRequest"

def routingStep : List String → String
  | "recv" :: enc :: flags :: rest =>
    let r := recvStack (mkFlags flags) (enc == "1") (mkStanza (kvs rest))
    s!"ups:{",".intercalate (r.1.ups.map entName)};downs:{",".intercalate (r.1.downs.map downName)};evts:{",".intercalate (r.1.evts.map evtName)};raised:{if r.2 then 1 else 0}"
  | "send" :: flags :: rest =>
    let m := kvs rest
    let e : Entity := { tag := pTag (getS m "tag"), mtype := pMType (getS m "mtype"), xmlns := pXmlns (getS m "xmlns" "absent"),
                        iqType := pIqType (getS m "iqType"), cls := pCls (getS m "cls") }
    toString (sendAll (sendHandlers (mkFlags flags)) e)
  | _ => "bad-op"

end Yow.Drv
