import YowsupVerif.Model.E2ETok
namespace Yow.Drv
open Yow.E2E

def e2Dest : Dest → String
  | .user a => s!"u{a}"
  | .group g => s!"g{g}"

def e2Opt : Option Nat → String
  | none => "-"
  | some a => toString a

def e2Kind : EncKind → String
  | .pkmsg => "pkmsg" | .msg => "msg" | .skmsg => "skmsg"

def e2Stanza : Stanza → String
  | .msg id peer part im encs pl =>
    s!"m:{id}:{e2Dest peer}:{e2Opt part}:{if im then 1 else 0}:[{",".intercalate (encs.map fun e => s!"{e2Opt e.1}/{e2Kind e.2.kind}")}]:{if pl.isSome then 1 else 0}"
  | .receipt id peer part t =>
    s!"r:{id}:{e2Dest peer}:{e2Opt part}:{match t with | .delivery => "d" | .retry n => s!"retry{n}"}"
  | .ack id cls => s!"a:{id}:{cls}"
  | .getKeys _ jids => s!"k:{"+".intercalate (jids.map toString)}"
  | .keys _ jids => s!"K:{"+".intercalate (jids.map toString)}"
  | .getGroup _ g => s!"g:{g}"
  | .groupInfo _ g ms => s!"G:{g}:{"+".intercalate (ms.map toString)}"

def e2Shown (r : Acct) (x : Shown) : String :=
  s!"s:{r}:{x.id}:{e2Dest x.peer}:{e2Opt x.participant}:{if x.payload.isMedia then 1 else 0}:{x.payload.content}"

def e2Rcpt (r : Acct) (x : Nat × Dest × Option Acct × RType) : String :=
  s!"R:{r}:{x.1}:{e2Dest x.2.1}:{e2Opt x.2.2.1}:{match x.2.2.2 with | .delivery => "d" | .retry n => s!"retry{n}"}"

def e2Diff (s s' : Sys) : String :=
  let w := (s'.wire.drop s.wire.length).map fun p => s!"{p.1}>{e2Stanza p.2}"
  let sh := s'.clients.flatMap fun p => ((p.2.shown.drop (getClient s p.1).shown.length).map (e2Shown p.1))
  let rc := s'.clients.flatMap fun p => ((p.2.receipts.drop (getClient s p.1).receipts.length).map (e2Rcpt p.1))
  let q := s'.clients.map fun p => s!"{p.1}:{(queueOf s'.inbound p.1).length}/{(queueOf s'.outbound p.1).length}"
  s!"W={" ".intercalate w}|S={" ".intercalate sh}|R={" ".intercalate rc}|Q={",".intercalate q}"

def e2Nats (x : String) : List Nat := (x.splitOn "+").filterMap (·.toNat?)

def e2DestOf (k d : String) : Option Dest :=
  match k, d.toNat? with
  | "u", some a => some (.user a)
  | "g", some g => some (.group g)
  | _, _ => none

def e2Act : List String → Option Act
  | ["appSend", a, k, d, id, im, c] =>
    match a.toNat?, e2DestOf k d, id.toNat?, c.toNat? with
    | some a, some dest, some id, some c => some (.appSend a { id := id, dest := dest, payload := { isMedia := im == "1", content := c } })
    | _, _, _, _ => none
  | ["process", a] => a.toNat?.map Act.process
  | ["deliver", a, f] =>
    match a.toNat?, f with
    | some a, "none" => some (.deliver a .none)
    | some a, "dup" => some (.deliver a .dup)
    | some a, "corrupt" => some (.deliver a .corrupt)
    | _, _ => none
  | ["restart", a] => a.toNat?.map Act.restart
  | _ => none

/-- `init 1+2+3 7:1+2+3 8:1+2` -/
def e2eStep (s : Sys) : List String → Sys × String
  | "init" :: accts :: groups =>
    let gs := groups.filterMap fun g => match g.splitOn ":" with
      | [g, ms] => g.toNat?.map fun g => (g, e2Nats ms)
      | _ => none
    (initSys (e2Nats accts) gs, "ok")
  | "act" :: rest =>
    match e2Act rest with
    | some a =>
      if Allowed s a then
        let s' := step s a
        (s', e2Diff s s')
      else (s, "not-allowed")
    | none => (s, "bad-op")
  | ["enabled"] =>
    let acts := s.clients.flatMap fun p =>
      (if (queueOf s.inbound p.1).isEmpty then [] else [s!"process:{p.1}"]) ++
      (match queueOf s.outbound p.1 with
       | [] => []
       | .msg id _ _ _ _ _ :: _ => [s!"deliver:{p.1}:{if s.faulted.contains (id, p.1) then "nofault" else "fault"}"]
       | _ :: _ => [s!"deliver:{p.1}:nofault"])
    (s, " ".intercalate acts)
  | ["tokens"] =>
    let bad := s.submitted.flatMap fun p => ((intended s p.1 p.2).filterMap fun r =>
      let t := tokens s p.1 p.2.id r
      if t == 1 then none else some s!"{p.2.id}@{r}={t}")
    (s, s!"conserved={if conserved s then 1 else 0} settled={if settled s then 1 else 0} {" ".intercalate bad}")
  | ["tokinv"] => (s, if tokInv s then "1" else tokInvReport s)
  | ["quiescent"] => (s, if quiescent s then "1" else "0")
  | _ => (s, "bad-op")

end Yow.Drv
