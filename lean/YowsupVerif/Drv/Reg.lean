import YowsupVerif.Model.Registration
import YowsupVerif.Gen.RegConsts
namespace Yow.Drv
open Yow Yow.Reg

def parseCps (t : String) : Option (List Nat) :=
  if t == "-" then some []
  else
    let xs := (t.splitOn ",").map String.toNat?
    if xs.all Option.isSome then some (xs.filterMap id) else none

partial def parsePairs : List String → Option (List (List Nat × Bytes))
  | [] => some []
  | k :: v :: rest => do
    let k ← Hex.toBytes? k
    let v ← Hex.toBytes? v
    let r ← parsePairs rest
    some ((k, v) :: r)
  | _ => none

def regStep : List String → String
  | ["pads"] => s!"ipad:{Hex.render (xorPad 0x36 Yow.Gen.regKey)};opad:{Hex.render (xorPad 0x5C Yow.Gen.regKey)}"
  | ["encb", h] =>
    match Hex.toBytes? h with
    | some bs => Hex.render (urlencodeBytes bs)
    | none => "bad-op"
  | ["encs", cps] =>
    match parseCps cps with
    | some cs => Hex.render (urlencodeStr cs)
    | none => "bad-op"
  | ["dec", h] =>
    match Hex.toBytes? h with
    | some bs => Hex.render (pctDecode bs)
    | none => "bad-op"
  | ["national", cc, ph] =>
    match Hex.toBytes? cc, Hex.toBytes? ph with
    | some c, some p => Hex.render (nationalOf c p)
    | _, _ => "bad-op"
  | "params" :: rest =>
    match parsePairs rest with
    | some ps => Hex.render (urlencodeParams ps)
    | none => "bad-op"
  | _ => "bad-op"

end Yow.Drv
