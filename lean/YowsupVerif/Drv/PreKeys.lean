import YowsupVerif.Model.PreKeys
namespace Yow.Drv
open Yow.PreKeys

structure PkSt where
  p : Params := { batch := 4, threshold := 2 }
  s : St := {}

def pkOut : Out → String
  | .upload rid keys => s!"upload:{rid}:{"+".intercalate (keys.map fun kv => toString kv.1)}"
  | .disconnectRequest => "disconnectRequest"
  | .reconnect => "reconnect"
  | .decryptOk id _ => s!"decryptOk:{id}"
  | .invalidKeyId id => s!"invalidKeyId:{id}"
  | .raised => "raised"

def pkShow (s : St) : String :=
  let rows := (s.db.map fun r => (r.id, r.sent)).mergeSort (fun a b => a.1 ≤ b.1)
  s!"db={",".intercalate (rows.map fun (i, b) => s!"{i}:{if b then 1 else 0}")};tomb={",".intercalate ((s.tomb.mergeSort (· ≤ ·)).map toString)};unsent={s.unsent.length};passive={if s.passiveProp then 1 else 0};reboot={if s.rebootFlag then 1 else 0}"

def pkEv : List String → Option Ev
  | ["connect"] => some .connect
  | ["authed", p] => some (.authed (p == "1"))
  | ["serverAsksKeys"] => some .serverAsksKeys
  | ["uploadResult", r] => r.toNat?.map Ev.uploadResult
  | ["uploadError", r] => r.toNat?.map Ev.uploadError
  | ["disconnected"] => some .disconnected
  | ["restart"] => some .restart
  | ["consume", i] => i.toNat?.map Ev.consume
  | _ => none

def pkStep (st : PkSt) : List String → PkSt × String
  | ["reset", b, t] =>
    match b.toNat?, t.toNat? with
    | some b, some t => ({ p := { batch := b, threshold := t }, s := {} }, "ok")
    | _, _ => (st, "bad-op")
  | ["adjust", n] =>
    match n.toNat? with
    | some k => (st, ",".intercalate ((adjustId k).map toString))
    | none => (st, "bad-op")
  | "ev" :: rest =>
    match pkEv rest with
    | some e =>
      let r := step st.p st.s e
      ({ st with s := r.1 }, s!"{",".intercalate (r.2.map pkOut)} | {pkShow r.1}")
    | none => (st, "bad-op")
  | _ => (st, "bad-op")

end Yow.Drv
