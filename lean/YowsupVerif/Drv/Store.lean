import YowsupVerif.Model.Store
import YowsupVerif.Gen.StoreOps
namespace Yow.Drv
open Yow.Store

/-- skeleton of operation `op` as regenerated from the source; variant 1 if the key exists and a
    distinct skeleton was traced for that case -/
def skeletonOf (op : Nat) (keyExists : Bool) : Option (List Sk) :=
  let cands := Yow.Gen.storeOps.filter (fun e => e.1 == op)
  match cands.find? (fun e => e.2.1 == (if keyExists then 1 else 0)) with
  | some e => some e.2.2
  | none => (cands.head?).map (fun e => e.2.2)

def tableOf (sk : List Sk) : Nat :=
  match sk.find? (fun s => match s with | .begin => false | .commit => false | _ => true) with
  | some (.del t _) => t | some (.ins t _) => t | some (.insRepl t _) => t
  | some (.updFlag t _) => t | some (.updVal t _) => t
  | _ => 0

def showTables (ts : List Table) : String :=
  "|".intercalate (ts.map fun tb =>
    ",".intercalate ((tb.map fun r => (r.key, r.val, r.flag)).mergeSort (fun a b => a.1 ≤ b.1) |>.map
      fun (k, v, f) => s!"{k}:{v}:{if f then 1 else 0}"))

/-- did the run stop on a raising statement? (re-run statement by statement) -/
def runRaises (args : List (Nat × Nat)) : Db → List Sk → Bool
  | _, [] => false
  | db, s :: rest =>
    match exec args db s with
    | some db' => runRaises args db' rest
    | none => true

def storeStep (db : Db) : List String → Db × String
  | ["reset"] => (empty, "ok")
  | ["op", op, k, v, k2] =>
    match op.toNat?, k.toNat?, v.toNat?, k2.toNat? with
    | some op, some k, some v, some k2 =>
      -- the variant is chosen by whether the key exists in the table the operation writes
      match skeletonOf op false with
      | none => (db, "bad-op")
      | some sk0 =>
        let t := tableOf sk0
        let ex := (lookup (view db) t k).isSome
        match skeletonOf op ex with
        | none => (db, "bad-op")
        | some sk =>
          let args := [(k, v), (k2, v)]
          let raised := runRaises args db sk
          (run args db sk, if raised then "raised" else "ok")
    | _, _, _, _ => (db, "bad-op")
  | ["crashrun", op, j, k, v, k2] =>
    match op.toNat?, j.toNat?, k.toNat?, v.toNat?, k2.toNat? with
    | some op, some j, some k, some v, some k2 =>
      match skeletonOf op false with
      | none => (db, "bad-op")
      | some sk0 =>
        let t := tableOf sk0
        let ex := (lookup (view db) t k).isSome
        match skeletonOf op ex with
        | none => (db, "bad-op")
        | some sk =>
          let db' := crash (run [(k, v), (k2, v)] db (sk.take j))
          (db', s!"{sk.length} {showTables db'.committed}")
    | _, _, _, _, _ => (db, "bad-op")
  | ["faultrun", op, j, k, v, k2] =>
    -- the write statement at position j of the operation fails; whether the operation then rolls back is what the probe of the current
    -- source says (Gen.faultOutcome)
    match op.toNat?, j.toNat?, k.toNat?, v.toNat?, k2.toNat? with
    | some op, some j, some k, some v, some k2 =>
      match skeletonOf op false with
      | none => (db, "bad-op")
      | some sk0 =>
        let t := tableOf sk0
        let ex := (lookup (view db) t k).isSome
        match skeletonOf op ex with
        | none => (db, "bad-op")
        | some sk =>
          if j + 1 ≥ sk.length then (db, "not-reached") else
          let rb := match Yow.Gen.faultOutcome.find? (fun f => f.1 == op && f.2.1 == j) with
            | some f => f.2.2
            | none => true
          let db' := runFault rb [(k, v), (k2, v)] db sk j
          (db', if rb then "rolled-back" else "pending")
    | _, _, _, _, _ => (db, "bad-op")
  | ["reopen"] => (crash db, "ok")
  | ["dump"] => (db, showTables (view db))
  | ["get", t, k] =>
    match t.toNat?, k.toNat? with
    | some t, some k =>
      (db, match lookup (view db) t k with | some (v, f) => s!"{v} {if f then 1 else 0}" | none => "none")
    | _, _ => (db, "bad-op")
  | _ => (db, "bad-op")

end Yow.Drv
