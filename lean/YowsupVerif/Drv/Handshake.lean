import YowsupVerif.Model.Handshake
import YowsupVerif.Gen.HsCfg
namespace Yow.Drv
open Yow.HS

def hsUp : Up → String
  | .frame sg => s!"f{sg.conn}.{sg.serial}"
  | .failure c => s!"failure{c}"
  | .raised => "raised"

def hsP : PState → String
  | .init => "init" | .handshake => "handshake" | .transport => "transport" | .error => "error"

def hsAct : List String → Option Act
  | ["connect"] => some .connect
  | ["disconnect"] => some .disconnect
  | ["net"] => some .net
  | ["worker", i] => i.toNat?.map Act.worker
  | ["arrive", c, k, g, n] =>
    match c.toNat?, n.toNat? with
    | some c, some n => some (.arrive { conn := c, kind := if k == "hello" then .hello else .frame, good := g == "1", serial := n })
    | _, _ => none
  | _ => none

def hsShow (s : St) : String :=
  s!"state={hsP (pstate s)} conn={s.conn} key={match keyOf s with | some k => toString k | none => "-"} up={" ".intercalate (s.up.map hsUp)} q={(qGet s s.curQ).length} idle={s.npc == .idle} rest={atRest s}"

def hsStep (cfg : Cfg) (s : St) : List String → St × String
  | ["reset"] => ({}, "ok")
  | "act" :: rest =>
    match hsAct rest with
    | some a => if Allowed s a then let s' := step cfg s a; (s', hsShow s') else (s, "not-allowed")
    | none => (s, "bad-op")
  | ["show"] => (s, hsShow s)
  | _ => (s, "bad-op")

end Yow.Drv
