"""Translator: yowsup/config/manager.py (ConfigManager.save) + yowsup/common/tools.py (StorageTools) ->
Gen/FileOps.lean: the file-operation trace of saving a profile's configuration, into a profile that
has never been used and into an existing one (None = the save raised)."""
import os

import boot  # noqa: F401

LEAN_FILE = "FileOps.lean"


def sample_config():
    from yowsup.config.v1.config import Config
    from consonance.structs.keypair import KeyPair
    return Config(phone="491234", cc=49, pushname="x", client_static_keypair=KeyPair.generate())


def trace_profile(fmt):
    """the trace of YowProfile.write_config (what the noise layer calls after a handshake) on an existing profile stored in `fmt`"""
    from lib.fstrace import Tracer
    from yowsup.config.manager import ConfigManager
    from yowsup.profile.profile import YowProfile
    import uuid
    cm = ConfigManager()
    name = "genprofile-" + uuid.uuid4().hex
    base = os.path.join(os.environ["XDG_CONFIG_HOME"], "yowsup")
    final = os.path.join(base, name, "config.json" if fmt == "json" else "config.yo")
    os.makedirs(os.path.join(base, name), exist_ok=True)
    with open(final, "w") as f:
        f.write(cm.config_to_str(sample_config(), cm.TYPE_JSON if fmt == "json" else cm.TYPE_KEYVAL))
    try:
        with Tracer(final) as tr:
            YowProfile(name).write_config(sample_config())
        return tr.ops
    except Exception:
        return None


def trace(profile_exists):
    from lib.fstrace import Tracer
    from yowsup.config.manager import ConfigManager
    from yowsup.common.tools import StorageTools
    import uuid
    name = "genprofile-" + uuid.uuid4().hex
    base = os.path.join(os.environ["XDG_CONFIG_HOME"], "yowsup")
    final = os.path.join(base, name, "config.json")
    cfg = sample_config()
    if profile_exists:
        os.makedirs(os.path.join(base, name), exist_ok=True)
        with open(final, "w") as f:
            f.write("{}")
    try:
        with Tracer(final) as tr:
            ConfigManager().save(name, cfg)
        ops = tr.ops
        ok = os.path.isfile(final)
    except Exception:
        return None
    return ops if ok else None


def generate():
    from lib.fstrace import lean_op

    def show(ops):
        return "none" if ops is None else "some [%s]" % ", ".join(lean_op(o) for o in ops)
    return "\n".join([
        "/- REGENERATED on every run by tracing ConfigManager.save of the current source — do not edit -/",
        "import YowsupVerif.Model.Config", "namespace Yow.Gen", "open Yow.Config",
        "/-- save into a profile that has never been used before (none = it raised / wrote nothing) -/",
        "def saveTraceFresh : Option (List FileOp) := %s" % show(trace(False)),
        "/-- save over an existing configuration -/",
        "def saveTraceExisting : Option (List FileOp) := %s" % show(trace(True)),
        "/-- YowProfile.write_config over an existing profile stored as JSON / as key=value (path 0 = that profile's config file) -/",
        "def saveTraceProfileJson : Option (List FileOp) := %s" % show(trace_profile("json")),
        "def saveTraceProfileKeyval : Option (List FileOp) := %s" % show(trace_profile("keyval")),
        "end Yow.Gen", ""])
