"""Translator: yowsup/layers/axolotl/layer_send.py (AxolotlSendLayer.MAX_SENT_QUEUE, enqueueSent) -> lean/YowsupVerif/Gen/SentQueueCfg.lean.
Reads the bound of the sent-message memory off the CURRENT class and probes, on a real layer object, which entry a full memory forgets when
one more message is sent."""
import boot  # noqa: F401

LEAN_FILE = "SentQueueCfg.lean"


class _Node(dict):
    """what enqueueSent / getEnqueuedMessageNode need of a stanza: node["id"]"""


def probe():
    from yowsup.layers.axolotl.layer_send import AxolotlSendLayer
    cap = int(AxolotlSendLayer.MAX_SENT_QUEUE)
    layer = AxolotlSendLayer()
    for i in range(cap + 1):
        layer.enqueueSent(_Node(id=str(i)))
    ids = [n["id"] for n in layer.sentQueue]
    oldest_first = ids == [str(i) for i in range(1, cap + 1)]
    return cap, oldest_first, len(ids)


def generate():
    cap, oldest, n = probe()
    return "\n".join([
        "/- REGENERATED on every run from AxolotlSendLayer.MAX_SENT_QUEUE and a probe of enqueueSent on a real layer object (bound + 1 messages",
        "   sent: which one is forgotten?) — do not edit -/",
        "namespace Yow.Gen",
        "def sentQueueCap : Nat := %d" % cap,
        "/-- a full memory forgets its OLDEST entry and keeps the message just sent -/",
        "def sentQueueOldestFirst : Bool := %s" % str(bool(oldest)).lower(),
        "/-- entries held after bound + 1 sends -/",
        "def sentQueueHeldAfterOverflow : Nat := %d" % n,
        "end Yow.Gen", ""])
