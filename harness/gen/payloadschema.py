"""Translator: AttributesConverter (converter.py) + the attribute classes -> Gen/PayloadSchema.lean.
Every schema's field table (kind, forward / backward presence rule, proto field written / read, raises) is
determined by running the CURRENT converter with one field varied at a time (lib/payloadspec.probe_schema);
the field lists are checked against the constructors of the current attribute classes."""
import boot  # noqa: F401

LEAN_FILE = "PayloadSchema.lean"


def generate():
    from lib import payloadspec as ps
    bad = ps.check_signatures()
    if bad:
        raise RuntimeError("attribute classes changed shape: " + "; ".join(bad))
    L = ["/- REGENERATED on every run by probing AttributesConverter of the current source, one field at a time — do not edit -/",
         "import YowsupVerif.Model.Payload", "namespace Yow.Gen", "open Yow.Payload", ""]
    names = []
    for name, _to, _frm, _fields in ps.SCHEMAS:
        rows = ps.probe_schema(name)
        names.append(name)
        L.append("/-- schema %d: %s -/" % (ps.SCHEMA_IDS[name], name))
        L.append("def schema_%s : Schema := [" % name)
        items = []
        for r in rows:
            kind = {"scalar": ".scalar", "list": ".list"}.get(r["kind"]) or "(.sub %d)" % r["sub"]
            items.append("  { kind := %s, fwd := .%s, bwd := .%s, target := %d, source := %d, raises := %s }  -- %s : %s"
                         % (kind, r["fwd"], r["bwd"], r["target"], r["source"], "true" if r["raises"] else "false", r["path"], r["type"]))
        body = []
        for i, it in enumerate(items):
            code, comment = it.split("  -- ")
            body.append(code + ("," if i < len(items) - 1 else "") + "  -- " + comment)
        L.extend(body)
        L.append("]")
        L.append("")
    L.append("def payloadTable : Table := [%s]" % ", ".join("schema_" + n for n in names))
    L += ["end Yow.Gen", ""]
    return "\n".join(L)


if __name__ == "__main__":
    print(generate())
