"""Translator: the protocol layers' request handling -> Gen/IqKinds.lean.  For every request kind the
CURRENT code is probed behaviourally in the assembled protocol stack: does a result reply / an error
reply make a reply entity travel upward, and is the request registered (a replayed reply then
produces nothing)?"""
import boot  # noqa: F401

LEAN_FILE = "IqKinds.lean"


def probe():
    from lib import iqkinds
    out = []
    for kind in iqkinds.kinds():
        stack, bottom, iface, top = iqkinds.protocol_stack()

        def send():
            req = kind["req"]()
            n = len(bottom.sent)
            iface.send(req)
            return req.getId(), len(bottom.sent) - n

        def deliver(node):
            n = len(top.received)
            try:
                bottom.toUpper(node)
            except Exception:
                return -1
            return len(top.received) - n
        i1, sent = send()
        succ = deliver(iqkinds.result_node(kind, i1)) >= 1
        replay = deliver(iqkinds.result_node(kind, i1))
        registers = replay == 0
        i2, _ = send()
        err = deliver(iqkinds.error_node(i2)) >= 1
        # an iq error is never forwarded by ordinary stanza handling, so an error entity proves registration
        out.append((kind["name"], iqkinds.LAYER_IDS.get(kind["owner"], 99), (registers or err) and sent == 1, succ, err))
    return out


def generate():
    rows = probe()

    def b(x):
        return "true" if x else "false"
    L = ["/- REGENERATED on every run by probing every request kind through the protocol layers of the current source — do not edit -/",
         "import YowsupVerif.Model.IqRegistry", "namespace Yow.Gen", "open Yow.Iq",
         "/-- request kinds in the order of harness/lib/iqkinds.py -/",
         "def iqKinds : List Kind := ["]
    L.append(",\n".join("  { owner := %d, registers := %s, succ := %s, err := %s }  -- %s" % (o, b(r), b(s), b(e), n) for n, o, r, s, e in rows).replace("  -- ", " /- ").replace("\n", " -/\n") + " -/" if False else
             ",\n".join("  { owner := %d, registers := %s, succ := %s, err := %s }" % (o, b(r), b(s), b(e)) for n, o, r, s, e in rows))
    L.append("]")
    L.append("/- kinds: %s -/" % ", ".join(n for n, *_ in rows))
    L += ["end Yow.Gen", ""]
    return "\n".join(L)
