"""Translator: the protocol layers' request handling -> Gen/IqKinds.lean.  For every request kind the
CURRENT code is probed behaviourally in the assembled protocol stack: does a result reply / an error
reply make a reply entity travel upward, and is the request registered (a replayed reply then
produces nothing)?"""
import boot  # noqa: F401

LEAN_FILE = "IqKinds.lean"


def probe():
    from lib import iqkinds
    out = []
    for kind in iqkinds.kinds():
        stack, bottom, iface, top = iqkinds.protocol_stack()

        def send():
            req = kind["req"]()
            n = len(bottom.sent)
            iface.send(req)
            return req.getId(), len(bottom.sent) - n

        def deliver(node):
            n = len(top.received)
            try:
                bottom.toUpper(node)
            except Exception:
                return -1
            return len(top.received) - n
        i1, sent = send()
        succ = deliver(iqkinds.result_node(kind, i1)) >= 1
        replay = deliver(iqkinds.result_node(kind, i1))
        registers = replay == 0
        i2, _ = send()
        err = deliver(iqkinds.error_node(i2)) >= 1
        # an iq error is never forwarded by ordinary stanza handling, so an error entity proves registration
        out.append((kind["name"], iqkinds.LAYER_IDS.get(kind["owner"], 99), (registers or err) and sent == 1, succ, err))
    return out


def server_request_consumes():
    """a request is left pending; the server's own ping arrives under its id; then the genuine result: does the result still reach the request's
    callback (and was the ping answered)?  False = the current source takes only answers for answers"""
    from lib import iqkinds
    from yowsup.structs import ProtocolTreeNode as N
    from yowsup.layers.protocol_iq.protocolentities import PingIqProtocolEntity, ResultIqProtocolEntity
    stack, bottom, iface, top = iqkinds.protocol_stack()
    calls = []
    ent = PingIqProtocolEntity()
    iface._sendIq(ent, lambda e, o: calls.append("success"), lambda e, o: calls.append("error"))
    n0 = len(bottom.sent)
    try:
        bottom.toUpper(N("iq", {"id": ent.getId(), "type": "get", "xmlns": "urn:xmpp:ping", "from": "s.whatsapp.net"}))
        pongs = [n for n in bottom.sent[n0:] if n.tag == "iq" and n["type"] == "result"]
        bottom.toUpper(ResultIqProtocolEntity(_id=ent.getId(), _from="s.whatsapp.net").toProtocolTreeNode())
    except Exception:
        return True
    return not (len(pongs) == 1 and calls == ["success"])


def generate():
    rows = probe()

    def b(x):
        return "true" if x else "false"
    L = ["/- REGENERATED on every run by probing every request kind through the protocol layers of the current source — do not edit -/",
         "import YowsupVerif.Model.IqRegistry", "namespace Yow.Gen", "open Yow.Iq",
         "/-- request kinds in the order of harness/lib/iqkinds.py -/",
         "def iqKinds : List Kind := ["]
    L.append(",\n".join("  { owner := %d, registers := %s, succ := %s, err := %s }  -- %s" % (o, b(r), b(s), b(e), n) for n, o, r, s, e in rows).replace("  -- ", " /- ").replace("\n", " -/\n") + " -/" if False else
             ",\n".join("  { owner := %d, registers := %s, succ := %s, err := %s }" % (o, b(r), b(s), b(e)) for n, o, r, s, e in rows))
    L.append("]")
    L.append("/- kinds: %s -/" % ", ".join(n for n, *_ in rows))
    L += ["/-- does the current source treat a request of the server's own, arriving under the id of a pending request, as the answer to it?",
          "    (probed: a request is left pending, the server's ping arrives under its id, then the genuine result) -/",
          "def serverRequestConsumes : Bool := %s" % b(server_request_consumes()),
          "end Yow.Gen", ""]
    return "\n".join(L)
