"""Translator: yowsup/env/env_android.py (_KEY, _SIGNATURE, _MD5_CLASSES) and
yowsup/common/http/warequest.py (ENC_PUBKEY) -> Gen/RegConsts.lean"""
import base64

import boot  # noqa: F401

LEAN_FILE = "RegConsts.lean"


def consts():
    from yowsup.env.env_android import AndroidYowsupEnv as E
    from yowsup.common.http.warequest import WARequest
    key = base64.b64decode(E._KEY)
    sig = base64.b64decode(E._SIGNATURE)
    cls = base64.b64decode(E._MD5_CLASSES)
    pub = bytes(WARequest.ENC_PUBKEY.serialize())
    return key, sig, cls, pub


def generate():
    key, sig, cls, pub = consts()
    import hashlib

    def lst(b):
        return "[%s]" % ", ".join(str(x) for x in b)
    return "\n".join([
        "/- REGENERATED on every run from env_android.py / warequest.py — do not edit -/",
        "namespace Yow.Gen",
        "def regKey : List Nat := %s" % lst(key),
        "def regSigLen : Nat := %d" % len(sig),
        "def regSigSha256Prefix : List Nat := %s" % lst(hashlib.sha256(sig).digest()[:8]),
        "def regCls : List Nat := %s" % lst(cls),
        "def encPubKey : List Nat := %s" % lst(pub),
        "end Yow.Gen", ""])
