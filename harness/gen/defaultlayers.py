"""Translator: yowsup/stacks/yowstack.py default helpers -> lean/YowsupVerif/Gen/DefaultLayers.lean.
Calls getCoreLayers / getProtocolLayers / getDefaultLayers / getDefaultStack of the CURRENT source for
every flag combination and dumps the resulting layer structure (class ids) or the fact that it raised."""
import importlib
import itertools

import boot  # noqa: F401

LEAN_FILE = "DefaultLayers.lean"

IDS = {
    "YowNetworkLayer": 1, "YowNoiseSegmentsLayer": 2, "YowNoiseLayer": 3, "YowCoderLayer": 4, "YowLoggerLayer": 5,
    "AxolotlControlLayer": 6, "AxolotlSendLayer": 7, "AxolotlReceivelayer": 8,
    "YowAuthenticationProtocolLayer": 10, "YowMessagesProtocolLayer": 11, "YowReceiptProtocolLayer": 12,
    "YowAckProtocolLayer": 13, "YowPresenceProtocolLayer": 14, "YowIbProtocolLayer": 15, "YowIqProtocolLayer": 16,
    "YowNotificationsProtocolLayer": 17, "YowContactsIqProtocolLayer": 18, "YowChatstateProtocolLayer": 19,
    "YowCallsProtocolLayer": 20, "YowGroupsProtocolLayer": 21, "YowMediaProtocolLayer": 22,
    "YowPrivacyProtocolLayer": 23, "YowProfilesProtocolLayer": 24,
}


def cid(cls):
    name = getattr(cls, "__name__", type(cls).__name__)
    if name.startswith("Marker"):
        return int(name[6:])
    return IDS.get(name, 99)


def push_default_probe(B):
    """pushDefaultLayers() on builders that already hold something: (what was pushed before, what the builder holds afterwards)"""
    from yowsup.layers import YowLayer
    mk = lambda n: type("Marker%d" % n, (YowLayer,), {})
    m90, m91, m92 = mk(90), mk(91), mk(92)
    out = []
    for pre in ([], [m90], [m90, m91], [(m90, m91)], [m90, (m91, m92)], "defaults", "defaults+"):
        try:
            b = B()
            if pre in ("defaults", "defaults+"):
                b.pushDefaultLayers()
                if pre == "defaults+":
                    b.push(m90)
            else:
                for x in pre:
                    b.push(x)
            before = [describe(x) for x in b.layers]
            b.pushDefaultLayers()
            out.append((before, [describe(x) for x in b.layers]))
        except Exception as e:
            out.append(([("S", 0)], "raise:" + type(e).__name__))
    return out


def describe(item):
    """class | instance | tuple | YowParallelLayer instance  ->  ('S', id) | ('P', [ids])"""
    from yowsup.layers import YowParallelLayer
    if isinstance(item, tuple):
        return ("P", [cid(c) for c in item])
    if isinstance(item, YowParallelLayer):
        return ("P", [cid(type(s)) for s in item.sublayers])
    if isinstance(item, type):
        return ("S", cid(item))
    return ("S", cid(type(item)))


def slot_lean(d):
    if d[0] == "S":
        return ".single %d" % d[1]
    return ".par [%s]" % ", ".join(str(x) for x in d[1])


def b(x):
    return "true" if x else "false"


def collect():
    import yowsup.stacks.yowstack as ys
    B = ys.YowStackBuilder
    out = {"core": None, "protocol": [], "layers": [], "stack": [], "pushdefault": push_default_probe(B)}
    try:
        out["core"] = [describe(x) for x in B.getCoreLayers()]
    except Exception as e:
        out["core"] = "raise:" + type(e).__name__
    for f in itertools.product([False, True], repeat=4):
        kw = dict(zip(("groups", "media", "privacy", "profiles"), f))
        try:
            out["protocol"].append((f, [cid(c) for c in B.getProtocolLayers(**kw)]))
        except Exception as e:
            out["protocol"].append((f, "raise:" + type(e).__name__))
        try:
            out["layers"].append((f, [describe(x) for x in B.getDefaultLayers(**kw)]))
        except Exception as e:
            out["layers"].append((f, "raise:" + type(e).__name__))
        for ax in (False, True):
            try:
                st = B.getDefaultStack(axolotl=ax, **kw)
                insts = []
                i = 0
                while True:
                    try:
                        insts.append(describe(st.getLayer(i)))
                    except IndexError:
                        break
                    i += 1
                out["stack"].append(((ax,) + f, insts))
            except Exception as e:
                out["stack"].append(((ax,) + f, "raise:" + type(e).__name__))
    return out


def generate():
    o = collect()
    L = ["/- REGENERATED on every run from yowsup/stacks/yowstack.py (default helpers, all flag combinations) — do not edit -/",
         "import YowsupVerif.Model.Stack", "namespace Yow.Gen", "open Yow.Stack", ""]

    def opt_slots(v):
        if isinstance(v, str):
            return "none"
        return "some [%s]" % ", ".join(slot_lean(d) for d in v)
    L.append("/-- getCoreLayers(), bottom first -/")
    L.append("def coreLayers : Option (List Slot) := %s" % opt_slots(o["core"]))
    L.append("/-- getProtocolLayers(groups, media, privacy, profiles) as class ids -/")
    L.append("def protocolLayers : List ((Bool × Bool × Bool × Bool) × Option (List Nat)) := [")
    L.append(",\n".join("  ((%s, %s, %s, %s), %s)" % (b(f[0]), b(f[1]), b(f[2]), b(f[3]),
                                                    "none" if isinstance(v, str) else "some [%s]" % ", ".join(map(str, v)))
                        for f, v in o["protocol"]))
    L.append("]")
    L.append("/-- getDefaultLayers(groups, media, privacy, profiles), bottom first -/")
    L.append("def defaultLayers : List ((Bool × Bool × Bool × Bool) × Option (List Slot)) := [")
    L.append(",\n".join("  ((%s, %s, %s, %s), %s)" % (b(f[0]), b(f[1]), b(f[2]), b(f[3]), opt_slots(v)) for f, v in o["layers"]))
    L.append("]")
    L.append("/-- instances of getDefaultStack(axolotl, groups, media, privacy, profiles), bottom first; none = it raised -/")
    L.append("def defaultStack : List ((Bool × Bool × Bool × Bool × Bool) × Option (List Slot)) := [")
    L.append(",\n".join("  ((%s, %s, %s, %s, %s), %s)" % (b(f[0]), b(f[1]), b(f[2]), b(f[3]), b(f[4]), opt_slots(v)) for f, v in o["stack"]))
    L.append("]")
    L.append("/-- (what the builder held, what it holds after pushDefaultLayers()), bottom first; none = it raised -/")
    L.append("def pushDefaultProbe : List (List Slot × Option (List Slot)) := [")
    L.append(",\n".join("  ([%s], %s)" % (", ".join(slot_lean(d) for d in pre), opt_slots(v)) for pre, v in o["pushdefault"]))
    L.append("]")
    L.append("end Yow.Gen")
    return "\n".join(L) + "\n"
