"""Translator: yowsup/layers/noise/layer.py (YowNoiseLayer.send) + layer_noise_segments.py -> lean/YowsupVerif/Gen/SendNumberingCfg.lean.
Determines, by running the CURRENT code once with a payload that cannot be framed (2**24 - 16 bytes: 2**24 once the tag is added) over a
transport stand-in that numbers its messages like consonance's cipher state, whether the refusal comes before the encryption."""
import boot  # noqa: F401

LEAN_FILE = "SendNumberingCfg.lean"


def probe():
    from lib import noisefake
    from lib.probes import sandwich
    from yowsup.layers.noise.layer import YowNoiseLayer
    from yowsup.layers.noise.layer_noise_segments import YowNoiseSegmentsLayer
    noise = YowNoiseLayer()
    _stack, _bottom, _top = sandwich(YowNoiseSegmentsLayer(), noise, props={YowNoiseSegmentsLayer.PROP_ENABLED: True})
    tr = noisefake.to_transport(noise)
    try:
        noise.send(bytes(16777216 - 16))
        refused = False
    except Exception:
        refused = True
    return refused and tr.nonces == []


def generate():
    return "\n".join([
        "/- REGENERATED on every run by sending a payload that cannot be framed through the current noise and segment layers over a",
        "   transport stand-in that numbers its messages: was it refused before a message number was taken? — do not edit -/",
        "namespace Yow.Gen",
        "def sizeCheckFirst : Bool := %s" % str(bool(probe())).lower(),
        "end Yow.Gen", ""])
