"""Translator: the identity store's trust decision, saveIdentity, and AxolotlManager.create_session(autotrust) of
the CURRENT source -> Gen/TrustCfg.lean, by running them once on a scratch store with real key bundles."""
import os
import shutil
import tempfile

import boot  # noqa: F401

LEAN_FILE = "TrustCfg.lean"


def _bundle(store, n=1):
    """a PreKeyBundle published from `store` (a LiteAxolotlStore): its identity, a fresh signed prekey and one-time prekey"""
    from axolotl.state.prekeybundle import PreKeyBundle
    from axolotl.util.keyhelper import KeyHelper
    ident = store.getIdentityKeyPair()
    spk = KeyHelper.generateSignedPreKey(ident, n)
    pk = KeyHelper.generatePreKeys(n, 1)[0]
    store.storeSignedPreKey(spk.getId(), spk)
    store.storePreKey(pk.getId(), pk)
    return PreKeyBundle(store.getLocalRegistrationId(), 1, pk.getId(), pk.getKeyPair().getPublicKey(), spk.getId(),
                        spk.getKeyPair().getPublicKey(), spk.getSignature(), ident.getPublicKey())


def probe():
    from yowsup.axolotl.manager import AxolotlManager
    from yowsup.axolotl.store.sqlite.liteaxolotlstore import LiteAxolotlStore
    from axolotl.state.sessionrecord import SessionRecord
    d = tempfile.mkdtemp(prefix="trustcfg-", dir=os.environ["XDG_CONFIG_HOME"])
    try:
        me = LiteAxolotlStore(os.path.join(d, "me.db"))
        p1 = LiteAxolotlStore(os.path.join(d, "p1.db"))
        p2 = LiteAxolotlStore(os.path.join(d, "p2.db"))
        k1, k2 = p1.getIdentityKeyPair().getPublicKey(), p2.getIdentityKeyPair().getPublicKey()
        c = 4917000001
        unknown = bool(me.isTrustedIdentity(c, k1))
        me.saveIdentity(c, k1)
        same = bool(me.isTrustedIdentity(c, k1))
        other = bool(me.isTrustedIdentity(c, k2))
        me.saveIdentity(c, k2)
        again = LiteAxolotlStore(os.path.join(d, "me.db"))          # another process
        replaces = bool(again.isTrustedIdentity(c, k2)) and bool(me.isTrustedIdentity(c, k2)) and \
            (other or not bool(again.isTrustedIdentity(c, k1)))
        # create_session with autotrust on a changed identity: is the session rebuilt for the new one?
        c2 = "4917000002"
        mgr = AxolotlManager(me, "4917000000")
        mgr.create_session(c2, _bundle(p1))
        rebuilt = False
        try:
            mgr.create_session(c2, _bundle(p2), autotrust=True)
            rec = me.loadSession(c2, 1)
            rk = rec.getSessionState().getRemoteIdentityKey()
            rebuilt = rk is not None and bytes(rk.getPublicKey().serialize()) == bytes(k2.getPublicKey().serialize())
        except Exception:
            rebuilt = False
        # an ordinary message that only the session state of the identity the contact had BEFORE decrypts: is that identity checked before
        # the state becomes the current one again?  (me has a session with p1's identity; p1 answers, so that it can send ordinary messages;
        # then p2's identity replaces p1's with automatic trust; then p1 sends an ordinary message on its old session)
        checks_old = False
        try:
            c3 = "4917000003"
            me_id = "4917000000"
            mgr.create_session(c3, _bundle(p1, 2))
            first = mgr.encrypt(c3, b"hello")
            p1mgr = AxolotlManager(p1, c3)
            p1mgr.decrypt_pkmsg(me_id, first.serialize(), True)
            mgr.decrypt_msg(c3, p1mgr.encrypt(me_id, b"answer").serialize(), True)
            mgr.create_session(c3, _bundle(p2, 2), autotrust=True)
            late = p1mgr.encrypt(me_id, b"from the earlier identity").serialize()
            refused = False
            try:
                mgr.decrypt_msg(c3, late, True)
            except Exception as e:
                refused = "Untrusted" in type(e).__name__
            rk = me.loadSession(c3, 1).getSessionState().getRemoteIdentityKey()
            still_new = rk is not None and bytes(rk.getPublicKey().serialize()) == bytes(k2.getPublicKey().serialize())
            checks_old = refused and still_new
        except Exception:
            checks_old = False
        return unknown, same, other, replaces, rebuilt, checks_old
    finally:
        shutil.rmtree(d, ignore_errors=True)


def generate():
    vals = probe()

    def b(x):
        return "true" if x else "false"
    return "\n".join([
        "/- REGENERATED on every run by executing LiteIdentityKeyStore.isTrustedIdentity / saveIdentity and",
        "   AxolotlManager.create_session(autotrust=True) / decrypt_msg of the current source on a scratch store with real key bundles and",
        "   real messages — do not edit -/",
        "import YowsupVerif.Model.Trust",
        "namespace Yow.Gen",
        "def trustCfg : Yow.Trust.Cfg := { trustUnknown := %s, trustSame := %s, trustOther := %s, saveReplaces := %s, rebuildAfterTrust := %s, checksOldSessions := %s }" % tuple(b(v) for v in vals),
        "end Yow.Gen", ""])


if __name__ == "__main__":
    print(generate())
