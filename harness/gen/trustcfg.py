"""Translator: the identity store's trust decision, saveIdentity, and AxolotlManager.create_session(autotrust) of
the CURRENT source -> Gen/TrustCfg.lean, by running them once on a scratch store with real key bundles."""
import os
import shutil
import tempfile

import boot  # noqa: F401

LEAN_FILE = "TrustCfg.lean"


def _bundle(store):
    """a PreKeyBundle published from `store` (a LiteAxolotlStore): its identity, a fresh signed prekey and one-time prekey"""
    from axolotl.state.prekeybundle import PreKeyBundle
    from axolotl.util.keyhelper import KeyHelper
    ident = store.getIdentityKeyPair()
    spk = KeyHelper.generateSignedPreKey(ident, 1)
    pk = KeyHelper.generatePreKeys(1, 1)[0]
    store.storeSignedPreKey(spk.getId(), spk)
    store.storePreKey(pk.getId(), pk)
    return PreKeyBundle(store.getLocalRegistrationId(), 1, pk.getId(), pk.getKeyPair().getPublicKey(), spk.getId(),
                        spk.getKeyPair().getPublicKey(), spk.getSignature(), ident.getPublicKey())


def probe():
    from yowsup.axolotl.manager import AxolotlManager
    from yowsup.axolotl.store.sqlite.liteaxolotlstore import LiteAxolotlStore
    from axolotl.state.sessionrecord import SessionRecord
    d = tempfile.mkdtemp(prefix="trustcfg-", dir=os.environ["XDG_CONFIG_HOME"])
    try:
        me = LiteAxolotlStore(os.path.join(d, "me.db"))
        p1 = LiteAxolotlStore(os.path.join(d, "p1.db"))
        p2 = LiteAxolotlStore(os.path.join(d, "p2.db"))
        k1, k2 = p1.getIdentityKeyPair().getPublicKey(), p2.getIdentityKeyPair().getPublicKey()
        c = 4917000001
        unknown = bool(me.isTrustedIdentity(c, k1))
        me.saveIdentity(c, k1)
        same = bool(me.isTrustedIdentity(c, k1))
        other = bool(me.isTrustedIdentity(c, k2))
        me.saveIdentity(c, k2)
        again = LiteAxolotlStore(os.path.join(d, "me.db"))          # another process
        replaces = bool(again.isTrustedIdentity(c, k2)) and bool(me.isTrustedIdentity(c, k2)) and \
            (other or not bool(again.isTrustedIdentity(c, k1)))
        # create_session with autotrust on a changed identity: is the session rebuilt for the new one?
        c2 = "4917000002"
        mgr = AxolotlManager(me, "4917000000")
        mgr.create_session(c2, _bundle(p1))
        rebuilt = False
        try:
            mgr.create_session(c2, _bundle(p2), autotrust=True)
            rec = me.loadSession(c2, 1)
            rk = rec.getSessionState().getRemoteIdentityKey()
            rebuilt = rk is not None and bytes(rk.getPublicKey().serialize()) == bytes(k2.getPublicKey().serialize())
        except Exception:
            rebuilt = False
        return unknown, same, other, replaces, rebuilt
    finally:
        shutil.rmtree(d, ignore_errors=True)


def generate():
    vals = probe()

    def b(x):
        return "true" if x else "false"
    return "\n".join([
        "/- REGENERATED on every run by executing LiteIdentityKeyStore.isTrustedIdentity / saveIdentity and",
        "   AxolotlManager.create_session(autotrust=True) of the current source on a scratch store with real key bundles — do not edit -/",
        "import YowsupVerif.Model.Trust",
        "namespace Yow.Gen",
        "def trustCfg : Yow.Trust.Cfg := { trustUnknown := %s, trustSame := %s, trustOther := %s, saveReplaces := %s, rebuildAfterTrust := %s }" % tuple(b(v) for v in vals),
        "end Yow.Gen", ""])


if __name__ == "__main__":
    print(generate())
