"""Translator: what YowNoiseLayer / YowNoiseSegmentsLayer of the CURRENT source do on disconnect -> Gen/HsCfg.lean.
A stack with the real layers gets half a segment, then EVENT_STATE_DISCONNECTED: are the segment queue and the protocol
object replaced, is the half-received segment dropped?"""
import boot  # noqa: F401

LEAN_FILE = "HsCfg.lean"


def probe():
    from yowsup.layers import YowLayer, YowLayerEvent
    from yowsup.layers.network.layer import YowNetworkLayer
    from yowsup.layers.noise.layer import YowNoiseLayer
    from yowsup.layers.noise.layer_noise_segments import YowNoiseSegmentsLayer
    from yowsup.stacks import YowStack

    class Sink(YowLayer):
        def send(self, d):
            pass

        def receive(self, d):
            pass
    bottom, seg, noise, top = Sink(), YowNoiseSegmentsLayer(), YowNoiseLayer(), Sink()
    stack = YowStack((bottom, seg, noise, top), reversed=False)
    stack.setProp(YowNoiseSegmentsLayer.PROP_ENABLED, True)
    q0, p0 = noise._incoming_segments_queue, noise._wa_noiseprotocol
    seg.receive(b"\x00\x00\x10half")
    stack.emitEvent(YowLayerEvent(YowNetworkLayer.EVENT_STATE_DISCONNECTED, reason="probe"))
    fresh_q = noise._incoming_segments_queue is not q0
    fresh_p = noise._wa_noiseprotocol is not p0
    got = []
    top.receive = lambda d: got.append(bytes(d))
    noise.receive = lambda d: got.append(bytes(d))
    seg.receive(b"\x00\x00\x02ok")
    seg_reset = got == [b"ok"]
    return fresh_q, fresh_p, seg_reset


def generate():
    q, p, s = probe()

    def b(x):
        return "true" if x else "false"
    return "\n".join([
        "/- REGENERATED on every run by giving the noise and segment layers of the current source half a segment and then a",
        "   disconnect event: are the segment queue and the protocol object replaced, is the half-received segment dropped? — do not edit -/",
        "import YowsupVerif.Model.Handshake",
        "namespace Yow.Gen",
        "def hsCfg : Yow.HS.Cfg := { freshQueue := %s, freshProtocol := %s, segReset := %s }" % (b(q), b(p), b(s)),
        "end Yow.Gen", ""])


if __name__ == "__main__":
    print(generate())
