"""Translator: AsyncoreConnectionDispatcher (dispatcher_asyncore.py) of the CURRENT source -> Gen/SendBufCfg.lean.
Behavioural probe on a real dispatcher over a socket pair: while one thread is inside the socket send of sendData,
can the loop thread's handle_write enter its own socket send?  If not, buffer and socket are under one lock."""
import socket
import threading
import time

import boot  # noqa: F401

LEAN_FILE = "SendBufCfg.lean"


def make_dispatcher():
    from yowsup.layers.network.dispatcher.dispatcher import ConnectionCallbacks
    from yowsup.layers.network.dispatcher.dispatcher_asyncore import AsyncoreConnectionDispatcher
    a, b = socket.socketpair()
    a.setblocking(False)
    d = AsyncoreConnectionDispatcher(ConnectionCallbacks())
    d.set_socket(a)
    d.connected = True
    d._connected = True
    return d, a, b


def probe():
    import asyncore
    d, a, b = make_dispatcher()
    inside = threading.Event()
    release = threading.Event()
    entered = []
    real_send = asyncore.dispatcher.send

    def slow_send(self, data):
        entered.append(threading.current_thread().name)
        if len(entered) == 1:
            inside.set()
            release.wait(2.0)
        return real_send(self, data)
    asyncore.dispatcher.send = slow_send
    try:
        t1 = threading.Thread(target=lambda: d.sendData(b"probe-1"), name="sender")
        t1.start()
        inside.wait(2.0)
        t2 = threading.Thread(target=d.handle_write, name="loop")
        t2.start()
        time.sleep(0.3)
        second_entered = "loop" in entered
        release.set()
        t1.join(2.0)
        t2.join(2.0)
    finally:
        asyncore.dispatcher.send = real_send
        try:
            d.del_channel()
        except Exception:
            pass
        a.close()
        b.close()
    return not second_entered


def generate():
    locked = probe()
    return "\n".join([
        "/- REGENERATED on every run by running AsyncoreConnectionDispatcher of the current source on a socket pair: while sendData is",
        "   inside the socket send, can handle_write (the asyncore loop thread) reach its own socket send? — do not edit -/",
        "import YowsupVerif.Model.SendBuf",
        "namespace Yow.Gen",
        "def sendBufCfg : Yow.SendBuf.Cfg := { locked := %s }" % ("true" if locked else "false"),
        "end Yow.Gen", ""])


if __name__ == "__main__":
    print(generate())
