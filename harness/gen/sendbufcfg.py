"""Translator: AsyncoreConnectionDispatcher (dispatcher_asyncore.py) of the CURRENT source -> Gen/SendBufCfg.lean.
Two behavioural probes on a real dispatcher over a socket pair:
 (1) while one thread is inside the socket send of sendData, can the loop thread's handle_write enter its own socket send?
 (2) every access to `out_buffer` (a property on a subclass created here) during sendData and during handle_write is logged together
     with whether a lock created by the dispatcher is held by the accessing thread.
locked       := (1) says no  and  every access of a flush (handle_write, and everything in sendData after the append) holds a lock
appendLocked := every access during sendData holds a lock (the append's load and store are inside the critical section of its flush)"""
import socket
import threading
import time

import boot  # noqa: F401

LEAN_FILE = "SendBufCfg.lean"


class TrackedLock(object):
    """a lock that knows which thread holds it (wraps whatever the module's threading.Lock / RLock returns)"""
    def __init__(self, real):
        self._real = real
        self.holder = None
        self.depth = 0

    def acquire(self, *a, **k):
        ok = self._real.acquire(*a, **k)
        if ok:
            self.holder = threading.current_thread()
            self.depth += 1
        return ok

    def release(self):
        self.depth -= 1
        if self.depth == 0:
            self.holder = None
        self._real.release()

    def locked(self):
        return self._real.locked() if hasattr(self._real, "locked") else self.depth > 0

    __enter__ = acquire

    def __exit__(self, *a):
        self.release()


def make_dispatcher(hook=None, lock_factory=None):
    """a real AsyncoreConnectionDispatcher on a socket pair.  hook(kind) is called at every read ("get") / write ("set") of out_buffer;
    lock_factory wraps every lock the dispatcher creates in its constructor"""
    from yowsup.layers.network.dispatcher.dispatcher import ConnectionCallbacks
    import yowsup.layers.network.dispatcher.dispatcher_asyncore as DA
    cls = DA.AsyncoreConnectionDispatcher
    if hook is not None:
        def _get(self):
            hook("get")
            return self.__dict__.get("_verif_out_buffer", b"")

        def _set(self, v):
            hook("set")
            self.__dict__["_verif_out_buffer"] = v
        cls = type("InstrumentedDispatcher", (cls,), {"out_buffer": property(_get, _set)})
    a, b = socket.socketpair()
    a.setblocking(False)
    if lock_factory is not None:
        class _T(object):
            def __getattr__(self, name):
                return getattr(threading, name)

            def Lock(self):
                return lock_factory(threading.Lock())

            def RLock(self):
                return lock_factory(threading.RLock())
        saved = getattr(DA, "threading", None)
        DA.threading = _T()
        try:
            d = cls(ConnectionCallbacks())
        finally:
            if saved is not None:
                DA.threading = saved
            else:
                del DA.threading
    else:
        d = cls(ConnectionCallbacks())
    d.set_socket(a)
    d.connected = True
    d._connected = True
    return d, a, b


def probe():
    import asyncore
    d, a, b = make_dispatcher()
    inside = threading.Event()
    release = threading.Event()
    entered = []
    real_send = asyncore.dispatcher.send

    def slow_send(self, data):
        entered.append(threading.current_thread().name)
        if len(entered) == 1:
            inside.set()
            release.wait(2.0)
        return real_send(self, data)
    asyncore.dispatcher.send = slow_send
    try:
        t1 = threading.Thread(target=lambda: d.sendData(b"probe-1"), name="sender")
        t1.start()
        inside.wait(2.0)
        t2 = threading.Thread(target=d.handle_write, name="loop")
        t2.start()
        time.sleep(0.3)
        second_entered = "loop" in entered
        release.set()
        t1.join(2.0)
        t2.join(2.0)
    finally:
        asyncore.dispatcher.send = real_send
        try:
            d.del_channel()
        except Exception:
            pass
        a.close()
        b.close()
    return not second_entered


def probe_accesses():
    """[(phase, kind, lock held by this thread?)] for one sendData and one handle_write, single-threaded"""
    locks = []
    log = []
    phase = ["init"]

    def factory(real):
        t = TrackedLock(real)
        locks.append(t)
        return t

    def hook(kind):
        me = threading.current_thread()
        log.append((phase[0], kind, any(t.holder is me for t in locks)))
    d, a, b = make_dispatcher(hook, factory)
    try:
        phase[0] = "sendData"
        d.sendData(b"probe-2")
        phase[0] = "handle_write"
        d.out_buffer  # noqa: B018  (an access outside: not counted, phase marker only)
        del log[-1]
        d.handle_write()
    finally:
        try:
            d.del_channel()
        except Exception:
            pass
        a.close()
        b.close()
    return log


def generate():
    locked = probe()
    log = probe_accesses()
    sd = [x for x in log if x[0] == "sendData"]
    hw = [x for x in log if x[0] == "handle_write"]
    # the append of sendData = everything up to and including the first write of out_buffer
    first_set = next((i for i, x in enumerate(sd) if x[1] == "set"), len(sd) - 1)
    append, flush = sd[:first_set + 1], sd[first_set + 1:]
    flush_locked = bool(hw) and all(x[2] for x in hw) and all(x[2] for x in flush)
    append_locked = bool(append) and all(x[2] for x in append)
    locked = locked and flush_locked
    return "\n".join([
        "/- REGENERATED on every run by running AsyncoreConnectionDispatcher of the current source on a socket pair: while sendData is",
        "   inside the socket send, can handle_write (the asyncore loop thread) reach its own socket send? — do not edit -/",
        "import YowsupVerif.Model.SendBuf",
        "namespace Yow.Gen",
        "-- accesses observed: sendData %s; handle_write %s" % (" ".join("%s%s" % (k, "+" if h else "-") for _p, k, h in sd), " ".join("%s%s" % (k, "+" if h else "-") for _p, k, h in hw)),
        "def sendBufCfg : Yow.SendBuf.Cfg := { locked := %s, appendLocked := %s }" % ("true" if locked else "false", "true" if append_locked else "false"),
        "end Yow.Gen", ""])


if __name__ == "__main__":
    print(generate())
