"""Translator: YowNoiseLayer.on_auth of the CURRENT source -> Gen/LoginCfg.lean.  The stack's segmentation switch is left ON
(as an earlier login leaves it), then EVENT_AUTH is delivered: does the prologue reach the layer below without a length prefix?"""
import time
import uuid

import boot  # noqa: F401

LEAN_FILE = "LoginCfg.lean"


def probe():
    from consonance.structs.keypair import KeyPair
    from yowsup.config.v1.config import Config
    from yowsup.layers import YowLayer, YowLayerEvent
    from yowsup.layers.auth.layer_authentication import YowAuthenticationProtocolLayer
    from yowsup.layers.noise.layer import YowNoiseLayer
    from yowsup.layers.noise.layer_noise_segments import YowNoiseSegmentsLayer
    from yowsup.profile.profile import YowProfile
    from yowsup.stacks import YowStack
    writes = []

    class Bottom(YowLayer):
        def send(self, d):
            writes.append(bytes(d))

        def receive(self, d):
            pass

    class Top(YowLayer):
        def receive(self, d):
            pass
    stack = YowStack((Bottom(), YowNoiseSegmentsLayer, YowNoiseLayer, Top()), reversed=False)
    stack.setProfile(YowProfile("logincfg-" + uuid.uuid4().hex, Config(phone="4915188800001", cc=49, client_static_keypair=KeyPair.generate())))
    stack.setProp(YowNoiseSegmentsLayer.PROP_ENABLED, True)
    stack.emitEvent(YowLayerEvent(YowAuthenticationProtocolLayer.EVENT_AUTH, passive=False))
    deadline = time.time() + 1.0
    while time.time() < deadline and not writes:
        time.sleep(0.005)
    return bool(writes) and writes[0] == b"WA\x04\x00"


def generate():
    return "\n".join([
        "/- REGENERATED on every run by delivering EVENT_AUTH to the noise layer of the current source on a stack whose segmentation switch",
        "   was left on: is the prologue written without a length prefix? — do not edit -/",
        "import YowsupVerif.Model.Login",
        "namespace Yow.Gen",
        "def loginCfg : Yow.Login.Cfg := { resetFirst := %s }" % ("true" if probe() else "false"),
        "end Yow.Gen", ""])


if __name__ == "__main__":
    print(generate())
