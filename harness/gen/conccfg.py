"""Translator: the locking on the downward data path of the CURRENT source -> Gen/ConcCfg.lean.  One stanza is sent
through the real coder / noise / segments layers with instrumented locks; which locks are held at the encryption
and at the two network writes, without having been released in between, decides the configuration; a lock that is taken with a
timeout or by try-lock does not count (it excludes nobody once the wait gives up)."""
import boot  # noqa: F401

LEAN_FILE = "ConcCfg.lean"


def probe():
    from lib import concstack, coop
    from yowsup.structs import ProtocolTreeNode
    coop.install()
    try:
        del coop.LOCKS[:]
        snaps = []

        def on_event(kind, arg):
            snaps.append((kind, dict((id(l), (l, l.acquires)) for l in coop.LOCKS if l.held)))
        stack, top, bottom, L = concstack.build(on_event)
        top.send(ProtocolTreeNode("iq", {"id": "1", "type": "get"}))
        enc = [s for k, s in snaps if k == "enc"]
        wr = [s for k, s in snaps if k == "write"]
        if len(enc) != 1 or len(wr) != 2:
            raise RuntimeError("unexpected shape: %d encryptions, %d writes for one stanza" % (len(enc), len(wr)))

        def through(owner, moments):
            """a lock of `owner` held at all the given moments, by one and the same acquisition"""
            common = None
            for m in moments:
                here = set((i, a) for i, (l, a) in m.items() if l.owner is owner)
                common = here if common is None else (common & here)
            return bool(common)
        def unconditional(owner):
            """every acquisition of that owner's locks waits for the lock (no timeout, no try-lock): only then does holding it exclude others"""
            return all(l.conditional == 0 for l in coop.LOCKS if l.owner is owner)
        outer = (through(L["coder"], [enc[0], wr[0], wr[1]]) and unconditional(L["coder"])) or \
                (through(L["top"], [enc[0], wr[0], wr[1]]) and unconditional(L["top"]))
        inner = through(L["noise"], [wr[0], wr[1]]) and unconditional(L["noise"])
        return outer, inner
    finally:
        coop.uninstall()
        del coop.LOCKS[:]


def generate():
    outer, inner = probe()
    return "\n".join([
        "/- REGENERATED on every run by sending one stanza through the coder / noise / segments layers of the current source with",
        "   instrumented locks: is one lock held from the encryption to the end of the payload write (outer), and the noise layer's",
        "   lock across both writes of the segment (inner)? — do not edit -/",
        "import YowsupVerif.Model.Conc",
        "namespace Yow.Gen",
        "def concCfg : Yow.Conc.Cfg := { outer := %s, inner := %s }" % (str(outer).lower(), str(inner).lower()),
        "end Yow.Gen", ""])


if __name__ == "__main__":
    print(generate())
