"""Translator: yowsup/layers/__init__.py (YowLayer.toLower) and yowsup/layers/noise/layer.py
(YowNoiseLayer._flush_incoming_buffer) -> lean/YowsupVerif/Gen/LockCfg.lean.
Determines, by running the CURRENT code once with a callee that raises, whether each of the two
lock release sites is reached on the exception path (try/finally, `with`, or equivalent)."""
import boot  # noqa: F401

LEAN_FILE = "LockCfg.lean"


def probe():
    from lib import tracked, noisefake
    tracked.install()
    try:
        from yowsup.layers import YowLayer
        from yowsup.layers.noise.layer import YowNoiseLayer
        from yowsup.stacks import YowStack

        class Boom(Exception):
            pass

        class Raiser(YowLayer):
            def send(self, d):
                raise Boom()

            def receive(self, d):
                raise Boom()

        # 1. toLower
        del tracked.REGISTRY[:]
        up = YowLayer()
        YowStack((Raiser(), up), reversed=False)
        try:
            up.toLower(b"x")
            raised = False
        except Boom:
            raised = True
        to_lower_finally = raised and not tracked.held_locks()
        # 2. _flush_incoming_buffer
        del tracked.REGISTRY[:]
        noise = YowNoiseLayer()
        YowStack((YowLayer(), noise, Raiser()), reversed=False)
        noisefake.to_transport(noise)
        try:
            noise.receive(noisefake.wire(b"frame"))
            raised = False
        except Boom:
            raised = True
        flush_finally = raised and not tracked.held_locks()
        return bool(to_lower_finally), bool(flush_finally)
    finally:
        tracked.uninstall()
        del tracked.REGISTRY[:]


def generate():
    a, b = probe()
    return "\n".join([
        "/- REGENERATED on every run by executing YowLayer.toLower and YowNoiseLayer._flush_incoming_buffer of the",
        "   current source with a callee that raises: is the lock released on the exception path? — do not edit -/",
        "import YowsupVerif.Model.Locks",
        "namespace Yow.Gen",
        "def lockCfg : Yow.Locks.Cfg := { toLowerFinally := %s, flushFinally := %s }" % (str(a).lower(), str(b).lower()),
        "end Yow.Gen", ""])
