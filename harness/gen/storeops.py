"""Translator: yowsup/axolotl/store/sqlite/*.py -> lean/YowsupVerif/Gen/StoreOps.lean.
Runs every store API operation of the CURRENT source once on a scratch database (on a fresh key and
on an existing key) with sqlite3's trace callback and dumps the statement skeleton
(BEGIN / DELETE t / INSERT t / INSERT OR REPLACE t / UPDATE t / COMMIT)."""
import os
import re
import tempfile

import boot  # noqa: F401

LEAN_FILE = "StoreOps.lean"
TABLE_ID = {"sessions": 0, "identities": 1, "prekeys": 2, "signed_prekeys": 3, "sender_keys": 4}


def classify(sql, counts):
    s = sql.strip().rstrip(";").strip()
    u = s.upper()
    if u.startswith("BEGIN"):
        return ".begin"
    if u.startswith("COMMIT"):
        return ".commit"
    if u.startswith("ROLLBACK"):
        return ".rollback"
    m = re.match(r"DELETE\s+FROM\s+(\w+)", s, re.I)
    if m:
        return ".del %d 0" % TABLE_ID.get(m.group(1).lower(), 9)
    m = re.match(r"INSERT\s+OR\s+REPLACE\s+INTO\s+(\w+)", s, re.I)
    if m:
        return ".insRepl %d 0" % TABLE_ID.get(m.group(1).lower(), 9)
    m = re.match(r"INSERT\s+INTO\s+(\w+)", s, re.I)
    if m:
        return ".ins %d 0" % TABLE_ID.get(m.group(1).lower(), 9)
    m = re.match(r"UPDATE\s+(\w+)\s+SET\s+(\w+)", s, re.I)
    if m:
        t = TABLE_ID.get(m.group(1).lower(), 9)
        if m.group(2).lower() == "sent_to_server":
            i = counts.get(("f", t), 0)
            counts[("f", t)] = i + 1
            return ".updFlag %d %d" % (t, i)
        return ".updVal %d 0" % t
    return None      # SELECT / CREATE / PRAGMA: not a write


def trace_all():
    from lib import axo
    from yowsup.axolotl.store.sqlite.liteaxolotlstore import LiteAxolotlStore
    pool = axo.Pool(3)
    d = tempfile.mkdtemp(prefix="storeops-", dir=boot.scratch_dir())
    out = []
    # store creation on a fresh file (own identity + registration id)
    path = os.path.join(d, "init.db")
    trace = []
    import sqlite3
    real_connect = sqlite3.connect

    def connect(*a, **kw):
        c = real_connect(*a, **kw)
        c.set_trace_callback(trace.append)
        return c
    sqlite3.connect = connect
    try:
        store = LiteAxolotlStore(path)
    finally:
        sqlite3.connect = real_connect
    counts = {}
    out.append((10, 0, [x for x in (classify(s, counts) for s in trace) if x]))
    conn = store.identityKeyStore.dbConn
    for op in sorted(axo.OPS):
        kind = axo.OPS[op][1]
        for variant in (0, 1):           # 0: key absent, 1: key present
            if variant == 1 and kind == "insertNew":
                continue                 # inserting an existing key raises by design; not a distinct skeleton
            k = 20 + op + 200 * variant
            if variant == 1:
                pre = {0: 0, 1: 0, 2: 0, 3: 3, 5: 4, 6: 4, 8: 7, 9: 9}[op]
                axo.apply_op(store, pool, pre, k, 0)
                if op == 6:
                    axo.apply_op(store, pool, 4, k + 100, 0)
            trace = []
            conn.set_trace_callback(trace.append)
            try:
                axo.apply_op(store, pool, op, k, 1, k + 100)
            finally:
                conn.set_trace_callback(None)
            counts = {}
            sk = [x for x in (classify(s, counts) for s in trace) if x]
            if (op, sk) not in [(o, s2) for o, _v, s2 in out]:
                out.append((op, variant, sk))
    return out


def untraced_writers():
    """public methods of LiteAxolotlStore of the CURRENT source that are neither readers nor among the traced operations: a new writer would
    escape the analysis"""
    import inspect
    from lib import axo
    from yowsup.axolotl.store.sqlite.liteaxolotlstore import LiteAxolotlStore
    traced = set(v[0] for v in axo.OPS.values())
    readers = ("load", "contains", "get", "isTrusted")
    out = []
    for name, fn in inspect.getmembers(LiteAxolotlStore, predicate=inspect.isfunction):
        if name.startswith("_") or name.startswith(readers) or name in traced:
            continue
        out.append(name)
    return sorted(out)


def journal_mode(path=None):
    """PRAGMA journal_mode as seen on the connection the opened store works with"""
    from yowsup.axolotl.store.sqlite.liteaxolotlstore import LiteAxolotlStore
    d = None
    if path is None:
        d = tempfile.mkdtemp(prefix="jm-", dir=boot.scratch_dir())
        path = os.path.join(d, "axolotl.db")
    store = LiteAxolotlStore(path)
    conn = store.identityKeyStore.dbConn
    mode = conn.execute("PRAGMA journal_mode").fetchone()[0]
    mode = (mode.decode("ascii", "replace") if isinstance(mode, bytes) else str(mode)).lower()
    conn.close()
    return mode


def fault_outcomes():
    """what each operation of the CURRENT source leaves behind when its j-th write statement fails (a storage fault): [(op, j, rolled back)],
    j = position in the skeleton (BEGIN = 0).  'rolled back' = the connection is not inside a transaction once the error has been passed on."""
    from lib import axo, sqlfault
    from yowsup.axolotl.store.sqlite.liteaxolotlstore import LiteAxolotlStore
    pool = axo.Pool(3)
    out = []
    sqlfault.install()
    try:
        for op in sorted(axo.OPS):
            for j in (1, 2, 3):
                d = tempfile.mkdtemp(prefix="storefault-", dir=boot.scratch_dir())
                store = LiteAxolotlStore(os.path.join(d, "axolotl.db"))
                k = 30 + op
                pre = {0: 0, 1: 0, 2: 0, 3: 3, 4: None, 5: 4, 6: 4, 7: None, 8: 7, 9: 9}[op]
                if pre is not None:
                    axo.apply_op(store, pool, pre, k, 0)
                if op == 6:
                    axo.apply_op(store, pool, 4, k + 100, 0)
                sqlfault.arm(d, j, writes_only=True)
                try:
                    axo.apply_op(store, pool, op, k, 1, k + 100)
                except Exception:
                    pass
                fired = sqlfault.fired()
                sqlfault.disarm()
                conn = store.identityKeyStore.dbConn
                if fired:
                    out.append((op, j, not conn.in_transaction))
                conn.close()
    finally:
        sqlfault.uninstall()
    return out


def generate():
    ops = trace_all()
    L = ["/- REGENERATED on every run by tracing every store API operation of yowsup/axolotl/store/sqlite/*.py",
         "   with sqlite3's trace callback — do not edit -/",
         "import YowsupVerif.Model.Store", "namespace Yow.Gen", "open Yow.Store", "",
         "/-- (operation id, variant: 0 = key absent / 1 = key present, traced write statements) -/",
         "def storeOps : List (Nat × Nat × List Sk) := ["]
    L.append(",\n".join("  (%d, %d, [%s])" % (o, v, ", ".join(s for s in sk if s != ".rollback") ) for o, v, sk in ops))
    L += ["]", "", "/-- public methods of the store that write but are not among the traced operations (must be none) -/",
          "def untracedWriters : List String := [%s]" % ", ".join('"%s"' % n for n in untraced_writers()), "",
          "/-- the journal mode in force on the store's connection once the store is open (`PRAGMA journal_mode`): a transaction is all-or-nothing",
          "    across a process death only while SQLite keeps its rollback journal (or write-ahead log) on disk -/",
          "def journalMode : String := \"%s\"" % journal_mode(), "",
          "/-- (operation id, position j of the write statement that was made to fail, the operation rolled its transaction back before passing the",
          "    error on) — probed on the current source, one statement failure at a time -/",
          "def faultOutcome : List (Nat × Nat × Bool) := [%s]" % ", ".join("(%d, %d, %s)" % (o, j, "true" if rb else "false") for o, j, rb in fault_outcomes()),
          "end Yow.Gen", ""]
    return "\n".join(L)
