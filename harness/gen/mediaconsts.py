"""Translator: yowsup/layers/protocol_media/mediacipher.py class constants -> Gen/MediaConsts.lean"""
import boot  # noqa: F401

LEAN_FILE = "MediaConsts.lean"


def generate():
    from yowsup.layers.protocol_media.mediacipher import MediaCipher as M
    L = ["/- REGENERATED on every run from yowsup/layers/protocol_media/mediacipher.py — do not edit -/",
         "namespace Yow.Gen"]
    for name in ("INFO_IMAGE", "INFO_AUDIO", "INFO_VIDEO", "INFO_DOCUM"):
        v = getattr(M, name)
        L.append("def media%s : List Nat := [%s]  -- %s" % (name.title().replace("_", ""), ", ".join(str(b) for b in bytes(v)), bytes(v).decode("latin-1")))
    L += ["end Yow.Gen", ""]
    return "\n".join(L)
