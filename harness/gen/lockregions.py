"""Translator (source-to-table, by syntax): every region of yowsup/**/*.py between `<lock>.acquire()` and `<lock>.release()` and every
`with <lock>:` block -> lean/YowsupVerif/Gen/LockRegions.lean.  For each region: where it is, whether the release is reached on the exception
path by construction (`with`, or try/finally around the whole region) and, if not, the kinds of the statements in between — so that the Lean
side can decide that an unprotected region holds only statements that cannot raise (plain assignments, membership tests on a dict, len())."""
import ast
import os

import boot  # noqa: F401

LEAN_FILE = "LockRegions.lean"


def _is_lock_call(node, what):
    return (isinstance(node, ast.Expr) and isinstance(node.value, ast.Call) and isinstance(node.value.func, ast.Attribute)
            and node.value.func.attr == what and not node.value.args)


def _lock_name(node):
    return ast.unparse(node.value.func.value)


def _simple(e):
    """an expression whose evaluation cannot raise for the objects these regions handle: names, attributes, constants, empty / literal
    containers of such"""
    if isinstance(e, (ast.Constant, ast.Name)):
        return True
    if isinstance(e, ast.Attribute):
        return _simple(e.value)
    if isinstance(e, (ast.Dict,)):
        return all(k is not None and _simple(k) for k in e.keys) and all(_simple(v) for v in e.values)
    if isinstance(e, (ast.List, ast.Tuple)):
        return all(_simple(x) for x in e.elts)
    return False


def kind(st):
    if isinstance(st, ast.Pass):
        return "skip"
    if isinstance(st, ast.Assign) and len(st.targets) == 1:
        t, v = st.targets[0], st.value
        if isinstance(t, (ast.Name, ast.Attribute)) and _simple(v):
            return "assign"
        if isinstance(t, ast.Subscript) and _simple(t.value) and _simple(t.slice) and _simple(v):
            return "setItem"
        if isinstance(t, (ast.Name, ast.Attribute)) and isinstance(v, ast.Call) and isinstance(v.func, ast.Name) and v.func.id == "len" and len(v.args) == 1 and _simple(v.args[0]):
            return "lenAssign"
        return "call" if any(isinstance(n, ast.Call) for n in ast.walk(st)) else "other"
    if isinstance(st, ast.If):
        test = st.test
        ok = (isinstance(test, ast.Compare) and len(test.ops) == 1 and isinstance(test.ops[0], (ast.In, ast.NotIn, ast.Is, ast.IsNot, ast.Eq, ast.NotEq))
              and _simple(test.left) and _simple(test.comparators[0])) or _simple(test)
        inner = [kind(x) for x in st.body + st.orelse]
        return "ifSafe" if ok and all(k in SAFE for k in inner) else "ifOther"
    if isinstance(st, ast.Delete):
        return "delItem"
    if any(isinstance(n, ast.Call) for n in ast.walk(st)):
        return "call"
    return "other"


SAFE = ("skip", "assign", "setItem", "lenAssign", "ifSafe")


def regions_of(path, rel):
    out = []
    tree = ast.parse(open(path).read())
    for fn in ast.walk(tree):
        if not isinstance(fn, (ast.FunctionDef, ast.AsyncFunctionDef)):
            continue
        for node in ast.walk(fn):
            if isinstance(node, ast.With):
                for item in node.items:
                    name = ast.unparse(item.context_expr)
                    if "lock" in name.lower():
                        out.append((rel, fn.name, name, True, []))
            for field in ("body", "orelse", "finalbody"):
                block = getattr(node, field, None)
                if not isinstance(block, list):
                    continue
                for i, st in enumerate(block):
                    if not _is_lock_call(st, "acquire"):
                        continue
                    name = _lock_name(st)
                    rest = block[i + 1:]
                    # try/finally right behind the acquire whose finally releases the same lock
                    if rest and isinstance(rest[0], ast.Try) and any(_is_lock_call(x, "release") and _lock_name(x) == name for x in rest[0].finalbody):
                        out.append((rel, fn.name, name, True, []))
                        continue
                    kinds, closed = [], False
                    for x in rest:
                        if _is_lock_call(x, "release") and _lock_name(x) == name:
                            closed = True
                            break
                        kinds.append(kind(x))
                    out.append((rel, fn.name, name, False, kinds if closed else kinds + ["noRelease"]))
    return out


def all_regions():
    root = os.path.join(boot.REPO, "yowsup")
    out = []
    for d, _dirs, files in sorted(os.walk(root)):
        for f in sorted(files):
            if f.endswith(".py"):
                p = os.path.join(d, f)
                out += regions_of(p, os.path.relpath(p, boot.REPO))
    return out


def generate():
    regs = all_regions()
    L = ["/- REGENERATED on every run from the syntax of yowsup/**/*.py: every region between <lock>.acquire() and <lock>.release() and every",
         "   `with <lock>:` block — do not edit -/",
         "import YowsupVerif.Model.LockRegions", "namespace Yow.Gen", "open Yow.LockRegions",
         "def lockRegions : List Region := ["]
    L.append(",\n".join('  { file := "%s", fn := "%s", lock := "%s", library := %s, guarded := %s, stmts := [%s] }'
                        % (r[0], r[1], r[2].replace('"', "'"), "false" if r[0].startswith("yowsup/demos/") else "true", "true" if r[3] else "false",
                           ", ".join("." + k for k in r[4])) for r in regs))
    L += ["]", "end Yow.Gen", ""]
    return "\n".join(L)


if __name__ == "__main__":
    print(generate())
