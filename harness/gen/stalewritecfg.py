"""Translator: yowsup/layers/noise/layer.py (_handle_stream_event, on_disconnected) -> lean/YowsupVerif/Gen/StaleWriteCfg.lean.
Runs the CURRENT code with tracked locks: which locks created by the noise layer are held at the moment a segment reaches the layer below
(the write that follows the `stream is self._stream` check), and which are held at the moment on_disconnected replaces the protocol
object / stream?  atomic := some lock is held at both moments (the check-and-write cannot interleave with the replacement)."""
import boot  # noqa: F401

LEAN_FILE = "StaleWriteCfg.lean"


def probe():
    from lib import tracked, noisefake
    tracked.install()
    try:
        from yowsup.layers import YowLayer, YowLayerEvent
        from yowsup.layers.network import YowNetworkLayer
        from yowsup.layers.noise.layer import YowNoiseLayer
        from yowsup.stacks import YowStack
        del tracked.REGISTRY[:]
        at_write, at_swap = [], []

        class Bottom(YowLayer):
            def send(self, d):
                at_write.append(set(id(l) for l in tracked.held_locks() if l.owner is noise))

            def receive(self, d):
                self.toUpper(d)

        noise = YowNoiseLayer()
        bottom = Bottom()
        YowStack((bottom, noise, YowLayer()), reversed=False)
        noisefake.to_transport(noise)
        stream, queue = noise._stream, noise._incoming_segments_queue
        stream.set_events_callback(lambda ev: noise._handle_stream_event(ev, stream, queue))
        noise.send(b"probe")
        orig = noise._new_noiseprotocol

        def new_protocol():
            at_swap.append(set(id(l) for l in tracked.held_locks() if l.owner is noise))
            return orig()
        noise._new_noiseprotocol = new_protocol
        bottom.emitEvent(YowLayerEvent(YowNetworkLayer.EVENT_STATE_DISCONNECTED, reason="probe"))
        return bool(at_write and at_swap and (at_write[0] & at_swap[0]))
    finally:
        tracked.uninstall()
        del tracked.REGISTRY[:]


def generate():
    return "\n".join([
        "/- REGENERATED on every run by executing the noise layer's write path and its on_disconnected of the current source with tracked",
        "   locks: is one and the same lock held at the write that follows the stale-stream check AND at the replacement of the stream? — do not edit -/",
        "import YowsupVerif.Model.StaleWrite",
        "namespace Yow.Gen",
        "def staleWriteCfg : Yow.Stale.Cfg := { atomic := %s }" % str(bool(probe())).lower(),
        "end Yow.Gen", ""])
