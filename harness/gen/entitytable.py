"""Translator: the entity classes the layers build from incoming stanzas -> Gen/EntityTable.lean.
For every such class with a documented-shape stanza, each variable field of the stanza (attribute or content,
at its place in the tree) is probed through stanza -> entity -> stanza of the CURRENT source: removed, and set
to generated values of its kind.  The composite behaviour is expressed as the rule pair of the generic
converter model (Model/Payload.lean): required both ways / optional both ways / lost or altered."""
import random

import boot  # noqa: F401

LEAN_FILE = "EntityTable.lean"


def probe_class(c09, cls, base, r):
    rows = []
    for f in c09.fields_of(base):
        if f[0] == "rep":
            continue
        label = "/".join([base.tag] + [c09.at(base, f[1][:i + 1]).tag for i in range(len(f[1]))]) + ("@" + f[2] if f[0] == "attr" else "#data")
        # value variations
        ok_values = True
        tried = 0
        for _ in range(4):
            if f[0] == "attr":
                old = c09.at(base, f[1]).attributes[f[2]]
                mut = ["set", f[1], f[2], c09.gen_value(r, c09.kind_of(old, f[2]), old)]
            else:
                old = c09.at(base, f[1]).getData()
                v = c09.gen_value(r, "bytes" if isinstance(old, bytes) and not c09._texty(old) else "text", old)
                mut = ["data", f[1], v.hex() if isinstance(v, bytes) else v.encode("latin-1").hex()]
            s = c09.apply(base, [mut])
            try:
                s2 = cls.fromProtocolTreeNode(c09.clone(s)).toProtocolTreeNode()
            except Exception:
                continue
            tried += 1
            d = c09.first_diff(s, s2)
            while d and d[0].startswith("attr-added:"):
                s = c09._with_added(s, s2, set([d[0].split(":", 1)[1]]))
                d = c09.first_diff(s, s2)
            if d:
                ok_values = False
        # removal
        if f[0] == "attr":
            s = c09.apply(base, [["del", f[1], f[2]]])
            try:
                s2 = cls.fromProtocolTreeNode(c09.clone(s)).toProtocolTreeNode()
                holder = c09.at(s2, f[1]) if _has_path(c09, s2, f[1]) else None
                back = holder.attributes.get(f[2]) if holder is not None else None
                if any(v is None for _p, nn in c09.walk(s2) for v in nn.attributes.values()) or back is not None:
                    optional = False        # the class needs it / fills it in: part of every stanza of the documented shape
                else:
                    optional = c09.first_diff(s, s2) is None
            except Exception:
                optional = False
        else:
            optional = False
        if not ok_values or tried == 0:
            rule = ("never", "never")
        elif optional:
            rule = ("notNone", "hasField")
        else:
            rule = ("always", "always")
        rows.append((label, rule))
    return rows


def _has_path(c09, node, path):
    try:
        c09.at(node, path)
        return True
    except Exception:
        return False


def generate():
    from corr import c09
    from lib import entfixtures
    fx, _missing = entfixtures.all_fixtures()
    incoming = c09.incoming_class_names()
    r = random.Random(20260928)
    L = ["/- REGENERATED on every run: every variable field of the documented-shape stanza of each entity class the layers build from",
         "   incoming stanzas, probed through fromProtocolTreeNode / toProtocolTreeNode of the current source — do not edit -/",
         "import YowsupVerif.Model.Payload", "namespace Yow.Gen", "open Yow.Payload", ""]
    names = []
    for name in sorted(fx):
        cls, base, _src = fx[name]
        if cls.__name__ not in incoming:
            continue
        try:
            base_ok = c09.first_diff(base, cls.fromProtocolTreeNode(c09.clone(base)).toProtocolTreeNode())
        except Exception:
            base_ok = ("raises", "")
        rows = probe_class(c09, cls, base, r)
        ident = "ent_" + "".join(ch if ch.isalnum() else "_" for ch in name)
        names.append((name, ident))
        L.append("/-- %s -/" % name)
        L.append("def %s : Schema := [" % ident)
        for i, (label, (fw, bw)) in enumerate(rows):
            L.append("  { kind := .scalar, fwd := .%s, bwd := .%s, target := %d, source := %d, raises := false }%s  -- %s"
                     % (fw, bw, i + 1, i + 1, "," if i < len(rows) - 1 else "", label))
        L.append("]")
        L.append("")
    L.append("def entityNames : List String := [%s]" % ", ".join('"%s"' % n for n, _ in names))
    L.append("def entityTable : Table := [%s]" % ", ".join(i for _, i in names))
    L += ["end Yow.Gen", ""]
    return "\n".join(L)


if __name__ == "__main__":
    print(generate())
