"""Translator: every protocol layer's handleMap -> Gen/HandleMaps.lean: per layer (class id), per tag,
whether a receive handler and whether a send handler is registered."""
import boot  # noqa: F401

LEAN_FILE = "HandleMaps.lean"

TAG = {"message": ".message", "receipt": ".receipt", "ack": ".ack", "presence": ".presence", "chatstate": ".chatstate", "call": ".call",
       "ib": ".ib", "iq": ".iq", "notification": ".notification", "success": ".success", "failure": ".failure",
       "stream:features": ".streamFeatures", "stream:error": ".streamError"}
ORDER = list(TAG)


def generate():
    from gen.defaultlayers import IDS
    from yowsup.stacks import YowStackBuilder
    rows = []
    for cls in YowStackBuilder.getProtocolLayers(groups=True, media=True, privacy=True, profiles=True):
        inst = cls()
        hm = inst.handleMap
        items = []
        for t in sorted(hm, key=lambda t: ORDER.index(t) if t in ORDER else 99):
            recv, send = hm[t]
            items.append("(%s, %s, %s)" % (TAG.get(t, ".other"), "true" if recv else "false", "true" if send else "false"))
        rows.append((IDS.get(cls.__name__, 99), items))
    rows.sort()
    L = ["/- REGENERATED on every run from the handleMap of every protocol layer of the current source — do not edit -/",
         "import YowsupVerif.Model.Routing", "namespace Yow.Gen", "open Yow.Routing",
         "def handleMaps : List (Nat × List (Tag × Bool × Bool)) := ["]
    L.append(",\n".join("  (%d, [%s])" % (i, ", ".join(items)) for i, items in rows))
    L += ["]", "end Yow.Gen", ""]
    return "\n".join(L)
