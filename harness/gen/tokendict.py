"""Translator: yowsup/layers/coder/tokendictionary.py -> lean/YowsupVerif/Gen/TokenDict.lean
(the two token tables and the two flag constants of the CURRENT source, as Lean literals)."""
import importlib

import boot  # noqa: F401

LEAN_FILE = "TokenDict.lean"


def _lst(words, name):
    lines = ["def %s : List (List Nat) := [" % name]
    for i, w in enumerate(words):
        comma = "," if i + 1 < len(words) else ""
        safe = "".join(ch if 32 <= ord(ch) < 127 and ch not in "-/" else "?" for ch in w)
        lines.append("  [%s]%s -- %d %s" % (", ".join(str(ord(c)) for c in w), comma, i, safe))
    lines.append("]")
    return "\n".join(lines)


def tables():
    import yowsup.layers.coder.tokendictionary as td
    t = td.TokenDictionary()
    return list(t.dictionary), list(t.secondaryDictionary), int(t.FLAG_SEGMENTED), int(t.FLAG_DEFLATE)


def render(ns, prim, sec, fs, fd, header):
    return "\n".join([
        "/- %s -/" % header,
        "import YowsupVerif.Model.Coder",
        "namespace Yow.%s" % ns,
        "set_option maxRecDepth 8192",
        _lst(prim, "primary"),
    ] + [_lst(sec[i:i + 256], "secondary%d" % (i // 256)) for i in range(0, len(sec), 256)] + [
        "def secondary : List (List Nat) := " + (" ++ ".join("secondary%d" % (i // 256) for i in range(0, len(sec), 256)) or "[]"),
        "def flagSegmented : Nat := %d" % fs,
        "def flagDeflate : Nat := %d" % fd,
        "def waDict : Yow.Coder.Dict := { primary := primary, secondary := secondary }",
        "end Yow.%s" % ns,
        ""])


def generate():
    prim, sec, fs, fd = tables()
    return render("Gen", prim, sec, fs, fd, "REGENERATED on every run from yowsup/layers/coder/tokendictionary.py — do not edit")


if __name__ == "__main__":
    # write the committed reference snapshot (done once, at the pinned commit)
    import os
    import core
    prim, sec, fs, fd = tables()
    p = os.path.join(core.LEAN, "YowsupVerif", "Ref", "TokenDict.lean")
    open(p, "w").write(render("Ref", prim, sec, fs, fd, "Reference snapshot of the token dictionary at the pinned commit (DESIGN §4); committed, never regenerated"))
    print("wrote", p)
