"""C17  Identity pinning — Model/Trust.lean vs the real stacks in the multi-client simulation (lib/sim.py):
an observer account with the full protocol stack, one or two contacts that reinstall with fresh identities,
the common server double.  The manager / receive-layer entry points of the observer are wrapped (observation
only) to obtain the micro-events the model speaks about; after each the identities and sessions tables are
compared with the model, and the property's clauses are evaluated on the real run."""
import os
import random

import boot  # noqa: F401
from core import corr, oracle
from lib import sim

PID = "C17"
GEN = ["trustcfg"]
LEAN_MODULES = ["YowsupVerif.Props.C17"]
RULE = ("histories of 4..14 events over {contact reinstalls with a fresh identity and publishes keys, observer sends to a contact, the contact's "
        "current install sends to the observer, identity-change notification (observer fetches the contact's keys), observer restarts, "
        "automatic trust switched on/off} for an observer and 1-2 contacts (2-3 accounts), each followed by a randomly scheduled run of the "
        "server double to quiescence; every create_session / handleEncMessage / encrypt of the observer is one model event; "
        "stream 'author': every chat shape x participant x envelope kind: the real getAuthor against the model's author. distinct = distinct history.")
RULE += (" Histories with 'fault' events: the n-th statement of the observer's store fails once (database is locked) when keys / messages arrive; after a fault only the safety clauses are checked.")
RULE += (" Histories with 'revert' events: the contact returns to an earlier install (the identity it had before).")
RULE += (" Event 'notifyFlip': the application switches automatic trust over while the observer's key request is in flight (the server's answer is held back meanwhile): the setting in force when the new identity is looked at decides.")
ASSUMPTIONS = ["python-axolotl's SessionBuilder refuses an identity the store does not trust and saves the identity it accepts (exercised, not modelled)",
               "an install that was replaced never comes back (restoring an old identity would revive archived ratchet states, which the property does not speak about)"]

TRACE = []          # micro events observed at the observer
WATCH = {"phone": None, "world": None}
_DEPTH = {"enc": 0, "calls": 0}


class EndlessHandling(Exception):
    """raised by the observation wrapper when one history event makes the observer's receive layer handle encrypted stanzas more than 300 times
    (a fault-free event needs a handful): the layer is re-handling the same stanza for ever"""


def setup(chk):
    from yowsup.axolotl.manager import AxolotlManager
    from yowsup.layers.axolotl.layer_receive import AxolotlReceivelayer
    AxolotlManager.COUNT_GEN_PREKEYS = 10
    AxolotlManager.THRESHOLD_REGEN = 2
    if getattr(AxolotlManager, "_c17_wrapped", False):
        return
    AxolotlManager._c17_wrapped = True
    orig_create = AxolotlManager.create_session
    orig_encrypt = AxolotlManager.encrypt
    orig_enc = AxolotlReceivelayer.handleEncMessage

    def create_session(self, username, prekeybundle, autotrust=False):
        w = WATCH["world"]
        if w is None or self._username != WATCH["phone"]:
            return orig_create(self, username, prekeybundle, autotrust=autotrust)
        ident = bytes(prekeybundle.getIdentityKey().getPublicKey().serialize())
        ev = {"ev": "bundle", "contact": username, "identity": ident, "outcome": "ok"}
        try:
            return orig_create(self, username, prekeybundle, autotrust=autotrust)
        except Exception as e:
            ev["outcome"] = "untrusted" if type(e).__name__ == "UntrustedIdentityException" else "raised:" + type(e).__name__
            raise
        finally:
            ev["state"] = w.observer_state()
            TRACE.append(ev)

    def encrypt(self, recipient_id, message):
        w = WATCH["world"]
        if w is None or self._username != WATCH["phone"]:
            return orig_encrypt(self, recipient_id, message)
        ev = {"ev": "encrypt", "contact": recipient_id, "outcome": "ok"}
        try:
            return orig_encrypt(self, recipient_id, message)
        except Exception as e:
            ev["outcome"] = "raised:" + type(e).__name__
            raise
        finally:
            ev["state"] = w.observer_state()
            TRACE.append(ev)

    def handleEncMessage(self, node):
        w = WATCH["world"]
        mgr = getattr(self, "manager", None)
        if w is not None:
            _DEPTH["calls"] += 1
            if _DEPTH["calls"] > 300:
                raise EndlessHandling("stanza %s from %s (participant %s) handled again and again" % (node["id"], node["from"], node["participant"]))
        if w is None or mgr is None or mgr._username != WATCH["phone"] or _DEPTH["enc"] > 0:
            return orig_enc(self, node)
        from axolotl.protocol.prekeywhispermessage import PreKeyWhisperMessage
        enc = node.getChild("enc")
        ev = {"ev": "firstMsg" if enc["type"] == "pkmsg" else "msgIn", "contact": (node["participant"] or node["from"]).split("@")[0], "id": node["id"], "outcome": "ok"}
        if enc["type"] == "pkmsg":
            try:
                ev["identity"] = bytes(PreKeyWhisperMessage(serialized=bytes(enc.getData())).getIdentityKey().getPublicKey().serialize())
            except Exception as e:
                ev["identity"] = None
        else:
            ev["identity"] = w.sender_identity.get(node["id"])
        n_app = len(w.A.app.messages)
        n_wire = len(w.srv.wire)
        _DEPTH["enc"] += 1
        try:
            return orig_enc(self, node)
        except Exception as e:
            ev["outcome"] = "raised:" + type(e).__name__
            raise
        finally:
            _DEPTH["enc"] -= 1
            ev["delivered"] = len(w.A.app.messages) - n_app
            ev["retry"] = sum(1 for (j, d, n) in w.srv.wire[n_wire:] if j == w.A.jid and d == "c2s" and n.tag == "receipt" and n["type"] == "retry")
            ev["state"] = w.observer_state()
            TRACE.append(ev)

    AxolotlManager.create_session = create_session
    AxolotlManager.encrypt = encrypt
    AxolotlReceivelayer.handleEncMessage = handleEncMessage


CONTACT_PHONES = ["4915200002", "4915200003"]
CARRIERS = [None, "status@broadcast", "1500000099@broadcast"]       # how a contact's message reaches the observer: directly / as a status update / through a broadcast list
OBSERVER_PHONE = "4915200001"


def cases(chk):
    r = chk.rng
    corpus = [
        {"auto": False, "contacts": 1, "events": [["send", 0], ["reinstall", 0], ["send", 0], ["recv", 0], ["restart"], ["recv", 0], ["send", 0]]},
        {"auto": True, "contacts": 1, "events": [["send", 0], ["reinstall", 0], ["send", 0], ["send", 0], ["recv", 0]]},
        {"auto": True, "contacts": 1, "events": [["send", 0], ["recv", 0], ["reinstall", 0], ["send", 0], ["send", 0]]},
        {"auto": False, "contacts": 1, "events": [["recv", 0], ["reinstall", 0], ["recv", 0], ["auto", 1], ["recv", 0], ["send", 0]]},
        {"auto": False, "contacts": 2, "events": [["send", 0], ["send", 1], ["reinstall", 1], ["notify", 1], ["send", 1], ["send", 0], ["restart"], ["send", 1]]},
        {"auto": True, "contacts": 1, "events": [["send", 0], ["reinstall", 0], ["notify", 0], ["send", 0], ["auto", 0], ["reinstall", 0], ["send", 0], ["recv", 0]]},
    ]
    # the remembered key must survive a restart that comes right after it was learnt (no other store write in between)
    corpus += [
        {"auto": False, "contacts": 1, "events": [["notify", 0], ["restart"], ["reinstall", 0], ["send", 0]]},
        # the setting switched while the key request is in flight (on -> off: the new identity is refused; off -> on: it is accepted)
        {"auto": True, "contacts": 1, "events": [["send", 0], ["reinstall", 0], ["notifyFlip", 0], ["send", 0], ["recv", 0]]},
        {"auto": False, "contacts": 1, "events": [["send", 0], ["reinstall", 0], ["notifyFlip", 0], ["send", 0], ["recv", 0]]},
        {"auto": True, "contacts": 2, "events": [["recv", 0], ["send", 1], ["reinstall", 1], ["notifyFlip", 1], ["send", 1], ["reinstall", 0], ["notifyFlip", 0], ["send", 0]]},
        {"auto": False, "contacts": 1, "events": [["notify", 0], ["restart"], ["reinstall", 0], ["notify", 0], ["recv", 0]]},
        {"auto": False, "contacts": 2, "events": [["send", 0], ["notify", 1], ["restart"], ["reinstall", 1], ["send", 1], ["recv", 1]]},
    ]
    corpus += [
        {"auto": False, "contacts": 1, "events": [["recv", 0], ["reinstall", 0], ["recv", 0, 1], ["restart"], ["recv", 0, 2], ["send", 0]]},
        {"auto": False, "contacts": 1, "events": [["recv", 0, 1], ["reinstall", 0], ["recv", 0, 2], ["recv", 0]]},
        {"auto": True, "contacts": 1, "events": [["send", 0], ["reinstall", 0], ["recv", 0, 1], ["send", 0]]},
    ]
    # the same contact reinstalls more than once in one process life, each new identity first seen through an incoming message / a key bundle /
    # an identity notification: with automatic trust on, messaging resumes EVERY time
    corpus += [
        {"auto": True, "contacts": 1, "events": [["recv", 0], ["reinstall", 0], ["recv", 0], ["reinstall", 0], ["recv", 0], ["send", 0], ["reinstall", 0], ["recv", 0]]},
        {"auto": True, "contacts": 1, "events": [["send", 0], ["reinstall", 0], ["send", 0], ["reinstall", 0], ["send", 0], ["recv", 0]]},
        {"auto": True, "contacts": 2, "events": [["recv", 0], ["recv", 1], ["reinstall", 0], ["recv", 0], ["reinstall", 1], ["recv", 1], ["reinstall", 0], ["notify", 0], ["recv", 0],
                                                  ["reinstall", 1], ["recv", 1, 1]]},
        {"auto": False, "contacts": 1, "events": [["recv", 0], ["reinstall", 0], ["recv", 0], ["auto", 1], ["recv", 0], ["reinstall", 0], ["recv", 0], ["auto", 0], ["reinstall", 0], ["recv", 0]]},
    ]
    # the contact goes BACK to an identity it had before (a restored backup): with automatic trust off that is a changed identity like any other
    corpus += [
        {"auto": True, "contacts": 1, "events": [["recv", 0], ["reinstall", 0], ["recv", 0], ["auto", 0], ["revert", 0], ["recv", 0], ["send", 0], ["notify", 0], ["send", 0]]},
        {"auto": True, "contacts": 1, "events": [["send", 0], ["reinstall", 0], ["send", 0], ["auto", 0], ["revert", 0], ["send", 0], ["recv", 0], ["restart"], ["recv", 0]]},
        {"auto": False, "contacts": 1, "events": [["send", 0], ["recv", 0], ["reinstall", 0], ["send", 0], ["recv", 0], ["revert", 0], ["recv", 0], ["send", 0], ["reinstall", 0], ["revert", 0], ["send", 0]]},
        {"auto": True, "contacts": 1, "events": [["recv", 0], ["reinstall", 0], ["recv", 0], ["revert", 0], ["recv", 0], ["send", 0], ["revert", 0], ["auto", 0], ["revert", 0], ["send", 0], ["recv", 0]]},
    ]
    # ... with a session that had carried traffic BOTH ways before the contact changed (so that the returning install sends ordinary messages, not
    # first messages), and the observer writing to the contact right after the refused message: what it writes is for the remembered identity
    corpus += [
        {"auto": True, "contacts": 1, "events": [["send", 0], ["recv", 0], ["reinstall", 0], ["send", 0], ["auto", 0], ["revert", 0], ["recv", 0], ["send", 0], ["recv", 0], ["send", 0]]},
        {"auto": True, "contacts": 1, "events": [["recv", 0], ["send", 0], ["recv", 0], ["reinstall", 0], ["recv", 0], ["send", 0], ["auto", 0], ["revert", 0], ["recv", 0], ["recv", 0], ["send", 0],
                                                  ["restart"], ["send", 0]]},
    ]
    # whose pin an incoming stanza is checked against: every chat shape x participant present / absent x envelope kind
    for chat in ("4915200002@s.whatsapp.net", "4915200002-1400000000@g.us", "status@broadcast", "1500000099@broadcast", "4915200003@s.whatsapp.net"):
        for part in (None, "4915200002@s.whatsapp.net", "4915200003@s.whatsapp.net"):
            for et in ("pkmsg", "msg", "skmsg"):
                yield "author", {"chat": chat, "participant": part, "enc": et}
    # two numbers presenting one identity key (stream 'samekey', on the real manager and store)
    for order in SAMEKEY_ORDERS:
        for how in ("bundle", "message"):
            yield "samekey", {"order": order, "how": how}
    for c in corpus:
        yield "history", c
    # transient storage faults (another process holds the store's lock): the n-th statement of the observer's store fails once, right when a
    # changed identity is presented — a lookup that fails is not "contact never seen"
    for n in range(1, 9):
        for how in ("send", "recv", "notify"):
            yield "history", {"auto": False, "contacts": 1, "events": [["send", 0], ["recv", 0], ["reinstall", 0], ["fault", n], [how, 0], [how, 0], ["send", 0]]}
    # the same kind of fault at the FIRST contact (nothing remembered yet): what is accepted then must also be remembered — a first message or
    # key bundle that went through while its identity could not be written leaves the contact open to any later identity
    for n in range(1, 13):
        for how in ("recv", "send", "notify"):
            yield "history", {"auto": False, "contacts": 1, "events": [["fault", n], [how, 0], ["reinstall", 0], ["recv", 0], ["send", 0]]}
    for _ in range(chk.scale(30, 1000)):
        nc = r.choice([1, 1, 2])
        evs = [["send", 0], ["recv", r.randrange(nc)]]
        for _i in range(r.randint(3, 9)):
            k = r.choice(["send", "recv", "reinstall", "reinstall", "notify", "restart"])
            if r.random() < 0.5:
                evs.append(["fault", r.randint(1, 10)])
            evs.append([k, r.randrange(nc)] if k != "restart" else [k])
        yield "history", {"auto": r.random() < 0.25, "contacts": nc, "events": evs}
    # the same histories with the setting stored as other values of the same truth value (0, None, "" / 1, "yes")
    for i, c in enumerate(corpus):
        yield "history", dict(c, flavour=1 + i % 3)
    for _ in range(chk.scale(40, 1200)):
        nc = r.choice([1, 1, 2])
        evs = []
        for _i in range(r.randint(4, 14)):
            k = r.choice(["send", "send", "recv", "recv", "reinstall", "reinstall", "notify", "restart", "auto", "revert"])
            if k == "recv" and r.random() < 0.4:
                evs.append([k, r.randrange(nc), r.choice([1, 2])])
            elif k in ("send", "recv", "reinstall", "notify", "revert"):
                evs.append([k, r.randrange(nc)])
            elif k == "auto":
                evs.append([k, r.randrange(2)])
            else:
                evs.append([k])
        yield "history", {"auto": r.random() < 0.5, "contacts": nc, "events": evs, "flavour": r.choice([0, 0, 1, 2, 3])}
    # histories in which the setting is also switched while a key request is in flight (a generator of their own: the streams above stay as they were)
    r2 = random.Random(chk.seed * 7919 + 17)
    for _ in range(chk.scale(12, 400)):
        nc = r2.choice([1, 1, 2])
        evs = []
        for _i in range(r2.randint(4, 10)):
            k = r2.choice(["send", "recv", "reinstall", "reinstall", "notifyFlip", "notifyFlip", "notify", "restart", "auto"])
            if k in ("send", "recv", "reinstall", "notify", "notifyFlip"):
                evs.append([k, r2.randrange(nc)])
            elif k == "auto":
                evs.append([k, r2.randrange(2)])
            else:
                evs.append([k])
        yield "history", {"auto": r2.random() < 0.5, "contacts": nc, "events": evs, "flavour": r2.choice([0, 0, 1, 2, 3])}


SAMEKEY_ORDERS = [["a", "b", "a2"], ["b", "a", "a2"], ["a", "b", "c", "a2"], ["a", "b", "b2", "a2"], ["a", "a2x", "b", "a2"], ["a", "b", "restart", "a2"], ["a", "b", "a2", "restart", "a2"]]


def run_samekey(chk, case):
    """Two (or three) numbers presenting the SAME identity key (one installation that moved to a new number, a second SIM): recording the key
    under one number must not touch what is remembered for another.  On the real manager and store, through the factory the library uses; the
    peers are python-axolotl in-memory stores.  Steps: `a` / `b` / `c` = that number presents the shared installation's key (bundle or first
    message); `a2` = number a presents a DIFFERENT identity (must be refused, automatic trust off, and a's pin must stay); `a2x` = the same, expected
    to be refused, before b appears; `b2` = number b changes its identity with automatic trust ON (accepted: b's pin changes, a's must not)."""
    import uuid
    from axolotl.identitykey import IdentityKey
    from axolotl.sessionbuilder import SessionBuilder
    from axolotl.sessioncipher import SessionCipher
    from axolotl.state.prekeybundle import PreKeyBundle
    from axolotl.tests.inmemoryaxolotlstore import InMemoryAxolotlStore
    from axolotl.util.keyhelper import KeyHelper
    from yowsup.axolotl import exceptions
    from yowsup.axolotl.factory import AxolotlManagerFactory
    from axolotl.untrustedidentityexception import UntrustedIdentityException as _LibUntrusted
    UNTRUSTED = (exceptions.UntrustedIdentityException, _LibUntrusted)
    fails = []
    tag = uuid.uuid4().hex[:8]
    prof, me = "c17sk-" + tag, "49170%07d" % (int(tag, 16) % 10 ** 7)
    mgr = AxolotlManagerFactory().get_manager(prof, me)
    numbers = {"a": "4917111", "b": "4917222", "c": "4917333"}

    class Peer(object):
        def __init__(self):
            self.store = InMemoryAxolotlStore()
            self.n = 0

        def identity(self):
            return bytes(self.store.getIdentityKeyPair().getPublicKey().serialize())

        def bundle(self):
            self.n += 1
            pk = KeyHelper.generatePreKeys(self.n * 10, 1)[0]
            spk = KeyHelper.generateSignedPreKey(self.store.getIdentityKeyPair(), self.n)
            self.store.storePreKey(pk.getId(), pk)
            self.store.storeSignedPreKey(spk.getId(), spk)
            return PreKeyBundle(self.store.getLocalRegistrationId(), 1, pk.getId(), pk.getKeyPair().getPublicKey(), spk.getId(),
                                spk.getKeyPair().getPublicKey(), spk.getSignature(), self.store.getIdentityKeyPair().getPublicKey())

    shared, other, other_b = Peer(), Peer(), Peer()
    how = case["how"]

    def pin(num):
        k = mgr._store.getIdentity(num) if hasattr(mgr._store, "getIdentity") else None
        if k is None:
            import sqlite3
            from yowsup.common.tools import StorageTools
            c = sqlite3.connect(StorageTools.constructPath(prof, "axolotl.db"))
            try:
                r = c.execute("SELECT public_key FROM identities WHERE recipient_id = ?", (int(num),)).fetchone()
            finally:
                c.close()
            return None if r is None else bytes(r[0])
        return bytes(k.getPublicKey().serialize())

    def norm(b):
        return None if b is None else bytes(b)[-32:]

    def present(num, peer, auto):
        """the number presents the peer's identity: as a key bundle, or as a first message built from the observer's own bundle"""
        if how == "bundle":
            mgr.create_session(num, peer.bundle(), autotrust=auto)
        else:
            ob = mgr  # the observer's own bundle: a one-time key, the signed prekey, the identity
            pks = ob._store.loadPreKeys()
            if not pks:
                import contextlib
                import io
                with contextlib.redirect_stdout(io.StringIO()), contextlib.redirect_stderr(io.StringIO()):
                    ob.level_prekeys(force=True)
                pks = ob._store.loadPreKeys()
            pk = pks[0]
            spk = ob.load_latest_signed_prekey(generate=True)
            b = PreKeyBundle(ob.registration_id, 1, pk.getId(), pk.getKeyPair().getPublicKey(), spk.getId(), spk.getKeyPair().getPublicKey(),
                             spk.getSignature(), ob.identity.getPublicKey())
            st = peer.store
            SessionBuilder(st, st, st, st, me + ":" + num, 1).processPreKeyBundle(b)
            msg = SessionCipher(st, st, st, st, me + ":" + num, 1).encrypt(b"hi" + b"\x01")
            try:
                mgr.decrypt_pkmsg(num, msg.serialize(), True)
            except UNTRUSTED:
                if not auto:
                    raise exceptions.UntrustedIdentityException(num, None)
                mgr.trust_identity(num, peer.store.getIdentityKeyPair().getPublicKey())
                mgr.decrypt_pkmsg(num, msg.serialize(), True)

    expect = {}          # number -> identity (last 32 bytes) that must be remembered
    chk.hit("samekey:" + how, "order:" + "-".join(case["order"]))
    try:
        for i, step in enumerate(case["order"]):
            if step == "restart":
                mgr = AxolotlManagerFactory().get_manager(prof, me)
            elif step in ("a", "b", "c"):
                present(numbers[step], shared, False)
                expect[numbers[step]] = norm(shared.identity())
            elif step in ("a2", "a2x"):
                try:
                    present(numbers["a"], other, False)
                    fails.append(oracle("C17:changed-identity-accepted:same-key-elsewhere", "steps %s (%s): number a presents a different identity with automatic trust off "
                                        "at step #%d and is accepted (its remembered identity was %s)" % (case["order"], how, i, "gone" if pin(numbers["a"]) is None or norm(pin(numbers["a"])) != expect.get(numbers["a"]) else "replaced")))
                    break
                except UNTRUSTED:
                    pass
            elif step == "b2":
                present(numbers["b"], other_b, True)
                expect[numbers["b"]] = norm(other_b.identity())
            for num, want in sorted(expect.items()):
                got = norm(pin(num))
                if got != want:
                    fails.append(oracle("C17:pin-changed-by-another-contact", "steps %s (%s): after step #%d (%s) the identity remembered for %s is %s, it was %s"
                                        % (case["order"], how, i, step, num, "gone" if got is None else "a different key", "the shared installation's key" if want == norm(shared.identity()) else "its own new key")))
                    return fails
    except Exception as e:
        import traceback
        fails.append(oracle("C17:samekey-raises:" + type(e).__name__, "steps %s (%s): %s" % (case["order"], how, traceback.format_exc().strip().splitlines()[-1][:200])))
    return fails


def nontrivial(stream, case):
    if stream == "samekey":
        return (stream, repr(case))
    if stream == "author":
        return (stream, repr(case))
    return (case["auto"], case["contacts"], tuple(tuple(e) for e in case["events"]), case.get("flavour", 0))


def shrink(stream, case):
    if stream in ("author", "samekey"):
        return
    evs = case["events"]
    for i in range(len(evs)):
        yield dict(case, events=evs[:i] + evs[i + 1:])


OFF_VALUES = [False, 0, None, ""]          # "automatic trust is off", as an application may store it
ON_VALUES = [True, 1, "yes"]


def flavour(case, on):
    """the concrete value the application stores for the setting (case["flavour"] picks it; the meaning is its truth value)"""
    k = case.get("flavour", 0)
    return ON_VALUES[k % len(ON_VALUES)] if on else OFF_VALUES[k % len(OFF_VALUES)]


class World(object):
    def __init__(self, chk, case, seed):
        self.rng = random.Random(seed)
        self.srv = sim.Server(self.rng)
        self.srv.install()
        self.A = sim.Client(self.srv, OBSERVER_PHONE, autotrust=flavour(case, bool(case["auto"])))
        self.srv.add_client(self.A)
        self.installs = [[] for _ in range(case["contacts"])]      # per contact: Clients, oldest first
        self.sender_identity = {}                                  # message id -> identity bytes of the install that sent it
        self.nmsg = 0
        self.A.connect()
        for ci in range(case["contacts"]):
            self.reinstall(ci)
        self.quiesce()

    def quiesce(self):
        self.srv.run(lambda acts: self.rng.choice(acts), limit=800)

    def reinstall(self, ci):
        if self.installs[ci]:
            self.installs[ci][-1].kill_process()
        c = sim.Client(self.srv, CONTACT_PHONES[ci])
        self.installs[ci].append(c)
        self.srv.add_client(c)
        c.connect()
        self.quiesce()

    def revert(self, ci):
        """the contact goes back to an EARLIER install (a restored backup, the old phone switched on again): the same identity as before, which
        the server learns from that install's next key upload"""
        cur = self.installs[ci][-1]
        olds = [c for c in self.installs[ci] if c is not cur and c.own_identity() != cur.own_identity()]
        if not olds:
            return False
        old = olds[-1]
        cur.kill_process()
        old.boot_process()
        self.srv.add_client(old)
        old.connect()
        self.quiesce()
        self.srv.sid += 1
        self.srv.push(old.jid, sim.N("notification", {"id": "srv-c%d" % self.srv.sid, "from": "s.whatsapp.net", "type": "encrypt", "t": str(self.srv.t)},
                                     [sim.N("count", {"value": "0"})]))
        self.quiesce()
        self.installs[ci].append(old)
        return True

    def key_no(self, ci, ident):
        """identity bytes (33-byte serialised form) -> model key number of that contact (install index + 1)"""
        if ident is None:
            return None
        for i, c in enumerate(self.installs[ci]):
            if c.own_identity() == bytes(ident):
                return i + 1
        return 99

    def observer_state(self):
        pins, sess = [], []
        for ci in range(4):
            if ci >= len(self.installs):
                pins.append("-")
                sess.append("-")
                continue
            p = self.A.stored_identity(CONTACT_PHONES[ci])
            pins.append("-" if p is None else str(self.key_no(ci, p)))
            sess.append(self._session_identity(ci))
        return "pin=%s;ses=%s" % (",".join(pins), ",".join(sess))

    def _session_identity(self, ci):
        import sqlite3
        from axolotl.state.sessionrecord import SessionRecord
        c = sqlite3.connect(self.A.dbpath())
        try:
            r = c.execute("SELECT record FROM sessions WHERE recipient_id = ?", (int(CONTACT_PHONES[ci]),)).fetchone()
        finally:
            c.close()
        if not r:
            return "-"
        st = SessionRecord(serialized=bytes(r[0])).getSessionState()
        rk = st.getRemoteIdentityKey()
        if rk is None:
            return "-"
        return str(self.key_no(ci, bytes(rk.getPublicKey().serialize())))


def run_author(chk, case):
    from yowsup.layers.axolotl.protocolentities import EncryptedMessageProtocolEntity
    attrs = {"id": "A1", "from": case["chat"], "t": "1500000000", "type": "text", "notify": "n"}
    if case["participant"]:
        attrs["participant"] = case["participant"]
    node = sim.N("message", attrs, [sim.N("enc", {"type": case["enc"], "v": "2"}, None, b"\x33\x08\x01")])
    chk.hit("author:%s:%s" % (case["chat"].split("@")[1], "participant" if case["participant"] else "direct"))
    try:
        got = EncryptedMessageProtocolEntity.fromProtocolTreeNode(node).getAuthor(False)
    except Exception as e:
        got = "raised:" + type(e).__name__
    model = chk.driver.ask("trust author %s %s" % (case["chat"].split("@")[0], case["participant"].split("@")[0] if case["participant"] else "-"))
    if got != model:
        return [corr("author", "stanza from %s participant %s (%s): the pin is looked up under %r, the model's author is %r" % (case["chat"], case["participant"], case["enc"], got, model)),
                oracle("C17:pin-looked-up-under-the-wrong-name", "an incoming %s stanza in chat %s written by %s is checked against the pin of %r" % (case["enc"], case["chat"], case["participant"], got))
                if case["participant"] else corr("author", "as above")][:2 if case["participant"] else 1]
    return []


def run_case(chk, stream, case):
    if stream == "author":
        return run_author(chk, case)
    if stream == "samekey":
        return run_samekey(chk, case)
    from yowsup.layers.protocol_messages.protocolentities import TextMessageProtocolEntity
    fails = []
    d = chk.driver
    d.ask("trust reset")
    del TRACE[:]
    WATCH["world"] = None
    from lib import sqlfault
    has_faults = any(ev[0] == "fault" for ev in case["events"])
    if has_faults:
        sqlfault.install()
    faulted = False        # a storage fault has fired: from then on only the safety clauses are checked (a refused or lost message is a fault's fair outcome)
    w = World(chk, case, chk.rng.randrange(1 << 30))
    WATCH["phone"] = OBSERVER_PHONE
    WATCH["world"] = w
    A = w.A
    auto = bool(case["auto"])
    if auto:
        d.ask("trust ev setAuto 1")
    hist = []
    diverged = False
    ghost = {}          # contact -> identity number the observer accepted last (what "remembered" means, whatever the store says)
    try:
        for ei, ev in enumerate(case["events"]):
            kind = ev[0]
            hist.append(ev)
            ctx = "auto=%s contacts=%d history %s" % (case["auto"], case["contacts"], hist)
            chk.hit("ev:" + kind)
            del TRACE[:]
            _DEPTH["calls"] = 0
            pins_before = [A.stored_identity(CONTACT_PHONES[ci]) for ci in range(case["contacts"])]
            expect_at = None       # (client, body) that must be delivered exactly once
            if has_faults and kind in ("restart", "reinstall", "auto", "revert"):
                sqlfault.disarm()      # (faults are placed at message / key events: a store that cannot be opened is another matter)
            if kind == "reinstall":
                w.reinstall(ev[1])
            elif kind == "revert":
                if w.revert(ev[1]):
                    chk.hit("ev:revert-done")
            elif kind == "send":
                ci = ev[1]
                w.nmsg += 1
                body = "a2c-%d" % w.nmsg
                A.send_entity(TextMessageProtocolEntity(body, to=w.installs[ci][-1].jid))
                w.quiesce()
                expect_at = (w.installs[ci][-1], body, ci, "out")
            elif kind == "recv":
                ci = ev[1]
                w.nmsg += 1
                body = "c2a-%d" % w.nmsg
                inst = w.installs[ci][-1]
                e = TextMessageProtocolEntity(body, to=A.jid)
                w.sender_identity[e.getId()] = inst.own_identity()
                if len(ev) > 2 and ev[2]:
                    # the server hands it over as a status update / broadcast-list message: chat = the list, author = participant
                    if not hasattr(w.srv, "carriers"):
                        w.srv.carriers = {}
                    w.srv.carriers[e.getId()] = CARRIERS[ev[2]]
                    chk.hit("carrier:" + CARRIERS[ev[2]].split("@")[0][:6])
                inst.send_entity(e)
                w.quiesce()
                expect_at = (A, body, ci, "in")
            elif kind == "notify":
                ci = ev[1]
                w.srv.sid += 1
                w.srv.push(A.jid, sim.N("notification", {"id": "srv-i%d" % w.srv.sid, "from": w.installs[ci][-1].jid, "type": "encrypt", "t": str(w.srv.t)},
                                        [sim.N("identity")]))
                w.quiesce()
            elif kind == "notifyFlip":
                # the application switches the setting while a key request is in flight: the notification makes the observer ask for the contact's
                # keys; the server's answer is held back, the setting is switched over, then the answer arrives — the decision belongs to the
                # setting in force when the new identity is looked at
                ci = ev[1]
                w.srv.sid += 1
                w.srv.push(A.jid, sim.N("notification", {"id": "srv-i%d" % w.srv.sid, "from": w.installs[ci][-1].jid, "type": "encrypt", "t": str(w.srv.t)},
                                        [sim.N("identity")]))
                held = False
                for _step in range(60):
                    q = w.srv.outbound[A.jid]
                    if q and q[0][0].tag == "iq" and q[0][0]["type"] == "result" and q[0][0].getChild("list") is not None:
                        held = True
                        break
                    acts = w.srv.enabled()
                    if not acts:
                        break
                    w.srv.fire(acts[0])
                if held:
                    chk.hit("ev:flip-in-flight")
                    auto = not auto
                    A.set_autotrust(flavour(case, auto))
                    if not diverged:
                        d.ask("trust ev setAuto %d" % (1 if auto else 0))
                w.quiesce()
            elif kind == "restart":
                A.restart()
                A.connect()
                w.quiesce()
                if not diverged:
                    d.ask("trust ev restart")
            elif kind == "auto":
                auto = bool(ev[1])
                A.set_autotrust(flavour(case, auto))
                if not diverged:
                    d.ask("trust ev setAuto %d" % (1 if auto else 0))
            elif kind == "fault":
                # a transient storage fault: the ev[1]-th statement the observer's store issues from now on fails once ("database is locked")
                sqlfault.arm(os.path.basename(os.path.dirname(A.dbpath())), ev[1])
                continue
            if has_faults and sqlfault.fired():
                chk.hit("fault-fired:" + sqlfault.fired().split()[0].upper())
                faulted = True
                diverged = True            # (faults are outside the model: the real run goes on alone)
                del w.srv.raised[:]         # the fault surfacing as an exception is a refusal
            if has_faults and kind != "fault":
                sqlfault.disarm()
            if w.srv.raised:
                j, e, tb = w.srv.raised[0]
                if isinstance(e, EndlessHandling):
                    fails.append(oracle("C17:message-handled-for-ever", "%s: the observer never finishes handling this event: %s (more than 300 rounds; stopped by the check)" % (ctx, e)))
                    break
                fails.append(oracle("C17:exception-escaped", "%s: %s raised in %s: %s" % (ctx, type(e).__name__, j, tb.strip().splitlines()[-1])))
                break
            # ---- micro events -> model
            bad = False
            for m in list(TRACE):
                ci = CONTACT_PHONES.index(m["contact"]) if m["contact"] in CONTACT_PHONES else None
                if ci is None or ci >= case["contacts"]:
                    continue
                chk.hit("micro:" + m["ev"])
                # ---- the property on the real run, independent of the model and of what the store claims: once an identity was
                # accepted for a contact, a different one is never accepted while automatic trust is off
                accepted = None
                if m["ev"] == "bundle" and m["outcome"] == "ok":
                    accepted = w.key_no(ci, m["identity"])
                elif m["ev"] == "firstMsg" and m.get("delivered") and m["outcome"] == "ok":
                    accepted = w.key_no(ci, m["identity"])
                if accepted is not None:
                    if ci in ghost and ghost[ci] != accepted and not auto:
                        fails.append(oracle("C17:changed-key-accepted-silently", "%s: identity #%d was remembered for contact %d; a %s presenting identity #%d was accepted with "
                                            "automatic trust off" % (ctx, ghost[ci], ci, "key bundle" if m["ev"] == "bundle" else "first message", accepted)))
                        bad = True
                        break
                    ghost[ci] = accepted
                if diverged:
                    continue
                if m["ev"] == "bundle":
                    k = w.key_no(ci, m["identity"])
                    line = d.ask("trust ev bundle %d %d" % (ci, k))
                    mouts, mstate = [x.strip() for x in line.split("|")]
                    want = "ok" if ("built" in mouts or ("trusted" in mouts and "raised" not in mouts)) else ("untrusted" if "refused" in mouts else "raised")
                    got = m["outcome"] if not m["outcome"].startswith("raised") else "raised"
                    # ---- property clause on the real run: an accepted bundle leaves a session for that identity
                    if m["outcome"] == "ok":
                        ses = m["state"].split("ses=")[1].split(",")[ci]
                        if ses != str(k):
                            fails.append(oracle("C17:accepted-key-but-session-for-the-old-identity",
                                                "%s: the observer accepted a key bundle presenting identity #%d of contact %d (automatic trust %s) but the stored session is "
                                                "still for identity #%s: the next message goes to the replaced identity" % (ctx, k, ci, "on" if auto else "off", ses)))
                            bad = True
                elif m["ev"] in ("firstMsg", "msgIn"):
                    k = w.key_no(ci, m["identity"])
                    if k is None:
                        continue
                    line = d.ask("trust ev %s %d %d" % (m["ev"], ci, k))
                    mouts, mstate = [x.strip() for x in line.split("|")]
                    want = "delivered" if "delivered" in mouts else ("ignored" if "ignored" in mouts else ("retry" if "undecryptable" in mouts else "raised"))
                    got = "raised" if m["outcome"].startswith("raised") else ("delivered" if m["delivered"] else ("retry" if m["retry"] else "ignored"))
                    if want == "delivered" and got == "ignored" and m["delivered"] == 0:
                        # decrypted but nothing surfaced (duplicate): treated as delivered earlier
                        pass
                else:
                    line = d.ask("trust ev encrypt %d" % ci)
                    mouts, mstate = [x.strip() for x in line.split("|")]
                    want = "ok" if "encryptedFor" in mouts else "raised"
                    got = "ok" if m["outcome"] == "ok" else "raised"
                mstate_cmp = ";".join(mstate.split(";")[:2])
                if bad:
                    break
                if want != got or mstate_cmp != m["state"]:
                    fails.append(corr("micro:" + m["ev"], "%s: micro event %s (contact %d): impl=%s | %s   model=%s [%s] | %s"
                                      % (ctx, m["ev"], ci, got, m["state"], want, mouts, mstate_cmp)))
                    diverged = True          # go on with the real run alone: the clauses below look for a concrete failing history
            if bad:
                break
            # ---- the property's clauses on the real run
            for ci in range(case["contacts"]):
                now = A.stored_identity(CONTACT_PHONES[ci])
                if pins_before[ci] is not None and now != pins_before[ci] and not auto and kind != "auto":
                    fails.append(oracle("C17:pin-replaced-without-autotrust", "%s: the remembered identity of contact %d changed from #%s to #%s with automatic trust off"
                                        % (ctx, ci, w.key_no(ci, pins_before[ci]), w.key_no(ci, now))))
                    bad = True
                if pins_before[ci] is not None and now is None:
                    fails.append(oracle("C17:pin-lost", "%s: the remembered identity of contact %d disappeared" % (ctx, ci)))
                    bad = True
            if bad:
                break
            # ---- in every state a stored session belongs to the remembered identity (C17_session_matches_pin): what is encrypted next is encrypted
            # for the session's identity, whatever was refused or ignored a moment ago  (after a storage fault the two stores may lag: skipped)
            if not faulted:
                for ci in range(case["contacts"]):
                    pin_now = A.stored_identity(CONTACT_PHONES[ci])
                    ses_now = w._session_identity(ci)
                    if pin_now is not None and ses_now != "-" and ses_now != str(w.key_no(ci, pin_now)):
                        fails.append(oracle("C17:session-for-an-identity-other-than-the-remembered", "%s: identity #%s is remembered for contact %d, but the stored session is for identity "
                                            "#%s: the next message to the contact is encrypted for an identity that is not the remembered one" % (ctx, w.key_no(ci, pin_now), ci, ses_now)))
                        bad = True
                        break
                if bad:
                    break
            if expect_at is not None:
                client, body, ci, direction = expect_at
                cur = w.installs[ci][-1]
                pin = A.stored_identity(CONTACT_PHONES[ci])
                cur_is_pinned = pin is not None and pin == cur.own_identity()
                got_n = sum(1 for e in client.seen("message") if getattr(e, "getBody", lambda: None)() == body)
                # (after a storage fault the first identity of a contact may have failed to be stored at all while its session was: nothing is
                # remembered then, and nothing the property says about a DIFFERENT identity applies — the fault's fair outcome)
                nothing_pinned_after_fault = faulted and pin is None
                if direction == "out":
                    if not cur_is_pinned and got_n and not nothing_pinned_after_fault:
                        fails.append(oracle("C17:message-readable-by-unpinned-identity", "%s: the observer's message %r was delivered to install #%d of contact %d "
                                            "although identity #%s is the remembered one" % (ctx, body, len(w.installs[ci]), ci, w.key_no(ci, pin))))
                        break
                    if faulted:
                        continue
                    if auto and got_n != 1:
                        fails.append(oracle("C17:autotrust-messaging-does-not-resume", "%s: with automatic trust on the observer's message %r reached the contact's current "
                                            "install %d times" % (ctx, body, got_n)))
                        break
                    if cur_is_pinned and got_n != 1:
                        fails.append(oracle("C17:message-to-pinned-identity-lost", "%s: message %r to the remembered identity delivered %d times" % (ctx, body, got_n)))
                        break
                else:
                    if not cur_is_pinned and got_n and not nothing_pinned_after_fault:
                        fails.append(oracle("C17:message-accepted-from-unpinned-identity", "%s: message %r from install #%d of contact %d was delivered although identity #%s "
                                            "is the remembered one" % (ctx, body, len(w.installs[ci]), ci, w.key_no(ci, pin))))
                        break
                    if faulted:
                        continue
                    if (auto or cur_is_pinned) and got_n != 1:
                        fails.append(oracle("C17:incoming-message-lost", "%s: message %r from the contact's current install (automatic trust %s) was delivered %d times"
                                            % (ctx, body, "on" if auto else "off", got_n)))
                        break
                    if auto and not cur_is_pinned:
                        fails.append(oracle("C17:autotrust-did-not-replace-key", "%s: with automatic trust on, identity #%s is still remembered after a first message from "
                                            "install #%d" % (ctx, w.key_no(ci, pin), len(w.installs[ci]))))
                        break
    except RuntimeError as e:
        if "no quiescence" not in str(e):
            raise
        kinds = {}
        for (_j, dr, n) in w.srv.wire[-200:]:
            k = "%s %s%s" % (dr, n.tag, ":" + n["type"] if n["type"] else "")
            kinds[k] = kinds.get(k, 0) + 1
        fails.append(oracle("C17:exchange-never-ends", "auto=%s contacts=%d history %s: the exchange between the observer and the server never comes to rest (%s); the last 200 "
                            "stanzas: %s" % (case["auto"], case["contacts"], hist, e, sorted(kinds.items(), key=lambda kv: -kv[1])[:4])))
    finally:
        WATCH["world"] = None
        if has_faults:
            sqlfault.uninstall()
        for lst in w.installs:
            for c in lst:
                if c.stack is not None:
                    c.kill_process()
        if A.stack is not None:
            A.kill_process()
    return fails
