"""C06 / C07  Routing and mandatory acknowledgements — Model/Routing.lean vs the real protocol group
(and the real axolotl control layer in front of it) for every optional-module selection."""
import itertools

import boot  # noqa: F401
from core import corr, oracle
from lib import iqkinds, stanzas
from lib.probes import Probe

PID = "C06"
GEN = ["handlemaps", "defaultlayers"]
LEAN_MODULES = ["YowsupVerif.Props.C06"]
RULE = ("stream 'recv': stanza descriptors — every supported kind (text / extended text / the ten media types / receipt / ack / presence / "
        "chat state / call offer and other call kinds / ib dirty, offline, account, ignored kinds / ping / sync result / picture set, delete / "
        "status / contacts add, remove, update, sync / group subject, create, remove, add / encrypt count, identity / success / failure / "
        "stream features / known and unknown stream errors / unknown notification types / unknown tags / unsupported payloads and mediatypes) "
        "plus random combinations of the discriminating fields — are built as real stanzas with generated ids/JIDs/participants and injected "
        "below the real stack [axolotl control]? + parallel(getProtocolLayers(flags)) for all 16 flag sets; entities reaching the top probe, "
        "stanzas sent back down, events and exceptions are compared with the Lean model; the oracle checks exactly-one entity of the expected "
        "class / exactly one acknowledgement echoing id, type, from, participant. stream 'send': every supported outgoing entity kind (real "
        "entity classes) x 16 flag sets: number of stanzas leaving the group vs model, and the stanza must equal entity.toProtocolTreeNode(). "
        "distinct = distinct (descriptor, flags, encryption).")
RULE += (" An element the library does not know before / after the stanza's own children (named-children stanzas); ib stanzas with one supported child must give exactly one entity.")
RULE += (" stream 'sendreply': every request kind of the regenerated request table sent down and answered (result / error) in all 16 module selections: exactly one entity, under the request's id, at the application.")
ASSUMPTIONS = ["replies to registered requests are C08's subject; decryption of enc messages is C03's", "entity parsing of the injected fixtures is C09's subject"]

FLAGSETS = ["".join(b) for b in itertools.product("01", repeat=4)]


def setup(chk):
    chk.stacks = {}


def get_stack(chk, flags, enc):
    key = (flags, enc)
    if key not in chk.stacks:
        from yowsup.layers import YowParallelLayer
        from yowsup.layers.axolotl import AxolotlControlLayer
        from yowsup.stacks import YowStack, YowStackBuilder
        f = [c == "1" for c in flags]
        prot = YowStackBuilder.getProtocolLayers(groups=f[0], media=f[1], privacy=f[2], profiles=f[3])
        bottom, top = Probe("bottom"), Probe("top")
        # with encryption: the three encryption layers of the default stack (control, send | receive) between the probe and the protocol group
        from yowsup.layers.axolotl import AxolotlSendLayer, AxolotlReceivelayer
        layers = (bottom,) + ((AxolotlControlLayer, YowParallelLayer((AxolotlSendLayer, AxolotlReceivelayer))) if enc else ()) + (YowParallelLayer(prot), top)
        stack = YowStack(layers, reversed=False)
        if enc:
            for sub in stack.getLayer(2).sublayers:
                # outgoing test messages leave unencrypted (what happens to messages inside the encryption layers is C03's subject)
                if hasattr(sub, "skipEncJids"):
                    sub.skipEncJids.extend([stanzas.JID, stanzas.GJID])
        if enc:
            # the control layer needs the account's key store: a scratch profile, small prekey batches
            from yowsup.axolotl.manager import AxolotlManager
            from yowsup.config.v1.config import Config
            from yowsup.profile.profile import YowProfile
            from yowsup.layers import YowLayerEvent
            from yowsup.layers.network import YowNetworkLayer
            from consonance.structs.keypair import KeyPair
            AxolotlManager.COUNT_GEN_PREKEYS = 6
            AxolotlManager.THRESHOLD_REGEN = 2
            name = "c06-%s" % flags
            stack.setProfile(YowProfile(name, Config(phone="4915199%s" % flags, cc=49, client_static_keypair=KeyPair.generate())))
            import contextlib
            import io
            with contextlib.redirect_stdout(io.StringIO()):      # the manager prints progress to stdout
                stack.emitEvent(YowLayerEvent(YowNetworkLayer.EVENT_STATE_CONNECTED))
        chk.stacks[key] = (stack, bottom, top)
    return chk.stacks[key]


SUPPORTED = (
    [{"tag": t} for t in ("receipt", "ack", "presence", "chatstate", "success", "failure", "streamFeatures", "other")]
    + [{"tag": "receipt", "rtype": t, "participant": p_} for t in ("read", "retry") for p_ in (0, 1)] + [{"tag": "receipt", "rtype": "read", "rlist": 1}]
    + [{"tag": "streamError", "errKnown": 1}, {"tag": "streamError", "errKnown": 0}]
    + [{"tag": "call", "callOffer": 1}, {"tag": "call", "callOffer": 0}]
    + [{"tag": "ib", "cDirty": 1}, {"tag": "ib", "cOffline": 1}, {"tag": "ib", "cAccount": 1}, {"tag": "ib"}]
    + [{"tag": "iq", "xmlns": "ping", "iqType": "get"}, {"tag": "iq", "iqType": "result", "cSync": 1}, {"tag": "iq", "iqType": "result"},
       {"tag": "iq", "iqType": "error"}, {"tag": "iq", "xmlns": "other", "iqType": "get"}]
    + [{"tag": "notification", "ntype": "picture", "cSet": 1}, {"tag": "notification", "ntype": "picture", "cDelete": 1},
       {"tag": "notification", "ntype": "picture"}, {"tag": "notification", "ntype": "status"},
       {"tag": "notification", "ntype": "contacts", "cAdd": 1}, {"tag": "notification", "ntype": "contacts", "cRemove": 1},
       {"tag": "notification", "ntype": "contacts", "cUpdate": 1}, {"tag": "notification", "ntype": "contacts", "cSync": 1},
       {"tag": "notification", "ntype": "contacts"},
       {"tag": "notification", "ntype": "wgp2", "cSubject": 1}, {"tag": "notification", "ntype": "wgp2", "cCreate": 1},
       {"tag": "notification", "ntype": "wgp2", "cRemove": 1}, {"tag": "notification", "ntype": "wgp2", "cAdd": 1},
       {"tag": "notification", "ntype": "wgp2"}, {"tag": "notification", "ntype": "subject"},
       {"tag": "notification", "ntype": "encrypt", "cCount": 1}, {"tag": "notification", "ntype": "encrypt", "cIdentity": 1},
       {"tag": "notification", "ntype": "encrypt"}, {"tag": "notification", "ntype": "other"},
       {"tag": "notification", "ntype": "other", "participant": 0}]
    + [{"tag": "message", "mtype": "text", "hasProto": 1, "media": "absent", "payload": p} for p in ("conversation", "extendedText", "keyDistributionOnly", "other")]
    + [{"tag": "message", "mtype": "media", "hasProto": 1, "media": m} for m in
       ("image", "sticker", "audio", "ptt", "video", "gif", "location", "contact", "document", "url", "other")]
    + [{"tag": "message", "mtype": "text", "hasProto": 0}, {"tag": "message", "mtype": "media", "hasProto": 1, "media": "absent", "payload": "other"}]
    + [{"tag": "message", "mtype": "text", "hasProto": 1, "media": "absent", "payload": p, "text": t, "participant": g}
       for p in ("conversation", "extendedText") for t in range(1, len(stanzas.TEXTS)) for g in (0, 1)]
)


def rand_desc(r):
    tag = r.choice(["message", "notification", "notification", "iq", "ib", "call", "receipt", "streamError", "other"])
    d = {"tag": tag}
    if tag == "notification":
        d["ntype"] = r.choice(["picture", "status", "contacts", "subject", "wgp2", "encrypt", "other"])
        for c in r.sample(["cSet", "cDelete", "cRemove", "cAdd", "cUpdate", "cSync", "cSubject", "cCreate", "cCount", "cIdentity"], r.choice([0, 1, 1, 2])):
            d[c] = 1
        d["participant"] = r.choice([0, 1])
    elif tag == "message":
        d["mtype"] = r.choice(["text", "media", "other"])
        d["hasProto"] = r.choice([1, 1, 1, 0])
        d["media"] = r.choice(list(stanzas.MEDIA))
        d["payload"] = r.choice(["conversation", "extendedText", "keyDistributionOnly", "other", "other"])
        if d["payload"] == "other" and r.random() < 0.85:
            d["pseed"] = r.randrange(1 << 30)        # a generated unpresentable payload (lib/stanzas.unpresentable_payload)
        d["participant"] = r.choice([0, 1])
        if d["payload"] in ("conversation", "extendedText"):
            d["text"] = r.choice([0, 0] + list(range(len(stanzas.TEXTS))))
        d["skdm"] = r.choice([0, 0, 1])           # a sender key distribution piggy-backed on the content
    elif tag == "iq":
        d["iqType"] = r.choice(["get", "set", "result", "error"])
        d["xmlns"] = r.choice(list(stanzas.XMLNS))
        d["cSync"] = r.choice([0, 0, 1])
    elif tag == "ib":
        for c in r.sample(["cDirty", "cOffline", "cAccount"], r.choice([0, 1, 2])):
            d[c] = 1
    elif tag == "receipt":
        d["rtype"] = r.choice(["delivery", "read", "played", "retry", "retry", "server-error"])
        d["participant"] = r.choice([0, 0, 1])
        d["rlist"] = r.choice([0, 0, 1])
    elif tag == "call":
        d["callOffer"] = r.choice([0, 1])
    elif tag == "streamError":
        d["errKnown"] = r.choice([0, 1])
    if tag in ("notification", "message", "iq", "ib", "receipt", "call") and r.random() < 0.3:
        d[r.choice(["lead", "trail"])] = 1       # an element the library does not know, before / after the stanza's own children
    return d


def send_kinds():
    """(descriptor for the model, factory of the real entity)"""
    from lib import iqkinds
    from yowsup.layers.protocol_messages.protocolentities import TextMessageProtocolEntity
    from yowsup.layers.protocol_media.protocolentities import LocationMediaMessageProtocolEntity
    from yowsup.layers.protocol_messages.protocolentities.attributes.attributes_location import LocationAttributes
    from yowsup.layers.protocol_messages.protocolentities.attributes.attributes_message_meta import MessageMetaAttributes
    from yowsup.layers.protocol_receipts.protocolentities import OutgoingReceiptProtocolEntity
    from yowsup.layers.protocol_acks.protocolentities import OutgoingAckProtocolEntity
    from yowsup.layers.protocol_presence.protocolentities import AvailablePresenceProtocolEntity
    from yowsup.layers.protocol_chatstate.protocolentities import OutgoingChatstateProtocolEntity
    from yowsup.layers.protocol_notifications.protocolentities import NotificationProtocolEntity
    from yowsup.layers.protocol_calls.protocolentities import CallProtocolEntity
    from yowsup.layers.protocol_ib.protocolentities import CleanIqProtocolEntity
    from yowsup.layers.protocol_iq.protocolentities import IqProtocolEntity
    from yowsup.layers.protocol_privacy.protocolentities import PrivacyListIqProtocolEntity
    import yowsup.layers.protocol_profiles.protocolentities as PR
    K = [
        ({"tag": "message", "mtype": "text"}, lambda: TextMessageProtocolEntity("hi", to=stanzas.JID)),
        ({"tag": "message", "mtype": "media"}, lambda: LocationMediaMessageProtocolEntity(LocationAttributes(52.5, 13.4, "x"), MessageMetaAttributes(recipient=stanzas.JID))),
        ({"tag": "receipt"}, lambda: OutgoingReceiptProtocolEntity("m1", stanzas.JID)),
        ({"tag": "ack"}, lambda: OutgoingAckProtocolEntity("a1", "receipt", "read", stanzas.JID)),
        ({"tag": "presence"}, lambda: AvailablePresenceProtocolEntity()),
        ({"tag": "chatstate"}, lambda: OutgoingChatstateProtocolEntity("composing", stanzas.JID)),
        ({"tag": "notification"}, lambda: NotificationProtocolEntity("status", "n1", stanzas.JID, 1500000000, "x", False)),
        ({"tag": "call"}, lambda: CallProtocolEntity("c1", "offer", 1500000000, callId="cc", _to=stanzas.JID)),
        ({"tag": "iq", "cls": "cleanIq", "xmlns": "other", "iqType": "set"}, lambda: CleanIqProtocolEntity("groups", "s.whatsapp.net")),
        ({"tag": "iq", "xmlns": "jabberPrivacy", "iqType": "get"}, lambda: PrivacyListIqProtocolEntity()),
        ({"tag": "iq", "xmlns": "push", "iqType": "get"}, lambda: IqProtocolEntity("urn:xmpp:whatsapp:push", _type="get", to="s.whatsapp.net")),
        ({"tag": "iq", "xmlns": "w", "iqType": "get"}, lambda: IqProtocolEntity("w", _type="get", to="s.whatsapp.net")),
        ({"tag": "iq", "xmlns": "account", "iqType": "get"}, lambda: IqProtocolEntity("urn:xmpp:whatsapp:account", _type="get", to="s.whatsapp.net")),
        ({"tag": "iq", "xmlns": "encrypt", "iqType": "get"}, lambda: IqProtocolEntity("encrypt", _type="get", to="s.whatsapp.net")),
        ({"tag": "iq", "xmlns": "other", "iqType": "get"}, lambda: IqProtocolEntity("urn:example:other", _type="get", to="s.whatsapp.net")),
        ({"tag": "iq", "xmlns": "profilePicture", "iqType": "delete"}, lambda: IqProtocolEntity("w:profile:picture", _type="set", to="s.whatsapp.net")),
        ({"tag": "iq", "cls": "getStatuses", "xmlns": "status", "iqType": "get"}, lambda: PR.GetStatusesIqProtocolEntity([stanzas.JID])),
    ]
    K[-2] = ({"tag": "iq", "xmlns": "profilePicture", "iqType": "set"}, K[-2][1])
    xm = {"ping": "wp", "lastseen": "last", "picture-get": "profilePicture", "picture-set": "profilePicture", "privacy-get": "privacy",
          "status-set": "status", "contact-sync": "sync", "media-upload": "wm"}
    for k in iqkinds.kinds():
        n = k["base"]
        if n.startswith("group-"):
            d = {"tag": "iq", "cls": "groupsRequest", "xmlns": "wg2", "iqType": "set"}
        elif n == "status-set":
            d = {"tag": "iq", "cls": "setStatus", "xmlns": "status", "iqType": "set"}
        elif n == "statuses-get":
            d = {"tag": "iq", "cls": "getStatuses", "xmlns": "status", "iqType": "get"}
        elif n == "privacy-set":
            d = {"tag": "iq", "xmlns": "privacy", "iqType": "set"}
        else:
            d = {"tag": "iq", "xmlns": xm[n], "iqType": {"ping": "get", "lastseen": "get", "picture-get": "get", "picture-set": "set",
                                                         "privacy-get": "get", "contact-sync": "get", "media-upload": "set"}[n]}
        K.append((d, k["req"]))
    return K


def cases(chk):
    r = chk.rng
    # the same stanza two or three times under the same id on the same stack (a multi-part answer, a server retransmission): every occurrence
    # produces its entity — the protocol layers keep no memory of ids
    for d in SUPPORTED:
        for f in ("1111", "0000", "1010"):
            yield "recv", {"d": d, "flags": f, "enc": 0, "repeat": 2 + (len(repr(d)) + int(f, 2)) % 2}
    for enc in (0, 1):
        for d in SUPPORTED:
            fl = FLAGSETS if (d["tag"] in ("message", "notification", "iq") or not chk.quick()) else ["1111", "0000"]
            for f in fl:
                yield "recv", {"d": d, "flags": f, "enc": enc}
    for i, (d, _f) in enumerate(send_kinds()):
        for f in FLAGSETS:
            yield "send", {"k": i, "flags": f}
    # a request of every kind in the request table, then the server's answer to it (result / error): the answer is one entity at the application,
    # whichever protocol layer registered the request on its way down
    for i, k in enumerate(iqkinds.kinds()):
        for f in FLAGSETS:
            for ok in (1, 0):
                yield "sendreply", {"k": i, "flags": f, "ok": ok}
    # an element the library does not know before / after the stanza's own children: routing does not change
    # (for the stanzas whose documented shape has named children; a chat state IS its only child)
    for d in SUPPORTED:
        for k in ("lead", "trail") if d["tag"] in ("notification", "message", "iq", "ib", "receipt", "call") else ():
            yield "recv", {"d": dict(d, **{k: 1}), "flags": "1111", "enc": 0}
    for _ in range(chk.scale(800, 20000)):
        yield "recv", {"d": rand_desc(r), "flags": r.choice(FLAGSETS), "enc": r.choice([0, 1])}


def nontrivial(stream, case):
    return (stream, repr(case))


def desc_line(d):
    return " ".join("%s=%s" % (k, v) for k, v in sorted(d.items()) if k not in ("participant", "text", "lead", "trail", "body", "dev"))


def desc_show(d):
    return desc_line(d) + (" [sender is a device: user:7@server]" if d.get("dev") else "") + (" [body variant %d]" % d["body"] if d.get("body") else "") + ("".join(" [an unknown element %s the stanza's own children]" % ("before" if k == "lead" else "after") + (" (with %d bytes of data)" % d[k] if d[k] > 1 else "") for k in ("lead", "trail") if d.get(k)))


def observe_recv(chk, case, seq):
    d = case["d"]
    stack, bottom, top = get_stack(chk, case["flags"], case["enc"])
    node = stanzas.build_stanza(d, seq)
    del bottom.sent[:], top.received[:], bottom.events[:]
    raised = None
    import contextlib
    import io
    try:
        with contextlib.redirect_stdout(io.StringIO()):
            bottom.toUpper(node)
    except Exception as e:
        raised = e
    ups = []
    for e in top.received:
        ups.append(stanzas.ENT_NAMES.get(type(e).__name__, type(e).__name__))
    downs = [stanzas.classify_down(n, node) for n in bottom.sent]
    # key upload / key query requests triggered by encrypt notifications are C14's subject
    downs = [x for x in downs if x != "stanza:iq"]
    evts = []
    for ev in bottom.events:
        nm = ev.getName()
        if nm.endswith("auth.authed"):
            evts.append("authed")
        elif nm.endswith("network.disconnect"):
            evts.append("disconnectRequest")
        else:
            evts.append(nm)
    return node, ups, downs, evts, raised, list(bottom.sent), list(top.received)


def run_case(chk, stream, case):
    fails = []
    if stream == "send":
        d, factory = send_kinds()[case["k"]]
        stack, bottom, top = get_stack(chk, case["flags"], 0)
        del bottom.sent[:]
        ent = factory()
        raised = None
        try:
            top.toLower(ent)
        except Exception as e:
            raised = e
        n = len(bottom.sent)
        model = int(chk.driver.ask("route send %s %s" % (case["flags"], desc_line(d))))
        chk.hit("send:%s" % desc_line(d)[:40])
        if raised is not None or n != model:
            fails.append(corr("send", "entity %s flags %s: impl sent %d stanza(s)%s, model %d" % (type(ent).__name__, case["flags"], n, " and raised %r" % raised if raised else "", model)))
        # oracle: at most one stanza, equal to the entity's own serialisation
        if n > 1:
            fails.append(oracle("C06:outgoing-duplicated", "entity %s with modules %s left the protocol layers %d times" % (type(ent).__name__, case["flags"], n)))
        elif n == 1 and not (bottom.sent[0] == ent.toProtocolTreeNode()):
            fails.append(oracle("C06:outgoing-altered", "entity %s: stanza sent differs from entity.toProtocolTreeNode()" % type(ent).__name__))
        # left-in module must send supported kinds exactly once
        need = {"groupsRequest": 0, "wm": 1, "jabberPrivacy": 2, "profilePicture": 3, "privacy": 3, "status": 3}
        mod = need.get(d.get("cls")) if d.get("cls") in need else need.get(d.get("xmlns"))
        if d.get("mtype") == "media":
            mod = 1
        supported = not (d.get("xmlns") == "other" and d.get("cls") is None)
        expect = 0 if not supported else (1 if (mod is None or case["flags"][mod] == "1") else 0)
        if raised is None and n != expect:
            fails.append(oracle("C06:outgoing-count:%s" % desc_line(d).replace(" ", ","), "entity %s with modules %s: %d stanza(s) left the protocol layers, expected %d"
                                % (type(ent).__name__, case["flags"], n, expect)))
        return fails
    if stream == "sendreply":
        kind = iqkinds.kinds()[case["k"]]
        stack, bottom, top = get_stack(chk, case["flags"], 0)
        del bottom.sent[:], top.received[:]
        ent = kind["req"]()
        top.toLower(ent)
        chk.hit("sendreply:%s:%s" % (kind["name"], "result" if case["ok"] else "error"))
        if len(bottom.sent) != 1:
            return fails        # the module that sends this kind is left out (the 'send' stream decides whether that is right)
        node = iqkinds.result_node(kind, ent.getId()) if case["ok"] else iqkinds.error_node(ent.getId())
        del top.received[:]
        import contextlib
        import io
        with contextlib.redirect_stdout(io.StringIO()):
            bottom.toUpper(node)
        got = list(top.received)
        what = "the %s answer to a %s request (modules %s)" % ("result" if case["ok"] else "error", kind["name"], case["flags"])
        if any(e is None for e in got):
            fails.append(oracle("C06:none-delivered:answer:%s" % kind["name"], "%s: None instead of an entity reaches the application" % what))
        elif len(got) != 1:
            fails.append(oracle("C06:answer-not-exactly-once:%s:%s" % (kind["name"], "result" if case["ok"] else "error"),
                                "%s produced %d entities at the application: %s" % (what, len(got), [type(e).__name__ for e in got])))
        elif got[0].getId() != ent.getId():
            fails.append(oracle("C06:answer-altered:%s" % kind["name"], "%s reached the application under id %r, the request's id is %r" % (what, got[0].getId(), ent.getId())))
        return fails
    chk.seq = getattr(chk, "seq", 0) + 1
    first_ups = None
    for rep in range(case.get("repeat", 1)):
        # the same stanza again, with the SAME id (the server re-uses ping ids; ids restart after a reconnect): it is answered every time
        fs = _recv_once(chk, case, chk.seq)
        ups = list(getattr(chk, "last_ups", []))
        if rep == 0:
            first_ups = ups
        elif len(first_ups) == 1 and ups != first_ups and not any(f.kind == "oracle" for f in fs):
            # whatever the kind: the first occurrence produced exactly one entity, this one — the same stanza on the same stack — does not
            fs = list(fs) + [oracle("C06:incoming-lost:same-id-again", "stanza %s (modules %s): the first occurrence produced %s, the same stanza again (same id: the next part of an answer, "
                         "a retransmission) produced %s" % (desc_line(case["d"]), case["flags"], first_ups, ups or "nothing"))]
        if fs:
            if rep:
                fs = [f._replace(what="occurrence #%d of the same stanza (same id): %s" % (rep + 1, f.what)) for f in fs]
            # property oracles first
            return sorted(fs, key=lambda f: 0 if f.kind == "oracle" else 1) if hasattr(fs[0], "kind") else fs
    return []


def _recv_once(chk, case, seq):
    fails = []
    d = case["d"]
    node, ups, downs, evts, raised, sent, got = observe_recv(chk, case, seq)
    impl = "ups:%s;downs:%s;evts:%s;raised:%d" % (",".join(ups), ",".join(downs), ",".join(evts), 1 if raised else 0)
    chk.last_ups = list(ups)
    model = chk.driver.ask("route recv %d %s %s" % (case["enc"], case["flags"], desc_line(d)))
    chk.hit("recv:" + d["tag"] + (":" + d.get("ntype", "") if d["tag"] == "notification" else ""), "enc=%d" % case["enc"])
    if impl != model:
        fails.append(corr("recv:" + d["tag"], "stanza %s flags %s enc %d: impl=%s (%r) model=%s" % (desc_show(d), case["flags"], case["enc"], impl, raised, model)))
    # ---- oracle (C06): what reaches the application is an entity
    if any(e is None for e in got):
        fails.append(oracle("C06:none-delivered:%s" % desc_line(d).replace(" ", ","), "stanza %s (modules %s): None instead of an entity reaches the application"
                            % (desc_show(d), case["flags"])))
    # ---- oracle (C06): never more than one entity
    if len(ups) > 1:
        fails.append(oracle("C06:incoming-duplicated", "stanza %s (modules %s) produced %d entities: %s" % (desc_show(d), case["flags"], len(ups), ups)))
    # ---- oracle (C06): a stanza of a kind that is supported in every module selection produces exactly one entity
    must = None
    if d["tag"] in ("receipt", "ack", "presence", "chatstate", "call"):   # (the calls layer belongs to every selection: offers and every other call stanza)
        must = d["tag"]
    elif d["tag"] == "message" and d.get("hasProto") and d.get("mtype") == "text" and d.get("media", "absent") == "absent" and d.get("payload") in ("conversation", "extendedText"):
        must = "text message"
    elif (d["tag"] == "message" and d.get("hasProto") and d.get("mtype") == "media" and case["flags"][1] == "1"
          and d.get("media") not in (None, "absent", "other") and d.get("payload") != "keyDistributionOnly"):
        must = "media message"
    elif d["tag"] == "ib" and sum(1 for c in ("cDirty", "cOffline", "cAccount") if d.get(c)) == 1:
        must = "ib"                  # (one child of a kind the library presents; whatever else the server put next to it)
    if must == "text message" and raised is None and len(ups) == 1 and got[0] is not None:
        want = stanzas.TEXTS[d.get("text", 0)]
        body = got[0].getBody() if hasattr(got[0], "getBody") else getattr(got[0], "text", None)
        if want is not None and body != want:
            fails.append(oracle("C06:incoming-text-altered", "text stanza %s with body %r (modules %s): the entity's body is %r" % (desc_show(d), want, case["flags"], body)))
    if must and raised is None and len(ups) != 1:
        fails.append(oracle("C06:incoming-lost:%s" % must.replace(" ", "-"), "stanza %s%s (modules %s, encryption layers %s): %d entities reached the application, expected exactly one"
                            % (desc_show(d), " with body %r" % stanzas.TEXTS[d["text"]] if d.get("text") else "", case["flags"], bool(case["enc"]), len(ups))))
    # ---- oracle (C07): acknowledgements
    if d["tag"] == "notification" and not (d.get("ntype") == "picture" and not d.get("cSet") and not d.get("cDelete")):
        acks = [n for n in sent if n.tag == "ack"]
        what = None
        if raised is not None:
            what = "handling raises %s: %s" % (type(raised).__name__, raised)
        elif len(acks) != 1:
            what = "%d acknowledgements sent" % len(acks)
        else:
            a = acks[0]
            want = {"id": node["id"], "type": node["type"], "to": node["from"], "participant": node["participant"], "class": "notification"}
            got_ = {k: a[k] for k in want}
            if got_ != want:
                what = "acknowledgement %r does not match the notification %r" % (got_, want)
        if what:
            sig = "C07:notification-ack:%s%s" % (d.get("ntype", "other"), ":encryption-layer" if (case["enc"] and d.get("ntype") == "encrypt" and (d.get("cCount") or d.get("cIdentity"))) else "")
            fails.append(oracle(sig, "notification %s (modules %s, encryption layers %s): %s" % (desc_show(d), case["flags"], bool(case["enc"]), what)))
    if d["tag"] == "call" and raised is None:
        rc = [n for n in sent if n.tag == "receipt"]
        ak = [n for n in sent if n.tag == "ack"]
        if d.get("callOffer"):
            ok = len(rc) == 1 and not ak and rc[0]["id"] == node["id"] and rc[0].getChild("offer") is not None and rc[0].getChild("offer")["call-id"] == node.getChild("offer")["call-id"]
        else:
            ok = len(ak) == 1 and not rc and ak[0]["id"] == node["id"] and ak[0]["class"] == "call"
        if not ok:
            fails.append(oracle("C07:call-ack", "call stanza %s: sent back %s" % (desc_show(d), [str(n).replace("\n", "") for n in sent])))
    if d["tag"] == "iq" and d.get("xmlns") == "ping":
        pg = [n for n in sent if n.tag == "iq" and n["type"] == "result"]
        if len(pg) != 1 or pg[0]["id"] != node["id"]:
            fails.append(oracle("C07:ping-pong", "ping %s: sent back %s" % (node["id"], [str(n).replace("\n", "") for n in sent])))
    if (d["tag"] == "message" and d.get("hasProto") and d.get("mtype") == "media" and d.get("media") == "other" and case["flags"][1] == "1"
            and d.get("payload") != "keyDistributionOnly"):
        # a media message of a kind the library cannot present (with or without a piggy-backed key distribution): one receipt
        rc = [n for n in sent if n.tag == "receipt"]
        if raised is not None or len(rc) != 1 or rc[0]["id"] != node["id"] or rc[0]["to"] != node["from"] or rc[0]["participant"] != node["participant"]:
            fails.append(oracle("C07:unsupported-media-receipt", "media message of an unsupported kind%s: sent back %s%s"
                                % (" with a key distribution" if d.get("skdm") else "", [str(n).replace("\n", "") for n in sent], " (raised %r)" % raised if raised else "")))
    if d["tag"] == "message" and d.get("hasProto") and d.get("mtype") != "media" and d.get("media", "absent") == "absent" and d.get("payload") == "other":
        rc = [n for n in sent if n.tag == "receipt"]
        if len(rc) != 1 or rc[0]["id"] != node["id"] or rc[0]["to"] != node["from"] or rc[0]["participant"] != node["participant"]:
            fails.append(oracle("C07:unsupported-payload-receipt", "message with an unsupported payload: sent back %s" % [str(n).replace("\n", "") for n in sent]))
    return fails


def shrink(stream, case):
    if stream != "recv":
        return
    d = case["d"]
    for k in list(d):
        if k != "tag" and d[k]:
            c = dict(d)
            del c[k]
            yield dict(case, d=c)
    if case["flags"] != "1111":
        yield dict(case, flags="1111")
