"""C12  A failure while sending or receiving does not wedge the stack — Model/Locks.lean vs the real
default stack (real layers, real locks replaced by tracked deterministic ones), property oracle on
the real code: error reaches the caller, no lock stays held, follow-up operations complete."""
import boot  # noqa: F401
from core import corr, oracle
from lib import tracked, noisefake
from lib.probes import Probe

PID = "C12"
GEN = ["lockcfg", "sendnumbering", "lockregions", "segsrc"]
LEAN_MODULES = ["YowsupVerif.Props.C12", "YowsupVerif.Props.C12Seg", "YowsupVerif.Props.C12SegSrc", "YowsupVerif.Props.C12Numbering", "YowsupVerif.Props.C12Regions"]
RULE = ("operation sequences of length 2..7 on the real default stack [bottom probe, segments, noise (real protocol state machine, tagging "
        "transport), coder, logger, axolotl control, (axolotl send|receive), (protocol layers), top probe]: fault-free send / receive, and the "
        "property's own failure kinds at every layer position — down: unencodable value (coder raises), oversized frame (segment layer's size "
        "guard, thorough tier), session not ready (noise protocol outside transport, then 'reconnect'), write error at the bottom; up: "
        "undecodable frame (coder), handler rejecting a stanza (picture notification neither set nor delete), application callback raising "
        "(top), reply (pong/ack) whose own send fails; failing op at every position, follow-ups issued from the same and from another thread. "
        "After every op: result class, held locks per layer, flush lock and queue length are compared with the Lean model; the oracle checks "
        "caller-visible error, no held lock, completion of the follow-up. stream 'keepalive': rounds of the iq layer's keep-alive (what the ping thread does "
        "when its interval has elapsed) with the server's answer handled normally / with the application callback raising / undecodable / missing: no disconnect "
        "is asked for while every ping has been answered, errors reach the caller, the stack stays usable. stream 'numbering': payload sizes around the frame limit pushed into the real noise + segment layers over a transport stand-in that numbers its "
        "messages, per send against Model/SendNumbering. stream 'sockreset': the real asyncore dispatcher (tracked locks) over a socket whose send fails with a "
        "disconnect errno. stream 'parked': a contact without a session whose key request fails, then later messages of that contact. distinct = distinct op sequence.")
RULE += (" Keep-alive rounds also with a ping of the application's own and with a stray pong.")
RULE += (" Stanza refused by the coder at its last attribute (send-unencodable-late); the frame of a follow-up send is compared with the stanza's own encoding.")
RULE += (" stream 'login': the server's <success> with the application's callback raising (same / other thread): error reported, the layers below told about the login once, keep-alive started, later frames and sends processed.")
RULE += (" Failure kind 'send-interrupted': the write at the bottom is cut short by an interrupt (a BaseException that is no Exception: Ctrl-C, sys.exit() in a callback) — no lock stays held either.")
ASSUMPTIONS = ["operations are issued one at a time (by any thread): locks are threading.Lock without owner, so a held lock at quiescence means "
               "every later acquire blocks forever — detected deterministically by tracked locks instead of timeouts",
               "the sequence streams issue one operation at a time; concurrent receives (with a failure while another thread's frame is queued) are run "
               "with real threads under the cooperative scheduler in the 'concurrent' stream; concurrent sends are C11"]

N, P = 9, 2          # layers in the assembled stack; index of the noise layer
IDX = {"bottom": 0, "segments": 1, "noise": 2, "coder": 3, "logger": 4, "control": 5, "axolotl": 6, "protocol": 7, "top": 8}

SEND_KINDS = {
    "send-ok": None,
    "send-unencodable": IDX["coder"],
    "send-unencodable-late": IDX["coder"],       # the coder refuses the stanza after it has encoded most of it (a bad value in the LAST attribute)
    "send-not-ready": IDX["noise"],
    "send-write-error": IDX["bottom"],
    "send-interrupted": IDX["bottom"],           # the write is cut short by an interrupt (KeyboardInterrupt / SystemExit raised in the writing thread): not an Exception
    "send-oversized": IDX["segments"],
}
RECV_KINDS = {
    # kind: (failAt, replyAt, replyFail)
    "recv-ok": (None, None, None),
    "recv-ping": (None, IDX["protocol"], None),
    "recv-ping-write-error": (None, IDX["protocol"], IDX["bottom"]),
    "recv-undecodable": (IDX["coder"], None, None),
    "recv-rejected": (IDX["protocol"], None, None),
    "recv-callback-raises": (IDX["top"], None, None),
}


class Boom(Exception):
    pass


class Interrupted(KeyboardInterrupt):
    """what Ctrl-C or sys.exit() in a layer's callback raises in the thread that is sending: a BaseException that is no Exception"""


class Bottom(Probe):
    armed = False
    interrupt = False     # the next armed write is interrupted instead of failing with an error
    write_failed = False  # a socket write failed since the flag was last cleared (the connection is gone)
    fail_tags = ()        # a write whose bytes contain one of these fails (a pong for a particular ping, whenever it is flushed)

    def send(self, data):
        if self.armed or any(t in bytes(data) for t in self.fail_tags):
            self.write_failed = True
            if self.interrupt:
                raise Interrupted("interrupted")
            raise Boom("write error")
        self.sent.append(data)

    def receive(self, data):
        self.toUpper(data)


class Top(Probe):
    armed = False
    fail_from = ()        # senders whose stanza makes the application callback raise (also when flushed later)

    def receive(self, data):
        if self.armed or (hasattr(data, "getFrom") and data.getFrom() in self.fail_from):
            raise Boom("application callback raised")
        self.received.append(data)

    def send(self, data):
        self.toLower(data)


def setup(chk):
    tracked.install()


def build():
    from yowsup.layers import YowParallelLayer
    from yowsup.stacks import YowStack, YowStackBuilder
    from yowsup.layers.noise.layer_noise_segments import YowNoiseSegmentsLayer
    del tracked.REGISTRY[:]
    layers = YowStackBuilder.getDefaultLayers()
    bottom, top = Bottom("bottom"), Top("top")
    stack = YowStack((bottom,) + tuple(layers[1:]) + (top,), reversed=False,
                     props={YowNoiseSegmentsLayer.PROP_ENABLED: True})
    insts = [stack.getLayer(i) for i in range(N)]
    noise = insts[P]
    noisefake.to_transport(noise)
    # locks by owner: the lock a layer's toLower uses is the first lock created by that instance
    owner_locks = {}
    for l in tracked.REGISTRY:
        owner_locks.setdefault(id(l.owner), []).append(l)
    return stack, insts, bottom, top, noise


def _locks_of(inst):
    return [l for l in tracked.REGISTRY if l.owner is inst]


def cases(chk):
    r = chk.rng
    sk = [k for k in SEND_KINDS if k != "send-oversized"]
    rk = list(RECV_KINDS)
    # corpus: the two leak shapes first
    yield "seq", {"ops": ["send-unencodable", "send-ok"], "threads": [0, 1]}
    yield "seq", {"ops": ["send-unencodable-late", "send-ok", "send-ok"], "threads": [0, 1, 0]}
    yield "seq", {"ops": ["send-ok", "send-unencodable-late", "recv-ping", "send-ok"], "threads": [0, 0, 1, 1]}
    yield "seq", {"ops": ["send-write-error", "send-ok"], "threads": [0, 0]}
    yield "seq", {"ops": ["send-interrupted", "send-ok"], "threads": [0, 1]}
    yield "seq", {"ops": ["send-ok", "send-interrupted", "recv-ping", "send-ok"], "threads": [0, 1, 0, 0]}
    yield "seq", {"ops": ["recv-callback-raises", "recv-ok"], "threads": [0, 1]}
    yield "seq", {"ops": ["recv-undecodable", "recv-ok", "send-ok"], "threads": [0, 0, 0]}
    yield "seq", {"ops": ["recv-ping-write-error", "recv-ping", "send-ok"], "threads": [0, 1, 0]}
    yield "seq", {"ops": ["send-not-ready", "send-ok", "recv-ok"], "threads": [0, 1, 1]}
    # every failure kind at every position of a 5-op sequence, same/other thread follow-up
    bad = [k for k in sk + rk if k not in ("send-ok", "recv-ok", "recv-ping")]
    for k in bad:
        for pos in range(0, 5, 1 if not chk.quick() else 2):
            for th in (0, 1):
                ops = [r.choice(["send-ok", "recv-ok", "recv-ping"]) for _ in range(5)]
                ops[pos] = k
                yield "seq", {"ops": ops, "threads": [0] * (pos + 1) + [th] * (4 - pos)}
    yield "seq", {"ops": ["send-oversized", "send-ok", "recv-ok"], "threads": [0, 1, 0]}
    yield "seq", {"ops": ["send-ok", "send-oversized", "send-ok", "send-ok"], "threads": [0, 0, 0, 1]}
    # frames that arrive while the handshake is still running are only queued ("q:" prefix) and flushed in one batch later
    yield "seq", {"ops": ["q:recv-callback-raises", "q:recv-ok", "q:recv-ok", "recv-ok", "recv-ok"], "threads": [0, 0, 0, 0, 1]}
    yield "seq", {"ops": ["q:recv-ok", "q:recv-undecodable", "q:recv-ok", "recv-ok", "send-ok", "recv-ok"], "threads": [0, 0, 0, 0, 0, 0]}
    yield "seq", {"ops": ["q:recv-ok", "q:recv-rejected", "recv-ok", "recv-ok"], "threads": [0, 0, 1, 0]}
    # two or three threads receiving at the same time, one of them hitting a failure while another's frame is already queued
    for _ in range(chk.scale(60, 1500)):
        nt = r.choice([2, 2, 3])
        yield "concurrent", {"frames": [[r.choice(["ok", "ok", "fail"]) for _i in range(r.randint(1, 3))] for _t in range(nt)], "seed": r.randrange(1 << 30)}
    # the network layer with each real dispatcher against a local TCP peer: a frame whose handling raises, then a reconnect
    for disp, exc in ([("socket", "RuntimeError"), ("socket", "KeyError"), ("asyncore", "RuntimeError")] if chk.quick() else
                      [(d_, e_) for d_ in ("socket", "asyncore") for e_ in ("RuntimeError", "ValueError", "KeyError", "AttributeError")]):
        yield "dispatchers", {"dispatcher": disp, "exc": exc}
    # a contact without a session whose key request fails: later messages of that contact are still worked on
    for mode in ("send-raises", "error-iq", "empty-result"):
        for group in (0, 1):
            for later in (1, 2):
                yield "parked", {"mode": mode, "group": group, "later": later}
    # the peer resets the connection and a write is the first to notice (asyncore calls handle_close from inside the send)
    for en in ("ECONNRESET", "EPIPE", "ENOTCONN", "ECONNABORTED"):
        for first in ("send-then-reset", "buffered-then-flush"):
            yield "sockreset", {"errno": en, "steps": [first, "send", "flush", "send"]}
    # message numbering of the downward path: refused (oversized) and accepted sends in any order; the transport stand-in numbers its messages
    yield "numbering", {"sizes": ["big", "small"]}
    yield "numbering", {"sizes": ["small", "edge", "small", "big", "small"]}
    for _ in range(chk.scale(4, 40)):
        yield "numbering", {"sizes": [r.choice(["small", "small", "big", "edge", "under"]) for _i in range(r.randint(2, 5))]}
    # the keep-alive's bookkeeping across failures while an answer is handled
    # the stanza whose handling fails is the server's <success>: the application's callback raises while the login is announced to it
    for mode in ("callback-raises", "ok"):
        for thread in (0, 1):
            yield "login", {"mode": mode, "thread": thread}
    yield "keepalive", {"rounds": ["pong-callback-raises", "pong", "pong"]}
    yield "keepalive", {"rounds": ["pong", "pong-callback-raises", "pong-callback-raises", "pong"]}
    yield "keepalive", {"rounds": ["pong-undecodable", "pong"]}
    yield "keepalive", {"rounds": ["app-ping", "pong", "pong"]}
    yield "keepalive", {"rounds": ["pong", "stray-pong", "pong", "app-ping", "pong"]}
    yield "keepalive", {"rounds": ["stray-pong", "app-ping", "pong-callback-raises", "pong"]}
    yield "keepalive", {"rounds": ["unanswered", "pong"]}
    for _ in range(chk.scale(12, 300)):
        yield "keepalive", {"rounds": [r.choice(["pong", "pong", "pong-callback-raises", "pong-callback-raises", "pong-undecodable", "unanswered", "app-ping", "stray-pong"]) for _i in range(r.randint(2, 6))]}
    # the segment layer alone, with a top that raises for chosen frames: per call, the real layer against Model/Segments.lean's recvF
    yield "segfail", {"frames": ["07", "0809", "05"], "bad": [1], "cuts": [5], "extra": 1, "seed": 1}
    for _ in range(chk.scale(150, 4000)):
        nf = r.randint(1, 6)
        frames = [bytes([i + 1]) * r.randint(1, 6) + bytes([r.randrange(256)]) for i in range(nf)]
        total = sum(3 + len(f) for f in frames)
        yield "segfail", {"frames": [f.hex() for f in frames], "bad": [i for i in range(nf) if r.random() < 0.35],
                          "cuts": sorted(set(r.randrange(1, total) for _i in range(r.choice([0, 1, 2, 3, 6])))) if total > 1 else [],
                          "extra": r.randint(0, 3), "seed": r.randrange(1 << 30)}
    # several frames coalesced / split by the network: failing frames anywhere in a chunk, chunk borders anywhere (also inside headers)
    yield "coalesced", {"kinds": ["recv-ok", "recv-callback-raises", "recv-ok"], "cuts": [], "seed": 1}
    yield "coalesced", {"kinds": ["recv-undecodable", "recv-ok", "recv-ok"], "cuts": [2], "seed": 2}
    for _ in range(chk.scale(80, 2500)):
        n = r.randint(2, 6)
        yield "coalesced", {"kinds": [r.choice(["recv-ok", "recv-ok", "recv-undecodable", "recv-rejected", "recv-callback-raises"]) for _i in range(n)],
                            "cuts": sorted(set(r.randrange(1, 40 * n) for _i in range(r.choice([0, 0, 1, 2, 4])))), "seed": r.randrange(1 << 30)}
    for _ in range(chk.scale(120, 3000)):
        n = r.randint(2, 7)
        ops = [r.choice(sk + rk) for _ in range(n)]
        for i in range(n - 1):
            if ops[i] in ("recv-ok", "recv-undecodable", "recv-rejected", "recv-callback-raises") and r.random() < 0.4:
                ops[i] = "q:" + ops[i]        # queued frames never write downward, so they are independent of write faults
        yield "seq", {"ops": ops, "threads": [r.choice([0, 1]) for _ in range(n)]}


def nontrivial(stream, case):
    if stream in ("concurrent", "coalesced", "segfail", "dispatchers", "keepalive", "numbering", "sockreset", "parked", "login"):
        return repr(case)
    return (tuple(case["ops"]), tuple(case["threads"]))


def _stanza_bytes(kind, seq):
    """the frame the peer sends (after the segment header is added below)"""
    from yowsup.structs import ProtocolTreeNode
    from yowsup.layers.coder.encoder import WriteEncoder
    from yowsup.layers.coder.tokendictionary import TokenDictionary
    if kind == "recv-undecodable":
        return b"\x00\xf8\x02\xf7\x01"      # unknown control byte at tag position
    if kind in ("recv-ping", "recv-ping-write-error"):
        node = ProtocolTreeNode("iq", {"id": "pingid-%d-x" % seq, "type": "get", "xmlns": "urn:xmpp:ping", "from": "s.whatsapp.net"})
    elif kind == "recv-rejected":
        node = ProtocolTreeNode("notification", {"id": "n%d" % seq, "type": "picture", "from": "123@s.whatsapp.net", "t": "1"},
                                [ProtocolTreeNode("unknown", {})])
    else:
        node = ProtocolTreeNode("presence", {"from": "%d@s.whatsapp.net" % (100000 + seq), "type": "available" if kind != "recv-ok" else "unavailable"})
    return bytes(bytearray(WriteEncoder(TokenDictionary()).protocolTreeNodeToBytes(node)))


def _be24(n):
    return bytes([(n >> 16) & 255, (n >> 8) & 255, n & 255])


def _in_thread(fn, other):
    """run fn in this or in another thread (sequentially: joined before returning)"""
    if not other:
        return fn()
    import threading
    box = {}

    def run():
        try:
            box["v"] = fn()
        except BaseException as e:     # incl. BlockedForever
            box["e"] = e
    t = threading.Thread(target=run)
    t.start()
    t.join()
    if "e" in box:
        raise box["e"]
    return box.get("v")


def run_concurrent(chk, case):
    """REAL threads delivering frames to the real noise layer (transport state) at the same time, under the cooperative
    scheduler; the layer above raises for the frames marked 'fail'.  Whatever the interleaving: every thread gets its result
    (or its exception), no lock stays held, and no frame that is not itself failing is left behind in the queue."""
    import random
    from lib import coop
    from yowsup.layers import YowLayer
    from yowsup.layers.noise.layer import YowNoiseLayer
    from yowsup.stacks import YowStack
    fails = []
    tracked.uninstall()
    coop.install()
    try:
        del coop.LOCKS[:]
        delivered = []

        class Up(YowLayer):
            def receive(self, data):
                coop.point()            # handling a frame takes time: other threads run meanwhile
                if bytes(data).startswith(b"fail"):
                    raise Boom("handler failed")
                delivered.append(bytes(data))

            def send(self, data):
                self.toLower(data)

        class Down(YowLayer):
            def send(self, data):
                pass

            def receive(self, data):
                self.toUpper(data)
        noise = YowNoiseLayer()
        YowStack((Down(), noise, Up()), reversed=False)
        noisefake.to_transport(noise)
        r = random.Random(case["seed"])
        c = coop.Coop()
        results = {}
        names = []
        for ti, frames in enumerate(case["frames"]):
            def body(ti=ti, frames=frames):
                for fi, kind in enumerate(frames):
                    name = ("%s-%d-%d" % (kind, ti, fi)).encode()
                    try:
                        noise.receive(noisefake.wire(name))
                        results[(ti, fi)] = "ok"
                    except Boom:
                        results[(ti, fi)] = "raised"
            for fi, kind in enumerate(frames):
                names.append((("%s-%d-%d" % (kind, ti, fi)).encode(), kind))
            c.spawn(body)
        err = None
        try:
            c.run(coop.chooser(r))
        except coop.Deadlock as e:
            err = e
        ctx = "threads receiving %s, schedule %s" % (case["frames"], c.choices if len(c.choices) < 200 else c.choices[:200] + ["…"])
        chk.hit("concurrent:threads:%d" % len(case["frames"]))
        if err is not None:
            fails.append(oracle("C12:concurrent-receive-blocks", "%s: %s" % (ctx, err)))
            return fails
        held = [l for l in coop.LOCKS if l.held]
        if held:
            fails.append(oracle("C12:lock-leak:concurrent", "%s: %d lock(s) still held after all threads returned" % (ctx, len(held))))
        left = noise._incoming_segments_queue.qsize()
        want = [n for n, k in names if k == "ok"]
        lost = [n for n in want if n not in delivered]
        if lost:
            fails.append(oracle("C12:frame-stranded", "%s: %d frame(s) that do not fail were never handed upward (%d still in the layer's queue): %s"
                                % (ctx, len(lost), left, [x.decode() for x in lost])))
        dup = [n for n in set(delivered) if delivered.count(n) > 1]
        if dup:
            fails.append(oracle("C12:frame-delivered-twice", "%s: %s" % (ctx, dup)))
        return fails
    finally:
        coop.uninstall()
        tracked.install()


def run_coalesced(chk, case):
    """frames of the given kinds written back to back by the peer, cut into network chunks at the given offsets; every chunk is one
    receive() at the bottom of the real stack.  A failing frame ends that call with the error; frames behind it in the same chunk are handled
    by a later call at the latest (same rule as for the noise layer's queue).  After the stream, one fault-free frame per failure + 1 arrive."""
    fails = []
    stack, insts, bottom, top, noise = build()
    kinds = list(case["kinds"])
    nfail = sum(1 for k in kinds if k != "recv-ok")
    kinds_all = kinds + ["recv-ok"] * (nfail + 1)
    frames = []
    for i, k in enumerate(kinds_all):
        seq = i + 1
        if k == "recv-callback-raises":
            top.fail_from = tuple(top.fail_from) + ("%d@s.whatsapp.net" % (100000 + seq),)
        body = noisefake.wire(_stanza_bytes(k, seq))
        frames.append(_be24(len(body)) + body)
    stream_bytes = b"".join(frames[:len(kinds)])
    cuts = [c for c in case["cuts"] if 0 < c < len(stream_bytes)]
    pts = [0] + cuts + [len(stream_bytes)]
    chunks = [stream_bytes[a:b] for a, b in zip(pts, pts[1:])] + frames[len(kinds):]
    raised = []
    chk.hit("coalesced:frames=%d" % len(kinds), "coalesced:failing=%d" % nfail, "coalesced:chunks=%d" % min(9, len(cuts) + 1))
    for ci, c in enumerate(chunks):
        try:
            _in_thread(lambda c=c: stack.receive(c), 0)
        except tracked.BlockedForever as e:
            fails.append(oracle("C12:blocks-forever", "coalesced %s cut at %s: receiving chunk #%d never completes: %s" % (kinds, cuts, ci, e)))
            tracked.release_all()
            return fails
        except Exception as e:
            raised.append(type(e).__name__)
    want = ["%d@s.whatsapp.net" % (100000 + i + 1) for i, k in enumerate(kinds_all) if k == "recv-ok"]
    got = [e.getFrom() for e in top.received if hasattr(e, "getFrom")]
    ctx = "frames %s written back to back, stream cut at %s, then %d single fault-free frames" % (kinds, cuts, nfail + 1)
    held = [l.name for l in tracked.held_locks()]
    if held:
        fails.append(oracle("C12:lock-leak:layer", "%s: these locks stay held: %s" % (ctx, ", ".join(held))))
    elif got != want:
        lost = [x for x in want if x not in got]
        fails.append(oracle("C12:frames-lost-or-reordered", "%s: the application received %d of %d fault-free frames (%s); errors reported: %s"
                            % (ctx, len(got), len(want), "missing " + ", ".join(lost[:4]) if lost else "order / duplicates differ: %s" % got[:8], raised)))
    elif len(raised) != nfail:
        fails.append(oracle("C12:error-not-reported", "%s: %d frames fail, %d errors were reported to the caller (%s)" % (ctx, nfail, len(raised), raised)))
    tracked.release_all()
    return fails


def run_segfail(chk, case):
    """the real YowNoiseSegmentsLayer between two probes, the upper one raising for the frames marked bad; every network chunk is one
    receive(); after each call: frames handed upward, the layer's buffer and whether the call raised, against recvF of the Lean model; at the
    end the clauses of Props/C12Seg.lean on the real run (prefix at all times; everything handed up after the retries)"""
    from lib.probes import sandwich
    from yowsup.layers.noise.layer_noise_segments import YowNoiseSegmentsLayer
    fails = []
    frames = [bytes.fromhex(f) for f in case["frames"]]
    bad = set(frames[i] for i in case["bad"])
    layer = YowNoiseSegmentsLayer()
    _stack, _bottom, top = sandwich(layer, props={YowNoiseSegmentsLayer.PROP_ENABLED: True})
    handed = []
    real_receive = top.receive

    def receive(data):
        handed.append(bytes(data))
        if bytes(data) in bad:
            raise Boom("frame handler raises")
    top.receive = receive
    stream_bytes = b"".join(_be24(len(f)) + f for f in frames)
    cuts = [c for c in case["cuts"] if 0 < c < len(stream_bytes)]
    pts = [0] + cuts + [len(stream_bytes)]
    chunks = [stream_bytes[a:b] for a, b in zip(pts, pts[1:])] + [b""] * (len(bad) + case["extra"])
    d = chk.driver
    d.ask("seg reset 1")
    bads = "+".join(f.hex() for f in bad) or "-"
    raises = 0
    ctx = "frames %s (failing: %s) cut at %s" % (case["frames"], sorted(case["bad"]), cuts)
    chk.hit("segfail:bad=%d" % len(bad), "segfail:chunks=%d" % min(9, len(cuts) + 1))
    for ci, c in enumerate(chunks):
        n0 = len(handed)
        raised = False
        try:
            layer.receive(c)
        except Boom:
            raised = True
            raises += 1
        buf = getattr(layer, "_read_buffer", None)
        impl = "up:%s;buf:%s;raised:%s" % (",".join(x.hex() for x in handed[n0:]), (bytes(buf).hex() or "-") if buf is not None else "?", "true" if raised else "false")
        model = d.ask("seg recvf %s %s" % (bads, c.hex() or "-"))
        if buf is None:
            model = ";".join(p if not p.startswith("buf:") else "buf:?" for p in model.split(";"))
        if impl != model:
            fails.append(corr("segfail:recv", "%s, call #%d with %s: impl=%s model=%s" % (ctx, ci, c.hex()[:40] or "no data", impl[:200], model[:200])))
            break
        if handed != frames[:len(handed)]:
            fails.append(oracle("C12:frames-lost-or-reordered", "%s: after call #%d the upper layer has been handed %s, not a prefix of the frames sent"
                                % (ctx, ci, [x.hex() for x in handed])))
            return fails
    if not fails and (handed != frames or raises != len(bad)):
        fails.append(oracle("C12:frames-lost-or-reordered", "%s, then %d calls without new data: handed up %s (%d of %d frames), %d errors reported for %d failing frames"
                            % (ctx, len(bad) + case["extra"], [x.hex() for x in handed][:8], len(handed), len(frames), raises, len(bad))))
    return fails


def run_dispatchers(chk, case):
    """the real YowNetworkLayer with the real socket / asyncore dispatcher, connected to a TCP peer on the loopback interface.  The peer's
    first connection delivers data whose handling above the network layer raises (not an OSError); the failure must end in the connection
    being reported down, and a second connect on the same stack must work: its data arrives."""
    import socket
    import threading
    import time
    from core import InfraError
    from yowsup.layers import YowLayer, YowLayerEvent
    from yowsup.layers.network import YowNetworkLayer
    from yowsup.stacks import YowStack
    import builtins
    fails = []
    exc = getattr(builtins, case["exc"])
    try:
        srv = socket.socket()
        srv.bind(("127.0.0.1", 0))
        srv.listen(4)
    except OSError as e:
        chk.notes.append("stream 'dispatchers' skipped: no loopback TCP in this sandbox (%s)" % e)
        return fails
    srv.settimeout(6)
    port = srv.getsockname()[1]
    peer_conns = []

    def server():
        for i in range(2):
            try:
                c, _a = srv.accept()
            except OSError:
                return
            peer_conns.append(c)
            try:
                c.sendall(b"bad!" if i == 0 else b"good")
            except OSError:
                pass
    st = threading.Thread(target=server, daemon=True)
    st.start()

    class Top(YowLayer):
        def __init__(self):
            super(Top, self).__init__()
            self.got, self.events = [], []

        def receive(self, data):
            self.got.append(bytes(data))
            if bytes(data).startswith(b"bad"):
                raise exc("the handler of this frame fails")

        def send(self, data):
            self.toLower(data)

        def onEvent(self, ev):
            self.events.append(ev.getName().split(".")[-1])
            return False
    top = Top()
    disp = YowNetworkLayer.DISPATCHER_SOCKET if case["dispatcher"] == "socket" else YowNetworkLayer.DISPATCHER_ASYNCORE
    stack = YowStack((YowNetworkLayer, top), reversed=False)
    stack.setProp(YowNetworkLayer.PROP_ENDPOINT, ("127.0.0.1", port))        # (the stack's constructor sets the default endpoint itself)
    stack.setProp(YowNetworkLayer.PROP_DISPATCHER, disp)
    net = stack.getLayer(0)
    threads = []

    def connect():
        t = threading.Thread(target=lambda: stack.broadcastEvent(YowLayerEvent(YowNetworkLayer.EVENT_STATE_CONNECT)), daemon=True)
        t.start()
        threads.append(t)

    def wait(cond, secs):
        end = time.time() + secs
        while time.time() < end:
            if cond():
                return True
            time.sleep(0.01)
        return cond()
    ctx = "%s dispatcher, handler raises %s" % (case["dispatcher"], case["exc"])
    chk.hit("dispatchers:" + case["dispatcher"])
    try:
        connect()
        if not wait(lambda: top.got, 5):
            fails.append(oracle("C12:dispatcher-no-data", "%s: the first connection's data never reached the layer above the network layer (events %s)" % (ctx, top.events)))
            return fails
        if not wait(lambda: "disconnected" in top.events and net.state == YowNetworkLayer.STATE_DISCONNECTED, 4):
            fails.append(oracle("C12:upward-failure-wedges-network-layer", "%s: after the failing frame the connection was not reported down: events %s, network layer state %s "
                                "(0 = disconnected)" % (ctx, top.events, net.state)))
            return fails
        n_ev = len(top.events)
        connect()
        if not wait(lambda: b"good" in top.got, 5):
            fails.append(oracle("C12:no-reconnect-after-upward-failure", "%s: a second connect on the same stack does not deliver the peer's data: events since %s, state %s, "
                                "peer saw %d connection(s)" % (ctx, top.events[n_ev:], net.state, len(peer_conns))))
    finally:
        for c in peer_conns:
            try:
                c.close()
            except OSError:
                pass
        srv.close()
        wait(lambda: net.state == YowNetworkLayer.STATE_DISCONNECTED, 3)
        for t in threads:
            t.join(2)
    return fails


def _fresh_encoding(entity):
    from yowsup.layers.coder.encoder import WriteEncoder
    from yowsup.layers.coder.tokendictionary import TokenDictionary
    return bytes(bytearray(WriteEncoder(TokenDictionary()).protocolTreeNodeToBytes(entity.toProtocolTreeNode())))


def run_keepalive(chk, case):
    """the iq layer's keep-alive on the real default stack: per round, what YowPingThread.run does when its interval has elapsed (waitPong + sendIq
    of a fresh ping), then the server's answer — handled normally, with the application callback raising, with the reply's frame undecodable, or no
    answer at all.  A failure while the answer is handled is reported to the caller and leaves the stack usable: in particular the keep-alive must not
    ask for a disconnect while every ping written has been answered."""
    from yowsup.structs import ProtocolTreeNode
    from yowsup.layers.coder.encoder import WriteEncoder
    from yowsup.layers.coder.tokendictionary import TokenDictionary
    from yowsup.layers.network import YowNetworkLayer
    from yowsup.layers.protocol_iq.protocolentities import PingIqProtocolEntity
    from yowsup.layers.protocol_presence.protocolentities import AvailablePresenceProtocolEntity
    fails = []
    stack, insts, bottom, top, noise = build()
    iq = [x for x in insts[IDX["protocol"]].sublayers if type(x).__name__ == "YowIqProtocolLayer"][0]
    unanswered = []
    for ri, kind in enumerate(case["rounds"]):
        chk.hit("keepalive:" + kind)
        ne, nb = len(bottom.events), len(bottom.sent)
        ping = PingIqProtocolEntity()
        try:
            if kind in ("app-ping", "stray-pong"):
                # a ping of the APPLICATION's own (what a "/ping" command does), not entered into the keep-alive's record — or no ping at all: the
                # answer that arrives is handled normally all the same
                if kind == "app-ping":
                    stack.send(ping)
                else:
                    stack.send(AvailablePresenceProtocolEntity())
            else:
                iq.waitPong(ping.getId())
                iq.sendIq(ping)
        except tracked.BlockedForever as e:
            fails.append(oracle("C12:blocks-forever", "keep-alive rounds %s: round #%d never completes: %s" % (case["rounds"], ri, e)))
            break
        except Exception as e:
            fails.append(oracle("C12:followup-fails", "keep-alive rounds %s: round #%d raised %r" % (case["rounds"], ri, e)))
            break
        disc = [e for e in bottom.events[ne:] if e.getName() == YowNetworkLayer.EVENT_STATE_DISCONNECT]
        if disc and not unanswered:
            fails.append(oracle("C12:spurious-ping-timeout", "keep-alive rounds %s: at round #%d the keep-alive asks for a disconnect (reason %r) although the server answered "
                                "every ping — the failure while an answer was handled left the ping recorded as unanswered"
                                % (case["rounds"], ri, disc[0].getArg("reason"))))
            break
        if disc:
            break           # a ping really went unanswered: closing is the keep-alive's job (C16)
        if len(bottom.sent) - nb != 2:
            fails.append(oracle("C12:followup-incomplete", "keep-alive rounds %s: round #%d wrote %d chunks instead of one ping frame" % (case["rounds"], ri, len(bottom.sent) - nb)))
            break
        if kind == "unanswered":
            unanswered.append(ping.getId())
            continue
        node = ProtocolTreeNode("iq", {"id": ping.getId(), "type": "result", "from": "s.whatsapp.net"})
        body = bytes(bytearray(WriteEncoder(TokenDictionary()).protocolTreeNodeToBytes(node))) if kind != "pong-undecodable" else b"\x00\xf8\x02\xf7\x01"
        body = noisefake.wire(body)
        top.armed = kind == "pong-callback-raises"
        res, err = "ok", None
        try:
            stack.receive(_be24(len(body)) + body)
        except tracked.BlockedForever as e:
            res, err = "blocked", e
        except Exception as e:
            res, err = "raised", e
        top.armed = False
        if kind == "pong-undecodable":
            unanswered.append(ping.getId())       # the answer never reached the iq layer
        want = "ok" if kind in ("pong", "app-ping", "stray-pong") else "raised"
        held = [l.name for l in tracked.held_locks()]
        if res == "blocked":
            fails.append(oracle("C12:blocks-forever", "keep-alive rounds %s: the answer of round #%d is never handled: %s" % (case["rounds"], ri, err)))
        elif res != want:
            fails.append(oracle("C12:error-not-reported" if want == "raised" else "C12:followup-fails",
                                "keep-alive rounds %s: handling the answer of round #%d (%s) ended %s (%r)" % (case["rounds"], ri, kind, res, err)))
        elif held:
            fails.append(oracle("C12:lock-leak:layer", "keep-alive rounds %s: after the answer of round #%d (%s) these locks stay held: %s" % (case["rounds"], ri, kind, ", ".join(held))))
        if fails:
            break
        # the stack is still usable for the application
        nb = len(bottom.sent)
        try:
            stack.send(AvailablePresenceProtocolEntity())
        except Exception as e:
            fails.append(oracle("C12:followup-fails", "keep-alive rounds %s: a send after round #%d raised %r" % (case["rounds"], ri, e)))
            break
        if len(bottom.sent) - nb != 2:
            fails.append(oracle("C12:followup-incomplete", "keep-alive rounds %s: a send after round #%d wrote %d chunks" % (case["rounds"], ri, len(bottom.sent) - nb)))
            break
    tracked.release_all()
    return fails


def run_login(chk, case):
    """the server's <success> on the real default stack, with the application's callback raising while it is told: the error reaches the caller and
    the stack stays usable AS A LOGGED-IN STACK — the layers below were told that the login succeeded (the keep-alive is started, unsent keys would
    be uploaded), later frames and sends are processed, no lock stays held."""
    import threading
    from yowsup.structs import ProtocolTreeNode
    from yowsup.layers.auth import YowAuthenticationProtocolLayer
    from yowsup.layers.coder.encoder import WriteEncoder
    from yowsup.layers.coder.tokendictionary import TokenDictionary
    from yowsup.layers.protocol_presence.protocolentities import AvailablePresenceProtocolEntity
    import yowsup.layers.protocol_iq.layer as iqmod
    fails = []
    stack, insts, bottom, top, noise = build()
    iq = [x for x in insts[IDX["protocol"]].sublayers if type(x).__name__ == "YowIqProtocolLayer"][0]
    started = []
    orig_start = iqmod.YowPingThread.start
    iqmod.YowPingThread.start = lambda self: started.append(self)      # the thread itself is C16's subject; here: was the keep-alive started at all

    def frame(node):
        body = noisefake.wire(bytes(bytearray(WriteEncoder(TokenDictionary()).protocolTreeNodeToBytes(node))))
        return _be24(len(body)) + body

    def on_thread(fn):
        box = []

        def run():
            try:
                fn()
                box.append(("ok", None))
            except tracked.BlockedForever as e:
                box.append(("blocked", e))
            except Exception as e:
                box.append(("raised", e))
        if case["thread"]:
            t = threading.Thread(target=run)
            t.start()
            t.join()
        else:
            run()
        return box[0]
    try:
        what = "<success> handled with the application's callback %s" % ("raising" if case["mode"] == "callback-raises" else "returning")
        top.armed = case["mode"] == "callback-raises"
        res, err = on_thread(lambda: stack.receive(frame(ProtocolTreeNode("success", {"t": "1500000000", "props": "4", "creation": "1400000000", "location": "atn"}))))
        top.armed = False
        chk.hit("login:" + case["mode"])
        want = "raised" if case["mode"] == "callback-raises" else "ok"
        held = [l.name for l in tracked.held_locks()]
        if res == "blocked":
            fails.append(oracle("C12:blocks-forever", "%s never completes: %s" % (what, err)))
        elif res != want:
            fails.append(oracle("C12:error-not-reported" if want == "raised" else "C12:followup-fails", "%s ended %s (%r)" % (what, res, err)))
        elif held:
            fails.append(oracle("C12:lock-leak:layer", "%s: these locks stay held: %s" % (what, ", ".join(held))))
        if fails:
            return fails
        authed = [e for e in bottom.events if e.getName() == YowAuthenticationProtocolLayer.EVENT_AUTHED]
        if len(authed) != 1 or not started:
            fails.append(oracle("C12:login-half-done-after-callback-failure" if case["mode"] == "callback-raises" else "C12:login-not-announced",
                                "%s: the layers below were told about the login %d time(s), the keep-alive was started %d time(s) — the stack goes on as one that "
                                "never logged in (no keep-alive, unsent keys stay unsent)" % (what, len(authed), len(started))))
            return fails
        # later frames and sends
        nb = len(bottom.sent)
        res, err = on_thread(lambda: stack.receive(frame(ProtocolTreeNode("iq", {"id": "srv-1", "type": "get", "from": "s.whatsapp.net", "xmlns": "urn:xmpp:ping"}))))
        if res != "ok" or len(bottom.sent) - nb != 2:
            fails.append(oracle("C12:followup-fails", "%s, then a server ping: ended %s (%r), %d chunks written" % (what, res, err, len(bottom.sent) - nb)))
            return fails
        nb = len(bottom.sent)
        res, err = on_thread(lambda: stack.send(AvailablePresenceProtocolEntity()))
        if res != "ok" or len(bottom.sent) - nb != 2:
            fails.append(oracle("C12:followup-fails", "%s, then a send: ended %s (%r), %d chunks written" % (what, res, err, len(bottom.sent) - nb)))
    finally:
        iqmod.YowPingThread.start = orig_start
        tracked.release_all()
    return fails


def run_sockreset(chk, case):
    """the real asyncore dispatcher over a socket whose send fails with a disconnect errno (the peer reset the connection and a WRITE is the
    first to notice): asyncore then calls handle_close() from inside the send.  The failure must end in the connection being reported down,
    nothing may block and no lock may stay held; later sends return (they are dropped: the connection is down)."""
    import errno
    from gen.sendbufcfg import make_dispatcher
    fails = []
    del tracked.REGISTRY[:]

    def factory(real):
        l = tracked.TrackedLock()
        l.reentrant = type(real).__name__ == "RLock"
        if l.reentrant:
            # (same-thread re-acquisition of an RLock is legal; operations are issued one at a time here)
            orig_acq, orig_rel = l.acquire, l.release
            depth = [0]

            def acquire(blocking=True, timeout=-1):
                if l.held:
                    depth[0] += 1
                    return True
                return orig_acq(blocking, timeout)

            def release():
                if depth[0]:
                    depth[0] -= 1
                    return
                orig_rel()
            l.acquire, l.release = acquire, release
            l.__class__ = type("RTracked", (tracked.TrackedLock,), {"__enter__": lambda self: (self.acquire(), self)[1], "__exit__": lambda self, *a: self.release()})
        return l
    d, a, b = make_dispatcher(lock_factory=factory)
    downs = []

    class CB(object):
        def onConnected(self):
            pass

        def onConnecting(self):
            pass

        def onDisconnected(self):
            downs.append(1)

        def onRecvData(self, data):
            pass

        def onConnectionError(self, e):
            downs.append(1)
    d.connectionCallbacks = CB()

    class ResetSock(object):
        """the dispatcher's socket from the moment the peer has reset the connection"""
        def __init__(self, real):
            self._real = real

        def send(self, data, *a_):
            raise OSError(getattr(errno, case["errno"]), "connection reset by peer")

        def __getattr__(self, n):
            return getattr(self._real, n)
    steps = list(case["steps"])
    chk.hit("sockreset:" + case["errno"], "sockreset:via=" + steps[0])
    try:
        for si, st in enumerate(steps):
            res = "ok"
            try:
                if st == "send-then-reset":
                    d.socket = ResetSock(d.socket)
                    d.sendData(b"frame-%d" % si)
                elif st == "buffered-then-flush":
                    # bytes accepted into the buffer while the socket was busy, the loop thread's flush is the first to hit the reset
                    with d._send_lock:
                        d.out_buffer = d.out_buffer + b"pending"
                    d.socket = ResetSock(d.socket)
                    d.handle_write()
                elif st == "send":
                    d.sendData(b"later-%d" % si)
                elif st == "flush":
                    d.handle_write()
            except tracked.BlockedForever as e:
                res = "blocked: %s" % e
            except Exception as e:
                res = "raised %s" % type(e).__name__
            held = [l.name for l in tracked.held_locks()]
            if res.startswith("blocked"):
                fails.append(oracle("C12:blocks-forever", "asyncore dispatcher, socket send fails with %s, steps %s: step #%d (%s) never completes: %s" % (case["errno"], steps, si, st, res)))
                break
            if held:
                fails.append(oracle("C12:lock-leak:dispatcher", "asyncore dispatcher, socket send fails with %s, steps %s: after step #%d (%s, %s) these locks stay held: %s"
                                    % (case["errno"], steps, si, st, res, ", ".join(held))))
                break
            if si == 0 and len(downs) != 1:
                fails.append(oracle("C12:reset-not-reported", "asyncore dispatcher, socket send fails with %s at step %s: the connection was reported down %d time(s)" % (case["errno"], st, len(downs))))
                break
    finally:
        tracked.release_all()
        for s_ in (a, b):
            try:
                s_.close()
            except Exception:
                pass
        try:
            d.del_channel()
        except Exception:
            pass
    return fails


_SIZES = {"small": 10, "under": 16777216 - 17, "edge": 16777216 - 16, "big": 16777216 + 5}


def run_numbering(chk, case):
    """payloads of chosen sizes pushed into the real noise layer (transport stand-in that numbers its messages, real segment layer below):
    after every send the numbers taken and the numbers written are compared with Model/SendNumbering.lean; the frames on the wire must be
    numbered 0, 1, 2, ... (the peer counts what it receives)"""
    from lib.probes import sandwich
    from yowsup.layers.noise.layer import YowNoiseLayer
    from yowsup.layers.noise.layer_noise_segments import YowNoiseSegmentsLayer
    fails = []
    noise = YowNoiseLayer()
    _stack, bottom, _top = sandwich(YowNoiseSegmentsLayer(), noise, props={YowNoiseSegmentsLayer.PROP_ENABLED: True})
    tr = noisefake.to_transport(noise)
    chk.driver.ask("locks numreset")
    for i, k in enumerate(case["sizes"]):
        n = _SIZES[k]
        chk.hit("numbering:" + k)
        try:
            noise.send(bytes(n))
            res = "written"
        except ValueError:
            res = "refused"
        impl = "%s next=%d wire=%s" % (res, tr.sent, ",".join(map(str, tr.written)))
        model = chk.driver.ask("locks numsend %d" % n)
        del bottom.sent[:]
        if impl != model:
            fails.append(corr("numbering", "sizes %s, send #%d (%d bytes): impl=%s model=%s" % (case["sizes"], i, n, impl, model)))
        if tr.written != list(range(len(tr.written))):
            fails.append(oracle("C12:later-send-undecryptable", "payload sizes %s: after send #%d the frames on the wire carry the cipher's message numbers %s — the peer, which counts what it "
                                "receives, cannot decrypt from the first gap on (a refused send used up a number)" % ([_SIZES[x] for x in case["sizes"]], i, tr.written)))
            break
    return fails


def _whisper_bytes(counter):
    """a well-formed ratchet message (type msg) from somebody the account has never heard of"""
    from axolotl.ecc.curve import Curve
    from axolotl.identitykey import IdentityKey
    from axolotl.protocol.whispermessage import WhisperMessage
    ratchet, a, b = Curve.generateKeyPair(), Curve.generateKeyPair(), Curve.generateKeyPair()
    m = WhisperMessage(3, bytearray(32), ratchet.getPublicKey(), counter, 0, b"\x07" * 32, IdentityKey(a.getPublicKey()), IdentityKey(b.getPublicKey()))
    return bytes(m.serialize())


def run_parked(chk, case):
    """an encrypted message from a contact the account has no session with makes the receive layer park it and ask the server for the
    contact's keys.  That request fails — the write fails in a lower layer, the server answers with an error, or with an empty list — and the
    failure is reported where it belongs.  The stack stays usable for that contact: the next message from them is handled like the first
    (keys are asked for again), not parked for ever without a word."""
    from corr import c06
    from yowsup.structs import ProtocolTreeNode as N
    if not hasattr(chk, "stacks"):
        chk.stacks = {}
    fails = []
    stack, bottom, top = c06.get_stack(chk, "1111", 1)
    chk.parked_n = getattr(chk, "parked_n", 0) + 1
    who = "49152880%04d@s.whatsapp.net" % chk.parked_n
    chat = who if not case["group"] else "4915288-14%08d@g.us" % chk.parked_n
    chk.hit("parked:" + case["mode"], "parked:group=%d" % case["group"])

    def message(i):
        attrs = {"id": "PK%d-%d" % (chk.parked_n, i), "from": chat, "t": "1500000000", "type": "text", "notify": "n"}
        if case["group"]:
            attrs["participant"] = who
        return N("message", attrs, [N("enc", {"type": "msg", "v": "2"}, None, _whisper_bytes(i))])

    def key_requests(frm):
        return [n for n in bottom.sent[frm:] if getattr(n, "tag", None) == "iq" and n["type"] == "get" and n.getChild("key") is not None]
    n0 = len(bottom.sent)
    real_send = bottom.send
    if case["mode"] == "send-raises":
        def failing(data):
            raise Boom("write error")
        bottom.send = failing
    raised = None
    try:
        bottom.toUpper(message(1))
    except Exception as e:
        raised = e
    finally:
        bottom.send = real_send
    reqs = key_requests(n0)
    if case["mode"] == "send-raises":
        if not isinstance(raised, Boom):
            fails.append(oracle("C12:error-not-reported", "message from a contact without a session, the key request's write fails: the failure did not reach the caller (%r)" % raised))
            return fails
    else:
        if raised is not None or len(reqs) != 1:
            fails.append(oracle("C12:followup-fails", "message from a contact without a session: %d key requests written, raised %r" % (len(reqs), raised)))
            return fails
        rid = reqs[0]["id"]
        reply = (N("iq", {"id": rid, "type": "error", "from": "s.whatsapp.net"}, [N("error", {"code": "500", "text": "internal-server-error"})]) if case["mode"] == "error-iq"
                 else N("iq", {"id": rid, "type": "result", "from": "s.whatsapp.net"}, [N("list")]))
        try:
            bottom.toUpper(reply)
        except Exception as e:
            fails.append(oracle("C12:followup-fails", "the server's %s to the key request raises %r" % (case["mode"], e)))
            return fails
    n1 = len(bottom.sent)
    for i in range(2, 2 + case["later"]):
        try:
            bottom.toUpper(message(i))
        except Exception as e:
            fails.append(oracle("C12:followup-fails", "a later message of the same contact (key request failed before: %s) raises %r" % (case["mode"], e)))
            return fails
    if not key_requests(n1):
        fails.append(oracle("C12:contact-parked-for-ever", "%s message from a contact without a session; the key request failed (%s); %d later message(s) of the same contact: no key request "
                            "was written again — they are parked without a word, nothing will ever work them off" % ("group" if case["group"] else "direct", case["mode"], case["later"])))
    if tracked.held_locks():
        fails.append(oracle("C12:lock-leak:layer", "locks held after the parked-message sequence: %s" % [l.name for l in tracked.held_locks()]))
        tracked.release_all()
    return fails


def run_case(chk, stream, case):
    if stream == "parked":
        return run_parked(chk, case)
    if stream == "sockreset":
        return run_sockreset(chk, case)
    if stream == "numbering":
        return run_numbering(chk, case)
    if stream == "keepalive":
        return run_keepalive(chk, case)
    if stream == "login":
        return run_login(chk, case)
    if stream == "dispatchers":
        return run_dispatchers(chk, case)
    if stream == "concurrent":
        return run_concurrent(chk, case)
    if stream == "coalesced":
        return run_coalesced(chk, case)
    if stream == "segfail":
        return run_segfail(chk, case)
    from yowsup.layers.protocol_presence.protocolentities import AvailablePresenceProtocolEntity, PresenceProtocolEntity
    fails = []
    stack, insts, bottom, top, noise = build()
    d = chk.driver
    d.ask("locks reset %d %d" % (N, P))
    queued_kinds = []
    layer_lock = [(_locks_of(i) or [None])[0] for i in insts]
    flush_lock = (_locks_of(noise) + [None, None])[1]
    qlen = lambda: (getattr(noise, "_incoming_segments_queue", None).qsize() if hasattr(noise, "_incoming_segments_queue") else None)
    seq = 0
    sent_ok = []        # ids (sequence numbers) of fault-free presence frames, in arrival order
    pending_fail = 0    # queued frames whose handling will fail at the next flush
    for opi, (kind, th) in enumerate(zip(case["ops"], case["threads"])):
        seq += 1
        chk.hit(kind, "thread=%d" % th)
        if kind.startswith("q:"):
            base = kind[2:]
            if base == "recv-callback-raises":
                top.fail_from = tuple(top.fail_from) + ("%d@s.whatsapp.net" % (100000 + seq),)
            body = noisefake.wire(_stanza_bytes(base, seq))
            frame = _be24(len(body)) + body
            noise._wa_noiseprotocol._machine.set_state("handshake")     # handshake still running: receive() only queues
            try:
                stack.receive(frame)
            finally:
                noise._wa_noiseprotocol._machine.set_state("transport")
            fa, ra, rf = RECV_KINDS[base]
            model = d.ask("locks enq %d %s %s %s" % (seq, "-" if fa is None else fa, "-" if ra is None else ra, "-" if rf is None else rf))
            q = qlen()
            impl = "ok held=%s flush=0 queue=%s" % (",".join("0" for _ in layer_lock), "?" if q is None else q)
            m = model.rsplit(" delivered=", 1)[0]
            if q is None:
                m = m.rsplit(" queue=", 1)[0] + " queue=?"
            if impl != m:
                fails.append(corr("seq:enqueue", "op #%d %s: impl=%s model=%s" % (opi, kind, impl, m)))
            if base == "recv-ok":
                sent_ok.append(seq)
            queued_kinds.append((seq, base))
            continue
        bottom.armed = kind in ("send-write-error", "send-interrupted")
        bottom.interrupt = kind == "send-interrupted"
        if kind == "recv-ping-write-error":
            bottom.fail_tags = tuple(bottom.fail_tags) + (b"pingid-%d-x" % seq,)
        top.armed = False
        if kind == "recv-callback-raises":
            top.fail_from = tuple(top.fail_from) + ("%d@s.whatsapp.net" % (100000 + seq),)
        nb, nt = len(bottom.sent), len(top.received)
        if kind.startswith("send"):
            if kind == "send-unencodable":
                ent = PresenceProtocolEntity(name=u"cafĀ")
            elif kind == "send-unencodable-late":
                ent = None
            elif kind == "send-oversized":
                from yowsup.structs import ProtocolTreeNode
                ent = None
            else:
                ent = AvailablePresenceProtocolEntity()
            if kind == "send-not-ready":
                noise._wa_noiseprotocol.reset()                # connection lost: session not ready

            def op():
                if kind == "send-oversized":
                    # enter below the protocol layers with a raw node carrying >= 16 MiB
                    from yowsup.structs import ProtocolTreeNode
                    insts[IDX["control"]].send(ProtocolTreeNode("x", {}, None, bytes(16777216)))
                elif kind == "send-unencodable-late":
                    from yowsup.structs import ProtocolTreeNode
                    bad_node = ProtocolTreeNode("receipt", {"id": "late-%d" % seq, "to": "4915112345@s.whatsapp.net", "type": "read"})
                    bad_node.attributes["participant"] = None          # an attribute value that is not a string: refused when the encoder gets to it
                    insts[IDX["control"]].send(bad_node)
                else:
                    stack.send(ent)
            model = d.ask("locks send %s" % ("-" if SEND_KINDS[kind] is None else SEND_KINDS[kind])) if kind != "send-oversized" else None
        else:
            body = noisefake.wire(_stanza_bytes(kind, seq))
            frame = _be24(len(body)) + body

            def op():
                stack.receive(frame)
            fa, ra, rf = RECV_KINDS[kind]
            model = d.ask("locks recv %d %s %s %s" % (seq, "-" if fa is None else fa, "-" if ra is None else ra, "-" if rf is None else rf))
        res, err = "ok", None
        try:
            _in_thread(op, th)
        except tracked.BlockedForever as e:
            res, err = "blocked", e
        except (Exception, Interrupted) as e:
            res, err = "raised", e
        bottom.armed = top.armed = False
        bottom.interrupt = False
        if bottom.write_failed and hasattr(noise._wa_noiseprotocol._transport, "written"):
            bottom.write_failed = False
            # a failed socket write means the connection is gone: the next session starts with fresh cipher states (message numbers restart)
            tr_ = noise._wa_noiseprotocol._transport
            tr_.sent, tr_.nonces, tr_.written = 0, [], []
        if kind == "send-not-ready":
            noisefake.to_transport(noise)                      # reconnect: session up again
        held = [1 if (l is not None and l.held) else 0 for l in layer_lock]
        fl = 1 if (flush_lock is not None and flush_lock.held) else 0
        extra_held = [l.name for l in tracked.held_locks() if l not in layer_lock and l is not flush_lock]
        if model is not None:
            q = qlen()
            impl = "%s held=%s flush=%d queue=%s" % (res, ",".join(map(str, held)), fl, "?" if q is None else q)
            m = model.rsplit(" delivered=", 1)[0]
            if q is None:
                m = m.rsplit(" queue=", 1)[0] + " queue=?"
            if impl != m:
                fails.append(corr("seq:%s" % kind, "op #%d %s of %s: impl=%s (%r) model=%s" % (opi, kind, case["ops"], impl, err, m)))
        # ---- property oracle on the real code
        what = None
        expect_fail = kind not in ("send-ok", "recv-ok", "recv-ping")
        must_deliver = []
        if kind.startswith("recv"):
            # the flush hands up every queued frame in order, then this one; the first failing frame is consumed
            # and reported, the frames behind it stay queued for the next flush
            batch = queued_kinds + [(seq, kind)]
            queued_kinds = []
            expect_fail = False
            for bi, (bseq, bkind) in enumerate(batch):
                if bkind not in ("recv-ok", "recv-ping"):
                    expect_fail = True
                    queued_kinds = batch[bi + 1:]
                    break
                if bkind == "recv-ok":
                    must_deliver.append(bseq)
            got_from = [e.getFrom() for e in top.received[nt:] if hasattr(e, "getFrom")]
            want_from = ["%d@s.whatsapp.net" % (100000 + x) for x in must_deliver]
        if res == "blocked":
            what = ("C12:blocks-forever", "op #%d %s (thread %d) never completes: %s" % (opi, kind, th, err))
        elif expect_fail and res != "raised":
            what = ("C12:error-not-reported", "op #%d %s completed without reporting its failure to the caller" % (opi, kind))
        elif not expect_fail and res != "ok":
            what = ("C12:followup-fails", "fault-free op #%d %s raised %r" % (opi, kind, err))
        elif any(held) or fl or extra_held:
            names = [k for k, v in IDX.items() if held[v]] + (["noise flush lock"] if fl else []) + extra_held
            what = ("C12:lock-leak:" + ("flush" if fl and not any(held) else "layer"),
                    "after op #%d %s (%s) these locks stay held: %s" % (opi, kind, res, ", ".join(names)))
        elif kind.startswith("send") and kind != "send-ok" and res == "raised" and len(bottom.sent) - nb != 0:
            what = ("C12:failed-send-leaves-bytes-on-the-wire", "op #%d %s was refused with an error, yet %d chunk(s) (%s bytes) of it reached the network: the peer reads the next "
                    "frame at the wrong offset" % (opi, kind, len(bottom.sent) - nb, [len(x) for x in bottom.sent[nb:]]))
        elif kind == "send-ok" and getattr(noise._wa_noiseprotocol._transport, "written", None) is not None and \
                noise._wa_noiseprotocol._transport.written != list(range(len(noise._wa_noiseprotocol._transport.written))):
            tr_ = noise._wa_noiseprotocol._transport
            what = ("C12:later-send-undecryptable", "op #%d %s reached the network encrypted under message number %d, but it is message number %d on the wire: an earlier, refused "
                    "send used up a number of the cipher without writing anything, so the peer (which counts what it receives) cannot decrypt this or any later frame"
                    % (opi, kind, tr_.written[-1], len(tr_.written) - 1))
        elif kind == "send-ok" and len(bottom.sent) - nb != 2:
            what = ("C12:followup-incomplete", "fault-free send wrote %d chunks to the network instead of header+payload" % (len(bottom.sent) - nb))
        elif kind == "send-ok" and bytes(bottom.sent[-1]) != noisefake.wire(_fresh_encoding(ent)):
            # ... and what it writes is the stanza, not the stanza behind whatever an earlier, failed operation left in some buffer
            got_ = bytes(bottom.sent[-1])
            what = ("C12:followup-frame-differs", "op #%d: the fault-free send wrote a %d-byte frame, the stanza alone encodes to %d bytes: %s… (leftovers of an earlier failed "
                    "operation travel with it)" % (opi, len(got_), len(noisefake.wire(_fresh_encoding(ent))), got_[:24].hex()))
        elif kind.startswith("recv") and res != "blocked" and got_from != want_from:
            what = ("C12:frames-lost-or-reordered", "op #%d %s: frames delivered to the application %s, expected %s (frames queued behind a failing one must "
                    "be delivered by the next flush)" % (opi, kind, got_from, want_from))
        elif kind == "recv-ping" and not queued_kinds and not expect_fail and len(bottom.sent) - nb < 2:
            what = ("C12:followup-incomplete", "ping #%d got %d chunks written instead of one pong frame" % (opi, len(bottom.sent) - nb))
        if what:
            fails.append(oracle(what[0], "sequence %s threads %s: %s" % (case["ops"], case["threads"], what[1])))
            break
    tracked.release_all()
    return fails


def shrink(stream, case):
    if stream in ("concurrent", "dispatchers", "sockreset", "parked", "login"):
        return
    if stream == "numbering":
        zs = case["sizes"]
        for i in range(len(zs)):
            if len(zs) > 1:
                yield dict(case, sizes=zs[:i] + zs[i + 1:])
        return
    if stream == "keepalive":
        rs = case["rounds"]
        for i in range(len(rs)):
            if len(rs) > 1:
                yield dict(case, rounds=rs[:i] + rs[i + 1:])
        return
    if stream == "segfail":
        fr, bad, cuts = case["frames"], case["bad"], case["cuts"]
        for i in range(len(fr)):
            if len(fr) > 1:
                yield dict(case, frames=fr[:i] + fr[i + 1:], bad=[b - (1 if b > i else 0) for b in bad if b != i])
        for i in range(len(cuts)):
            yield dict(case, cuts=cuts[:i] + cuts[i + 1:])
        return
    if stream == "coalesced":
        ks, cuts = case["kinds"], case["cuts"]
        for i in range(len(ks)):
            if len(ks) > 1:
                yield dict(case, kinds=ks[:i] + ks[i + 1:])
        for i in range(len(cuts)):
            yield dict(case, cuts=cuts[:i] + cuts[i + 1:])
        return
    ops, th = case["ops"], case["threads"]
    for i in range(len(ops)):
        if len(ops) > 1:
            yield {"ops": ops[:i] + ops[i + 1:], "threads": th[:i] + th[i + 1:]}
    if any(th):
        yield {"ops": ops, "threads": [0] * len(ops)}
