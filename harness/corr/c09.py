"""C09  Protocol entities <-> stanzas.  For every entity class with a documented-shape stanza (the repository's own
fixture modules, harvested at run time, plus hand-built ones for classes without a fixture module): generated
field values, optional attributes present / absent, 0..n list children; stanza -> entity -> stanza must reproduce
the stanza (numbers by value), and every stanza an entity produces must be accepted by the binary codec and
survive it unchanged — checked on the real codec and against the Lean codec model (C01's theorems are what make
"accepted and unchanged" hold for every stanza satisfying the model's well-formedness)."""
import re

import boot  # noqa: F401
from core import corr, oracle
from corr import c01
from lib import entfixtures, trees

PID = "C09"
GEN = ["tokendict", "entitytable"]
LEAN_MODULES = ["YowsupVerif.Props.C09"]
RULE = ("for each entity class with a documented-shape stanza: 1-3 fields varied at once — attribute values generated in their kind (ids, timestamps and "
        "counts as numbers incl. 0 and large, JIDs, flags, free text incl. empty and Latin-1, binary blobs), optional attributes removed, list children "
        "duplicated / removed (0..n); stanza -> entity -> stanza compared field by field (numbers by value); the produced stanza is encoded and decoded by "
        "the real codec and by the Lean codec model.  stream 'incoming-message': a <message> stanza of each of the 12 content kinds with a generated payload "
        "(C10's generator) and envelope (user / group+participant, notify, offline) through the REAL messages / media protocol layer; the entity handed to the "
        "application is serialised again and compared attribute by attribute and payload field by field (presence-aware).  distinct = distinct (class, set of varied fields, kinds of values).")
RULE += (' Textual element content is varied over UTF-8 text (accents, Arabic-Indic digits, CJK, emoji).')
ASSUMPTIONS = ["the documented shape of a class is its fixture stanza (repository test module or docstring) with attribute values varied within their kind; "
               "attributes that select the class (type, xmlns, class, mediatype, child tags) are not varied"]

DISCRIMINATORS = ("type", "xmlns", "class", "mediatype", "action", "request", "reason", "v", "kind", "status")
NUM = re.compile(r"^-?\d+$")


def incoming_class_names():
    """names of the entity classes the layers build from incoming stanzas (X.fromProtocolTreeNode(...) in layer code)"""
    import glob
    import os
    from core import REPO
    names = set()
    for path in glob.glob(os.path.join(REPO, "yowsup/layers/*/*.py")) + glob.glob(os.path.join(REPO, "yowsup/layers/*.py")):
        if "/protocolentities/" in path:
            continue
        names.update(re.findall(r"([A-Za-z]+)\.fromProtocolTreeNode\(", open(path).read()))
    return names


def setup(chk):
    c01.setup(chk)
    chk.incoming = incoming_class_names()
    fx, missing = entfixtures.all_fixtures()
    chk.fixtures = fx
    chk.missing = missing
    chk.notes.append("entity classes with a documented-shape stanza: %d (repo fixtures %d, hand-built %d); without: %d (%s)"
                     % (len(fx), sum(1 for v in fx.values() if v[2] == "repo"), sum(1 for v in fx.values() if v[2] == "extra"), len(missing), ", ".join(missing)))


def clone(n):
    from yowsup.structs import ProtocolTreeNode
    return ProtocolTreeNode(n.tag, dict(n.attributes), [clone(c) for c in n.getAllChildren()], n.getData())


def walk(node, path=()):
    yield path, node
    for i, c in enumerate(node.getAllChildren()):
        for x in walk(c, path + (i,)):
            yield x


def at(node, path):
    for i in path:
        node = node.getAllChildren()[i]
    return node


def fields_of(node):
    """the variable fields of a base stanza: ("attr", path, name) | ("data", path) | ("rep", parent path, tag)"""
    out = []
    for path, n in walk(node):
        for k in sorted(n.attributes):
            if k in DISCRIMINATORS and len(path) >= 2 and k in ("type", "status", "kind"):
                # a discriminator-like attribute deep inside the stanza (a participant's type, an item's status) is data of that entry
                out.append(["attr", list(path), k])
            elif k not in DISCRIMINATORS and not (k == "from" and n.attributes[k] in ("s.whatsapp.net", "g.us")):
                out.append(["attr", list(path), k])
        if n.getData() is not None and len(n.getAllChildren()) == 0 and n.tag not in ("type", "proto"):      # proto payloads: C10
            out.append(["data", list(path)])
        tags = [c.tag for c in n.getAllChildren()]
        for t in sorted(set(tags)):
            if tags.count(t) >= 2 or (tags.count(t) == 1 and t in ("participant", "user", "item")):
                out.append(["rep", list(path), t])
    return out


FREE_TEXT = ("notify", "subject", "name", "status", "text", "caption", "title", "description", "reason")


def kind_of(v, name=None):
    if isinstance(v, bytes):
        return "bytes"
    v = str(v)
    if name in ("type", "status", "kind"):
        return "enum"
    if name in ("offline", "last", "passive", "from_me") and v in ("0", "1"):
        return "flag01"
    if name in FREE_TEXT:
        return "freetext"
    if NUM.match(v):
        return "time" if name in ("t", "creation", "s_t", "expiration", "after", "timestamp", "last") else "num"
    if "@" in v:
        return "jid"
    if v in ("true", "false"):
        return "flag"
    return "text"


def gen_value(r, kind, old):
    if kind == "num":
        return r.choice(["0", "1", "7", "1700000000", str(r.randint(0, 10 ** 9)), "4294967296"])
    if kind == "time":
        # (second stamps of every size a peer may send: today's, past 2**32, 11-13 digits — a millisecond stamp is a value like any other)
        return r.choice(["1", "1400000000", "1700000000", str(r.randint(1, 2 * 10 ** 9)), "4294967296", "99999999999", "100000000000", "253402300800", "1415470561123",
                         str(r.randint(10 ** 11, 10 ** 13))])
    if kind == "jid":
        if "-" in str(old):
            return "%d-%d@g.us" % (r.randint(10 ** 9, 10 ** 11), r.randint(10 ** 9, 2 * 10 ** 9))
        return "%d@s.whatsapp.net" % r.randint(10 ** 9, 10 ** 12)
    if kind == "enum":
        # another value of an enumerated attribute: the peer's vocabulary is larger than the documented example
        return r.choice(["admin", "superadmin", "member", "active", "expired", "paid", "free", "success", "x-unknown"])
    if kind == "flag":
        return r.choice(["true", "false"])
    if kind == "flag01":
        return r.choice(["0", "1"])
    if kind == "freetext":
        # (free text may be empty: an empty push name, an empty status — present and empty is not absent)
        return r.choice(["", "x", "hello world", "caf\xe9 \xfcber", "a" * r.randint(2, 80)])
    if kind == "utf8data":
        # element content that is text: what a peer writes there is UTF-8, not only ASCII (names, statuses, address-book entries as typed)
        return r.choice([u"x", u"hello", u"A-%d" % r.randint(0, 999), u"+49 151 %d" % r.randint(0, 99999), u"caf\u00e9 \u00fcber", u"\u0664\u0669\u0661\u0665\u0661",
                         u"\u4e16\u754c", u"\U0001F600 ok", u"na\u00efve-%d" % r.randint(0, 99)]).encode("utf-8")
    if kind == "bytes":
        n = len(old) if isinstance(old, (bytes, bytearray)) and len(old) else r.randint(1, 24)       # binary fields keep their documented size
        return bytes(bytearray(r.randrange(256) for _ in range(n)))
    return r.choice(["x", "hello", "A-%d" % r.randint(0, 999), "id-%d" % r.randint(0, 999), "%d-%d" % (r.randint(10 ** 9, 2 * 10 ** 9), r.randint(1, 99))])


def cases(chk):
    r = chk.rng
    names = sorted(chk.fixtures)
    for name in names:
        yield "base", {"cls": name, "muts": []}
    per = chk.scale(12, 400)
    for name in names:
        cls, base, _src = chk.fixtures[name]
        fs = fields_of(base)
        if not fs:
            continue
        try:
            if diff_tolerant(base, cls.fromProtocolTreeNode(clone(base)).toProtocolTreeNode()) is not None:
                continue        # the documented example itself is not reproduced (reported by the "base" case): variations add nothing
        except Exception:
            continue
        # every field alone: removed, and with a generated value
        for f in fs:
            if f[0] == "attr":
                yield "variant", {"cls": name, "muts": [["del"] + f[1:]]}
                old = at(base, f[1]).attributes[f[2]]
                yield "variant", {"cls": name, "muts": [["set"] + f[1:] + [gen_value(r, kind_of(old, f[2]), old)]]}
            elif f[0] == "data":
                old = at(base, f[1]).getData()
                v = gen_value(r, "bytes" if isinstance(old, bytes) and not _texty(old) else "utf8data", old)
                yield "variant", {"cls": name, "muts": [["data", f[1], v.hex() if isinstance(v, bytes) else v.encode("latin-1").hex()]]}
            else:
                for n in (0, 1, 3):
                    yield "variant", {"cls": name, "muts": [["rep", f[1], f[2], n]]}
        if False:
            pass
        for _ in range(per):
            muts = []
            for f in r.sample(fs, min(len(fs), r.randint(1, 3))):
                if f[0] == "attr":
                    old = at(base, f[1]).attributes[f[2]]
                    muts.append(["del"] + f[1:] if r.random() < 0.25 else ["set"] + f[1:] + [gen_value(r, kind_of(old, f[2]), old)])
                elif f[0] == "data":
                    old = at(base, f[1]).getData()
                    v = gen_value(r, "bytes" if isinstance(old, bytes) and not _texty(old) else "utf8data", old)
                    muts.append(["data", f[1], v.hex() if isinstance(v, bytes) else v.encode("latin-1").hex()])
                else:
                    muts.append(["rep", f[1], f[2], r.choice([0, 1, 2, 3, 5])])
            yield "variant", {"cls": name, "muts": muts}
    for _ in range(chk.scale(300, 8000)):
        yield "incoming-message", {"kind": r.choice(MSG_KINDS)[0], "seed": r.randrange(1 << 30), "group": r.random() < 0.35}
    import random
    n_out = len(outgoing_entities(random.Random(0)))
    for i in range(n_out):
        for _ in range(chk.scale(3, 60)):
            yield "outgoing", {"index": i, "seed": r.randrange(1 << 30)}


def outgoing_entities(r):
    """(name, entity) pairs: what applications and the library itself send, built with the library's constructors"""
    from lib import iqkinds, payloads
    from yowsup.layers.protocol_acks.protocolentities import OutgoingAckProtocolEntity
    from yowsup.layers.protocol_chatstate.protocolentities import OutgoingChatstateProtocolEntity
    from yowsup.layers.protocol_messages.protocolentities.attributes.attributes_message_meta import MessageMetaAttributes
    from yowsup.layers.protocol_presence.protocolentities import (AvailablePresenceProtocolEntity, PresenceProtocolEntity, SubscribePresenceProtocolEntity,
                                                                  UnavailablePresenceProtocolEntity, UnsubscribePresenceProtocolEntity)
    from yowsup.layers.protocol_receipts.protocolentities import OutgoingReceiptProtocolEntity
    from yowsup.layers.axolotl.protocolentities import GetKeysIqProtocolEntity, RetryOutgoingReceiptProtocolEntity
    jid = "%d@s.whatsapp.net" % r.randint(10 ** 9, 10 ** 12)
    gjid = "%d-%d@g.us" % (r.randint(10 ** 9, 10 ** 11), r.randint(10 ** 9, 2 * 10 ** 9))
    mid = "%d-%d" % (r.randint(10 ** 9, 2 * 10 ** 9), r.randint(1, 99))
    out = [(k["name"], k["req"]) for k in iqkinds.kinds()]
    for tok in range(len(payloads.KINDS)):
        if payloads.kind_of(tok) != "empty":
            out.append(("message:" + payloads.kind_of(tok), lambda tok=tok: payloads.build(tok + 8 * r.randint(0, 5), MessageMetaAttributes(id=mid, recipient=r.choice([jid, gjid])))))
            # a group message served again to the one participant that asked for it (what the send layer builds for a retry): to = group, participant = member
            out.append(("message-to-participant:" + payloads.kind_of(tok),
                        lambda tok=tok: payloads.build(tok + 8 * r.randint(0, 5), MessageMetaAttributes(id=mid, recipient=gjid, participant=jid)),
                        {"id": mid, "to": gjid, "participant": jid}))
    out += [
        ("receipt", lambda: OutgoingReceiptProtocolEntity(mid, jid)),
        ("receipt-read-group", lambda: OutgoingReceiptProtocolEntity([mid, mid + "1"], gjid, read=True, participant=jid)),
        ("receipt-retry", lambda: RetryOutgoingReceiptProtocolEntity(mid, jid, r.randint(1, 2 ** 31), str(r.randint(1, 2 * 10 ** 9)), count=r.randint(1, 4))),
        ("ack", lambda: OutgoingAckProtocolEntity(mid, "receipt", r.choice(["read", "delivery", None]), jid)),
        ("ack-notification", lambda: OutgoingAckProtocolEntity(mid, "notification", "encrypt", jid, participant=r.choice([None, jid]))),
        ("presence", lambda: PresenceProtocolEntity(name="caf\xe9")),
        ("presence-available", lambda: AvailablePresenceProtocolEntity()),
        ("presence-unavailable", lambda: UnavailablePresenceProtocolEntity()),
        ("presence-subscribe", lambda: SubscribePresenceProtocolEntity(jid)),
        ("presence-unsubscribe", lambda: UnsubscribePresenceProtocolEntity(jid)),
        ("chatstate", lambda: OutgoingChatstateProtocolEntity(r.choice(["composing", "paused"]), jid)),
        ("get-keys", lambda: GetKeysIqProtocolEntity([jid, "1" + jid], reason=r.choice([None, "identity"]))),
    ]
    # the ciphertext elements the send layer builds: for the chat itself, and addressed to one member of a group (wrapped in <to jid=…>) —
    # with and without a media type, every envelope type
    from yowsup.layers.axolotl.protocolentities.enc import EncProtocolEntity

    def enc_case(to_member, media):
        typ = r.choice(["pkmsg", "msg", "skmsg"])
        mt = r.choice(["image", "video", "audio", "document", "ptt", "sticker", "url", "location", "contact", "gif"]) if media else None
        data = bytes(r.randrange(256) for _ in range(r.choice([1, 30, 200])))
        member = jid if to_member else None

        def verify(s2):
            enc = s2
            if to_member:
                if s2.tag != "to" or s2["jid"] != member:
                    return ("jid", member, "<%s jid=%r>" % (s2.tag, s2["jid"]))
                enc = s2.getChild("enc")
                if enc is None:
                    return ("enc", "an <enc> element", None)
            for k, v in (("type", typ), ("v", "2"), ("mediatype", mt)):
                if enc[k] != v:
                    return (k, v, enc[k])
            if enc.getData() != data:
                return ("data", data.hex()[:40], (enc.getData() or b"").hex()[:40])
            return None
        return (lambda: EncProtocolEntity(typ, 2, data, mt, jid=member)), verify
    for to_member in (0, 1):
        for media in (0, 1):
            mk, verify = enc_case(to_member, media)
            out.append(("enc%s%s" % ("-to-member" if to_member else "", "-media" if media else ""), mk, verify))
    return out


OUT_NAMES = None


def _texty(b):
    try:
        return all(32 <= c < 127 for c in bytes(b))
    except Exception:
        return False


def nontrivial(stream, case):
    if stream == "outgoing":
        return ("outgoing", case["index"], case["seed"] % 16)
    if stream == "incoming-message":
        return ("incoming-message", case["kind"], case["group"], case["seed"])
    return (case["cls"], tuple((m[0], tuple(m[1]), m[2] if len(m) > 2 and not isinstance(m[2], list) else None,
                                kind_of(m[3]) if m[0] == "set" else (m[3] if m[0] == "rep" else None)) for m in case["muts"]))


def shrink(stream, case):
    if stream == "incoming-message":
        return
    if stream == "outgoing":
        return
    ms = case["muts"]
    for i in range(len(ms)):
        if len(ms) > 1:
            yield dict(case, muts=ms[:i] + ms[i + 1:])


def apply(base, muts):
    n = clone(base)
    # repetitions first (paths of later siblings may shift otherwise), deepest first
    for m in sorted([m for m in muts if m[0] == "rep"], key=lambda m: -len(m[1])):
        parent = at(n, m[1])
        kids = parent.getAllChildren()
        same = [c for c in kids if c.tag == m[2]]
        if not same:
            continue
        first = kids.index(same[0])
        others = [c for c in kids if c.tag != m[2]]
        new = []
        for i in range(m[3]):
            c = clone(same[i % len(same)])
            if i >= len(same):
                # a further list entry: give it its own key (jid / id) so that it is a different entry
                for ni, (_p, nn) in enumerate(walk(c)):
                    for k in ("jid", "id", "participant"):
                        v = nn.attributes.get(k)
                        if isinstance(v, str) and "@" in v:
                            # (unique per copy AND per node inside the copy: two participants of one copied group must stay two)
                            nn.attributes[k] = "%d%02d%s" % (7000000 + i, ni % 100, v[v.index("@") - 4:] if v.index("@") >= 4 else v[v.index("@"):])
                        elif isinstance(v, str) and v:
                            nn.attributes[k] = v + str(i)
                    d0 = nn.getData()
                    if isinstance(d0, bytes) and d0 and not nn.getAllChildren() and _texty(d0):
                        nn.data = d0 + str(i).encode()
            new.append(c)
        parent.children = others[:first] + new + others[first:]
    for m in muts:
        try:
            if m[0] == "set":
                old = at(n, m[1]).attributes.get(m[2])
                at(n, m[1]).attributes[m[2]] = m[3]
                if old is not None:
                    # the same value under the same name elsewhere in the stanza is the same field (e.g. <retry id=…>)
                    for _p, nn in walk(n):
                        if nn.attributes.get(m[2]) == old:
                            nn.attributes[m[2]] = m[3]
            elif m[0] == "del":
                at(n, m[1]).attributes.pop(m[2], None)
            elif m[0] == "data":
                at(n, m[1]).data = bytes.fromhex(m[2])
        except IndexError:
            pass
    return n


def canon(n):
    """canonical comparable form: numbers by value, data as bytes, children as a sorted multiset"""
    attrs = {}
    for k, v in n.attributes.items():
        if v is None:
            continue
        sv = v.decode("latin-1") if isinstance(v, bytes) else str(v)
        attrs[k] = ("n", int(sv)) if NUM.match(sv) else ("s", sv)
    d = n.getData()
    if d is not None and not isinstance(d, bytes):
        d = str(d).encode("latin-1", "replace")
    return (n.tag, tuple(sorted(attrs.items())), d, tuple(sorted((canon(c) for c in n.getAllChildren()), key=repr)))


def first_diff(a, b, path="/"):
    """human-readable first difference between two stanzas (a = original, b = reproduced)"""
    if a.tag != b.tag:
        return "tag-changed", "%s tag %s -> %s" % (path, a.tag, b.tag)
    ca, cb = canon(a), canon(b)
    da, db = dict(ca[1]), dict(cb[1])
    for k in sorted(set(da) | set(db)):
        if k not in db:
            return "attr-lost:" + k, "%s%s attribute %s=%r is lost" % (path, a.tag, k, a.attributes[k])
        if k not in da:
            return "attr-added:" + k, "%s%s attribute %s=%r appears" % (path, a.tag, k, b.attributes[k])
        if da[k] != db[k]:
            return "attr-altered:" + k, "%s%s attribute %s: %r -> %r" % (path, a.tag, k, a.attributes[k], b.attributes[k])
    if ca[2] != cb[2]:
        return "data-altered", "%s%s content %r -> %r" % (path, a.tag, a.getData(), b.getData())
    ka, kb = a.getAllChildren(), b.getAllChildren()
    if len(ka) != len(kb):
        return "children-count:%s" % a.tag, "%s%s has %d children %s, reproduced with %d %s" % (path, a.tag, len(ka), [c.tag for c in ka], len(kb), [c.tag for c in kb])
    if ca[3] != cb[3]:
        sa, sb = sorted(ka, key=lambda c: repr(canon(c))), sorted(kb, key=lambda c: repr(canon(c)))
        for x, y in zip(sa, sb):
            if canon(x) != canon(y):
                return first_diff(x, y, path + a.tag + "/")
    return None


def diff_tolerant(s, s2):
    """first difference, not counting attributes the class fills in"""
    d = first_diff(s, s2)
    while d and d[0].startswith("attr-added:"):
        s = _with_added(s, s2, set([d[0].split(":", 1)[1]]))
        d = first_diff(s, s2)
    return d


def run_outgoing(chk, case):
    import random
    fails = []
    r = random.Random(case["seed"])
    entry = outgoing_entities(r)[case["index"]]
    name, mk = entry[0], entry[1]
    expect = entry[2] if len(entry) > 2 else {}
    chk.hit("outgoing:" + name.split(":")[0])
    what = "outgoing %s (seed %d)" % (name, case["seed"])
    try:
        ent = mk()
        s2 = ent.toProtocolTreeNode()
    except Exception as e:
        fails.append(oracle("C09:outgoing:%s:serialise-raises" % name, "%s: %s: %s" % (what, type(e).__name__, str(e)[:120])))
        return fails
    # the stanza carries what the entity was built with ...
    if callable(expect):
        bad = expect(s2)
        if bad:
            fails.append(oracle("C09:outgoing:%s:field-not-in-stanza:%s" % (name, bad[0]), "%s: built with %s=%r, the stanza has %s=%r" % (what, bad[0], bad[1], bad[0], bad[2])))
            return fails
        expect = {}
    for k, v in sorted(expect.items()):
        if s2[k] != v:
            fails.append(oracle("C09:outgoing:%s:field-not-in-stanza:%s" % (name.split(":")[0], k), "%s: built with %s=%r, the stanza has %s=%r" % (what, k, v, k, s2[k])))
            return fails
    # ... and the library's own stanza read back (same class) and serialised again is the same stanza
    d3 = None
    if name.startswith("message"):          # message classes serve both directions; request / receipt classes that only ever leave are not read back
        try:
            s3 = type(ent).fromProtocolTreeNode(clone(s2)).toProtocolTreeNode()
            d3 = first_diff(s2, s3)
        except Exception as e:
            d3 = ("read-back-raises", "%s: %s" % (type(e).__name__, str(e)[:100]))
    if d3:
        fails.append(oracle("C09:outgoing:%s:%s" % (name.split(":")[0], d3[0]), "%s: stanza -> entity -> stanza: %s" % (what, d3[1])))
        return fails
    return fails + codec_check(chk, "outgoing:" + name, what, s2)


# (name, payload schema, mediatype attribute, type attribute): the message stanzas the protocol layers turn into entities
MSG_KINDS = [("conversation", None, None, "text"), ("extendedtext", "extendedtext", None, "text"), ("url", "extendedtext", "url", "media"),
             ("image", "image", "image", "media"), ("sticker", "sticker", "sticker", "media"), ("audio", "audio", "audio", "media"), ("ptt", "audio", "ptt", "media"),
             ("video", "video", "video", "media"), ("gif", "video", "gif", "media"), ("location", "location", "location", "media"),
             ("contact", "contact", "contact", "media"), ("document", "document", "document", "media")]


def run_incoming_message(chk, case):
    """an incoming <message> stanza (as it leaves the encryption layer) with a generated payload through the REAL messages / media protocol
    layer; the entity the layer hands to the application is serialised again: envelope attributes and payload (parsed, presence-aware) must be kept"""
    import random
    from corr import c10
    from lib import payloadspec as ps
    from lib.probes import sandwich
    from yowsup.structs import ProtocolTreeNode as N
    from yowsup.layers.protocol_messages import YowMessagesProtocolLayer
    from yowsup.layers.protocol_media import YowMediaProtocolLayer
    from yowsup.layers.axolotl.protocolentities.message_encrypted import EncryptedMessageProtocolEntity  # noqa: F401 (import check)
    from yowsup.layers.protocol_messages.proto.e2e_pb2 import Message
    fails = []
    r = random.Random(case["seed"])
    req = c10.required_fields(chk)
    kind, sub, mt, typ = [k for k in MSG_KINDS if k[0] == case["kind"]][0]
    mspec = {p: ["none"] for p, _t in ps.flat_fields("message")}
    if sub is None:
        mspec["conversation"] = ["val", r.randrange(1 << 20)]
    else:
        field = [p for p, t in ps.flat_fields("message") if t == "sub:" + sub][0]
        sp = c10.gen_spec(r, sub, 1, req)
        if sub == "document":
            sp["file_length"] = list(sp["dl.file_length"])      # C10's recorded finding (aliased field) is not this check's subject
        mspec[field] = ["sub", sp]
    what = "incoming %s message (seed %d%s)" % (kind, case["seed"], ", group" if case["group"] else "")
    try:
        data = ps.to_proto("message", c10.build_obj("message", mspec)).SerializeToString()
    except Exception:
        return fails            # composing is C10's subject
    attrs = {"id": "%X" % r.randrange(1 << 60), "t": str(r.randint(1, 2 * 10 ** 9)), "type": typ}
    if case["group"]:
        attrs["from"] = "49%d-%d@g.us" % (r.randint(10 ** 6, 10 ** 10), r.randint(10 ** 9, 2 * 10 ** 9))
        attrs["participant"] = "49%d@s.whatsapp.net" % r.randint(10 ** 6, 10 ** 10)
    else:
        attrs["from"] = "49%d@s.whatsapp.net" % r.randint(10 ** 6, 10 ** 10)
    if r.random() < 0.8:
        attrs["notify"] = r.choice(["Bob", "caf\xe9", "x" * 40, "a b", ""])
    if r.random() < 0.5:
        attrs["offline"] = r.choice(["0", "1"])         # a flag in the documented shape
    st = N("message", attrs, [N("proto", {"mediatype": mt} if mt else {}, data=data)])
    layer = (YowMediaProtocolLayer if typ == "media" else YowMessagesProtocolLayer)()
    _stack, bottom, top = sandwich(layer)
    chk.hit("incoming-message:" + kind)
    try:
        layer.receive(clone(st))
    except Exception as e:
        fails.append(oracle("C09:incoming-message:%s:raises" % kind, "%s: the protocol layer raises %s: %s" % (what, type(e).__name__, str(e)[:100])))
        return fails
    if len(top.received) != 1:
        fails.append(oracle("C09:incoming-message:%s:entities" % kind, "%s: %d entities reached the application (and %d stanzas were sent down)" % (what, len(top.received), len(bottom.sent))))
        return fails
    try:
        s2 = top.received[0].toProtocolTreeNode()
    except Exception as e:
        fails.append(oracle("C09:incoming-message:%s:serialise-raises" % kind, "%s: the entity cannot be serialised again: %s: %s" % (what, type(e).__name__, str(e)[:100])))
        return fails
    a1 = dict(st.attributes)
    a2 = dict(s2.attributes)
    if a1.get("notify") == "" and "notify" not in a2:
        a1.pop("notify")
    for k in sorted(set(a1) | set(a2)):
        if k not in a1 and k == "offline" and a2[k] == "0":
            continue            # the entity fills in the default of an absent flag: nothing lost or altered (same rule as for the fixtures)
        if a1.get(k) != a2.get(k):
            fails.append(oracle("C09:incoming-message:%s:attr:%s" % (kind, k), "%s: stanza -> entity -> stanza: attribute %s was %r, comes back as %r" % (what, k, a1.get(k), a2.get(k))))
            return fails
    p2 = s2.getChild("proto")
    if p2 is None or p2.attributes != st.getChild("proto").attributes:
        fails.append(oracle("C09:incoming-message:%s:proto-node" % kind, "%s: the payload node comes back as %s" % (what, p2)))
        return fails
    m1, m2 = Message(), Message()
    m1.ParseFromString(data)
    m2.ParseFromString(bytes(p2.getData()))
    if m1 != m2:
        diff = [f.name for f in Message.DESCRIPTOR.fields if m1.HasField(f.name) != m2.HasField(f.name) or getattr(m1, f.name) != getattr(m2, f.name)]
        detail = ""
        if diff:
            x1, x2 = getattr(m1, diff[0]), getattr(m2, diff[0])
            if hasattr(x1, "DESCRIPTOR"):
                inner = [f.name for f in x1.DESCRIPTOR.fields if f.label != f.LABEL_REPEATED and (x1.HasField(f.name) != x2.HasField(f.name) or getattr(x1, f.name) != getattr(x2, f.name))]
                detail = "; in %s: %s" % (diff[0], ", ".join("%s %r -> %r" % (n, getattr(x1, n) if x1.HasField(n) else None, getattr(x2, n) if x2.HasField(n) else None) for n in inner[:3]))
        fails.append(oracle("C09:incoming-message:%s:payload" % kind, "%s: stanza -> entity -> stanza changes the payload (fields %s%s)" % (what, diff, detail[:300])))
    return fails


def run_case(chk, stream, case):
    if stream == "outgoing":
        return run_outgoing(chk, case)
    if stream == "incoming-message":
        return run_incoming_message(chk, case)
    fails = []
    name = case["cls"]
    cls, base, src = chk.fixtures[name]
    s = apply(base, case["muts"])
    chk.hit("class:" + name.split(":")[0])
    what = "class %s, %s" % (name, "documented example" if not case["muts"] else "variation %s" % case["muts"])
    try:
        ent = cls.fromProtocolTreeNode(clone(s))
    except Exception as e:
        chk.hit("from:rejects")
        if not case["muts"] and cls.__name__ in chk.incoming:
            fails.append(oracle("C09:%s:example-rejected" % name, "%s: fromProtocolTreeNode raises %s: %s" % (what, type(e).__name__, str(e)[:100])))
        return fails          # a variation the class does not accept is outside its documented shape
    try:
        s2 = ent.toProtocolTreeNode()
    except Exception as e:
        chk.hit("to:raises")
        if cls.__name__ in chk.incoming or "from" not in base.attributes:
            fails.append(oracle("C09:%s:serialise-raises" % name, "%s: the entity built from the stanza cannot be serialised again: %s: %s" % (what, type(e).__name__, str(e)[:100])))
        return fails
    incoming = cls.__name__ in chk.incoming
    chk.hit("scope:" + ("incoming" if incoming else "outgoing-only"))
    # the entity CARRIES the fields: reading it (printing it, as the demos and the logger layer do) and serialising it again gives the same stanza
    try:
        str(ent)
    except Exception:
        chk.hit("str:raises")
    try:
        s3 = ent.toProtocolTreeNode()
        d3 = first_diff(s2, s3)
    except Exception as e:
        d3 = ("second-serialisation-raises", "%s: %s" % (type(e).__name__, str(e)[:100]))
    if d3:
        fails.append(oracle("C09:%s:read-once:%s" % (name.split("#")[0], d3[0]), "%s: after the entity was printed, serialising it a second time gives a different stanza: %s" % (what, d3[1])))
        return fails
    d = first_diff(s, s2) if incoming else None
    deleted = set(m[2] for m in case["muts"] if m[0] == "del")
    if deleted and any(v is None for _p, nn in walk(s2) for v in nn.attributes.values()):
        return fails        # an attribute the class requires was removed: outside the documented shape
    while d and d[0].startswith("attr-added:"):
        # the class fills in an attribute the stanza did not have (generated id, default flag): nothing was lost or altered
        chk.hit("roundtrip:fills-in-absent-attr")
        s = _with_added(s, s2, set([d[0].split(":", 1)[1]]))
        d = first_diff(s, s2)
    if d:
        chk.hit("roundtrip:differs")
        fails.append(oracle("C09:%s:%s" % (name.split("#")[0], d[0]), "%s: stanza -> entity -> stanza: %s" % (what, d[1])))
    else:
        chk.hit("roundtrip:same")
    # ---- the produced stanza and the binary codec: for stanzas the client sends
    if "from" in base.attributes or s2.tag in ("success", "failure", "stream:error", "stream:features", "ib", "challenge"):
        return fails
    return fails + codec_check(chk, name, what, s2)


def codec_check(chk, name, what, s2):
    fails = []
    chk.hit("codec:checked")
    try:
        t = trees.from_node(s2)
    except Exception as e:
        fails.append(oracle("C09:%s:not-codec-ready" % name, "%s: the produced stanza cannot go through the codec: %s" % (what, str(e)[:120])))
        return fails
    nonstr = [(k, v) for (_tg, attrs, _d, _k) in _flat(t) for k, v in attrs if not isinstance(v, str) or not isinstance(k, str)]
    frame, err = c01.impl_encode(chk, t)
    if not nonstr:
        try:
            line = trees.to_line(t)
        except Exception:
            chk.hit("codec:not-latin1")
            return fails
        model = chk.driver.ask("coder enc " + line)
        impl = "refused" if frame is None else c01.hx(frame)
        if impl != model:
            fails.append(corr("encode", "%s: produced stanza %s: impl=%s%s model=%s" % (what, line[:100], impl[:60], " (%s)" % err if err else "", model[:60])))
    else:
        chk.hit("codec:non-string-attribute")
        t = _stringify(t)
    if frame is None:
        fails.append(oracle("C09:%s:codec-refuses" % name, "%s: the codec refuses the produced stanza: %s" % (what, err)))
        return fails
    ik, iv = c01.impl_decode(chk, frame)
    if ik != "ok" or not trees.equal_unordered(iv, t):
        fails.append(oracle("C09:%s:codec-alters" % name, "%s: the produced stanza does not survive the codec: %s" % (what, str(iv)[:120])))
    else:
        chk.hit("codec:unchanged")
    return fails


def _stringify(t):
    tag, attrs, data, kids = t
    return (tag, [(k, v if isinstance(v, str) else str(v)) for k, v in attrs], data, [_stringify(k) for k in kids])


def _with_added(a, b, names):
    """copy of `a` in which attributes named in `names` that `b` has (at the same place) and `a` lacks are taken over from `b`"""
    a2 = clone(a)

    def rec(x, y):
        for k in names:
            if k not in x.attributes and k in y.attributes:
                x.attributes[k] = y.attributes[k]
        xs, ys = x.getAllChildren(), y.getAllChildren()
        if len(xs) == len(ys):
            for cx, cy in zip(xs, ys):
                if cx.tag == cy.tag:
                    rec(cx, cy)
    rec(a2, b)
    return a2


def _flat(t):
    yield t
    for k in t[3]:
        for x in _flat(k):
            yield x
