"""C01  Stanza codec round-trip — correspondence of Model/Coder.lean with the real WriteEncoder /
ReadDecoder / YowCoderLayer and the round-trip oracle on the real code."""
import boot  # noqa: F401
from core import corr, oracle
from lib import refcodec, trees
from lib.probes import sandwich, harvest_ints, harvest_strs
from lib.trees import Gen, to_line, to_node, from_node, to_json, from_json, hx

PID = "C01"
GEN = ["tokendict", "nibsrc"]
LEAN_MODULES = ["YowsupVerif.Props.C01", "YowsupVerif.Props.C01Src"]
RULE = ("streams: 'roundtrip' = well-formed trees (property's domain) from a structured generator (dictionary tokens of both tables, "
        "digit/nibble/hex strings of every length 1..255 and around 127/128/255/256, JIDs with 1-3 '@', Latin-1 text, literals harvested "
        "from the current source ±1 as sizes/strings; binary content sizes around 0/255/256/0xFFFFF/0x100000 top-level and nested, with and "
        "without following siblings; list sizes 0,1,255,256,300,65535,65536) -> real YowCoderLayer.send then .receive, strict comparison; "
        "encoder bytes and decoder result are also compared with the Lean model. 'tokens' = every dictionary entry as tag / attribute value / "
        "JID part. 'packed' = every length 1..255 of digit, nibble and hex strings. 'nonwf' = trees outside the domain (model-vs-code only). "
        "'malformed' = mutated/truncated frames (accept/reject class and result compared). distinct = distinct canonical tree line / frame.")
ASSUMPTIONS = ["CPython list/bytearray/dict semantics", "equality of trees is strict structural equality with attributes compared as a mapping"]
SRC = ["yowsup/layers/coder/encoder.py", "yowsup/layers/coder/decoder.py"]


def setup(chk):
    from yowsup.layers.coder import YowCoderLayer
    chk.lits = sorted(harvest_ints(SRC))
    chk.strs = sorted(harvest_strs(SRC))
    chk.coder = YowCoderLayer()
    chk.stack, chk.bottom, chk.top = sandwich(chk.coder)
    chk.gen = Gen(chk.rng, chk.lits, chk.strs)


# ------------------------------------------------------------------------------- cases

def _big_cases(quick):
    out = []
    for n in ((0x100000,) if quick else (0xFFFFF, 0x100000, 0x100001)):
        big = ("enc", [("type", "pkmsg")], bytes([7]) * n, [])
        out.append(("message", [("id", "abc")], None, [big]))                                 # nested, last
        out.append(("message", [("id", "abc")], None, [big, ("after", [("k", "v")], None, [])]))  # nested, followed by a sibling
        out.append(big)                                                                       # top-level
    out.append(("message", [("v", "z" * 0x100000), ("after", "1")], None, []))               # >= 1 MiB string followed by more
    out.append(("message", [("v", "z" * 300), ("w", "y" * 0xFFFFF)], None, []))
    return out


def _list_cases():
    out = []
    for n in (255, 256, 300):
        out.append(("list", [], None, [("item", [], None, []) for _ in range(n)]))
    for n in (127, 128, 200):
        out.append(("n", [("k%d" % i, "v%d" % i) for i in range(n)], None, []))
    return out


def cases(chk):
    r = chk.rng
    g = chk.gen
    # --- the translator of the digit packing functions (gen/nibsrc.py) against the real functions: every argument around the alphabets
    yield "nibsrc", {}
    # --- corpus: past failures / boundaries (always first)
    for t in _big_cases(chk.quick()):
        yield "roundtrip", {"tree": to_json(t)}
    for t in _list_cases():
        yield "roundtrip", {"tree": to_json(t)}
    # list sizes around 2^15 (a 16-bit size read as a signed number turns negative there): children, and attributes (list size 2n + 1)
    for nk in ((32768,) if chk.quick() else (32767, 32768, 40000)):
        yield "roundtrip", {"tree": to_json(("list", [], None, [("i", [], None, [])] * nk))}
    for na in ((16384,) if chk.quick() else (16383, 16384)):
        yield "roundtrip", {"tree": to_json(("n", [("k%d" % i, "v") for i in range(na)], b"tail", []))}
    if not chk.quick():   # ~45 s: the real decoder's data.pop(0) is quadratic in the frame size
        yield "roundtrip", {"tree": to_json(("list", [], None, [("i", [], None, [])] * 65535))}
    # 8 MiB and more: bit 23 of a length
    for n in ((0x800000, 0xC00007) if chk.quick() else (0x7FFFFF, 0x800000, 0x800001, 0xC00007, 0xFFFF00)):
        for where in ("content", "attr", "nested"):
            yield "giant", {"size": n, "where": where}
    yield "listlimit", {"kids": 65536}
    yield "listlimit", {"kids": 65537}
    yield "listlimit", {"attrs": 32768}
    # the former known finding (reserved words inside JIDs), and the strings that used to be outside the domain: corpus
    for w in ("xmlstreamstart@s.whatsapp.net", "1234@xmlstreamend", "a@xmlstreamstart@b", "xmlstreamstart", "xmlstreamend", "", "a@", "@", "@@"):
        yield "reserved-jid", {"tree": to_json(("iq", [("to", w)], None, []))}
        yield "reserved-jid", {"tree": to_json(("iq", [(w, "v")], None, [(w or "x", [], None, [])]))}
    # --- every dictionary token, in three positions
    toks = g.tokens
    step = 40
    for i in range(0, len(toks), step):
        ws = toks[i:i + step]
        t = ("tokens", [], None, [(w, [("k", w), ("j", "12@" + w), ("u", w + "@g.us")], None, []) for w in ws])
        yield "tokens", {"tree": to_json(t)}
    # --- packed strings of every length
    for al, name in (("0123456789", "digits"), ("0123456789-.", "nibble"), ("0123456789ABCDEF", "hex")):
        for lo in range(1, 256, 32):
            vals = ["".join(r.choice(al) for _ in range(n)) for n in range(lo, min(lo + 32, 256))]
            t = (name, [], None, [("p", [("v", v), ("j", v + "@s.whatsapp.net")], None, []) for v in vals] + [(vals[0], [], None, [])])
            yield "packed", {"tree": to_json(t)}
    # --- random structured trees
    n = chk.scale(1200, 30000)
    for i in range(n):
        if not chk.time_left():
            break
        t = g.tree()
        yield ("roundtrip" if trees.wf(t) else "nonwf"), {"tree": to_json(t)}
    for i in range(chk.scale(1, 12)):
        nbytes = r.choice([0xFFFFF, 0x100000, 0x100001, 0x100000 + r.randint(2, 70000)])
        t = g.tree(big=(r.choice([0, 1, 2]), nbytes))
        yield ("roundtrip" if trees.wf(t) else "nonwf"), {"tree": to_json(t)}
    # --- non-well-formed on purpose
    for i in range(chk.scale(150, 3000)):
        t = list(g.tree())
        k = r.random()
        if k < 0.3:
            t[2] = g.payload(r.choice([0, 1, 5]))
            t[3] = [g.tree(3)]
        elif k < 0.6:
            t[1] = t[1] + [(g.string("text") + "@", r.choice(["", "a@", "@", "@a", "xmlstreamend", "xmlstreamstart"]))]
        else:
            t[0] = r.choice(["", "@", "a@", "xmlstreamstart", "xmlstreamend", "a@@", "@b"])
        yield "nonwf", {"tree": to_json(tuple(t))}
    # --- malformed frames
    for i in range(chk.scale(600, 15000)):
        t = g.tree()
        try:
            fr, _h = refcodec.encode(t, r)
        except Exception:
            continue
        if len(fr) > 3000:
            continue
        fr = bytearray(fr)
        k = r.random()
        if k < 0.4:
            for _ in range(r.choice([1, 1, 2])):
                fr[r.randrange(len(fr))] = r.choice([0, 1, 2, 3, 236, 239, 240, 247, 248, 249, 250, 251, 252, 253, 254, 255, r.randrange(256)])
        elif k < 0.7:
            fr = fr[:r.randrange(1, len(fr) + 1)]
        elif k < 0.85:
            fr.insert(r.randrange(len(fr)), r.randrange(256))
        else:
            fr[0] = r.choice([1, 3, 4, 5, 8])
        yield "malformed", {"frame": bytes(fr).hex()}


def nontrivial(stream, case):
    if "tree" in case:
        return (stream, to_line(from_json(case["tree"]))[:20000])
    return (stream, repr(case))


# ------------------------------------------------------------------------------- running

def impl_encode(chk, t):
    del chk.bottom.sent[:]
    try:
        chk.coder.send(to_node(t))
    except Exception as e:
        _unlock(chk)
        return None, "%s: %s" % (type(e).__name__, str(e)[:80])
    if len(chk.bottom.sent) != 1:
        return None, "writes=%d" % len(chk.bottom.sent)
    return bytes(chk.bottom.sent[0]), None


def _unlock(chk):
    # the pinned YowLayer.toLower leaks its lock when the lower layer raises (that is C12's subject);
    # keep this check's single-threaded harness usable
    if chk.coder.lock.locked():
        chk.coder.lock.release()


def impl_decode(chk, frame):
    del chk.top.received[:]
    try:
        chk.coder.receive(frame)
    except Exception as e:
        return "err", "%s: %s" % (type(e).__name__, str(e)[:80])
    if not chk.top.received:
        return "err", "nothing delivered"
    try:
        return "ok", from_node(chk.top.received[0])
    except trees.HasNone:
        return "err", "None inside tree"
    except TypeError as e:
        return "err", str(e)


def model_decode(chk, frame):
    out = chk.driver.ask("coder dec %s" % hx(frame))
    if out.startswith("ok "):
        return "ok", out[3:]
    return "err", out


def classify(t):
    def strings(t):
        yield t[0]
        for k, v in t[1]:
            yield k
            yield v
        for c in t[3]:
            for s in strings(c):
                yield s
    sizes = []

    def walk(t):
        if t[2] is not None:
            sizes.append(len(t[2]))
        for c in t[3]:
            walk(c)
    walk(t)
    hits = []
    for s in strings(t):
        if "@" in s:
            hits.append("str:jid")
        elif s in refcodec.P_INDEX:
            hits.append("str:token1")
        elif s in refcodec.S_INDEX:
            hits.append("str:token2")
        elif len(s) < 128 and all(c in "0123456789-." for c in s):
            hits.append("str:nibble-%s" % ("odd" if len(s) % 2 else "even"))
        elif len(s) < 128 and all(c in "0123456789ABCDEF" for c in s):
            hits.append("str:hex-%s" % ("odd" if len(s) % 2 else "even"))
        elif len(s) < 256:
            hits.append("str:raw8")
        elif len(s) < 0x100000:
            hits.append("str:raw20")
        else:
            hits.append("str:raw31")
    for n in sizes:
        hits.append("data:8" if n < 256 else "data:20" if n < 0x100000 else "data:31")
    return hits


def run_giant(chk, case):
    """strings and contents of 8 MiB and more (up to the 16 MiB frame limit): the real encoder and decoder only (the frames are too large to be
    shipped to the model driver as hex lines; the model's theorem has no size bound and its length arithmetic is compared on the smaller sizes)"""
    from yowsup.structs import ProtocolTreeNode as N
    n, where = case["size"], case["where"]
    blob = bytes([0x41 + n % 23]) * n
    if where == "content":
        node = N("enc", {"type": "msg"}, None, blob)
    elif where == "nested":
        node = N("message", {"id": "g1"}, [N("enc", {"type": "msg"}, None, blob), N("after", {"k": "v"})])
    else:
        node = N("message", {"v": blob.decode("latin-1"), "after": "1"})
    chk.hit("giant:%s:%dMiB" % (where, n >> 20))
    del chk.bottom.sent[:]
    try:
        chk.coder.send(node)
    except Exception as e:
        _unlock(chk)
        return [oracle("C01:giant:encode-raises", "%s of %d bytes: the encoder refuses it: %s: %s" % (where, n, type(e).__name__, str(e)[:80]))]
    frame = bytes(chk.bottom.sent[0])
    del chk.top.received[:]
    try:
        chk.coder.receive(frame)
        back = chk.top.received[0]
    except Exception as e:
        return [oracle("C01:giant:decode-raises", "%s of %d bytes (frame of %d bytes): decoding the encoder's own output raises %s: %s" % (where, n, len(frame), type(e).__name__, str(e)[:80]))]

    def shape(x):
        return (x.tag, sorted((k, len(v), v[:4], v[-4:]) for k, v in x.attributes.items()), None if x.getData() is None else (len(x.getData()), bytes(x.getData()[:4]), bytes(x.getData()[-4:])),
                [shape(c) for c in x.getAllChildren()])
    if shape(back) != shape(node) or (where == "content" and bytes(back.getData()) != blob):
        return [oracle("C01:giant:differs", "%s of %d bytes (%#x): encoded and decoded again it comes back as %s" % (where, n, n, str(shape(back))[:200]))]
    return []


def run_nibsrc(chk):
    """the real packing functions of the current source and their TRANSLATION (Gen/NibblesSrc.lean, evaluated by the model driver) on every argument
    from -2 to 300 — validates the translator; the theorems of Props/C01Src.lean are about the translated text"""
    from yowsup.layers.coder.decoder import ReadDecoder
    from yowsup.layers.coder.encoder import WriteEncoder
    from yowsup.layers.coder.tokendictionary import TokenDictionary
    fails = []
    enc, dec = WriteEncoder(TokenDictionary()), ReadDecoder(TokenDictionary())

    def real(fn, *a):
        try:
            v = fn(*a)
        except Exception:
            return "raised"
        return "none" if v is None else "ret %d" % v
    for n in range(-2, 301):
        for name, fn in (("packHex", enc.packHex), ("packNibble", enc.packNibble), ("unpackHex", dec.unpackHex), ("unpackNibble", dec.unpackNibble)):
            i, m = real(fn, n), chk.driver.ask("coder nibsrc %s %d" % (name, n))
            chk.hit("nibsrc:" + name, i.split()[0])
            if i != m:
                fails.append(corr("nibsrc:" + name, "%s(%d): the source returns %s, its translation %s" % (name, n, i, m)))
                return fails
        for t in (251, 255, 250, 0):
            for name, fn in (("packByte", enc.packByte), ("unpackByte", dec.unpackByte)):
                i, m = real(fn, t, n), chk.driver.ask("coder nibsrc %s %d %d" % (name, t, n))
                if i != m:
                    fails.append(corr("nibsrc:" + name, "%s(%d, %d): the source returns %s, its translation %s" % (name, t, n, i, m)))
                    return fails
    # the integer writers and the list header: values around every byte / field boundary and integer literals of the encoder's source +-1
    from lib.probes import harvest_ints
    vals = set([0, 1, 2, 15, 16, 127, 128, 255, 256, 257, 4095, 4096, 65535, 65536, 65537, 0xABCDE, 0xFFFFF, 0x100000, 0x100001, 0xFFFFFF, 0x1000000,
                0x7FFFFFFF, 0x80000000, 0x80000001, 0xFFFFFFFF, 0x123456789])
    for v in harvest_ints(["yowsup/layers/coder/encoder.py"]):
        vals.update(x for x in (v - 1, v, v + 1) if 0 <= x < 1 << 40)
    for k in range(200):
        vals.add(chk.rng.randrange(1 << chk.rng.choice([8, 12, 16, 20, 24, 31, 33])))

    def wrote(fn, v):
        buf = []
        try:
            fn(v, buf)
        except Exception:
            return "raised"
        return "wrote " + ",".join(str(b) for b in buf)
    for v in sorted(vals):
        for name in ("writeInt8", "writeInt16", "writeInt20", "writeInt24", "writeInt31", "writeListStart", "writeToken"):
            i, m = wrote(getattr(enc, name), v), chk.driver.ask("coder nibsrc w %s %d" % (name, v))
            chk.hit("nibsrc:" + name, i.split()[0])
            if i != m:
                fails.append(corr("nibsrc:" + name, "%s(%d): the source appends %s, its translation %s" % (name, v, i, m)))
                return fails
    # the integer readers and the list size: byte lists of every short length, bytes at the field boundaries
    def readr(fn, args, bs):
        buf = list(bs)
        try:
            v = fn(*(args + [buf]))
        except Exception:
            return "raised"
        if not isinstance(v, int):
            return "raised"
        return "ret %d %s" % (v, bytes(buf).hex() if buf else "-")
    edge = [0, 1, 15, 16, 127, 128, 255]
    lists = [[]]
    for ln in range(1, 6):
        for _ in range(14):
            lists.append([chk.rng.choice(edge) if chk.rng.random() < 0.6 else chk.rng.randrange(256) for _ in range(ln)])
    for bs in lists:
        for name in ("readInt8", "readInt16", "readInt20", "readInt24", "readInt31"):
            i, m = readr(getattr(dec, name), [], bs), chk.driver.ask("coder nibsrc r %s 0 %s" % (name, bytes(bs).hex() if bs else "-"))
            chk.hit("nibsrc:" + name, i.split()[0])
            if i != m:
                fails.append(corr("nibsrc:" + name, "%s(%s): the source gives %s, its translation %s" % (name, bs, i, m)))
                return fails
        for tok in (0, 248, 249, 250, 1, 255):
            i, m = readr(dec.readListSize, [tok], bs), chk.driver.ask("coder nibsrc r readListSize %d %s" % (tok, bytes(bs).hex() if bs else "-"))
            if i != m:
                fails.append(corr("nibsrc:readListSize", "readListSize(%d, %s): the source gives %s, its translation %s" % (tok, bs, i, m)))
                return fails
    # the property on the real functions: what is packed unpacks to the same character
    for t in (251, 255):
        for c in range(0, 256):
            d = enc.packByte(t, c)
            if d != -1 and (not (0 <= d < 16) or real(dec.unpackByte, t, d) != "ret %d" % c):
                fails.append(oracle("C01:digit-roundtrip", "packByte(%d, %d) = %r but unpackByte(%d, %r) gives %s" % (t, c, d, t, d, real(dec.unpackByte, t, d))))
                return fails
    return fails


def run_case(chk, stream, case):
    fails = []
    if stream == "nibsrc":
        return run_nibsrc(chk)
    if stream == "giant":
        return run_giant(chk, case)
    if stream == "malformed":
        frame = bytes.fromhex(case["frame"])
        ik, iv = impl_decode(chk, frame)
        mk, mv = model_decode(chk, frame)
        chk.hit("malformed:impl-%s" % ik)
        if ik != mk or (ik == "ok" and to_line(iv) != mv):
            fails.append(corr("malformed:decode", "frame %s: impl=%s %s model=%s %s" % (case["frame"][:80], ik, str(iv)[:100], mk, mv[:100])))
        return fails
    if stream == "listlimit":
        if "kids" in case:
            t = ("l", [], None, [("i", [], None, [])] * case["kids"])
        else:
            t = ("l", [("k%d" % i, "v") for i in range(case["attrs"])], None, [])
        wfree = False
    else:
        t = from_json(case["tree"])
        wfree = stream != "nonwf" and trees.wf(t)
    for h in set(classify(t)):
        chk.hit(h)
    chk.hit("wf" if wfree else "non-wf")
    frame, err = impl_encode(chk, t)
    model = chk.driver.ask("coder enc " + to_line(t))
    impl = "refused" if frame is None else hx(frame)
    if impl != model:
        fails.append(corr("%s:encode" % stream, "tree %s: impl=%s%s model=%s" % (to_line(t)[:120], impl[:60], " (%s)" % err if err else "", model[:60])))
    if frame is None:
        chk.hit("encode-refused")
        if stream == "listlimit":
            return fails
        if wfree:
            fails.append(oracle("C01:encode-raises:" + err.split(":")[0], "well-formed tree %s is refused by the encoder: %s" % (to_line(t)[:160], err)))
        return fails
    ik, iv = impl_decode(chk, frame)
    mk, mv = model_decode(chk, frame)
    if ik != mk or (ik == "ok" and to_line(iv) != mv):
        fails.append(corr("%s:decode" % stream, "frame of %s: impl=%s %s model=%s %s" % (to_line(t)[:100], ik, str(iv)[:100], mk, mv[:100])))
    if wfree or stream in ("listlimit", "reserved-jid"):
        bad = None
        if ik != "ok":
            bad = "decoding the encoder's own output fails: %s" % (iv,)
        elif not trees.equal_unordered(iv, t):
            bad = "decoded tree differs from the encoded one: got %s" % to_line(iv)[:160]
        if bad:
            fails.append(oracle(_signature(stream, t, ik, iv), "tree %s (%d nodes, frame %d bytes): %s" % (to_line(t)[:160], trees.count_nodes(t), len(frame), bad)))
    return fails


def _signature(stream, t, ik, iv):
    if stream == "reserved-jid":
        return "C01:jid-component-is-reserved-word"      # 'fixed' in known_findings.json: suppresses nothing
    if stream == "listlimit":
        return "C01:list-size>=65536-silently-truncated"
    hs = set(classify(t))
    why = iv.split(":")[0] if ik != "ok" else "differs"
    if "data:31" in hs or "str:raw31" in hs:
        return "C01:31-bit-length:" + why
    return "C01:roundtrip:" + why


def shrink(stream, case):
    if "tree" not in case:
        return
    t = from_json(case["tree"])
    tag, attrs, data, kids = t
    for k in kids:
        yield {"tree": to_json(k)}
    for i in range(len(kids)):
        yield {"tree": to_json((tag, attrs, data, kids[:i] + kids[i + 1:]))}
    for i in range(len(attrs)):
        yield {"tree": to_json((tag, attrs[:i] + attrs[i + 1:], data, kids))}
    if data is not None and len(data) > 1 and len(data) not in (0x100000, 0x100, 0xFFFFF):
        yield {"tree": to_json((tag, attrs, data[:len(data) // 2], kids))}
    if len(tag) > 1 and tag != "x":
        yield {"tree": to_json(("x", attrs, data, kids))}
    for i, k in enumerate(kids):
        for sub in shrink(stream, {"tree": to_json(k)}):
            yield {"tree": to_json((tag, attrs, data, kids[:i] + [from_json(sub["tree"])] + kids[i + 1:]))}
            break
