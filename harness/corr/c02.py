"""C02  Wire-format conformance — the real encoder/decoder against an independent implementation of
the format (lib/refcodec.py, reference dictionary snapshot) and against the Lean model decoder."""
import random
import zlib

import boot  # noqa: F401
from core import corr, oracle
from lib import refcodec, trees
from lib.probes import harvest_ints, harvest_strs
from lib.trees import Gen, to_line, from_json, to_json, hx
from corr import c01

PID = "C02"
GEN = ["tokendict"]
LEAN_MODULES = ["YowsupVerif.Props.C02"]
RULE = ("streams: 'dict' = the live token dictionary compared entry by entry with the reference copy (1 case, 1260 entries; also a Lean "
        "theorem Gen.waDict = Ref.waDict by kernel evaluation); 'ref-decodes-lib' = well-formed trees (generator of C01) encoded by the real "
        "encoder and decoded by the independent reference decoder; 'lib-decodes-ref' = (tree, choice seed, deflate flag): the reference encoder "
        "picks among all permitted forms (8/16-bit list header, 8/20/31-bit length, literal vs token, packed vs raw, JID with/without user, "
        "string-valued node content, zlib frame) and the real decoder and the Lean model decoder must return the tree. "
        "distinct = distinct (tree line, choice seed, deflate).")
ASSUMPTIONS = ["zlib.decompress(zlib.compress(x)) == x", "reference dictionary = snapshot of the pinned commit (no second copy exists offline)",
               "lib/refcodec.py is the independent implementation of the format"]
SRC = c01.SRC


def setup(chk):
    c01.setup(chk)


def cases(chk):
    r = chk.rng
    g = chk.gen
    yield "dict", {}
    # corpus
    yield "lib-decodes-ref", {"tree": to_json(("message", [("to", "1234@s.whatsapp.net")], b"hello", [])), "seed": 1, "deflate": 0}
    yield "lib-decodes-ref", {"tree": to_json(("message", [("to", "1234@s.whatsapp.net")], b"1234", [])), "seed": 2, "deflate": 1}
    for s in range(12):
        yield "lib-decodes-ref", {"tree": to_json(("iq", [("id", "12345"), ("type", "get")], b"ABCDEF01", [])), "seed": s, "deflate": 0}
        yield "lib-decodes-ref", {"tree": to_json(("iq", [("id", "12-3.5")], b"99@g.us", [])), "seed": 100 + s, "deflate": 0}
    big = ("enc", [], bytes([1]) * 0x100000, [])
    yield "lib-decodes-ref", {"tree": to_json(("m", [], None, [big, ("z", [], None, [])])), "seed": 3, "deflate": 0}
    # the length forms change at 2^20 bytes: what the LIBRARY writes for contents and strings around and above 1 MiB, read by the reference decoder
    for n in ((0xFFFFF, 0x100000, 0x100005) if chk.quick() else (0xFFFFF, 0x100000, 0x100001, 0x100005, 0x300000, 0x7FFFFF, 0x800000)):
        yield "ref-decodes-lib", {"tree": to_json(("m", [("id", "b%d" % n)], None, [("enc", [], bytes([n % 251 + 1]) * n, []), ("z", [], None, [])]))}
        if n <= 0x100005:
            yield "ref-decodes-lib", {"tree": to_json(("m", [("v", "y" * n), ("after", "1")], None, []))}
    # list headers around every size boundary: integer literals of the current coder sources, +-1 (children count, and the node's own
    # list size 1 + 2*attributes + content)
    sizes = sorted(set(v + d for v in chk.lits for d in (-1, 0, 1) if 1 <= v + d <= (2000 if chk.quick() else 65535)) | {255, 256, 257})      # (lists of 65,536 and more are outside the format)
    for nk in sizes:
        t = ("list", [], None, [("item", [], None, [])] * nk)
        yield "ref-decodes-lib", {"tree": to_json(t)}
        yield "lib-decodes-ref", {"tree": to_json(t), "seed": r.randrange(1 << 30), "deflate": 0}
        if nk >= 3 and nk <= 2000:
            na = (nk - 1) // 2
            t = ("n", [("k%d" % i, "v%d" % i) for i in range(na)], b"x" if (nk - 1) % 2 else None, [])
            yield "ref-decodes-lib", {"tree": to_json(t)}
            yield "lib-decodes-ref", {"tree": to_json(t), "seed": r.randrange(1 << 30), "deflate": 0}
    # compressed frames (zlib flag) around every size boundary: a limit in the inflate path shows only for large inflated bodies
    # (round 33: a cap on the INFLATED size — a "decompression bomb guard" that cuts the body short instead of refusing it — shows only for bodies that
    # inflate beyond it: 1 MiB + 1 and 3 MiB also on the quick tier, and every integer literal of the current coder sources +-1 and +64 up to 12 MiB;
    # bodies above 1.5 MiB go to the real decoder only, not through the model driver's hex line)
    zl = sorted(set(v + d for v in chk.lits for d in (-1, 0, 1, 64) if (1 << 17) < v + d <= (12 << 20)))
    for nb in sorted(set([255, 256, 4095, 4096, 65535, 65536, 65537, 70000, (1 << 17) + 1, (1 << 20) + 1, 3 << 20] + zl[:12] + ([] if chk.quick() else [(1 << 20) - 1, 1 << 20, 5 << 20, (8 << 20) + 3]))):
        yield "lib-decodes-ref", dict({"tree": to_json(("m", [("id", "z%d" % nb)], bytes([nb % 251]) * nb, [])), "seed": nb, "deflate": 1}, **({"nomodel": 1} if nb > (3 << 19) else {}))
        if nb > (1 << 20):
            continue
        yield "lib-decodes-ref", {"tree": to_json(("m", [("id", "k%d" % nb)], None, [("c", [("i", str(i))], bytes([i % 251 + 1]) * (nb // 40 + 1), []) for i in range(40)])),
                                  "seed": nb + 1, "deflate": 1}
    # strings around the JID separator: empty user, empty server, several separators — as attribute value, attribute key, tag and string content
    for i, w in enumerate(["a@", "4915112345678@", "@", "@@", "a@@", "@a", "x@y@", "@s.whatsapp.net", "1@2@", "0@", "-@.", "@g.us"]):
        for t in (("iq", [("to", w)], None, []), ("iq", [(w, "v")], None, []), (w if w != "" else "x", [], None, []), ("m", [("id", "1")], w.encode(), [])):
            if trees.wf(t):
                yield "ref-decodes-lib", {"tree": to_json(t)}
                for s_ in range(6):
                    yield "lib-decodes-ref", {"tree": to_json(t), "seed": 7000 + 10 * i + s_, "deflate": 0}
    # the coder layer keeps ONE encoder for the life of the stack: an encode that fails half-way (a value the format cannot carry) must leave
    # nothing behind that ends up in the next frame
    for bad in ("int-attribute", "wide-character", "too-many-children", "none-data-kid", "int-attribute-late"):
        for t in (("iq", [("id", "77"), ("type", "get")], None, []), ("message", [("to", "1234@s.whatsapp.net")], None, [("body", [], b"hello", []), ("x", [], b"1", [])])):
            assert trees.wf(t)
            yield "ref-decodes-lib", {"tree": to_json(t), "pre_fail": bad}
    n = chk.scale(700, 20000)
    for i in range(n):
        if not chk.time_left():
            break
        t = g.tree()
        if not trees.wf(t):
            continue
        yield "ref-decodes-lib", dict({"tree": to_json(t)}, **({"pre_fail": r.choice(["int-attribute", "wide-character", "int-attribute-late"])} if i % 10 == 0 else {}))
        for _ in range(2):
            yield "lib-decodes-ref", {"tree": to_json(t), "seed": r.randrange(1 << 30), "deflate": 1 if r.random() < 0.2 else 0}
    if not chk.quick():
        # all choice seeds 0..63 for a set of small trees (dense coverage of the choice space)
        small = [("a", [("id", "1")], None, []), ("12", [("t", "0A")], b"7", []), ("x", [], None, [("y", [], b"", [])]),
                 ("1@2", [("k", "3@4@5")], b"9@8", [])]
        for t in small:
            for s in range(256):
                yield "lib-decodes-ref", {"tree": to_json(t), "seed": s, "deflate": s % 2}


def _failing_encode(chk, kind):
    """push a stanza the format cannot carry through the same (long-lived) coder layer; the error goes to the caller and is ignored here"""
    from yowsup.structs import ProtocolTreeNode as N
    if kind == "int-attribute":
        node = N("iq", {"id": "1", "t": 1500000002})
    elif kind == "int-attribute-late":
        node = N("message", {"to": "1234@s.whatsapp.net"}, [N("a", {"k": "v"}, None, b"payload"), N("b", {"n": 7})])
    elif kind == "wide-character":
        node = N("presence", {"name": u"caf\u0100"})
    elif kind == "none-data-kid":
        node = N("m", {"id": "9"}, [N("c", {"i": "1"}, None, b"abc"), N(None, {})])
    else:
        node = N("list", {}, [N("item", {})] * 65536)
    del chk.bottom.sent[:]
    try:
        chk.coder.send(node)
        chk.hit("pre-fail:%s:accepted" % kind)
    except Exception:
        chk.hit("pre-fail:%s:refused" % kind)
        c01._unlock(chk)
    del chk.bottom.sent[:]


def nontrivial(stream, case):
    if "tree" in case:
        return (stream, to_line(from_json(case["tree"]))[:20000], case.get("seed"), case.get("deflate"), case.get("pre_fail"))
    return (stream,)


def run_case(chk, stream, case):
    fails = []
    if stream == "dict":
        from yowsup.layers.coder.tokendictionary import TokenDictionary
        td = TokenDictionary()
        prim, sec = list(td.dictionary), list(td.secondaryDictionary)
        diffs = []
        for name, cur, ref in (("primary", prim, refcodec.PRIMARY), ("secondary", sec, refcodec.SECONDARY)):
            if len(cur) != len(ref):
                diffs.append("%s has %d entries, reference %d" % (name, len(cur), len(ref)))
            for i, (a, b) in enumerate(zip(cur, ref)):
                if a != b:
                    diffs.append("%s[%d]=%r, reference %r" % (name, i, a, b))
        if (td.FLAG_SEGMENTED, td.FLAG_DEFLATE) != (1, 2):
            diffs.append("flags %r" % ((td.FLAG_SEGMENTED, td.FLAG_DEFLATE),))
        chk.hit("dict-entries-compared=%d" % (len(prim) + len(sec)))
        if diffs:
            fails.append(oracle("C02:dictionary-differs-from-reference", "; ".join(diffs[:6])))
        return fails
    t = from_json(case["tree"])
    if stream == "ref-decodes-lib":
        if case.get("pre_fail"):
            _failing_encode(chk, case["pre_fail"])
        frame, err = c01.impl_encode(chk, t)
        if frame is None:
            fails.append(oracle("C02:encode-raises", "well-formed tree %s refused: %s" % (to_line(t)[:160], err)))
            return fails
        for h in set(c01.classify(t)):
            chk.hit("lib-emits:" + h)
        try:
            back = refcodec.decode(frame)
            ok = trees.equal_unordered(back, t)
            why = "reference decoder returns a different tree %s" % to_line(back)[:160]
        except refcodec.FormatError as e:
            ok, why = False, "reference decoder rejects the frame: %s" % e
        if not ok:
            fails.append(oracle("C02:emitted-frame-invalid", "tree %s%s -> frame %s: %s" % (to_line(t)[:160], " (encoded right after a stanza the coder refused: %s)" % case["pre_fail"] if case.get("pre_fail") else "",
                                                                  frame[:48].hex(), why)))
        return fails
    if stream == "lib-decodes-ref":
        rr = random.Random(case["seed"])
        try:
            frame, hits = refcodec.encode(t, rr, deflate=bool(case["deflate"]))
        except refcodec.FormatError:
            return fails
        for h in set(hits):
            chk.hit("ref-choice:" + h)
        ik, iv = c01.impl_decode(chk, frame)
        if case.get("nomodel"):
            out = None
        elif case["deflate"]:
            out = chk.driver.ask("coder decz %s %s" % (hx(frame), hx(zlib.decompress(frame[1:]))))
        else:
            out = chk.driver.ask("coder dec %s" % hx(frame))
        mk, mv = (ik, to_line(iv) if ik == "ok" else "") if out is None else ("ok", out[3:]) if out.startswith("ok ") else ("err", out)
        if out is not None and (ik != mk or (ik == "ok" and to_line(iv) != mv)):
            fails.append(corr("lib-decodes-ref:decode", "frame %s of %s: impl=%s %s model=%s %s"
                              % (frame[:40].hex(), to_line(t)[:100], ik, str(iv)[:100], mk, mv[:100])))
        bad = None
        if ik != "ok":
            bad = "the library's decoder rejects a valid encoding: %s" % (iv,)
        elif not trees.equal_unordered(iv, t):
            bad = "the library's decoder returns a different tree: %s" % to_line(iv)[:160]
        if bad:
            if ik != "ok" and "content:string" in hits and "AssertionError" in str(iv):
                sig = "C02:string-valued-node-content-rejected"
            else:
                sig = "C02:valid-encoding-misread:" + (str(iv).split(":")[0] if ik != "ok" else "differs")
            fails.append(oracle(sig, "tree %s, reference encoding (choices %s) %s: %s"
                                % (to_line(t)[:160], ",".join(sorted(set(hits))), frame[:48].hex(), bad)))
        return fails
    raise ValueError(stream)


def shrink(stream, case):
    if "tree" not in case:
        return
    for c in c01.shrink(stream, case):
        d = dict(case)
        d["tree"] = c["tree"]
        yield d
    if case.get("deflate"):
        d = dict(case)
        d["deflate"] = 0
        yield d
