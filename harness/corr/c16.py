"""C16  Connection lifecycle — Model/Lifecycle.lean vs the real network, authentication, iq (keep-alive),
interface layers in a real YowStack with a dispatcher double bound over the asyncore dispatcher, a
virtual clock for the keep-alive thread and the real stack loop stepped explicitly."""
import threading

import boot  # noqa: F401
from core import corr, oracle, InfraError
from lib.probes import Probe

PID = "C16"
GEN = ["logincfg"]
LEAN_MODULES = ["YowsupVerif.Props.C16", "YowsupVerif.Props.C16Login"]
RULE = ("event histories (4..18 events) over {connect request (interface.connect / CONNECT event), dispatcher connected, socket error / "
        "peer close, disconnect request (only while a connection is up or being established), success, failure, stream error (conflict, ack, "
        "xml-not-well-formed, unknown kind), ping tick, pong (answering / stale id), loop iteration, application send} x options {reconnect "
        "on/off, passive} on the real stack [network, near probe, (protocol layers), interface, top]; after every event the announcements "
        "(connected / disconnected near and far), login attempts, entities, dispatcher creations / closes / writes are compared with the Lean "
        "model; the oracle checks the property's clauses on the real trace. stream 'dispcontract': the real asyncore dispatcher object in the "
        "connecting / connected state (no network) must answer disconnect / close / connect-event / send with the same callbacks as the dispatcher double. thorough: all histories up to length 6. distinct = distinct history.")
RULE += (" stream 'realdisp' also asks for the disconnect from an application thread on an idle connection (both real dispatchers): the peer must see the end and DISCONNECTED must be announced.")
RULE += (' Event pingTickAnswered: the answer to a keep-alive ping reaches the stack while the pinging thread is still inside its write.')
RULE += (" stream 'hsfail': the real noise layer and handshake worker, the peer's answer to the client hello unreadable (with / without a remembered server key, with / without routing information): one handshake message per connect, one failure at the application, the connection closed and announced down once.")
RULE += (" stream 'connectraises': connect requests whose attempt fails inside the request (a dispatcher double raising gaierror; the real asyncore dispatcher with an endpoint it refuses at once), then one more connect request: a new attempt is made.")
ASSUMPTIONS = ["dispatcher double implements the asyncore dispatcher's contract (connect -> later handle_connect | handle_error; disconnect -> synchronous "
               "handle_close -> onDisconnected; sendData dropped unless connected); real sockets / DNS / TLS are not exhibited",
               "the keep-alive thread runs on a virtual clock (one real loop iteration per tick); the noise and axolotl layers' reset on DISCONNECTED is C04's / C14's subject"]


class FakeDispatcher(object):
    created = []

    def __init__(self, callbacks):
        self.connectionCallbacks = callbacks
        self.open = False
        self._connected = False
        self.log = None
        self.idx = len(FakeDispatcher.created)
        FakeDispatcher.created.append(self)

    def connect(self, host):
        self.open = True
        self.connectionCallbacks.onConnecting()
        FakeDispatcher.LOG.append("created:%d" % self.idx)

    def handle_connect(self):
        if self.open and not self._connected:
            self._connected = True
            self.connectionCallbacks.onConnected()

    def handle_close(self):
        if self.open:
            FakeDispatcher.LOG.append("closed:%d" % self.idx)
        self.open = False
        self._connected = False
        self.connectionCallbacks.onDisconnected()

    def disconnect(self):
        self.handle_close()

    answer_inside_write = None       # harness hook: called with what is being written, while the writer is still inside its write

    def sendData(self, data):
        FakeDispatcher.LOG.append(("written:%d" % self.idx) if self._connected else "dropped")
        hook = FakeDispatcher.answer_inside_write
        if hook is not None and self._connected:
            hook(data)


class RaisingTop(Probe):
    """the application side: while `armed`, receiving an entity raises (an application callback that fails)"""
    armed = False

    def receive(self, data):
        if self.armed:
            raise RuntimeError("application callback raised")
        Probe.receive(self, data)


class VTime(object):
    """virtual clock for YowPingThread: one permit = one second"""

    def __init__(self):
        self.permits = {}
        self.lock = threading.Lock()
        self.at_sleep = threading.Semaphore(0)

    def permit_of(self, t):
        with self.lock:
            if t not in self.permits:
                self.permits[t] = threading.Semaphore(0)
            return self.permits[t]

    def sleep(self, _s):
        t = threading.current_thread()
        sem = self.permit_of(t)          # one permit queue per thread: a stopped thread cannot steal a tick
        self.at_sleep.release()
        while True:
            if getattr(t, "_stop", False) is True:
                return
            if sem.acquire(timeout=0.005):
                return

    def __getattr__(self, n):
        import time
        return getattr(time, n)


def setup(chk):
    import yowsup.layers.network.layer as nl
    import yowsup.layers.protocol_iq.layer as iql
    import yowsup.stacks.yowstack as ys
    nl.AsyncoreConnectionDispatcher = FakeDispatcher
    # YowPingThread overrides threading.Thread._stop with a bool, which breaks is_alive()/join() on Python 3:
    # liveness is tracked by wrapping run() instead
    real_run = iql.YowPingThread.run

    def run(self):
        try:
            real_run(self)
        finally:
            self._verif_done = True
    iql.YowPingThread.run = run
    chk.vt = VTime()
    iql.time = chk.vt
    from corr.c18 import _FakeTime
    ys.time = _FakeTime()


KINDS = ["connectReq", "connectEvt", "dConnected", "dClosed", "disconnectReq", "success", "failure", "streamError:conflict",
         "streamError:ack", "streamError:xmlNotWellFormed", "streamError:unknown", "pingTick", "pong:1", "pong:0", "pongRaises", "loop", "appSend", "setReconnect:0", "setReconnect:1"]


def cases(chk):
    r = chk.rng
    for how2 in ("event", "interface"):
        for down in ("peer-close", "disconnect-request"):
            for partial in (0, 1, 2, 3, 4, 20):
                yield "reframe", {"conns": [["event", ["aa01", "bb0203"], partial, down], [how2, ["cc", "dd0405", "ee"], 0, "end"]]}
    yield "reframe", {"conns": [["interface", ["aa"], 2, "peer-close"], ["interface", ["bb"], 5, "disconnect-request"], ["event", ["cc", "dd"], 0, "end"]]}
    for state in ("connecting", "connected"):
        for ops in (["disconnect"], ["disconnect", "send"], ["close"], ["connect-event", "disconnect"], ["send", "disconnect", "disconnect"], ["close", "disconnect"]):
            yield "dispcontract", {"state": state, "ops": ops}
    for disp in ("socket", "asyncore"):
        yield "realdisp", {"dispatcher": disp, "errors": [], "reconnect": 1, "then": "disconnect"}
        yield "realdisp", {"dispatcher": disp, "errors": ["ack", "ack"], "reconnect": 1}
        if not chk.quick() or disp == "socket":
            yield "realdisp", {"dispatcher": disp, "errors": ["ack", "conflict"], "reconnect": 1}
            yield "realdisp", {"dispatcher": disp, "errors": ["ack"], "reconnect": 0}
        if not chk.quick():
            yield "realdisp", {"dispatcher": disp, "errors": ["ack", "ack", "ack"], "reconnect": 1}
    for i, end in enumerate(["conflict", "ack", "unknown", "disconnectReq", "xmlNotWellFormed"]):
        for rec in (1, 0):
            yield "reboot", {"end": end, "reconnect": rec, "seed": i * 2 + rec}
    corpus = [
        ["connectReq", "dConnected", "success", "pingTick", "pong:1", "pingTick", "pingTick", "loop"],
        # the answer to a ping reaches the stack while the pinging thread is still inside its write (the reader thread wins the race): it counts
        ["connectReq", "dConnected", "success", "pingTickAnswered", "pingTick", "pong:1", "pingTickAnswered", "pingTickAnswered", "pingTick", "loop"],
        ["connectReq", "dConnected", "success", "pingTickAnswered", "pingTickAnswered", "pingTickAnswered", "appSend"],
        # answers that are NOT to the keep-alive's latest ping (the application's own ping; a late answer to a ping of the previous connection): the
        # unanswered keep-alive ping stays unanswered, the next tick closes
        ["connectReq", "dConnected", "success", "appPing", "pingTick", "pong:app", "pingTick", "loop"],
        ["connectReq", "dConnected", "success", "pingTick", "dClosed", "loop", "connectReq", "dConnected", "success", "pingTick", "pong:prev", "pingTick", "loop"],
        ["connectReq", "dConnected", "success", "appPing", "pong:app", "pingTick", "pong:1", "appPing", "pingTick", "pong:app", "pong:1", "pingTick", "pingTick"],
        ["connectReq", "dConnected", "success", "pingTick", "pong:1", "pingTick", "pong:1", "pingTick", "pong:0", "pingTick", "loop"],
        ["connectReq", "dConnected", "failure", "loop", "appSend", "connectReq", "dConnected", "success"],
        ["connectReq", "dConnected", "streamError:ack", "loop", "dConnected", "success", "appSend"],
        ["connectReq", "dConnected", "streamError:conflict", "loop", "loop"],
        ["connectReq", "dConnected", "streamError:unknown", "loop", "dConnected"],
        ["connectReq", "dClosed", "loop", "connectEvt", "dConnected", "dClosed", "appSend", "loop"],
        ["connectReq", "disconnectReq", "loop", "connectReq", "dConnected", "disconnectReq", "loop"],
        ["connectReq", "dConnected", "success", "disconnectReq", "pingTick", "loop", "pingTick"],
        ["connectReq", "dConnected", "success", "pingTick", "pongRaises", "pingTick", "pong:1", "pingTick", "pongRaises", "pingTick", "appSend"],
        # a ping still unanswered when the peer closes; the announcement is delivered; a new connection's keep-alive starts from scratch
        ["connectReq", "dConnected", "success", "pingTick", "dClosed", "loop", "connectReq", "dConnected", "success", "pingTick", "pong:1", "pingTick", "pingTick"],
        ["connectEvt", "dConnected", "success", "dClosed", "pingTick", "loop", "connectReq", "pingTick", "dConnected", "success", "pingTick"],
        ["connectReq", "dConnected", "success", "pingTick", "streamError:ack", "loop", "dConnected", "success", "pingTick", "pong:1", "pingTick"],
        # the reconnect option changed at run time: the value in force when the stream error arrives decides
        ["connectReq", "dConnected", "success", "setReconnect:0", "streamError:ack", "loop", "connectReq", "dConnected", "setReconnect:1", "streamError:unknown", "loop"],
        ["connectReq", "dConnected", "setReconnect:1", "streamError:xmlNotWellFormed", "setReconnect:0", "loop", "dConnected", "streamError:ack", "loop"],
    ]
    for h in corpus:
        for opt in ({"reconnect": 1, "passive": 0}, {"reconnect": 0, "passive": 1}):
            yield "history", {"events": h, "opt": opt}
    for _ in range(chk.scale(150, 3000)):
        yield "history", {"events": [r.choice(KINDS) for _ in range(r.randint(4, 18))], "opt": {"reconnect": r.choice([0, 1]), "passive": r.choice([0, 1])}}
    # "transport state is reset so that a later connect starts a fresh login": the bytes of every login attempt, with the real
    # segments and noise layers between the network layer and the authentication layer
    for downs in (["peer-close"], ["disconnect-request"], ["peer-close", "disconnect-request"], ["disconnect-request", "peer-close", "peer-close"]):
        for edge in (False, True):
            yield "relogin", {"downs": downs, "edge": edge}
    # a login that fails INSIDE the handshake (the server's answer to the client hello cannot be read), with and without a remembered server key:
    # one login attempt per connect, the failure delivered to the application, the connection closed and announced down once
    for remembered in (False, True):
        for edge in (False, True):
            for glen in (1, 40, 300):
                yield "hsfail", {"remembered": remembered, "edge": edge, "garbage": glen}
    # a connect request whose attempt fails at once, inside the request (the server's name does not resolve, the network is unreachable): the
    # next connect request makes a new attempt
    for disp in ("double", "asyncore"):
        for fails_first in (1, 2):
            yield "connectraises", {"dispatcher": disp, "failing": fails_first}
    errs = ["streamError:conflict", "streamError:ack", "streamError:xmlNotWellFormed", "streamError:unknown"]
    for _ in range(chk.scale(350, 6000)):
        # guided walk: a coarse guess of the connection state steers the choice so that histories get deep
        st, evs = "down", []
        for _i in range(r.randint(6, 22)):
            if st == "down":
                e = r.choice(["connectReq", "connectReq", "connectEvt", "loop", "appSend", "pingTick"])
                st = "connecting" if e.startswith("connect") else st
            elif st == "connecting":
                e = r.choice(["dConnected", "dConnected", "dConnected", "dClosed", "disconnectReq", "appSend", "loop"])
                st = "up" if e == "dConnected" else "down" if e in ("dClosed", "disconnectReq") else st
            elif st == "up":
                e = r.choice(["success", "success", "failure", r.choice(errs), "appSend", "dClosed", "disconnectReq"])
                st = "authed" if e == "success" else "down" if e != "appSend" else st
            else:
                e = r.choice(["pingTick", "pingTick", "pingTick", "pingTickAnswered", "pong:1", "pong:1", "pongRaises", "pong:0", "appPing", "pong:app", "pong:prev", "appSend", r.choice(errs), "dClosed", "disconnectReq", "success", r.choice(["setReconnect:0", "setReconnect:1"])])
                st = "down" if (e.startswith("streamError") or e in ("dClosed", "disconnectReq")) else st
            evs.append(e)
            if st == "down" and r.random() < 0.6:
                evs.append("loop")
                if evs[-2].startswith("streamError") and not evs[-2].endswith("conflict"):
                    st = "connecting"
        yield "history", {"events": evs, "opt": {"reconnect": r.choice([0, 1, 1]), "passive": r.choice([0, 1])}}
    if not chk.quick():
        import itertools
        small = ["connectReq", "dConnected", "dClosed", "disconnectReq", "success", "streamError:ack", "pingTick", "loop"]
        for n in range(1, 6):
            for combo in itertools.product(small, repeat=n):
                yield "exhaustive", {"events": list(combo), "opt": {"reconnect": 1, "passive": 0}}


def run_reframe(chk, case):
    """"transport state is reset so that a later connect starts fresh", inbound side: the real network layer (dispatcher double) under the real
    segment layer.  A connection goes down with part of a segment received; the next connection — opened by a CONNECT event or, as the stack's
    own reconnects do, through the network layer's interface — must have its frames handed up exactly."""
    from yowsup.layers import YowLayer, YowLayerEvent
    from yowsup.layers.network import YowNetworkLayer
    from yowsup.layers.noise.layer_noise_segments import YowNoiseSegmentsLayer
    from yowsup.stacks import YowStack
    import yowsup.layers.network.layer as nl
    fails = []
    saved = nl.AsyncoreConnectionDispatcher
    nl.AsyncoreConnectionDispatcher = FakeDispatcher
    FakeDispatcher.created = []
    FakeDispatcher.LOG = []
    try:
        got = []

        class Top(YowLayer):
            def receive(self, d):
                got.append(bytes(d))

            def send(self, d):
                self.toLower(d)
        stack = YowStack((YowNetworkLayer, YowNoiseSegmentsLayer, Top()), reversed=False)
        stack.setProp(YowNetworkLayer.PROP_ENDPOINT, ("e1.whatsapp.net", 443))
        stack.setProp(YowNoiseSegmentsLayer.PROP_ENABLED, True)
        net = stack.getLayer(0)
        want = []
        for ci, (how, frames, partial, down) in enumerate(case["conns"]):
            if how == "event":
                stack.broadcastEvent(YowLayerEvent(YowNetworkLayer.EVENT_STATE_CONNECT))
            else:
                stack.getLayerInterface(YowNetworkLayer).connect()
            disp = FakeDispatcher.created[-1]
            disp.handle_connect()
            data = b"".join(len(bytes.fromhex(f)).to_bytes(3, "big") + bytes.fromhex(f) for f in frames)
            want += [bytes.fromhex(f) for f in frames]
            data += (b"\x00\x00\x30" + bytes(range(0x30)))[:partial]
            if data:
                net.onRecvData(data)
            if down == "peer-close":
                disp.handle_close()
            elif down == "disconnect-request":
                stack.broadcastEvent(YowLayerEvent(YowNetworkLayer.EVENT_STATE_DISCONNECT))
            _drain_detached(stack)
            chk.hit("reframe:connect-by-" + how, "reframe:partial=%d" % min(partial, 4))
        if got != want:
            fails.append(oracle("C16:inbound-state-not-reset", "connections %s: frames handed up %s, sent by the peer %s (a segment the previous connection left unfinished was not dropped)"
                                % ([(h, len(f), p, d_) for h, f, p, d_ in case["conns"]], [g.hex()[:16] for g in got], [w_.hex()[:16] for w_ in want])))
    finally:
        nl.AsyncoreConnectionDispatcher = saved
    return fails


def run_relogin(chk, case):
    """connect / login attempt / connection goes down / connect …: every attempt must put the same fresh login on the wire
    (routing header if configured, raw prologue, then the client hello as ONE length-prefixed segment)"""
    import time
    import uuid
    from consonance.structs.keypair import KeyPair
    from yowsup.config.v1.config import Config
    from yowsup.layers import YowLayer, YowLayerEvent, YowParallelLayer
    from yowsup.layers.auth import YowAuthenticationProtocolLayer
    from yowsup.layers.coder import YowCoderLayer
    from yowsup.layers.network import YowNetworkLayer
    from yowsup.layers.noise.layer import YowNoiseLayer
    from yowsup.layers.noise.layer_noise_segments import YowNoiseSegmentsLayer
    from yowsup.profile.profile import YowProfile
    from yowsup.stacks import YowStack
    import yowsup.layers.network.layer as nl
    fails = []
    written = {}

    class ByteDispatcher(FakeDispatcher):
        def sendData(self, data):
            if self._connected:
                written.setdefault(self.idx, bytearray()).extend(bytes(data))
    saved = nl.AsyncoreConnectionDispatcher
    nl.AsyncoreConnectionDispatcher = ByteDispatcher
    FakeDispatcher.created = []
    FakeDispatcher.LOG = []
    try:
        class Top(YowLayer):
            def receive(self, d):
                pass

            def send(self, d):
                self.toLower(d)
        stack = YowStack((YowNetworkLayer, YowNoiseSegmentsLayer, YowNoiseLayer, YowCoderLayer,
                          YowParallelLayer((YowAuthenticationProtocolLayer,)), Top()), reversed=False)
        cfg = Config(phone="4915166600001", cc=49, client_static_keypair=KeyPair.generate(), pushname="relogin",
                     edge_routing_info=b"\x08\x02\x08\x05" if case["edge"] else None)
        stack.setProfile(YowProfile("c16-relogin-" + uuid.uuid4().hex, cfg))
        stack.setProp(YowNetworkLayer.PROP_ENDPOINT, ("e1.whatsapp.net", 443))
        logins = []
        for how in case["downs"] + ["end"]:
            stack.broadcastEvent(YowLayerEvent(YowNetworkLayer.EVENT_STATE_CONNECT))
            disp = FakeDispatcher.created[-1]
            disp.handle_connect()
            deadline = time.time() + 2.0
            want = 4 + (4 + 3 + 4 if case["edge"] else 0) + 3 + 30
            while time.time() < deadline and len(written.get(disp.idx, b"")) < want:
                time.sleep(0.005)
            logins.append(bytes(written.get(disp.idx, b"")))
            if how == "peer-close":
                disp.handle_close()
            elif how == "disconnect-request":
                stack.broadcastEvent(YowLayerEvent(YowNetworkLayer.EVENT_STATE_DISCONNECT))
            _drain_detached(stack)
        chk.hit("relogin:%d" % len(logins))
        prefix = (b"ED\x00\x01" + b"\x00\x00\x04" + b"\x08\x02\x08\x05" if case["edge"] else b"") + b"WA\x04\x00"
        for i, data in enumerate(logins):
            ok = data.startswith(prefix) and len(data) >= len(prefix) + 3 and \
                int.from_bytes(data[len(prefix):len(prefix) + 3], "big") == len(data) - len(prefix) - 3
            if not ok:
                fails.append(oracle("C16:login-not-fresh", "history connect%s: login attempt #%d does not start a fresh login on the wire: first bytes %r (attempt #1: %r)"
                                    % ("".join(", %s, connect" % x for x in case["downs"][:i]), i + 1, data[:24], logins[0][:24])))
                break
    finally:
        nl.AsyncoreConnectionDispatcher = saved
    return fails


def run_connectraises(chk, case):
    """connect requests whose attempt fails synchronously (the dispatcher's connect raises: name resolution, unreachable network, a bad
    endpoint), then one more connect request: it is not taken for a duplicate of an attempt that no longer exists — a new attempt is made"""
    import socket
    from yowsup.layers import YowLayerEvent
    from yowsup.layers.network import YowNetworkLayer
    from yowsup.stacks import YowStack
    import yowsup.layers.network.layer as nl
    fails = []
    attempts = []
    saved = nl.AsyncoreConnectionDispatcher
    saved_loop = None
    top = Probe("top")
    try:
        if case["dispatcher"] == "double":
            class Failing(FakeDispatcher):
                def connect(self, host):
                    attempts.append(host)
                    if len(attempts) <= case["failing"]:
                        raise socket.gaierror(-3, "Temporary failure in name resolution")
                    FakeDispatcher.connect(self, host)
            nl.AsyncoreConnectionDispatcher = Failing
            FakeDispatcher.created = []
            FakeDispatcher.LOG = []
            endpoints = [("e1.whatsapp.net", 443)] * (case["failing"] + 1)
        else:
            # the real asyncore dispatcher: a port outside 0..65535 makes its connect raise at once, without any name service involved
            import asyncore
            from yowsup.layers.network.dispatcher.dispatcher_asyncore import AsyncoreConnectionDispatcher as RealDispatcher
            real_connect = RealDispatcher.connect

            def counted(self, host):
                attempts.append(host)
                return real_connect(self, host)
            RealDispatcher.connect = counted
            nl.AsyncoreConnectionDispatcher = RealDispatcher
            saved_loop = asyncore.loop
            asyncore.loop = lambda *a, **k: None
            endpoints = [("127.0.0.1", 70000)] * (case["failing"] + 1)
        stack = YowStack((YowNetworkLayer, top), reversed=False)
        outcomes = []
        for i, ep in enumerate(endpoints):
            stack.setProp(YowNetworkLayer.PROP_ENDPOINT, ep)
            n = len(attempts)
            try:
                stack.broadcastEvent(YowLayerEvent(YowNetworkLayer.EVENT_STATE_CONNECT))
                outcomes.append("returned")
            except Exception as e:
                outcomes.append("raised " + type(e).__name__)
            _drain_detached(stack)
            chk.hit("connectraises:" + case["dispatcher"])
            if len(attempts) == n:
                fails.append(oracle("C16:connect-ignored-after-failed-attempt",
                                    "%s dispatcher, history %s: connect request #%d made no connection attempt — the %d attempt(s) before it failed inside the request (%s) "
                                    "and the layer still counts itself as connecting: no later connect request can ever start a login"
                                    % (case["dispatcher"], ["connect request"] * (i + 1), i + 1, i, ", ".join(outcomes[:i]))))
                break
    finally:
        nl.AsyncoreConnectionDispatcher = saved
        if saved_loop is not None:
            import asyncore
            asyncore.loop = saved_loop
            RealDispatcher.connect = real_connect
            for d in list(asyncore.socket_map.values()):
                try:
                    d.close()
                except Exception:
                    pass
    return fails


def run_hsfail(chk, case):
    """connect, the real noise layer writes its login, the peer's answer to the client hello is unreadable: exactly one client hello was written
    on that connection, the application gets one failure, the connection is closed and announced down once — with and without a remembered server key"""
    import os
    import time
    import uuid
    from consonance.structs.keypair import KeyPair
    from consonance.structs.publickey import PublicKey
    from yowsup.config.v1.config import Config
    from yowsup.layers import YowLayer, YowLayerEvent, YowParallelLayer
    from yowsup.layers.auth import YowAuthenticationProtocolLayer
    from yowsup.layers.coder import YowCoderLayer
    from yowsup.layers.network import YowNetworkLayer
    from yowsup.layers.noise.layer import YowNoiseLayer
    from yowsup.layers.noise.layer_noise_segments import YowNoiseSegmentsLayer
    from yowsup.profile.profile import YowProfile
    from yowsup.stacks import YowStack
    import yowsup.layers.network.layer as nl
    import random
    fails = []
    written = {}

    class ByteDispatcher(FakeDispatcher):
        def sendData(self, data):
            if self._connected:
                written.setdefault(self.idx, bytearray()).extend(bytes(data))
    saved = nl.AsyncoreConnectionDispatcher
    nl.AsyncoreConnectionDispatcher = ByteDispatcher
    FakeDispatcher.created = []
    FakeDispatcher.LOG = []
    try:
        got, downs = [], []

        class Top(YowLayer):
            def receive(self, d):
                got.append(d)

            def send(self, d):
                self.toLower(d)

            def onEvent(self, ev):
                if ev.getName() == YowNetworkLayer.EVENT_STATE_DISCONNECTED:
                    downs.append(ev)
        stack = YowStack((YowNetworkLayer, YowNoiseSegmentsLayer, YowNoiseLayer, YowCoderLayer,
                          YowParallelLayer((YowAuthenticationProtocolLayer,)), Top()), reversed=False)
        cfg = Config(phone="4915166600002", cc=49, client_static_keypair=KeyPair.generate(), pushname="hsfail",
                     edge_routing_info=b"\x08\x02\x08\x05" if case["edge"] else None,
                     server_static_public=PublicKey(KeyPair.generate().public.data) if case["remembered"] else None)
        stack.setProfile(YowProfile("c16-hsfail-" + uuid.uuid4().hex, cfg))
        stack.setProp(YowNetworkLayer.PROP_ENDPOINT, ("e1.whatsapp.net", 443))
        stack.broadcastEvent(YowLayerEvent(YowNetworkLayer.EVENT_STATE_CONNECT))
        disp = FakeDispatcher.created[-1]
        disp.handle_connect()
        prefix = (b"ED\x00\x01" + b"\x00\x00\x04" + b"\x08\x02\x08\x05" if case["edge"] else b"") + b"WA\x04\x00"
        deadline = time.time() + 2.0
        while time.time() < deadline and len(written.get(disp.idx, b"")) < len(prefix) + 3 + 30:
            time.sleep(0.005)
        rr = random.Random(case["garbage"])
        junk = bytes(rr.randrange(256) for _ in range(case["garbage"]))
        disp.connectionCallbacks.onRecvData(len(junk).to_bytes(3, "big") + junk)
        deadline = time.time() + 3.0
        while time.time() < deadline and (disp.open or not got):
            _drain_detached(stack)
            time.sleep(0.005)
        time.sleep(0.05)
        _drain_detached(stack)
        chk.hit("hsfail:remembered=%d" % case["remembered"])
        what = "connect, login written, the answer to the client hello is %d unreadable byte(s) (%s server key remembered%s)" \
            % (case["garbage"], "a" if case["remembered"] else "no", ", routing information configured" if case["edge"] else "")
        data = bytes(written.get(disp.idx, b""))
        segs, pos = [], len(prefix)
        while data.startswith(prefix) and pos + 3 <= len(data):
            n = int.from_bytes(data[pos:pos + 3], "big")
            segs.append(n)
            pos += 3 + n
        if len(segs) != 1:
            fails.append(oracle("C16:login-attempts-per-connect", "%s: %d handshake message(s) were written on this one connection (sizes %s): one connect is one login attempt"
                                % (what, len(segs), segs[:5])))
        names = [type(x).__name__ for x in got]
        if names.count("FailureProtocolEntity") != 1:
            fails.append(oracle("C16:login-failure-not-delivered", "%s: the application received %s — the failed login is delivered as one failure" % (what, names or "nothing")))
        if disp.open or len(downs) != 1:
            fails.append(oracle("C16:not-closed-after-login-failure", "%s: the connection is %s and was announced down %d time(s)" % (what, "still open" if disp.open else "closed", len(downs))))
        if disp.open:
            disp.handle_close()
            _drain_detached(stack)
    finally:
        nl.AsyncoreConnectionDispatcher = saved
    return fails


def _drain_detached(stack):
    from yowsup.stacks import YowStack
    q = YowStack._YowStack__detachedQueue
    while True:
        try:
            cb = q.get(False)
        except Exception:
            return
        cb()


def nontrivial(stream, case):
    if stream in ("dispcontract", "reframe", "hsfail", "connectraises"):
        return (stream, repr(case))
    if stream == "realdisp":
        return (stream, repr(case))
    if stream == "reboot":
        return (stream, case["end"], case["reconnect"])
    if stream == "relogin":
        return (stream, tuple(case["downs"]), case["edge"])
    return (stream, tuple(case["events"]), tuple(sorted(case["opt"].items())))


_BUILDS = [0]

def build(chk, opt):
    from yowsup.layers import YowParallelLayer
    from yowsup.layers.auth import YowAuthenticationProtocolLayer
    from yowsup.layers.interface import YowInterfaceLayer
    from yowsup.layers.network import YowNetworkLayer
    from yowsup.layers.protocol_iq import YowIqProtocolLayer
    from yowsup.stacks import YowStack, YowStackBuilder
    from corr.c18 import drain
    drain()                         # the detached queue is shared by all stacks of the process
    while chk.vt.at_sleep.acquire(blocking=False):
        pass
    FakeDispatcher.created = []
    FakeDispatcher.LOG = []
    near, top = Probe("near", forward=True), RaisingTop("top")
    prot = YowStackBuilder.getProtocolLayers()
    iface = YowInterfaceLayer()
    # another client of the same process, with the opposite options on ITS stack (options belong to a stack: nothing set there is in force here)
    nb = YowStack((Probe("neighbour", forward=True),), reversed=False)
    nb.setProp(YowInterfaceLayer.PROP_RECONNECT_ON_STREAM_ERR, not bool(opt["reconnect"]))
    nb.setProp(YowAuthenticationProtocolLayer.PROP_PASSIVE, not bool(opt["passive"]))
    stack = YowStack((YowNetworkLayer, near, YowParallelLayer(prot), iface, top), reversed=False)
    # an option at its documented default is left unset on every other build (reconnect defaults to on, passive to off)
    _BUILDS[0] += 1
    explicit = _BUILDS[0] % 2 == 0
    if explicit or not opt["reconnect"]:
        stack.setProp(YowInterfaceLayer.PROP_RECONNECT_ON_STREAM_ERR, bool(opt["reconnect"]))
    if explicit or opt["passive"]:
        stack.setProp(YowAuthenticationProtocolLayer.PROP_PASSIVE, bool(opt["passive"]))
    stack.setProp(YowIqProtocolLayer.PROP_PING_INTERVAL, 1)
    stack.setProp(YowNetworkLayer.PROP_ENDPOINT, ("e1.whatsapp.net", 443))
    return stack, near, iface, top


def _node(kind, salt=0):
    from yowsup.structs import ProtocolTreeNode as N
    if kind == "success":
        return N("success", {"t": "1500000000", "props": "4", "kind": "free", "status": "active", "creation": "1400000000", "expiration": "1600000000"})
    if kind == "failure":
        # the reason is whatever the server, or the noise layer wrapping a failed handshake (reason = str(exception), empty for a decryption
        # failure), puts there — or nothing at all
        return N("failure", [{"reason": "401"}, {"reason": ""}, {}, {"reason": "not-authorized"}, {"reason": "401", "extra": "1"}][salt % 5])
    k = kind.split(":")[1]
    child = {"conflict": "conflict", "ack": "ack", "xmlNotWellFormed": "xml-not-well-formed", "unknown": "system-shutdown"}[k]
    # the kind marker alone, or next to the free-text child servers add (before or after it), or after a child the library does not know
    shape = salt % 4
    kids = [[N(child)], [N("text", {}, None, b"Replaced by new connection"), N(child)], [N(child), N("text", {}, None, b"bye")],
            [N("x-future", {}), N(child)] if k != "unknown" else [N(child)]][shape]
    return N("stream:error", {}, kids)


def model_event(ev, allowed_d):
    if ev.startswith("dConnected") or ev.startswith("dClosed"):
        return None
    return ev


def run_reboot(chk, case):
    """the stack WITH the encryption control layer and a profile that has keys to upload: passive login, key upload, the control layer's own
    reboot of the connection (disconnect + connect), second login; then one of the property's terminal events.  Every step is compared with
    the lifecycle model (control := true, input keysFlushed); oracle: after the control layer's one intended reboot, reconnects follow the
    property's policy again."""
    from yowsup.axolotl.manager import AxolotlManager
    from yowsup.config.v1.config import Config
    from yowsup.layers import YowParallelLayer
    from yowsup.layers.auth import YowAuthenticationProtocolLayer
    from yowsup.layers.axolotl import AxolotlControlLayer
    from yowsup.layers.interface import YowInterfaceLayer
    from yowsup.layers.network import YowNetworkLayer
    from yowsup.layers.protocol_iq import YowIqProtocolLayer
    from yowsup.profile.profile import YowProfile
    from yowsup.stacks import YowStack, YowStackBuilder
    from yowsup.structs import ProtocolTreeNode as N
    from consonance.structs.keypair import KeyPair
    from corr.c18 import drain, run_loop
    import contextlib
    import io
    import uuid
    fails = []
    drain()
    FakeDispatcher.created = []
    FakeDispatcher.LOG = []
    AxolotlManager.COUNT_GEN_PREKEYS, AxolotlManager.THRESHOLD_REGEN = 4, 2
    near, top = Probe("near", forward=True), Probe("top")
    iface = YowInterfaceLayer()
    stack = YowStack((YowNetworkLayer, near, AxolotlControlLayer, YowParallelLayer(YowStackBuilder.getProtocolLayers()), iface, top), reversed=False)
    stack.setProp(YowInterfaceLayer.PROP_RECONNECT_ON_STREAM_ERR, bool(case["reconnect"]))
    stack.setProp(YowIqProtocolLayer.PROP_PING_INTERVAL, 0)
    stack.setProp(YowNetworkLayer.PROP_ENDPOINT, ("e1.whatsapp.net", 443))
    stack.setProfile(YowProfile("c16-" + uuid.uuid4().hex, Config(phone="4915166%06d" % (case["seed"] % 10 ** 6), cc=49, client_static_keypair=KeyPair.generate())))
    net = stack.getLayer(0)
    steps = []
    d = chk.driver
    d.ask("life reset %d 1 1" % case["reconnect"])         # (the control layer switches the login to passive at connect: keys to upload)
    marks = {"near": 0, "top": 0}

    def observe(mev):
        """what the stack did since the last call, in the model's vocabulary; compared with the model's step"""
        obs = list(FakeDispatcher.LOG)
        del FakeDispatcher.LOG[:]
        for e in near.events[marks["near"]:]:
            n = e.getName()
            if n.endswith("network.connected"):
                obs.append("up")
            elif n.endswith("network.disconnected"):
                obs.append("downNear")
            elif n.endswith("event.auth"):
                obs.append("authAttempt:%d" % (1 if e.getArg("passive") else 0))
            elif n.endswith("auth.authed"):
                obs.append("authed")
        for e in top.events[marks["top"]:]:
            if e.getName().endswith("network.disconnected"):
                obs.append("downAll")
        for e in top.received[marks.get("rec", 0):]:
            if type(e).__name__ == "StreamErrorProtocolEntity":
                obs.append("entityStreamError:%s" % {"conflict": "conflict", "ack": "ack", "xml-not-well-formed": "xmlNotWellFormed"}.get(e.getErrorType(), "unknown"))
        marks["near"], marks["top"], marks["rec"] = len(near.events), len(top.events), len(top.received)
        # (what is written to the connection — the key upload, acknowledgements — is not this stream's subject)
        obs = [o for o in obs if not o.startswith(("written", "dropped"))]
        mobs = [x for x in d.ask("life step " + mev).split(",") if x and not x.startswith(("written", "dropped", "pingSent"))]
        if sorted(obs) != sorted(mobs):
            fails.append(corr("reboot:" + mev.split(" ")[0], "steps %s, then %s: impl=%s model=%s" % (steps, mev, obs, mobs)))

    def login(expect_upload):
        dd = FakeDispatcher.created[-1]
        dd.handle_connect()
        observe("dConnected %d" % dd.idx)
        n0 = len(near.sent)
        net.receive(_node("success"))
        observe("success")
        ups = [n for n in near.sent[n0:] if getattr(n, "tag", None) == "iq" and n.getChild("list") is not None]
        steps.append("connected+success (dispatcher %d, %d key upload)" % (dd.idx, len(ups)))
        return ups
    sink = io.StringIO()
    chk.hit("reboot:%s" % case["end"])
    try:
        with contextlib.redirect_stdout(sink):
            iface.connect()
            observe("connectReq")
            ups = login(True)
            if len(ups) != 1:
                return []          # no passive upload with this profile: nothing to test (C14's subject)
            net.receive(N("iq", {"id": ups[0]["id"], "type": "result", "from": "s.whatsapp.net"}))
            observe("keysFlushed")
            run_loop(stack)
            observe("loop")
            steps.append("upload confirmed, loop")
            if len(FakeDispatcher.created) != 2:
                return fails + [oracle("C16:reboot-after-key-upload", "steps %s: after the confirmed passive upload %d connection(s) exist, the control layer's reboot should have made a second one"
                                       % (steps, len(FakeDispatcher.created)))]
            login(False)
            ncreated = len(FakeDispatcher.created)
            end = case["end"]
            if end == "disconnectReq":
                iface.disconnect()
                observe("disconnectReq")
            else:
                net.receive(_node("streamError:" + end))
                observe("streamError:" + end)
            run_loop(stack)
            observe("loop")
            run_loop(stack)
            observe("loop")
            steps.append(end + ", loop")
    except Exception as e:
        import traceback
        return fails + [oracle("C16:reboot-flow-raises", "steps %s: %s: %s" % (steps, type(e).__name__, traceback.format_exc().strip().splitlines()[-1][:160]))]
    new = len(FakeDispatcher.created) - ncreated
    want = 1 if (case["end"] in ("ack", "xmlNotWellFormed", "unknown") and case["reconnect"]) else 0
    if new != want:
        fails.append(oracle("C16:unexpected-reconnect" if new > want else "C16:no-reconnect", "steps %s (reconnect option %s): %d new connection(s) were started, the policy says %d "
                            "(after the control layer's one reboot for the key upload, nothing but the stream-error policy may reconnect)" % (steps, bool(case["reconnect"]), new, want)))
    elif want == 0 and any(x.open for x in FakeDispatcher.created):
        fails.append(oracle("C16:connection-left-open", "steps %s: a connection is still open" % steps))
    return fails


def run_realdisp(chk, case):
    """the lifecycle with the REAL dispatchers (socket / asyncore) against a TCP peer on the loopback interface, driven the way an application
    does it: CONNECT is broadcast, then the stack's loop runs.  With these dispatchers connect() only returns when the connection has ended,
    so reconnects nest.  The peer answers each of the first n connections with a stream error and keeps the last one open: with the
    reconnect option on, n non-conflict errors must lead to n+1 connections; a conflict or the option off to no further one."""
    import socket
    import threading
    import time
    from yowsup.layers import YowLayer, YowLayerEvent, YowParallelLayer
    from yowsup.layers.auth import YowAuthenticationProtocolLayer
    from yowsup.layers.interface import YowInterfaceLayer
    from yowsup.layers.network import YowNetworkLayer
    from yowsup.stacks import YowStack
    from yowsup.structs import ProtocolTreeNode as N
    fails = []
    try:
        srv = socket.socket()
        srv.bind(("127.0.0.1", 0))
        srv.listen(8)
    except OSError as e:
        chk.notes.append("stream 'realdisp' skipped: no loopback TCP in this sandbox (%s)" % e)
        return fails
    srv.settimeout(3)
    port = srv.getsockname()[1]
    kinds = list(case["errors"])
    accepted = []
    stop = threading.Event()

    def server():
        while not stop.is_set():
            try:
                c, _a = srv.accept()
            except OSError:
                return
            i = len(accepted)
            accepted.append(c)
            try:
                c.sendall(b"S")                                      # login succeeds
                if i < len(kinds):
                    time.sleep(0.05)
                    c.sendall(b"C" if kinds[i] == "conflict" else b"E")   # then a stream error
                elif case.get("then"):
                    threading.Thread(target=peer_reads, args=(c,), daemon=True).start()
            except OSError:
                pass

    peer_saw_end = []

    def peer_reads(c):
        """the peer on the connection that stays up: reads until the client ends its side, then closes (as a server does)"""
        try:
            c.settimeout(5)
            while c.recv(1024):
                pass
            peer_saw_end.append(1)
            time.sleep(0.1)
            c.close()
        except OSError:
            pass
    threading.Thread(target=server, daemon=True).start()
    seen_events = []

    class Conv(YowLayer):
        """the peer's bytes as stanzas (stands for the noise + coder layers)"""
        def receive(self, data):
            for b in bytes(data):
                if b == ord("S"):
                    self.toUpper(_node("success"))
                elif b == ord("E"):
                    self.toUpper(_node("streamError:ack"))
                elif b == ord("C"):
                    self.toUpper(_node("streamError:conflict"))

        def send(self, data):
            pass

        def onEvent(self, ev):
            seen_events.append(ev.getName())
    iface = YowInterfaceLayer()
    import yowsup.layers.network.layer as nl
    from yowsup.layers.network.dispatcher.dispatcher_asyncore import AsyncoreConnectionDispatcher as RealAsyncore
    patched = nl.AsyncoreConnectionDispatcher
    nl.AsyncoreConnectionDispatcher = RealAsyncore          # (the other streams of this check run with a dispatcher double)
    stack = YowStack((YowNetworkLayer, Conv, YowParallelLayer((YowAuthenticationProtocolLayer,)), iface), reversed=False)
    stack.setProp(YowNetworkLayer.PROP_ENDPOINT, ("127.0.0.1", port))
    stack.setProp(YowNetworkLayer.PROP_DISPATCHER, YowNetworkLayer.DISPATCHER_SOCKET if case["dispatcher"] == "socket" else YowNetworkLayer.DISPATCHER_ASYNCORE)
    stack.setProp(YowInterfaceLayer.PROP_RECONNECT_ON_STREAM_ERR, bool(case["reconnect"]))
    chk.hit("realdisp:%s" % case["dispatcher"], "realdisp:errors=%d" % len(kinds))

    def app():
        try:
            from corr.c18 import run_loop
            stack.broadcastEvent(YowLayerEvent(YowNetworkLayer.EVENT_STATE_CONNECT))
            for _i in range(40):
                run_loop(stack)           # (returns when no deferred event is queued)
                if stop.is_set():
                    break
                time.sleep(0.05)
        except Exception:
            pass
    t = threading.Thread(target=app, daemon=True)
    t.start()
    want = 1
    for k in kinds:
        if k == "conflict" or not case["reconnect"]:
            break
        want += 1
    end = time.time() + 6
    while time.time() < end and len(accepted) < want:
        time.sleep(0.05)
    time.sleep(0.6)           # a further, unwanted connection would show up now
    got = len(accepted)
    if case.get("then") == "disconnect" and got == want:
        # the connection is up and idle (the reader waits for bytes); the application, from a thread of its own, asks for the disconnect:
        # the peer must see the connection end and the stack must announce DISCONNECTED
        del seen_events[:]
        chk.hit("realdisp:disconnect-from-another-thread")
        req = threading.Thread(target=lambda: stack.broadcastEvent(YowLayerEvent(YowNetworkLayer.EVENT_STATE_DISCONNECT, reason="application")), daemon=True)
        req.start()
        end = time.time() + 4
        while time.time() < end and not (peer_saw_end and YowNetworkLayer.EVENT_STATE_DISCONNECTED in seen_events):
            time.sleep(0.05)
        if not peer_saw_end or YowNetworkLayer.EVENT_STATE_DISCONNECTED not in seen_events:
            fails.append(oracle("C16:disconnect-request-does-not-end-connection",
                                "%s dispatcher, connection up and idle, the application broadcasts DISCONNECT from its own thread: after 4 s the peer %s the connection end and "
                                "DISCONNECTED was %s (events since the request: %s) — the layers above wait for an announcement that never comes, a keep-alive timeout closes nothing"
                                % (case["dispatcher"], "saw" if peer_saw_end else "has NOT seen", "announced" if YowNetworkLayer.EVENT_STATE_DISCONNECTED in seen_events else "NOT announced",
                                   [e.rsplit(".", 1)[-1] for e in seen_events][:6])))
    stop.set()
    for c in accepted:
        try:
            c.close()
        except OSError:
            pass
    srv.close()
    t.join(4)
    nl.AsyncoreConnectionDispatcher = patched
    if got != want:
        fails.append(oracle("C16:no-reconnect" if got < want else "C16:unexpected-reconnect",
                            "%s dispatcher, application main (CONNECT, then the stack's loop), reconnect option %s, the peer answers the first %d connection(s) with stream errors %s: "
                            "%d connection(s) were made, the policy says %d" % (case["dispatcher"], bool(case["reconnect"]), len(kinds), kinds, got, want)))
    return fails


def run_dispcontract(chk, case):
    """the dispatcher double of the history stream stands for the library's default (asyncore) dispatcher: the REAL dispatcher object, put in
    the same state without a network (a socket that is still connecting / one half of a socket pair), must answer the same calls with the same
    callbacks as the double — in particular a disconnect request while the connection is still being established closes it and says so."""
    import socket
    import yowsup.layers.network.dispatcher.dispatcher_asyncore as DA
    from yowsup.layers.network.dispatcher.dispatcher import ConnectionCallbacks
    fails = []

    class CB(ConnectionCallbacks):
        def __init__(self):
            self.log = []

        def onConnecting(self):
            self.log.append("connecting")

        def onConnected(self):
            self.log.append("connected")

        def onDisconnected(self):
            self.log.append("disconnected")

        def onConnectionError(self, e):
            self.log.append("error")

        def onRecvData(self, d):
            self.log.append("data")
    rcb, dcb = CB(), CB()
    real = DA.AsyncoreConnectionDispatcher(rcb)
    socks = []
    n0 = len(FakeDispatcher.created)
    saved_log = getattr(FakeDispatcher, "LOG", [])
    FakeDispatcher.LOG = []
    double = FakeDispatcher(dcb)
    try:
        double.open = True
        if case["state"] == "connecting":
            real.create_socket(socket.AF_INET, socket.SOCK_STREAM)
            real.connecting = True
        else:
            a, b = socket.socketpair()
            socks += [a, b]
            a.setblocking(False)
            real.set_socket(a)
            real.connected = True
            real.handle_connect()
            double.handle_connect()
        chk.hit("dispcontract:" + case["state"])
        for i, op in enumerate(case["ops"]):
            r0, d0 = len(rcb.log), len(dcb.log)
            for obj in (real, double):
                try:
                    if op == "disconnect":
                        obj.disconnect()
                    elif op == "close":
                        obj.handle_close()
                    elif op == "connect-event":
                        obj.handle_connect()
                    elif op == "send":
                        obj.sendData(b"x")
                except Exception as e:
                    (rcb if obj is real else dcb).log.append("raised:" + type(e).__name__)
            rl, dl = rcb.log[r0:], dcb.log[d0:]
            rstate = "up" if real._connected else "down"
            dstate = "up" if double._connected else "down"
            if rl != dl or rstate != dstate:
                fails.append(oracle("C16:dispatcher-breaks-contract", "asyncore dispatcher %s, calls %s: call #%d (%s) answered with callbacks %s and is %s; the double the history stream "
                                    "uses (and the model) answers %s and is %s — a %s" % (case["state"], case["ops"], i, op, rl, rstate, dl, dstate,
                                                                                     "request the dispatcher ignores leaves the network layer waiting for ever" if not rl and dl else "difference the histories do not cover")))
                break
    finally:
        del FakeDispatcher.created[n0:]
        FakeDispatcher.LOG = saved_log
        try:
            real.close()
        except Exception:
            pass
        for s_ in socks:
            try:
                s_.close()
            except Exception:
                pass
    return fails


def run_case(chk, stream, case):
    if stream == "reframe":
        return run_reframe(chk, case)
    if stream == "dispcontract":
        return run_dispcontract(chk, case)
    if stream == "realdisp":
        return run_realdisp(chk, case)
    if stream == "reboot":
        return run_reboot(chk, case)
    if stream == "relogin":
        return run_relogin(chk, case)
    if stream == "hsfail":
        return run_hsfail(chk, case)
    if stream == "connectraises":
        return run_connectraises(chk, case)
    from yowsup.layers import YowLayerEvent
    from yowsup.layers.network import YowNetworkLayer
    fails = []
    d = chk.driver
    stack, near, iface, top = build(chk, case["opt"])
    net = stack.getLayer(0)
    d.ask("life reset %d %d" % (case["opt"]["reconnect"], case["opt"]["passive"]))
    iq = None
    for s in stack.getLayer(2).sublayers:
        if type(s).__name__ == "YowIqProtocolLayer":
            iq = s
    trace_all = []          # the whole real trace for the oracle
    pings = []              # ids of pings sent and not yet answered (harness view)
    executed = []
    diverged = False
    app_pings, ka_pings = [], []
    for ei, ev in enumerate(case["events"]):
        # the alphabet's restrictions are decided by the model (same predicate the theorems use)
        arg = ""
        if ev in ("dConnected", "dClosed"):
            if not FakeDispatcher.created:
                continue
            # the most recent dispatcher that can still produce this event
            cands = [x for x in FakeDispatcher.created if x.open and (ev == "dClosed" or not x._connected)]
            if not cands:
                continue
            target = cands[-1]
            arg = " %d" % target.idx
        prompt_pong = ev == "pingTickAnswered"
        if prompt_pong:
            ev = "pingTick"
        # for the model: an application ping is something the application writes; an answer that is not to the keep-alive's latest ping is a stale pong
        model_name = {"appPing": "appSend", "pong:app": "pong:0", "pong:prev": "pong:0"}          # a ping tick whose answer reaches the stack while the pinging thread is still inside its write
        if d.ask("life allowed %s%s" % (model_name.get(ev, ev), arg)) != "1":
            continue
        executed.append(ev + arg)
        chk.hit("ev:" + ev.split(":")[0])
        open_before = any(x.open for x in FakeDispatcher.created)
        del FakeDispatcher.LOG[:]
        nnear, ntop = len(near.events), len(top.received)
        nearev0 = len(near.events)
        topev0 = len(top.events)
        raised = None
        try:
            if ev == "connectReq":
                iface.connect()
            elif ev == "connectEvt":
                stack.broadcastEvent(YowLayerEvent(YowNetworkLayer.EVENT_STATE_CONNECT))
            elif ev == "dConnected":
                target.handle_connect()
            elif ev == "dClosed":
                target.handle_close()
            elif ev == "disconnectReq":
                iface.disconnect()
            elif ev in ("success", "failure") or ev.startswith("streamError"):
                net.receive(_node(ev, ei + len(case["events"])))
            elif ev == "pingTick":
                th = getattr(iq, "_pingThread", None)
                answered_inside = []
                if prompt_pong:
                    def hook(data, answered_inside=answered_inside):
                        from yowsup.layers.protocol_iq.protocolentities import ResultIqProtocolEntity
                        FakeDispatcher.answer_inside_write = None
                        pid = getattr(data, "getAttributeValue", lambda k: None)("id") if getattr(data, "tag", None) == "iq" else None
                        if pid is not None:
                            answered_inside.append(pid)
                            net.receive(ResultIqProtocolEntity(_id=pid, _from="s.whatsapp.net").toProtocolTreeNode())
                    FakeDispatcher.answer_inside_write = hook
                    chk.hit("ev:pingTickAnswered")
                if th is not None and not getattr(th, "_verif_done", False):
                    chk.vt.permit_of(th).release()
                    # wait until the thread is back at its sleep, or has ended
                    for _ in range(2000):
                        if chk.vt.at_sleep.acquire(timeout=0.005):
                            break
                        if getattr(th, "_verif_done", False):
                            break
                    else:
                        raise InfraError("keep-alive thread did not come back")
                    FakeDispatcher.LOG.append("tickLive")        # harness marker: a running keep-alive thread was due (it pings, written or not, or gives up)
                FakeDispatcher.answer_inside_write = None
                for x in getattr(iq, "_pingQueue", {}).keys():
                    if x not in ka_pings:
                        ka_pings.append(x)
            elif ev == "appPing":
                # a ping of the application's own (what a "/ping" command does): it is not the keep-alive's
                from yowsup.layers.protocol_iq.protocolentities import PingIqProtocolEntity
                ap = PingIqProtocolEntity()
                app_pings.append(ap.getId())
                iface._sendIq(ap, lambda e, o: None, lambda e, o: None)
            elif ev in ("pong:app", "pong:prev"):
                # an answer that is NOT to the keep-alive's latest ping: to the application's own ping, or (late) to a keep-alive ping of an
                # earlier connection — the keep-alive's record of what is unanswered on THIS connection is not touched by it
                from yowsup.layers.protocol_iq.protocolentities import ResultIqProtocolEntity
                cur = set(getattr(iq, "_pingQueue", {}).keys())
                pool = [x for x in (app_pings if ev == "pong:app" else ka_pings) if x not in cur and x in getattr(iq, "iqRegistry", {})]
                if pool:
                    chk.hit("ev:" + ev)
                    net.receive(ResultIqProtocolEntity(_id=pool[-1], _from="s.whatsapp.net").toProtocolTreeNode())
            elif ev.startswith("pong"):
                from yowsup.layers.protocol_iq.protocolentities import ResultIqProtocolEntity
                fresh = ev.endswith(":1") or ev == "pongRaises"
                outstanding = list(getattr(iq, "_pingQueue", {}).keys())
                pid = outstanding[-1] if (fresh and outstanding) else "stale-%d" % ei
                if fresh and not outstanding:
                    executed[-1] = "pong:0"
                top.armed = executed[-1] == "pongRaises"      # the application's callback for this answer raises
                try:
                    net.receive(ResultIqProtocolEntity(_id=pid, _from="s.whatsapp.net").toProtocolTreeNode())
                finally:
                    top.armed = False
            elif ev == "loop":
                from corr.c18 import run_loop
                run_loop(stack)
            elif ev == "appSend":
                from yowsup.layers.protocol_presence.protocolentities import AvailablePresenceProtocolEntity
                iface.send(AvailablePresenceProtocolEntity())
            elif ev.startswith("setReconnect"):
                # the application changes the option at run time
                from yowsup.layers.interface import YowInterfaceLayer
                stack.setProp(YowInterfaceLayer.PROP_RECONNECT_ON_STREAM_ERR, ev.endswith(":1"))
        except InfraError:
            raise
        except Exception as e:
            raised = e
        if ev == "success":
            th = getattr(iq, "_pingThread", None)
            if th is not None and not getattr(th, "_verif_started", False):
                th._verif_started = True
                chk.vt.at_sleep.acquire(timeout=2)      # the fresh thread reached its first sleep
        # ---- observations
        tick_live = "tickLive" in FakeDispatcher.LOG
        obs = [o for o in FakeDispatcher.LOG if o != "tickLive"]
        for e in near.events[nearev0:]:
            n = e.getName()
            if n.endswith("network.connected"):
                obs.append("up")
            elif n.endswith("network.disconnected"):
                obs.append("downNear")
        for e in top.events[topev0:]:
            n = e.getName()
            if n.endswith("network.disconnected"):
                obs.append("downAll")
        for e in near.events[nearev0:]:
            n = e.getName()
            if n.endswith("event.auth"):
                obs.append("authAttempt:%d" % (1 if e.getArg("passive") else 0))
            elif n.endswith("auth.authed"):
                obs.append("authed")
        for e in top.received[ntop:]:
            nm = type(e).__name__
            if nm == "FailureProtocolEntity":
                obs.append("entityFailure")
            elif nm == "StreamErrorProtocolEntity":
                t = e.getErrorType()
                obs.append("entityStreamError:%s" % {"conflict": "conflict", "ack": "ack", "xml-not-well-formed": "xmlNotWellFormed"}.get(t, "unknown"))
        for x in near.sent[len(trace_all) and 0:]:
            pass
        if raised is not None:
            obs.append("raised:" + type(raised).__name__)
        mev = executed[-1]
        model = d.ask("life step %s" % model_name.get(mev, mev))
        mobs = [x for x in model.split(",") if x]
        answered_now = ev == "pingTick" and prompt_pong and bool(answered_inside)
        if answered_now and d.ask("life allowed pong:1") == "1":
            # for the model the answer is the next event
            mobs += [x for x in d.ask("life step pong:1").split(",") if x]
        # pings: the model says pingSent + written/dropped; the real trace shows the write
        mobs_cmp = [x for x in mobs if x not in ("pingSent", "dropped")]
        obs_cmp = [x for x in obs if x != "dropped"]
        trace_all.append((mev, (obs if open_before else obs + ["noOpenConnectionBefore"]) + (["tickLive"] if tick_live else [])))
        if answered_now:
            executed.append("pong:1 (arrived while the pinging thread was still inside its write)")
            trace_all.append(("pong:1", []))
        if sorted(obs_cmp) != sorted(mobs_cmp) and not diverged:
            fails.append(corr("history:" + ev.split(":")[0], "event #%d %s of %s (opt %s): impl=%s model=%s" % (ei, mev, list(executed), case["opt"], obs, mobs)))
            diverged = True      # the real stack runs on (the model only decides the alphabet from here): the oracle sees the whole history
    # ---- oracle on the real trace
    import os as _os
    if _os.environ.get("VERIF_DEBUG"):
        import sys as _sys
        for t_ in trace_all:
            _sys.stderr.write("TRACE %r\n" % (t_,))
    fails += check_trace(case, executed, trace_all)
    # stop the keep-alive thread of this stack
    th = getattr(iq, "_pingThread", None) if iq is not None else None
    if th is not None:
        th.stop()
    return fails


def check_trace(case, executed, trace):
    """the property's clauses, evaluated on what the real stack did"""
    out = []
    up_open = False            # a connection announced up and not yet announced down
    live = False               # a connection exists or is being established and has not been announced down
    conn_up_d = None
    reconnect_expected = False
    unanswered = 0
    logged_in = False          # the current connection is up and its login was announced (until it is closed or announced down)
    opt_now = bool(case["opt"]["reconnect"])        # the reconnect option in force (the application may change it: setReconnect)
    for i, (ev, obs) in enumerate(trace):
        if ev.startswith("setReconnect"):
            opt_now = ev.endswith(":1")
        ups = obs.count("up")
        downs = obs.count("downNear")
        if ev.startswith("connect") or ev.startswith("dConnected"):
            reconnect_expected = reconnect_expected and "up" not in obs      # a new 'connected' clears the interface layer's reconnect flag
        if ev in ("connectReq", "connectEvt") and "noOpenConnectionBefore" in obs and not any(o.startswith("created") for o in obs):
            out.append(oracle("C16:connect-request-ignored", "history %s: no connection exists or is being established (every earlier one was closed), yet the connect "
                              "request starts none: transport state was not reset" % executed[:i + 1]))
            break
        if ev.startswith("dConnected"):
            if ups != 1 or sum(1 for o in obs if o.startswith("authAttempt")) != 1:
                out.append(oracle("C16:connect-not-announced-once", "history %s: after %s the stack announced connected %d time(s) and started %d login attempt(s)"
                                  % (executed[:i + 1], ev, ups, sum(1 for o in obs if o.startswith("authAttempt")))))
                break
            if up_open:
                out.append(oracle("C16:up-without-down", "history %s: a second connection is announced up while the previous one was never announced down" % executed[:i + 1]))
                break
            up_open = True
        if any(o.startswith("created") for o in obs) and not downs:
            live = True
        if downs:
            if downs > 1 or not live:
                out.append(oracle("C16:down-twice", "history %s: 'disconnected' announced %s although no connection was up or being established "
                                  "(the same connection is announced down twice)" % (executed[:i + 1], "%d times" % downs if downs > 1 else "again")))
                break
            up_open = False
            live = any(o.startswith("created") for o in obs) and obs.index("downNear") < max(j for j, o in enumerate(obs) if o.startswith("created"))
        # keep-alive: a connection may be closed at a tick only if a ping is still unanswered.  A ping written to an earlier connection stops
        # counting once the layers have been told that connection is down (the deferred 'disconnected' announcement delivered by the loop:
        # "downAll"; the keep-alive cannot know before — C16_down_resets_keepalive), or once the keep-alive itself gave up on it
        if "downAll" in obs:
            unanswered = 0
        if (ev in ("disconnectReq", "failure") or ev.startswith("streamError")) and any(o.startswith("closed") for o in obs):
            unanswered = 0          # a disconnect request broadcast from above passed the keep-alive's layer: it stopped and forgot its pings
        if ev in ("pong:1", "pongRaises"):
            unanswered = 0          # the answer to the latest ping clears the keep-alive's record (gotPong empties the queue)
        if ev == "pingTick":
            closed_now = any(o.startswith("closed") for o in obs)
            if logged_in and "tickLive" not in obs:
                # whatever the login's options (passive or not): an authenticated connection is kept alive
                out.append(oracle("C16:no-keepalive-on-authenticated-connection", "history %s (options %s): the connection is up and logged in and a ping interval has elapsed, "
                                  "but no keep-alive is running: no ping is ever written, so a dead connection is never noticed" % (executed[:i + 1], case["opt"])))
                break
            if closed_now and unanswered == 0:
                out.append(oracle("C16:ping-timeout-without-unanswered-ping", "history %s: the keep-alive closed the connection at this tick although no ping is unanswered (pings of a connection "
                                  "whose 'disconnected' announcement was delivered do not count: state of an earlier connection leaked)" % executed[:i + 1]))
                break
            if "tickLive" in obs and not closed_now and unanswered >= 1 and any(o.startswith("written") for o in obs):
                # the converse: a keep-alive ping of this connection is still unanswered at the next tick, and the keep-alive writes another ping
                # instead of asking for the disconnect (an answer to some OTHER ping — the application's own, one of an earlier connection — must
                # not count for it)
                out.append(oracle("C16:unanswered-ping-not-timed-out", "history %s: a keep-alive ping of this connection was left unanswered, yet at this tick the keep-alive "
                                  "writes another ping instead of closing the connection (ping timeout)" % executed[:i + 1]))
                break
            if "tickLive" in obs and not closed_now:
                unanswered += 1          # a ping was due and issued — written, or dropped because the connection is not up: either way it is not answered yet
            if closed_now:
                unanswered = 0      # the keep-alive stopped itself and forgot its pings (it asked for the disconnect)
        if ev == "success" and "authed" in obs and up_open:
            logged_in = True
        if downs or any(o.startswith("closed") for o in obs) or "downAll" in obs:
            logged_in = False
        if ev == "success" and obs.count("authed") != 1:
            out.append(oracle("C16:authed-not-once", "history %s: success announced authed %d time(s)" % (executed[:i + 1], obs.count("authed"))))
            break
        if ev == "failure" and ("entityFailure" not in obs or not any(o.startswith("closed") for o in obs)):
            out.append(oracle("C16:failure-not-delivered-or-closed", "history %s: after the login failure: %s" % (executed[:i + 1], obs)))
            break
        if ev.startswith("streamError"):
            k = ev.split(":")[1]
            if ("entityStreamError:%s" % k) not in obs or not any(o.startswith("closed") for o in obs):
                out.append(oracle("C16:stream-error-not-delivered-or-closed:" + k, "history %s: after the %s stream error the stack did: %s (expected the error entity "
                                  "at the application and the connection closed)" % (executed[:i + 1], k, obs)))
                break
            reconnect_expected = opt_now and k != "conflict"
        if ev in ("appSend",) and any(o.startswith("written") for o in obs) and not up_open:
            out.append(oracle("C16:write-while-down", "history %s: data written to a connection that is down" % executed[:i + 1]))
            break
        if ev == "loop" and "downAll" in obs:
            created = sum(1 for o in obs if o.startswith("created"))
            if reconnect_expected and created != 1 and not live:      # (a connection already on its way counts)
                out.append(oracle("C16:no-reconnect", "history %s: no reconnect after the stream error although the option is on" % executed[:i + 1]))
                break
            if created > 1 or (not reconnect_expected and created != 0):
                out.append(oracle("C16:unexpected-reconnect", "history %s: reconnected although it must not (conflict or option off)" % executed[:i + 1]))
                break
            reconnect_expected = False
    return out


def shrink(stream, case):
    if stream in ("reboot", "realdisp", "dispcontract", "reframe", "hsfail", "connectraises"):
        return
    if stream == "relogin":
        for i in range(len(case["downs"])):
            if len(case["downs"]) > 1:
                yield dict(case, downs=case["downs"][:i] + case["downs"][i + 1:])
        return
    ev = case["events"]
    for i in range(len(ev)):
        if len(ev) > 1:
            yield dict(case, events=ev[:i] + ev[i + 1:])
