"""C07  Mandatory acknowledgements — same machinery as C06 (Model/Routing.lean vs the real protocol group and
axolotl control layer), restricted to the stanzas that must be answered: notifications of every type,
call stanzas, pings, messages with unsupported payloads."""
import boot  # noqa: F401
from corr import c06
from corr.c06 import setup, shrink as _c06_shrink, nontrivial as _c06_nontrivial  # noqa: F401
from core import oracle


def nontrivial(stream, case):
    if stream == "encmedia":
        return (stream, repr(case))
    return _c06_nontrivial(stream, case)


def shrink(stream, case):
    if stream == "encmedia":
        return ()
    return _c06_shrink(stream, case)


def run_case(chk, stream, case):
    if stream == "encmedia":
        return run_encmedia(chk, case)
    return c06.run_case(chk, stream, case)


def run_encmedia(chk, case):
    """an ENCRYPTED media stanza whose <enc mediatype=…> names a kind the library does not know (the decryption itself is stood in for: the
    receive layer gets a manager that returns the plaintext): the decrypted content is unpresentable — it is answered with exactly one receipt"""
    from lib import stanzas
    from yowsup.structs import ProtocolTreeNode as N
    fails = []
    stack, bottom, top = c06.get_stack(chk, "1111", 1)
    recv = [s for s in stack.getLayer(2).sublayers if type(s).__name__ == "AxolotlReceivelayer"][0]
    # a payload the bundled schema has no field for (field 60 / 61, length-delimited): what a contacts-array or live-location message looks like to it
    tag = (case["field"] << 3) | 2
    plaintext = bytes([(tag & 0x7f) | 0x80, tag >> 7, 3, 1, 2, 3])

    class Manager(object):
        registration_id = 4711

        def decrypt_msg(self, *a, **kw):
            return plaintext

        def decrypt_pkmsg(self, *a, **kw):
            return plaintext
    saved = recv._manager
    recv._manager = Manager()
    mid = "ENCMEDIA%d%s" % (case["field"], case["mediatype"])
    attrs = {"id": mid, "from": stanzas.JID, "type": "media", "t": "1500000000", "notify": "peer"}
    if case["group"]:
        attrs["from"], attrs["participant"] = stanzas.GJID, stanzas.JID
    node = N("message", attrs, [N("enc", {"type": case["enc"], "v": "2", "mediatype": case["mediatype"]}, None, b"\x33\x0a\x21\x05ciphertext")])
    del bottom.sent[:], top.received[:]
    what = "encrypted media stanza (enc type %s%s) whose mediatype is %r, decrypting to content the schema has no field for" % (case["enc"], ", in a group" if case["group"] else "", case["mediatype"])
    try:
        import contextlib
        import io
        with contextlib.redirect_stdout(io.StringIO()):
            bottom.toUpper(node)
    except Exception as e:
        fails.append(oracle("C07:unsupported-payload-receipt:encrypted:raises", "%s: handling raises %s: %s" % (what, type(e).__name__, e)))
        return fails
    finally:
        recv._manager = saved
    chk.hit("encmedia:" + case["mediatype"])
    rec = [n for n in bottom.sent if n.tag == "receipt" and n["id"] == mid]
    if len(rec) != 1:
        fails.append(oracle("C07:unsupported-payload-receipt:encrypted", "%s: %d receipts were sent (%s), exactly one is due" % (
            what, len(rec), ", ".join("<receipt type=%r to=%r>" % (n["type"], n["to"]) for n in rec) or "none")))
    return fails

PID = "C07"
GEN = ["handlemaps"]
LEAN_MODULES = ["YowsupVerif.Props.C07"]
RULE = ("notification descriptors of every recognised type (picture set/delete, status, contacts add/remove/update/sync, group "
        "create/add/remove/subject, encrypt count/identity) and unknown types, with and without participant, with generated ids; call offers "
        "and other call kinds; pings; messages with payload kinds the library cannot present and unsupported mediatypes — injected as real "
        "stanzas below [axolotl control]? + parallel(getProtocolLayers(flags)) for all 16 module selections; the stanzas sent back down are "
        "compared with the Lean model and the oracle checks exactly one acknowledgement / receipt / pong echoing id, type, sender, participant. "
        "distinct = distinct (descriptor, flags, encryption).")
RULE += (' The relevant stanzas also with an unknown element before / after their own children.')
RULE += (' Unpresentable payloads include content kinds newer than the bundled schema (unknown fields), with and without a piggy-backed key distribution.')
RULE += (' Status notifications with empty / absent / non-ASCII / non-text bodies.')
RULE += (" stream 'encmedia': encrypted media stanzas (msg / pkmsg, direct and in a group) whose <enc mediatype> names a kind the library does not know, the decryption stood in for by a manager double: exactly one receipt.")
ASSUMPTIONS = c06.ASSUMPTIONS + ["a picture notification that is neither set nor delete is rejected with an error by design (excluded by the property)"]


def _relevant(d):
    return (d["tag"] in ("notification", "call") or (d["tag"] == "iq" and d.get("xmlns") == "ping")
            or (d["tag"] == "message" and d.get("hasProto")))


def cases(chk):
    r = chk.rng
    for enc in (0, 1):
        for d in c06.SUPPORTED:
            if _relevant(d):
                for f in c06.FLAGSETS:
                    yield "recv", {"d": d, "flags": f, "enc": enc}
    # messages whose payload the library cannot present: every kind, generated field values and key shapes
    for i in range(chk.scale(300, 6000)):
        # ... in a stanza of type text, or of a type the library does not know at all (reaction, poll, ...: "other")
        d = {"tag": "message", "mtype": ["text", "other"][i % 2] if i >= 9 * 4 else "text", "hasProto": 1, "media": "absent", "payload": "other", "pseed": r.randrange(1 << 30) if i >= 9 * 4 else i * 1000003 + i,
             "participant": r.choice([0, 1]), "skdm": r.choice([0, 0, 1])}
        yield "recv", {"d": d, "flags": r.choice(c06.FLAGSETS), "enc": r.choice([0, 1])}
    # unsupported media types, with and without a piggy-backed key distribution
    for sk in (0, 1):
        for f in c06.FLAGSETS:
            yield "recv", {"d": {"tag": "message", "mtype": "media", "hasProto": 1, "media": "other", "skdm": sk, "participant": sk}, "flags": f, "enc": 0}
    # notifications whose body is empty, absent, non-ASCII or not text at all (a contact CLEARED the status): acknowledged like any other
    for d in [x for x in c06.SUPPORTED if x["tag"] == "notification" and x.get("ntype") == "status"]:
        for body in (1, 2, 3, 4):
            for enc in (0, 1):
                yield "recv", {"d": dict(d, body=body), "flags": "1111", "enc": enc}
    # encrypted media stanzas of kinds the library does not know (contact arrays, live locations, whatever comes next)
    for mt in ("contact_array", "livelocation", "product", "kind_of_next_year"):
        for enc in ("msg", "pkmsg"):
            for group in (0, 1):
                yield "encmedia", {"mediatype": mt, "enc": enc, "group": group, "field": 60 if mt != "livelocation" else 61}
    # the same stanza 2-4 times under the same id on the same stack: every occurrence is acknowledged
    for d in [x for x in c06.SUPPORTED if _relevant(x) and x["tag"] in ("iq", "call", "notification")]:
        yield "recv", {"d": d, "flags": r.choice(c06.FLAGSETS), "enc": r.choice([0, 1]), "repeat": r.choice([2, 3, 4])}
    # an element the library does not know before / after the stanza's own children: what must be answered, and how, does not change
    for d in c06.SUPPORTED:
        if _relevant(d):
            for k in ("lead", "trail"):
                yield "recv", {"d": dict(d, **{k: 1}), "flags": "1111", "enc": r.choice([0, 1])}
    # the sender is a device of the account (user:device@server): acknowledgements and receipts go back to that very address
    for d in c06.SUPPORTED:
        if _relevant(d):
            yield "recv", {"d": dict(d, dev=1), "flags": "1111", "enc": r.choice([0, 1])}
    # ... and the unknown element carrying data of a size around every integer literal of the stanza class's source (the library formats a stanza
    # for its log lines BEFORE it answers it; data beyond a limit is shortened there): 501 and 4096 bytes, literals +-1
    from lib.probes import harvest_ints
    bulk = sorted(set([501, 4096] + [v + dd for v in harvest_ints(["yowsup/structs/protocoltreenode.py"]) for dd in (-1, 0, 1) if 16 < v + dd <= 70000]))[:12]
    for d in c06.SUPPORTED:
        if _relevant(d) and d["tag"] in ("notification", "call", "message"):
            for nb in bulk:
                yield "recv", {"d": dict(d, trail=nb), "flags": "1111", "enc": r.choice([0, 1])}
    n = 0
    while n < chk.scale(800, 20000):
        d = c06.rand_desc(r)
        if _relevant(d):
            n += 1
            yield "recv", {"d": d, "flags": r.choice(c06.FLAGSETS), "enc": r.choice([0, 1])}
