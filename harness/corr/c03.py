"""C03  End-to-end messaging — Model/E2E.lean vs 2-4 real full client stacks and the server double
(lib/sim.py), driven action by action (application send / server reads next stanza of an account / server
delivers next queued stanza to an account, optionally duplicated or corrupted / process restart).  After
every action the stanzas that left clients, what applications were shown, the receipts they got and all queue
lengths are compared with the model; at the end of each script the property's clauses are evaluated on the
real run."""
import random

import boot  # noqa: F401
from core import corr, oracle
from lib import payloads, sim

PID = "C03"
GEN = ["sentqueue"]
LEAN_MODULES = ["YowsupVerif.Props.C03", "YowsupVerif.Props.C03Queue"]
RULE = ("conversation scripts over 2-4 accounts and 0-2 groups: 3..10 application sends (1:1 or group; text / extended text / image / location / "
        "contact / link payloads), interleaved at random with the server's process / deliver actions (any enabled one: every per-account "
        "FIFO-respecting schedule), at most one fault (duplicate or corrupt) per (message, recipient), restarts of an account at quiescence; "
        "then drained to quiescence.  Every action is one model step.  distinct = distinct (accounts, groups, action list).")
RULE += (' Long-lived senders: 104 group / 103 direct messages in one process life, each acknowledged before the next, the last ones damaged once.')
RULE += (" stream 'sentqueue': operation sequences (send / receipt that takes the message out / participant receipt that leaves it in; 150-450 operations, "
         "ids repeated) on the real send layer's sent-message memory vs Model/SentQueue.lean, and the clause itself: a message with fewer than MAX_SENT_QUEUE "
         "later sends and no receipt is found by a retry request.")
RULE += (" Real-system-only scripts (case key realonly): damage to the FIRST ciphertext of a stanza (the pairwise part carrying the sender key) with the sender's next group messages racing the retry — outside the model's fault alphabet, decided by the property's clauses on the real run; a delivery that makes the receive layer handle stanzas more than 400 times is stopped and reported.")
RULE += (' Fixed scripts with crossed first contact (two accounts send each other their first message at once) followed by duplicated deliveries.')
ASSUMPTIONS = ["symbolic cryptography: a ciphertext opens exactly once, at the holder of the session / sender key it names (python-axolotl exercised, not modelled)",
               "the server double (routing, fan-out, receipts, key and group queries, per-account FIFO queues) is the honest server of the property",
               "fewer than 100 unacknowledged messages per sender; restarts only at quiescence; one fault per (message, recipient)"]

PHONE = "49153000%02d"


def setup(chk):
    from yowsup.axolotl.manager import AxolotlManager
    AxolotlManager.COUNT_GEN_PREKEYS = 40
    AxolotlManager.THRESHOLD_REGEN = 2


def cases(chk):
    r = chk.rng
    corpus = [
        {"accts": 2, "groups": [], "script": [["send", 1, "u", 2, 0], ["send", 2, "u", 1, 1], ["send", 1, "u", 2, 3]], "faults": [], "restarts": [], "seed": 1},
        {"accts": 3, "groups": [[1, 2, 3]], "script": [["send", 1, "g", 0, 0], ["send", 2, "g", 0, 3], ["send", 1, "g", 0, 4]], "faults": [], "restarts": [], "seed": 2},
        {"accts": 2, "groups": [], "script": [["send", 1, "u", 2, 0], ["send", 1, "u", 2, 5]], "faults": [[0, "corrupt"], [1, "dup"]], "restarts": [], "seed": 3},
        {"accts": 3, "groups": [[1, 2, 3]], "script": [["send", 1, "u", 2, 0], ["send", 1, "g", 0, 3], ["send", 3, "g", 0, 1]], "faults": [[1, "corrupt"], [2, "dup"]], "restarts": [1], "seed": 4},
        {"accts": 4, "groups": [[1, 2, 3, 4], [2, 3]], "script": [["send", 2, "g", 1, 4], ["send", 1, "g", 0, 6], ["send", 3, "u", 4, 2], ["send", 4, "g", 0, 5]], "faults": [], "restarts": [2], "seed": 5},
    ]
    # duplicate delivery of group messages that travel as a plain sender-key message (not the sender's first to that member)
    corpus += [
        {"accts": 3, "groups": [[1, 2, 3]], "script": [["send", 1, "g", 0, 0], ["wait"], ["send", 1, "g", 0, 1], ["wait"], ["send", 2, "g", 0, 3], ["wait"], ["send", 1, "g", 0, 4]],
         "faults": [[1, "dup"], [3, "dup"]], "restarts": [], "seed": 9},
        {"accts": 3, "groups": [[1, 2, 3]], "script": [["send", 1, "g", 0, 0], ["wait"], ["send", 1, "g", 0, 1], ["send", 1, "g", 0, 2], ["wait"], ["send", 1, "g", 0, 4]],
         "faults": [[1, "corrupt"], [2, "dup"], [3, "corrupt"]], "restarts": [], "seed": 12},
        {"accts": 3, "groups": [[1, 2, 3]], "script": [["send", 1, "g", 0, 0], ["send", 1, "g", 0, 1], ["send", 1, "g", 0, 3]],
         "faults": [[1, "corrupt"], [2, "dup"]], "restarts": [], "seed": 10},
        {"accts": 4, "groups": [[1, 2, 3, 4]], "script": [["send", 2, "g", 0, 0], ["send", 2, "g", 0, 1], ["send", 2, "g", 0, 5], ["send", 3, "g", 0, 3], ["send", 3, "g", 0, 4]],
         "faults": [[1, "dup"], [2, "dup"], [4, "dup"]], "restarts": [], "seed": 11},
    ]
    # a party restarts right after its own group / 1:1 message was the last thing it wrote to its key store, then writes again
    corpus += [
        {"accts": 3, "groups": [[1, 2, 3]], "script": [["send", 1, "g", 0, 0], ["restart", 1], ["send", 1, "g", 0, 3]], "faults": [], "restarts": [], "seed": 6},
        {"accts": 3, "groups": [[1, 2, 3]], "script": [["send", 1, "g", 0, 0], ["send", 1, "g", 0, 1], ["restart", 1], ["send", 1, "g", 0, 3], ["restart", 2], ["send", 2, "g", 0, 4]], "faults": [], "restarts": [], "seed": 7},
        {"accts": 2, "groups": [], "script": [["send", 1, "u", 2, 0], ["restart", 1], ["send", 1, "u", 2, 3], ["restart", 2], ["send", 2, "u", 1, 4], ["restart", 2], ["send", 1, "u", 2, 5]], "faults": [], "restarts": [], "seed": 8},
    ]
    # crossed first contact: two accounts send each other their FIRST message at the same moment (each builds its own session; both sessions
    # live on as current / earlier state), then ordinary traffic both ways and in a group, some of it delivered twice
    corpus += [
        {"accts": 2, "groups": [], "script": [["send", 1, "u", 2, 0], ["send", 2, "u", 1, 1], ["wait"], ["send", 1, "u", 2, 3], ["send", 2, "u", 1, 4], ["wait"], ["send", 2, "u", 1, 5]],
         "faults": [[2, "dup"], [3, "dup"], [4, "dup"]], "restarts": [], "seed": 21},
        {"accts": 3, "groups": [[1, 2, 3]], "script": [["send", 1, "u", 2, 0], ["send", 2, "u", 1, 1], ["wait"], ["send", 1, "g", 0, 3], ["wait"], ["send", 2, "g", 0, 4], ["send", 1, "u", 2, 5]],
         "faults": [[2, "dup"], [3, "dup"], [4, "dup"]], "restarts": [], "seed": 22},
        {"accts": 3, "groups": [[1, 2, 3]], "script": [["send", 1, "u", 2, 0], ["send", 2, "u", 1, 1], ["send", 3, "u", 1, 2], ["send", 1, "u", 3, 6], ["wait"], ["send", 1, "g", 0, 3], ["send", 3, "g", 0, 4]],
         "faults": [[4, "dup"], [5, "dup"]], "restarts": [], "seed": 23},
    ]
    for c in corpus:
        yield "script", c
    # the memory of sent messages that retry requests are served from (bounded: Model/SentQueue.lean)
    for i in range(chk.scale(12, 300)):
        n = r.choice([150, 220, 450])
        ops = []
        nid = 0
        for _j in range(n):
            x = r.random()
            if x < 0.72 or nid == 0:
                ops.append(["enq", nid if r.random() < 0.97 else r.randrange(nid + 1)])
                nid += 1
            else:
                ops.append(["take", max(0, nid - 1 - int(r.expovariate(0.05))) if r.random() < 0.9 else nid + 5, r.choice([0, 0, 1])])
        yield "sentqueue", {"ops": ops}
    # damage to the FIRST ciphertext of a stanza (in a sender's first group message to a member: the pairwise part that carries the sender key; the
    # group part stays intact), with the sender's next group messages racing the retry — outside the model's fault alphabet: real system only
    for i in range(chk.scale(40, 800)):
        na = r.choice([2, 3, 3])
        n = r.choice([2, 2, 3, 4])
        script = [["send", 1 + (j * (i % 2)) % na, "g", 0, r.randrange(70)] for j in range(n)]
        if i % 4 == 3:
            script.insert(1, ["wait"])
        faults = [[0, "corrupt-first"]] + ([[1, r.choice(["corrupt-first", "corrupt"])]] if i % 3 == 0 else [])
        yield "script", {"accts": na, "groups": [list(range(1, na + 1))], "script": script, "faults": faults, "restarts": [], "seed": r.randrange(1 << 30), "realonly": 1}
    # a long-lived sender: more messages in one process life than any bounded memory of sent messages holds (the property's bound is on
    # UNACKNOWLEDGED messages: each of these is acknowledged before the next), then one whose ciphertext is damaged once
    for kind, n in (("g", 104), ("u", 103)) if chk.quick() else (("g", 104), ("u", 103), ("g", 230)):
        script = []
        for i in range(n):
            script.append(["send", 1, kind, 0 if kind == "g" else 2, i % 70])
            script.append(["wait"])
        yield "script", {"accts": 2, "groups": [[1, 2]] if kind == "g" else [], "script": script, "faults": [[n - 1, "corrupt"], [n - 3, "corrupt"]], "restarts": [],
                         "seed": 1000 + n}
    # a sender whose FIRST message goes to a group (one key fetch for several members), then one-to-one messages to each of those members
    for i in range(chk.scale(6, 120)):
        na = 3 + i % 2
        script = [["send", 1, "g", 0, r.randrange(70)]] + ([["wait"]] if i % 3 == 0 else []) + [["send", 1, "u", b, r.randrange(70)] for b in range(2, na + 1)]
        if i % 2:
            script.append(["send", 2, "u", 1, r.randrange(70)])
        yield "script", {"accts": na, "groups": [list(range(1, na + 1))], "script": script, "faults": [], "restarts": [], "seed": r.randrange(1 << 30)}
    # the smallest group: two members.  The sender's first message to it (a key request for ONE jid), damaged on its way, and later ones
    for i in range(chk.scale(6, 100)):
        script = [["send", 1 + i % 2, "g", 0, r.randrange(70)] for _i in range(1 + i % 3)]
        yield "script", {"accts": 2 + (i // 2) % 2, "groups": [[1, 2]], "script": script, "faults": [[j, "corrupt"] for j in range(len(script)) if (i + j) % 2 == 0] or [[0, "corrupt"]],
                         "restarts": [], "seed": r.randrange(1 << 30)}
    # a burst: two or three messages in a row from one sender to one recipient (or group), EACH damaged once — several retry requests are being
    # served at the same time (the key fetch of one is still unanswered when the next retry receipt arrives)
    for i in range(chk.scale(14, 300)):
        n = r.choice([2, 2, 3])
        if i % 3 == 2:
            script = [["send", 1, "g", 0, r.randrange(70)] for _i in range(n)]
            groups = [[1, 2, 3]]
        else:
            script = ([["send", 2, "u", 1, r.randrange(70)], ["wait"]] if i % 2 else []) + [["send", 1, "u", 2, r.randrange(70)] for _i in range(n)]
            groups = []
        first = 1 if (i % 3 != 2 and i % 2) else 0
        yield "script", {"accts": 3 if groups else 2, "groups": groups, "script": script, "faults": [[first + j, "corrupt"] for j in range(n)], "restarts": [],
                         "seed": r.randrange(1 << 30)}
    # group conversations with one damaged copy and the other recipients' receipts racing the retry request
    for i in range(chk.scale(12, 200)):
        na = r.choice([3, 3, 4])
        script = [["send", r.randint(1, na), "g", 0, r.randrange(70)] for _i in range(r.randint(2, 4))]
        yield "script", {"accts": na, "groups": [list(range(1, na + 1))], "script": script,
                         "faults": [[r.randrange(len(script)), "corrupt"] for _i in range(r.randint(1, 2))], "restarts": [], "seed": r.randrange(1 << 30)}
    for _ in range(chk.scale(25, 800)):
        na = r.choice([2, 2, 3, 3, 4])
        groups = []
        if na >= 3 and r.random() < 0.7:
            groups.append(list(range(1, na + 1)))
            if na == 4 and r.random() < 0.4:
                groups.append(sorted(r.sample(range(1, 5), 2 if r.random() < 0.5 else 3)))
        script = []
        for _i in range(r.randint(3, 10)):
            a = r.randint(1, na)
            if groups and r.random() < 0.45:
                gi = r.randrange(len(groups))
                if a not in groups[gi]:
                    a = r.choice(groups[gi])
                script.append(["send", a, "g", gi, r.randrange(70)])
            else:
                b = r.choice([x for x in range(1, na + 1) if x != a])
                script.append(["send", a, "u", b, r.randrange(70)])
        nf = r.choice([0, 0, 1, 2, 3])
        faults = [[r.randrange(len(script)), r.choice(["dup", "corrupt"])] for _i in range(nf)]
        if r.random() < 0.4:
            # the conversation pauses: later messages meet established sessions and distributed sender keys
            for _w in range(r.randint(1, 2)):
                script.insert(r.randrange(1, len(script) + 1), ["wait"])
        if r.random() < 0.35:
            # a restart of the sender right after one of its messages (placed in the script: happens at the next quiescence)
            sends = [j for j, it in enumerate(script) if it[0] == "send"]
            i = r.choice(sends)
            script.insert(i + 1, ["restart", script[i][1]])
            nth = sends.index(i)                            # faults are addressed by message number: keep those before the restart
            faults = [f for f in faults if f[0] < nth]
        restarts = [r.randint(1, na) for _i in range(r.choice([0, 0, 1, 2]))]
        yield "script", {"accts": na, "groups": groups, "script": script, "faults": faults, "restarts": restarts, "seed": r.randrange(1 << 30)}


def _run_with_faults(w, r, fault_for, hist, limit=5000, some=None):
    """the real system alone, any schedule to quiescence — the server's remaining faults (one damaged or duplicated copy per listed message) still happen.
    `some`: at most that many actions (the conversation goes on while stanzas are still under way)"""
    n = 0
    while n < limit:
        acts = w.srv.enabled()
        if not acts or (some is not None and n >= some):
            return n
        act = r.choice(acts)
        fault = None
        if act[0] == "deliver" and w.srv.outbound[act[1]]:
            head = w.srv.outbound[act[1]][0][0]
            if head.tag == "message" and head.getChild("enc") is not None and str(head["id"]).isdigit() and int(head["id"]) in fault_for:
                fault = fault_for.pop(int(head["id"]))
                hist.append("deliver %d %s" % (acct_of(act[1]), fault))
        w.srv.fire(act, fault=fault)
        n += 1
    raise RuntimeError("server: no quiescence after %d actions" % limit)


def nontrivial(stream, case):
    return repr(case)


def shrink(stream, case):
    if stream == "sentqueue":
        ops = case["ops"]
        for i in range(0, len(ops), max(1, len(ops) // 40)):
            yield {"ops": ops[:i] + ops[i + max(1, len(ops) // 40):]}
        return
    sc = case["script"]
    for i in range(len(sc)):
        yield dict(case, script=sc[:i] + sc[i + 1:], faults=[f for f in case["faults"] if f[0] < len(sc) - 1])
    if case["faults"]:
        yield dict(case, faults=case["faults"][:-1])
    if case["restarts"]:
        yield dict(case, restarts=case["restarts"][:-1])


# ---------------------------------------------------------------------------------------- canonical forms of the real run
def acct_of(jid):
    return int(jid.split("@")[0][-2:])


def dest_of(jid):
    u = jid.split("@")[0]
    if "-" in u:
        return "g%d" % int(u.split("-")[1])
    return "u%d" % int(u[-2:])


def part_of(jid):
    return "-" if jid is None else str(acct_of(jid))


def stanza_summary(node):
    t = node.tag
    if t == "message":
        encs = ["-/%s" % e["type"] for e in node.getAllChildren("enc")]
        pn = node.getChild("participants")
        if pn is not None:
            for tn in pn.getAllChildren("to"):
                for e in tn.getAllChildren("enc"):
                    encs.append("%d/%s" % (acct_of(tn["jid"]), e["type"]))
        return "m:%s:%s:%s:%d:[%s]:%d" % (node["id"], dest_of(node["to"]), part_of(node["participant"]), 1 if node["type"] == "media" else 0,
                                          ",".join(sorted(encs)), 1 if (node.getChild("proto") is not None or node.getChild("body") is not None) else 0)
    if t == "receipt":
        ty = node["type"]
        if ty == "retry":
            ty = "retry%s" % node.getChild("retry")["count"]
        elif ty is None:
            ty = "d"
        return "r:%s:%s:%s:%s" % (node["id"], dest_of(node["to"]), part_of(node["participant"]), ty)
    if t == "ack":
        return "a:%s:%d" % (node["id"], {"message": 0, "receipt": 1}.get(node["class"], 9))
    if t == "iq" and node["xmlns"] == "encrypt" and node["type"] == "get":
        return "k:" + "+".join(str(acct_of(u["jid"])) for u in node.getChild("key").getAllChildren("user"))
    if t == "iq" and node["xmlns"] == "w:g2" and node["type"] == "get":
        return "g:%d" % int(node["to"].split("@")[0].split("-")[1])
    return "?%s:%s" % (t, node["type"])


def norm_model_w(w):
    out = []
    for item in w.split(" "):
        if not item:
            continue
        who, st = item.split(">", 1)
        if st.startswith("m:"):
            head, rest = st.split("[", 1)
            encs, tail = rest.split("]", 1)
            st = head + "[" + ",".join(sorted(x for x in encs.split(",") if x)) + "]" + tail
        out.append(who + ">" + st)
    return out


class World(object):
    def __init__(self, chk, case):
        self.case = case
        self.rng = random.Random(case["seed"])
        self.srv = sim.Server(self.rng, low_water=-1)
        self.srv.install()
        self.clients = {}
        for a in range(1, case["accts"] + 1):
            c = sim.Client(self.srv, PHONE % a)
            self.clients[a] = c
            self.srv.add_client(c)
            c.connect()
        self.gjid = {}
        for gi, ms in enumerate(case["groups"]):
            j = "%s-%d@g.us" % (PHONE % ms[0], gi)
            self.gjid[gi] = j
            self.srv.groups[j] = [self.clients[m].jid for m in ms]
        self.srv.run()
        self.sent = {}        # id -> (sender, dest kind, dest, token, canonical bytes)
        self.nshown = dict((a, 0) for a in self.clients)
        self.nrcpt = dict((a, 0) for a in self.clients)

    def close(self):
        for c in self.clients.values():
            if c.stack is not None:
                c.kill_process()

    def shown_since(self):
        out = []
        for a in sorted(self.clients):
            msgs = self.clients[a].seen("message")
            for e in msgs[self.nshown[a]:]:
                ident = self.sent.get(e.getId())
                tok = "X"
                if ident is not None and payloads.canon(e) == ident[4] and payloads.content(e) == ident[5]:
                    tok = str(ident[3])
                out.append("s:%d:%s:%s:%s:%d:%s" % (a, e.getId(), dest_of(e.getFrom()), part_of(e.getParticipant()), 1 if e.getType() == "media" else 0, tok))
            self.nshown[a] = len(msgs)
        return out

    def rcpt_since(self):
        out = []
        for a in sorted(self.clients):
            rs = self.clients[a].seen("receipt")
            for e in rs[self.nrcpt[a]:]:
                ty = e.getType()
                out.append("R:%d:%s:%s:%s:%s" % (a, e.getId(), dest_of(e.getFrom()), part_of(e.getParticipant()), "d" if ty is None else ty))
            self.nrcpt[a] = len(rs)
        return out

    def queues(self):
        out = []
        for a in sorted(self.clients):
            jid = self.clients[a].jid
            conn = self.srv.conns.get(jid)
            out.append("%d:%d/%d" % (a, len(conn.inbound) if conn else 0, len(self.srv.outbound[jid])))
        return ",".join(out)


class _Node(dict):
    pass


def run_sentqueue(chk, case):
    from yowsup.layers.axolotl.layer_send import AxolotlSendLayer
    d = chk.driver
    d.ask("sq reset")
    cap = int(d.ask("sq cap"))
    layer = AxolotlSendLayer()
    fails = []
    last_enq = {}            # id -> number of sends after its latest send
    live = {}                # id -> sent, not taken out since
    sends = 0
    for i, op in enumerate(case["ops"]):
        if op[0] == "enq":
            layer.enqueueSent(_Node(id=str(op[1])))
            impl = ",".join(n["id"] for n in layer.sentQueue) or "-"
            model = d.ask("sq enq %d" % op[1])
            sends += 1
            last_enq[op[1]] = sends
            live[op[1]] = True
        else:
            got = layer.getEnqueuedMessageNode(str(op[1]), bool(op[2]))
            impl = "%s %s" % ("found" if got is not None else "none", ",".join(n["id"] for n in layer.sentQueue) or "-")
            model = d.ask("sq take %d %d" % (op[1], op[2]))
            # the clause itself, on the real object: sent, fewer than `cap` sends since, no receipt that took it out: a retry request finds it
            if live.get(op[1]) and sends - last_enq[op[1]] < cap and got is None:
                fails.append(oracle("C03:retry-request-finds-nothing", "operation #%d of %d: message %d was sent %d sends ago (memory bound %d) and no receipt took it out, "
                                    "yet a retry request for it finds nothing: it cannot be encrypted again for the recipient" % (i, len(case["ops"]), op[1], sends - last_enq[op[1]], cap)))
                break
            if not op[2]:
                live[op[1]] = False
        if impl != model:
            fails.append(corr("sentqueue", "operation #%d %s: impl=%s model=%s" % (i, op, impl[-80:], model[-80:])))
            break
    chk.hit("sentqueue:ops>%d" % (len(case["ops"]) // 100 * 100), "sentqueue:overflowed" if sends > cap else "sentqueue:below-bound")
    return fails


def run_case(chk, stream, case):
    if stream == "sentqueue":
        return run_sentqueue(chk, case)
    from yowsup.layers.protocol_messages.protocolentities.attributes.attributes_message_meta import MessageMetaAttributes
    fails = []
    d = chk.driver
    w = World(chk, case)
    r = w.rng
    try:
        init = "e2e init %s %s" % ("+".join(str(a) for a in sorted(w.clients)),
                                   " ".join("%d:%s" % (gi, "+".join(str(m) for m in ms)) for gi, ms in enumerate(case["groups"])))
        d.ask(init.strip())
        script = list(case["script"])
        fault_for = {}          # script index -> fault kind (applied to the first eligible delivery of that message)
        for i, f in case["faults"]:
            if i < len(script):
                fault_for.setdefault(100 + i, f)
        restarts = list(case["restarts"])
        nsend = 0
        hist = []
        steps = 0
        faulty = False
        diverged = False
        realonly = bool(case.get("realonly"))
        if realonly:
            # faults the model does not have (damage to the FIRST ciphertext of a stanza): the real system alone, the property's clauses decide
            diverged = True
            chk.hit("script:real-system-only")
        while steps < 2000 and not realonly:
            steps += 1
            enabled = d.ask("e2e enabled").split()
            choices = list(enabled)
            if script and script[0][0] == "wait":
                # the script goes on only when everything sent so far has been delivered and acknowledged
                if not enabled:
                    script.pop(0)
                    continue
            elif script and script[0][0] == "restart":
                # a restart placed in the script: wait for quiescence, then restart that account, then go on with the script
                if not enabled:
                    restarts.insert(0, script.pop(0)[1])
                    choices = ["restart"]
            elif script:
                choices += ["send"] * (1 + len(choices) // 2)
            if restarts and not enabled and "restart" not in choices:
                choices.append("restart")
            if not choices:
                break
            ch = r.choice(choices)
            nwire = len(w.srv.wire)
            if ch == "send":
                _s, a, k, dst, tok = script.pop(0)
                mid = 100 + nsend
                nsend += 1
                to = w.clients[dst].jid if k == "u" else w.gjid[dst]
                ent = payloads.build(tok, MessageMetaAttributes(id=str(mid), recipient=to))
                w.sent[str(mid)] = (a, k, dst, tok, payloads.canon(ent), payloads.content(ent))
                line = "appSend %d %s %d %d %d %d" % (a, k, dst, mid, 1 if payloads.is_media(tok) else 0, tok)
                w.clients[a].send_entity(ent)
                chk.hit("act:send-" + ("group" if k == "g" else "user"), "payload:" + payloads.kind_of(tok))
            elif ch == "restart":
                a = restarts.pop(0)
                line = "restart %d" % a
                w.clients[a].restart()
                w.clients[a].connect()
                w.srv.run()
                nwire = len(w.srv.wire)       # the login exchange is not part of the model
                chk.hit("act:restart")
            else:
                parts = ch.split(":")
                a = int(parts[1])
                jid = w.clients[a].jid
                if parts[0] == "process":
                    line = "process %d" % a
                    w.srv.fire(("process", jid))
                    chk.hit("act:process")
                else:
                    fault = "none"
                    if parts[2] == "fault":
                        head = w.srv.outbound[jid][0][0]
                        if head.tag == "message" and int(head["id"]) in fault_for:
                            fault = fault_for.pop(int(head["id"]))
                    line = "deliver %d %s" % (a, fault)
                    w.srv.fire(("deliver", jid), fault=None if fault == "none" else fault)
                    chk.hit("act:deliver-" + fault)
            hist.append(line)
            ctx = "accounts=%d groups=%s actions=%s" % (case["accts"], case["groups"], hist)
            if w.srv.raised:
                j, e, tb = w.srv.raised[0]
                fails.append(oracle("C03:exception-escaped:" + type(e).__name__, "%s: %s raised in account %d: %s" % (ctx, type(e).__name__, acct_of(j), tb.strip().splitlines()[-1])))
                return fails
            out = d.ask("e2e act " + line)
            if out in ("not-allowed", "bad-op"):
                fails.append(corr("action-" + out, "%s: the model answers %s" % (ctx, out)))
                return fails
            tk = d.ask("e2e tokens")
            faulty = faulty or line.endswith("dup") or line.endswith("corrupt")
            if not faulty:
                ti = d.ask("e2e tokinv")
                if ti != "1":
                    fails.append(corr("token-invariant", "%s: fault-free run but a conservation invariant of the model is false: %s" % (ctx, ti)))
                    return fails
            if "conserved=1" in tk:
                chk.hit("tokens:conserved")
            elif not faulty:
                fails.append(corr("token-conservation", "%s: fault-free run but the model's token count is off: %s" % (ctx, tk)))
                return fails
            else:
                chk.hit("tokens:off-after-fault")
            mW, mS, mR, mQ = [x.split("=", 1)[1] for x in out.split("|")]
            iW = ["%d>%s" % (acct_of(j), stanza_summary(n)) for (j, dirn, n) in w.srv.wire[nwire:] if dirn == "c2s"]
            iS, iR, iQ = w.shown_since(), w.rcpt_since(), w.queues()
            for s_ in iS:
                chk.hit("shown")
            for x in iW:
                chk.hit("wire:" + x.split(">")[1].split(":")[0] + (":retry" if ":retry" in x else ""))
            if norm_model_w(mW) != iW or sorted(mS.split()) != sorted(iS) or sorted(x.rstrip("0123456789") if "retry" in x else x for x in mR.split()) != sorted(iR) or mQ != iQ:
                fails.append(corr("step:" + line.split()[0], "%s: impl W=%s S=%s R=%s Q=%s   model W=%s S=%s R=%s Q=%s" % (ctx, iW, iS, iR, iQ, norm_model_w(mW), mS, mR, mQ)))
                diverged = True
                break
        if diverged:
            # model and code have parted: finish the conversation on the real system alone (rest of the script, then any schedule to
            # quiescence) and let the property's clauses decide whether this is a concrete failing input
            for item in script:
                if item[0] == "wait":
                    try:
                        _run_with_faults(w, r, fault_for, hist)
                    except Exception:
                        pass
                    continue
                if item[0] == "restart":
                    try:
                        _run_with_faults(w, r, fault_for, hist)
                    except Exception:
                        pass
                    w.clients[item[1]].restart()
                    w.clients[item[1]].connect()
                    w.srv.run()
                    hist.append("restart %d" % item[1])
                    continue
                _s, a, k, dst, tok = item
                if realonly and nsend:
                    # the next send comes while earlier stanzas are still under way: a few server actions in between
                    try:
                        _run_with_faults(w, r, fault_for, hist, some=r.choice([0, 1, 2, 3, 4, 6, 9, 14]))
                    except Exception:
                        pass
                mid = 100 + nsend
                nsend += 1
                to = w.clients[dst].jid if k == "u" else w.gjid[dst]
                ent = payloads.build(tok, MessageMetaAttributes(id=str(mid), recipient=to))
                w.sent[str(mid)] = (a, k, dst, tok, payloads.canon(ent), payloads.content(ent))
                w.clients[a].send_entity(ent)
                hist.append("appSend %d %s %d %d" % (a, k, dst, mid))
            try:
                _run_with_faults(w, r, fault_for, hist)
                hist.append("… any schedule to quiescence")
            except RuntimeError:
                hist.append("… (no quiescence)")
        # ------------------------------------------------------------ the property's clauses on the real run (script fully drained)
        ctx = "accounts=%d groups=%s actions=%s" % (case["accts"], case["groups"], hist)
        if realonly and w.srv.raised:
            j, e, tb = w.srv.raised[0]
            fails.append(oracle("C03:exception-escaped:" + type(e).__name__, "%s: %s raised in account %d: %s" % (ctx, type(e).__name__, acct_of(j), tb.strip().splitlines()[-1])))
            return fails
        nbefore = len(fails)
        for mid, (a, k, dst, tok, canon, content) in sorted(w.sent.items()):
            intended = [dst] if k == "u" else [m for m in case["groups"][dst] if m != a]
            frm = w.clients[a].jid if k == "u" else w.gjid[dst]
            for b in sorted(w.clients):
                got = [e for e in w.clients[b].seen("message") if e.getId() == mid]
                if b not in intended:
                    if got:
                        fails.append(oracle("C03:delivered-to-unintended", "%s: message %s from %d to %s%d was shown to account %d" % (ctx, mid, a, k, dst, b)))
                    continue
                if len(got) != 1:
                    fails.append(oracle("C03:not-exactly-once:%d" % min(len(got), 2), "%s: message %s (%s) from %d to %s%d was shown %d times to account %d"
                                        % (ctx, mid, payloads.kind_of(tok), a, k, dst, len(got), b)))
                    continue
                e = got[0]
                if payloads.canon(e) != canon or payloads.content(e) != content or e.getFrom() != frm or (k == "g" and e.getParticipant() != w.clients[a].jid) or (k == "u" and e.getParticipant() is not None):
                    fails.append(oracle("C03:content-or-origin-altered", "%s: message %s arrived at %d with from=%s participant=%s content-equal=%s"
                                        % (ctx, mid, b, e.getFrom(), e.getParticipant(), payloads.canon(e) == canon and payloads.content(e) == content)))
                rc = [x for x in w.clients[a].seen("receipt") if x.getId() == mid and x.getType() is None and
                      ((k == "u" and x.getFrom() == w.clients[b].jid) or (k == "g" and x.getParticipant() == w.clients[b].jid))]
                if not rc:
                    fails.append(oracle("C03:delivery-receipt-missing", "%s: the application of %d never got %d's delivery receipt for message %s" % (ctx, a, b, mid)))
            if len(fails) > nbefore:
                return fails
        # unknown messages shown
        for b in sorted(w.clients):
            for e in w.clients[b].seen("message"):
                if e.getId() not in w.sent:
                    fails.append(oracle("C03:phantom-message", "%s: account %d was shown a message with unknown id %s" % (ctx, b, e.getId())))
        # only ciphertext on the wire
        for (j, dirn, n) in w.srv.wire:
            if dirn != "c2s" or n.tag != "message":
                continue
            blob = b"\x00".join(sim.node_bytes(n))
            for mid, (a, k, dst, tok, canon, content) in w.sent.items():
                for sec in payloads.secrets(tok) + [canon]:
                    if len(sec) < 12:
                        continue          # too short to tell from a coincidence in ciphertext (empty text body)
                    if sec in blob:
                        fails.append(oracle("C03:plaintext-on-wire", "%s: a stanza leaving account %d contains plaintext of message %s" % (ctx, acct_of(j), mid)))
                        return fails
            if n.getChild("proto") is not None or n.getChild("body") is not None:
                fails.append(oracle("C03:plaintext-on-wire", "%s: a message stanza leaving account %d has a plaintext child" % (ctx, acct_of(j))))
                return fails
        return fails
    finally:
        w.close()
